#!/bin/bash
# Builds the framework offline from files on disk only: Lean packages (+ model drivers), the Rust
# harness crate (path deps on /repo's crates), and the xvc binary the binary-level harnesses drive.
set -u
export RUSTUP_TOOLCHAIN=1.96.0 CARGO_NET_OFFLINE=true
cd "$(dirname "$0")"
rc=0
for p in lean/*/; do
  [ -f "$p/lakefile.toml" ] || continue
  (cd "$p" && lake build 2>&1 | tail -3) || rc=1
  exes=$(grep -A1 '^\[\[lean_exe\]\]' "$p/lakefile.toml" | grep '^name' | sed 's/.*"\(.*\)"/\1/')
  for e in $exes; do (cd "$p" && lake build "$e" 2>&1 | tail -1) || rc=1; done
done
cp /repo/Cargo.lock harness/Cargo.lock 2>/dev/null
(cd harness && cargo build --offline 2>&1 | tail -2) || rc=1
(cd /repo && cargo build --offline -p xvc --bin xvc 2>&1 | tail -2) || rc=1
exit $rc
