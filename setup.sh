#!/bin/sh
# builds the framework offline; extended as engines are added
exit 0
