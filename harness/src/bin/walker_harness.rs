//! Answers the ignore-model line protocol (see /verif/lean/XvcIgnore/Main.lean) with the real
//! xvc-walker / xvc-core code.  Fields are TAB separated, string arguments hex encoded.
//! Lines starting with `#oracle` report checks the harness does on its own (they are independent of
//! the model): the two walkers and all repetitions of the parallel walker emit the same set, nothing
//! under `.xvc`/`.git` is emitted.
use std::io::{BufRead, Write};
use std::panic::{catch_unwind, AssertUnwindSafe};
use std::path::{Path, PathBuf};
use std::sync::{Arc, RwLock};
use xvc_core::util::xvcignore::COMMON_IGNORE_PATTERNS;
use xvc_core::{GITIGNORE_INITIAL_CONTENT, XVCIGNORE_FILENAME, XVCIGNORE_INITIAL_CONTENT};
use xvc_walker::{
    build_ignore_patterns, content_to_patterns, IgnoreRules, MatchResult, PathKind, Pattern, PatternEffect,
    PatternRelativity, Source, WalkOptions,
};

fn unhex(s: &str) -> String {
    let b = s.as_bytes();
    let mut out = Vec::with_capacity(b.len() / 2);
    let v = |c: u8| -> u8 { if c.is_ascii_digit() { c - b'0' } else { c - b'a' + 10 } };
    let mut i = 0;
    while i + 1 < b.len() {
        out.push(v(b[i]) * 16 + v(b[i + 1]));
        i += 2;
    }
    String::from_utf8_lossy(&out).to_string()
}

fn hex(s: &str) -> String { s.bytes().map(|b| format!("{b:02x}")).collect() }

fn parse_src(s: &str, ignore_filename: &str) -> Source {
    if let Some(h) = s.strip_prefix('F') {
        let parent = unhex(h);
        Source::File { path: PathBuf::from(parent).join(ignore_filename), line: 1 }
    } else {
        Source::Global
    }
}

fn show_result(r: MatchResult) -> &'static str {
    match r { MatchResult::NoMatch => "nomatch", MatchResult::Ignore => "ignore", MatchResult::Whitelist => "whitelist" }
}

fn show_pattern(p: &Pattern) -> String {
    format!(
        "glob={} white={} rel={} dir={}",
        hex(&p.glob),
        if p.effect == PatternEffect::Whitelist { 1 } else { 0 },
        match &p.relativity { PatternRelativity::Anywhere => "none".to_string(), PatternRelativity::RelativeTo { directory } => format!("some:{}", hex(directory)) },
        if p.path_kind == PathKind::Directory { 1 } else { 0 }
    )
}

struct St {
    base: PathBuf,
    tree_key: String,
    tree_root: PathBuf,
    counter: u64,
    oracle: Vec<String>,
}

impl St {
    /// materialise an encoded tree (entries `D<path>`, `F<path>`, `L<path>`, `I<dir>:<content>`, `;` separated);
    /// `ignore_name` is the file name the `I` entries are written to
    fn tree(&mut self, enc: &str, ignore_name: &str) -> PathBuf {
        let key = format!("{ignore_name}\t{enc}");
        if key == self.tree_key { return self.tree_root.clone(); }
        if !self.tree_key.is_empty() {
            let _ = std::fs::remove_dir_all(&self.tree_root);
            let _ = std::fs::remove_dir_all(self.tree_root.with_extension("ext"));
        }
        self.counter += 1;
        let root = self.base.join(format!("t{}", self.counter));
        let _ = std::fs::remove_dir_all(&root);
        std::fs::create_dir_all(&root).unwrap();
        let ext = self.base.join(format!("t{}.ext", self.counter));     // rule files outside the walked tree
        let _ = std::fs::remove_dir_all(&ext);
        let mut ignores = vec![];
        let mut shapes: Vec<(String, String)> = vec![];
        for e in enc.split(';').filter(|e| !e.is_empty()) {
            let (k, rest) = e.split_at(1);
            match k {
                "D" => std::fs::create_dir_all(root.join(unhex(rest))).unwrap(),
                "F" => {
                    let p = root.join(unhex(rest));
                    std::fs::create_dir_all(p.parent().unwrap()).unwrap();
                    std::fs::write(&p, b"x").unwrap();
                }
                "L" => {
                    let p = root.join(unhex(rest));
                    std::fs::create_dir_all(p.parent().unwrap()).unwrap();
                    std::os::unix::fs::symlink("no-such-target", &p).unwrap();
                }
                "I" => {
                    let (d, c) = rest.split_once(':').unwrap();
                    ignores.push((unhex(d), unhex(c)));
                }
                "S" => {
                    // file-system shape of the ignore file of a directory: `S<dir>:<shape|arg|arg>`
                    let (d, sh) = rest.split_once(':').unwrap();
                    shapes.push((unhex(d), unhex(sh)));
                }
                _ => {}
            }
        }
        // "../" for every component of `dir` (relative to the root), then `to`
        let rel_from = |dir: &str, to: &str| -> String {
            let up = dir.split('/').filter(|c| !c.is_empty()).count();
            format!("{}{}", "../".repeat(up), to)
        };
        let place = |p: &Path, content: &str| {
            std::fs::create_dir_all(p.parent().unwrap()).unwrap();
            let _ = std::fs::remove_file(p);
            std::fs::write(p, content).unwrap();
        };
        let link = |at: &Path, target: &str| {
            std::fs::create_dir_all(at.parent().unwrap()).unwrap();
            let _ = std::fs::remove_file(at);
            std::os::unix::fs::symlink(target, at).unwrap();
        };
        for (d, c) in ignores {
            let dir = root.join(&d);
            std::fs::create_dir_all(&dir).unwrap();
            let at = dir.join(ignore_name);
            let shape = shapes.iter().find(|(sd, _)| *sd == d).map(|(_, sh)| sh.clone()).unwrap_or_else(|| "regular".into());
            let f: Vec<&str> = shape.split('|').collect();
            match f.as_slice() {
                ["rel-inside", rule] => { place(&root.join(rule), &c); link(&at, &rel_from(&d, rule)); }
                ["abs-inside", rule] => { place(&root.join(rule), &c); link(&at, &root.join(rule).to_string_lossy()); }
                ["rel-outside", name] => {
                    place(&ext.join(name), &c);
                    link(&at, &rel_from(&d, &format!("../{}/{}", ext.file_name().unwrap().to_string_lossy(), name)));
                }
                ["abs-outside", name] => { place(&ext.join(name), &c); link(&at, &ext.join(name).to_string_lossy()); }
                ["chain", second, rule] => {
                    // <dir>/<ignore file> -> <second> (a link in the tree) -> <rule> (a file in the tree)
                    place(&root.join(rule), &c);
                    let sdir = Path::new(second).parent().map(|p| p.to_string_lossy().to_string()).unwrap_or_default();
                    link(&root.join(second), &rel_from(&sdir, rule));
                    link(&at, &rel_from(&d, second));
                }
                ["hard", rule] => {
                    place(&root.join(rule), &c);
                    let _ = std::fs::remove_file(&at);
                    std::fs::hard_link(root.join(rule), &at).unwrap();
                }
                _ => std::fs::write(&at, c).unwrap(),
            }
        }
        for (d, shape) in &shapes {
            // shapes that load nothing and therefore have no `I` entry
            let f: Vec<&str> = shape.split('|').collect();
            if let ["todir", target] = f.as_slice() {
                link(&root.join(d).join(ignore_name), &rel_from(d, target));
            }
        }
        self.tree_key = key;
        self.tree_root = root.clone();
        root
    }
}

fn rel(root: &Path, p: &Path) -> String { format!("/{}", p.strip_prefix(root).unwrap().to_string_lossy()) }

fn show_paths(mut v: Vec<String>) -> String {
    v.sort();
    v.iter().map(|p| hex(p)).collect::<Vec<_>>().join(" ")
}

fn serial_walk(root: &Path) -> Vec<String> {
    let (snd, rcv) = crossbeam_channel::unbounded();
    let opts = WalkOptions { ignore_filename: Some(XVCIGNORE_FILENAME.to_string()), include_dirs: true };
    let (paths, _rules) = xvc_walker::walk_serial::walk_serial(&snd, COMMON_IGNORE_PATTERNS, root, &opts).unwrap();
    drop(rcv);
    paths.iter().map(|pm| rel(root, &pm.path)).collect()
}

fn parallel_walk(root: &Path) -> Vec<String> {
    // what core/src/util/xvcignore.rs::walk_parallel + walk_channel do
    let rules = Arc::new(RwLock::new(IgnoreRules::from_global_patterns(root, Some(XVCIGNORE_FILENAME), COMMON_IGNORE_PATTERNS)));
    let opts = WalkOptions { ignore_filename: Some(XVCIGNORE_FILENAME.to_string()), include_dirs: true };
    let (snd, rcv) = crossbeam_channel::unbounded();
    xvc_walker::walk_parallel::walk_parallel(rules, root, opts, snd).unwrap();
    rcv.iter().filter_map(|r| r.ok()).map(|pm| rel(root, &pm.path)).collect()
}

fn forbidden(paths: &[String]) -> Option<String> {
    paths.iter().find(|p| p.split('/').any(|c| c == ".xvc" || c == ".git") && !(p.ends_with("/.xvc") || p.ends_with("/.git")) ).cloned()
        .or_else(|| paths.iter().find(|p| p.ends_with("/.xvc") || p.ends_with("/.git")).cloned())
}

fn step(st: &mut St, f: &[&str]) -> String {
    match f {
        ["glob", g, p] => {
            // built through the public constructor (a global, slash-less line: no directory part, effect Ignore), then the
            // glob under test is put in: a struct literal would stop compiling whenever `Pattern` gets another field
            let mut pat = Pattern::new(Source::Global, "x");
            pat.glob = unhex(g);
            let rules = IgnoreRules::from_patterns(Path::new("/"), None, vec![pat]);
            match rules.check(Path::new(&unhex(p))) { MatchResult::Ignore => "1".into(), MatchResult::NoMatch => "0".into(), MatchResult::Whitelist => "?".into() }
        }
        ["pat", src, l] => show_pattern(&Pattern::new(parse_src(src, ".xvcignore"), &unhex(l))),
        ["content", src, c] => {
            let pats = if let Some(h) = src.strip_prefix('F') {
                let file = Path::new("/r").join(unhex(h)).join(".xvcignore");
                content_to_patterns(Path::new("/r"), Some(&file), &unhex(c))
            } else {
                content_to_patterns(Path::new("/r"), None, &unhex(c))
            };
            pats.iter().map(|p| format!("{}:{}", hex(&p.glob), if p.effect == PatternEffect::Whitelist { 1 } else { 0 })).collect::<Vec<_>>().join(" ")
        }
        ["check", p, rest @ ..] => {
            let pats: Vec<Pattern> = rest.chunks(2).filter(|c| c.len() == 2).map(|c| Pattern::new(parse_src(c[0], ".xvcignore"), &unhex(c[1]))).collect();
            let rules = IgnoreRules::from_patterns(Path::new("/"), None, pats);
            show_result(rules.check(Path::new(&unhex(p)))).into()
        }
        ["checkm", p, rest @ ..] => {
            // the rule set is built the way the walkers build it: one `add_patterns` (= `merge_with`) per ignore file,
            // consecutive pairs with the same source form one file
            let rules = IgnoreRules::empty(Path::new("/"), None);
            let mut i = 0;
            let pairs: Vec<&[&str]> = rest.chunks(2).filter(|c| c.len() == 2).collect();
            while i < pairs.len() {
                let mut j = i;
                let mut file = vec![];
                while j < pairs.len() && pairs[j][0] == pairs[i][0] {
                    file.push(Pattern::new(parse_src(pairs[j][0], ".xvcignore"), &unhex(pairs[j][1])));
                    j += 1;
                }
                rules.add_patterns(file).unwrap();
                i = j;
            }
            show_result(rules.check(Path::new(&unhex(p)))).into()
        }
        ["walk", t] => {
            let root = st.tree(t, XVCIGNORE_FILENAME);
            let paths = serial_walk(&root);
            if let Some(p) = forbidden(&paths) { st.oracle.push(format!("walk_serial emitted {p}")); }
            show_paths(paths)
        }
        ["pwalk", reps, seed, max_us, t] => {
            let root = st.tree(t, XVCIGNORE_FILENAME);
            let reps: u64 = reps.parse().unwrap_or(1);
            let seed: u64 = seed.parse().unwrap_or(0);
            let mut distinct: Vec<String> = vec![];
            for i in 0..reps {
                std::env::set_var("XVC_VERIF_SCHED", format!("{}:{}", seed.wrapping_mul(1000).wrapping_add(i), max_us));
                let paths = parallel_walk(&root);
                if let Some(p) = forbidden(&paths) { st.oracle.push(format!("walk_parallel emitted {p}")); }
                let s = show_paths(paths);
                if !distinct.contains(&s) { distinct.push(s); }
            }
            std::env::remove_var("XVC_VERIF_SCHED");
            if distinct.len() == 1 { format!("all {}", distinct[0]) } else { format!("differ {}", distinct.join(" | ")) }
        }
        ["checkignore", t, p] => {
            let root = st.tree(t, XVCIGNORE_FILENAME);
            let rules = build_ignore_patterns(COMMON_IGNORE_PATTERNS, &root, XVCIGNORE_FILENAME).unwrap();
            let rel = unhex(p);
            show_result(rules.check(&root.join(rel.trim_start_matches('/')))).into()
        }
        ["gcheckignore", t, p] => {
            // xvc's opinion about git: core/src/util/git.rs::build_gitignore = build_ignore_patterns(COMMON, root, ".gitignore")
            let root = st.tree(t, ".gitignore");
            let rules = build_ignore_patterns(COMMON_IGNORE_PATTERNS, &root, ".gitignore").unwrap();
            let rel = unhex(p);
            let abs = format!("{}/{}", root.to_string_lossy(), rel.trim_start_matches('/'));
            show_result(rules.check(Path::new(&abs))).into()
        }
        ["const", "common"] => hex(COMMON_IGNORE_PATTERNS),
        ["const", "xvcignore"] => hex(XVCIGNORE_INITIAL_CONTENT),
        ["const", "gitignore"] => hex(GITIGNORE_INITIAL_CONTENT),
        [""] => "".into(),
        _ => "bad-op".into(),
    }
}

fn main() {
    let args: Vec<String> = std::env::args().collect();
    let base = PathBuf::from(&args[1]).join(format!("wh-{}", std::process::id()));
    std::fs::create_dir_all(&base).unwrap();
    std::panic::set_hook(Box::new(|_| {}));
    let stdin = std::io::stdin();
    let stdout = std::io::stdout();
    let mut out = std::io::BufWriter::new(stdout.lock());
    let mut st = St { base: base.clone(), tree_key: String::new(), tree_root: PathBuf::new(), counter: 0, oracle: vec![] };
    for line in stdin.lock().lines() {
        let line = line.unwrap();
        let f: Vec<&str> = line.split('\t').collect();
        let ans = match catch_unwind(AssertUnwindSafe(|| step(&mut st, &f))) { Ok(a) => a, Err(_) => "panic".into() };
        for o in st.oracle.drain(..) { writeln!(out, "#oracle {o}").unwrap(); }
        writeln!(out, "{ans}").unwrap();
    }
    out.flush().unwrap();
    let _ = std::fs::remove_dir_all(&base);
}
