//! One entity-generator session in its own process (`load_generator`/`init_generator` are
//! once-per-process): load (or init when the directory has no file), allocate k, save.
use std::path::Path;
fn main() {
    let args: Vec<String> = std::env::args().collect();
    let dir = Path::new(&args[1]);
    let k: usize = args[2].parse().unwrap();
    let has_files = dir.exists() && std::fs::read_dir(dir).unwrap().next().is_some();
    let gen = if has_files {
        xvc_ecs::load_generator(dir).unwrap()
    } else {
        xvc_ecs::init_generator().unwrap()
    };
    let mut out = vec![];
    for _ in 0..k {
        let e: (u64, u64) = gen.next_element().into();
        out.push(e.0.to_string());
    }
    std::thread::sleep(std::time::Duration::from_micros(3));
    gen.save(dir).unwrap();
    let n = std::fs::read_dir(dir).map(|d| d.count()).unwrap_or(0);
    println!("[{}] files={}", out.join(","), n);
}
