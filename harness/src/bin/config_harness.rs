//! Answers the configuration line protocol (see /verif/lean/XvcConfig/Main.lean) with the real
//! `xvc_config::XvcConfig::new`.  Usage: `config_harness <scratch-dir>`.
//!
//! HOME / XDG_CONFIG_HOME are pointed into the scratch directory *before* the first use of the
//! crate (its config directories are `lazy_static`s), so the machine's own `~/.config/xvc` never
//! leaks into a run.  System/user files are written to whatever `XvcConfig::system_config_file()` /
//! `user_config_file()` return (refused if that is outside the scratch directory), project/local
//! files to `<scratch>/root/.xvc/config.toml` / `config.local.toml`, environment variables are
//! really set in this process, the CLI vector is passed through `XvcConfigParams`.
//!
//! ops:  platform alias|distinct      claim about system path == user path (answer ok | platform-mismatch)
//!       paths                        (python only) the real paths
//!       caps                         (python only) which include flags XvcConfigParams has
//!       default builtin | <tree>     default configuration: xvc_core::default_project_config(true) or a tree
//!       file <slot> absent|invalid|tree <tree>      slot = system|user|project|local
//!       env <NAME> <value>           (escaped tokens)
//!       inc <system|user|env|project|local> <0|1>
//!       path <project|local> <0|1>   Some(path) / None in XvcConfigParams
//!       cli none | cli some <elem>*  (escaped tokens)
//!       run                          XvcConfig::new; answer: sorted `key=type:value@source` tokens | panic
//!       reset
//! tree tokens:  KEY[ … ]  table,  KEY=s:<esc> | KEY=b:true | KEY=i:<int> | KEY=f:<literal>  leaf.
use std::io::{BufRead, Write};
use std::panic::{catch_unwind, AssertUnwindSafe};
use std::path::{Path, PathBuf};
use std::sync::atomic::{AtomicBool, Ordering};
use xvc_config::{XvcConfig, XvcConfigParams};
use xvc_walker::AbsolutePath;

static FALLBACK_USED: AtomicBool = AtomicBool::new(false);

/// Inherent methods win over trait methods: on a tree whose `XvcConfigParams` has the builder
/// `include_project_config` / `include_local_config` the real one is called, otherwise this no-op.
#[allow(dead_code)]
trait MaybeFlags: Sized {
    fn include_project_config(self, _b: bool) -> Self { FALLBACK_USED.store(true, Ordering::SeqCst); self }
    fn include_local_config(self, _b: bool) -> Self { FALLBACK_USED.store(true, Ordering::SeqCst); self }
}
impl MaybeFlags for XvcConfigParams {}

fn esc(s: &str) -> String {
    let mut o = String::new();
    for c in s.chars() {
        let u = c as u32;
        if u < 0x21 || u > 0x7e || c == '%' || c == '=' || c == '@' { o.push_str(&format!("%{:02X}", u & 0xff)); } else { o.push(c); }
    }
    o
}

fn unesc(s: &str) -> String {
    let b: Vec<char> = s.chars().collect();
    let mut o = String::new();
    let mut i = 0;
    while i < b.len() {
        if b[i] == '%' && i + 3 <= b.len() {
            let h: String = b[i + 1..i + 3].iter().collect();
            if let Ok(v) = u8::from_str_radix(&h, 16) { o.push(v as char); i += 3; continue; }
        }
        o.push(b[i]);
        i += 1;
    }
    o
}

fn toml_str(s: &str) -> String {
    let mut o = String::from("\"");
    for c in s.chars() {
        match c {
            '"' => o.push_str("\\\""),
            '\\' => o.push_str("\\\\"),
            '\n' => o.push_str("\\n"),
            '\t' => o.push_str("\\t"),
            '\r' => o.push_str("\\r"),
            c if (c as u32) < 0x20 || (c as u32) == 0x7f => o.push_str(&format!("\\u{:04X}", c as u32)),
            c => o.push(c),
        }
    }
    o.push('"');
    o
}

#[derive(Debug, Clone)]
enum Tree { Leaf(String), Table(Vec<(String, Tree)>) }

/// parse tree tokens into a table; returns None on malformed input
fn parse_tree(toks: &[&str]) -> Option<Tree> {
    fn items(toks: &[&str], i: &mut usize, top: bool) -> Option<Vec<(String, Tree)>> {
        let mut out = vec![];
        while *i < toks.len() {
            let t = toks[*i];
            if t == "]" { if top { return None; } *i += 1; return Some(out); }
            if let Some(k) = t.strip_suffix('[') {
                *i += 1;
                let sub = items(toks, i, false)?;
                out.push((unesc(k), Tree::Table(sub)));
            } else {
                let (k, v) = t.split_once('=')?;
                let (ty, val) = v.split_once(':')?;
                let lit = match ty {
                    "s" => toml_str(&unesc(val)),
                    "b" | "i" | "f" => unesc(val),
                    _ => return None,
                };
                out.push((unesc(k), Tree::Leaf(lit)));
                *i += 1;
            }
        }
        if top { Some(out) } else { None }
    }
    let mut i = 0;
    items(toks, &mut i, true).map(Tree::Table)
}

fn render_toml(t: &Tree) -> String {
    fn go(path: &[String], kvs: &[(String, Tree)], out: &mut String) {
        if !path.is_empty() {
            out.push_str(&format!("[{}]\n", path.iter().map(|k| toml_str(k)).collect::<Vec<_>>().join(".")));
        }
        for (k, v) in kvs { if let Tree::Leaf(l) = v { out.push_str(&format!("{} = {}\n", toml_str(k), l)); } }
        for (k, v) in kvs {
            if let Tree::Table(sub) = v { let mut p = path.to_vec(); p.push(k.clone()); go(&p, sub, out); }
        }
    }
    let mut out = String::new();
    if let Tree::Table(kvs) = t { go(&[], kvs, &mut out); }
    out
}

struct St {
    base: PathBuf,
    default: Option<String>,        // None = builtin
    inc_system: bool, inc_user: bool, inc_env: bool, inc_project: bool, inc_local: bool,
    path_project: bool, path_local: bool,
    cli: Option<Vec<String>>,
    env_set: Vec<String>,
}

impl St {
    fn new(base: &Path) -> St {
        St { base: base.to_path_buf(), default: None, inc_system: true, inc_user: true, inc_env: true, inc_project: true, inc_local: true,
             path_project: true, path_local: true, cli: None, env_set: vec![] }
    }
    fn root(&self) -> PathBuf { self.base.join("root") }
    fn slot_path(&self, slot: &str) -> Option<PathBuf> {
        match slot {
            "system" => XvcConfig::system_config_file().ok(),
            "user" => XvcConfig::user_config_file().ok(),
            "project" => Some(self.root().join(".xvc").join("config.toml")),
            "local" => Some(self.root().join(".xvc").join("config.local.toml")),
            _ => None,
        }
    }
    fn clear(&mut self) {
        for slot in ["system", "user", "project", "local"] {
            if let Some(p) = self.slot_path(slot) { if p.starts_with(&self.base) { let _ = std::fs::remove_file(p); } }
        }
        for k in self.env_set.drain(..) { std::env::remove_var(k); }
        let b = self.base.clone();
        *self = St::new(&b);
    }
}

fn show_config(conf: &XvcConfig) -> String {
    let mut items: Vec<String> = conf.the_config.iter().map(|(k, v)| {
        let val = &v.value;
        let tv = if let Some(s) = val.as_str() { format!("str:{}", esc(s)) }
            else if let Some(b) = val.as_bool() { format!("bool:{b}") }
            else if let Some(i) = val.as_integer() { format!("int:{i}") }
            else if let Some(f) = val.as_float() { format!("float:{f}") }
            else { format!("other:{}", esc(val.type_str())) };
        format!("{}={}@{}", esc(k), tv, v.source)
    }).collect();
    items.sort();
    format!("ok {}", items.join(" "))
}

fn step(st: &mut St, toks: &[&str]) -> String {
    match toks {
        ["platform", claim] => {
            let same = match (XvcConfig::system_config_file(), XvcConfig::user_config_file()) { (Ok(a), Ok(b)) => a == b, _ => false };
            if (*claim == "alias") == same { "ok".into() } else { "platform-mismatch".into() }
        }
        ["paths"] => format!("system={} user={} base={}",
            XvcConfig::system_config_file().map(|p| p.to_string_lossy().to_string()).unwrap_or("ERR".into()),
            XvcConfig::user_config_file().map(|p| p.to_string_lossy().to_string()).unwrap_or("ERR".into()),
            st.base.to_string_lossy()),
        ["caps"] => {
            FALLBACK_USED.store(false, Ordering::SeqCst);
            let _ = XvcConfigParams::new(String::new(), AbsolutePath::from(st.root())).include_project_config(true).include_local_config(true);
            if FALLBACK_USED.load(Ordering::SeqCst) { "flags=system,user,env".into() } else { "flags=system,user,env,project,local".into() }
        }
        ["default", "builtin"] => { st.default = None; "ok".into() }
        ["default", rest @ ..] => match parse_tree(rest) { Some(t) => { st.default = Some(render_toml(&t)); "ok".into() } None => "bad-op".into() },
        ["file", slot, kind, rest @ ..] => {
            let p = match st.slot_path(slot) { Some(p) => p, None => return "bad-op".into() };
            if !p.starts_with(&st.base) { return "outside-scratch".into(); }
            if let Some(d) = p.parent() { std::fs::create_dir_all(d).unwrap(); }
            match *kind {
                "absent" => { let _ = std::fs::remove_file(&p); "ok".into() }
                "invalid" => { std::fs::write(&p, "this is [not toml\n= 1\n").unwrap(); "ok".into() }
                "tree" => match parse_tree(rest) { Some(t) => { std::fs::write(&p, render_toml(&t)).unwrap(); "ok".into() } None => "bad-op".into() },
                _ => "bad-op".into(),
            }
        }
        ["env", name, value] => { let n = unesc(name); std::env::set_var(&n, unesc(value)); st.env_set.push(n); "ok".into() }
        ["env", name] => { let n = unesc(name); std::env::set_var(&n, ""); st.env_set.push(n); "ok".into() }
        ["inc", which, b] => {
            let v = *b == "1";
            match *which { "system" => st.inc_system = v, "user" => st.inc_user = v, "env" => st.inc_env = v,
                           "project" => st.inc_project = v, "local" => st.inc_local = v, _ => return "bad-op".into() }
            "ok".into()
        }
        ["path", which, b] => {
            let v = *b == "1";
            match *which { "project" => st.path_project = v, "local" => st.path_local = v, _ => return "bad-op".into() }
            "ok".into()
        }
        ["cli", "none"] => { st.cli = None; "ok".into() }
        ["cli", "some", rest @ ..] => { st.cli = Some(rest.iter().map(|s| unesc(s)).collect()); "ok".into() }
        ["run"] => {
            let default = st.default.clone().unwrap_or_else(|| xvc_core::default_project_config(true));
            std::fs::create_dir_all(st.root().join(".xvc")).unwrap();
            let mut p = XvcConfigParams::new(default, AbsolutePath::from(st.root()))
                .include_system_config(st.inc_system)
                .include_user_config(st.inc_user)
                .include_environment_config(st.inc_env)
                .project_config_path(if st.path_project { st.slot_path("project").map(AbsolutePath::from) } else { None })
                .local_config_path(if st.path_local { st.slot_path("local").map(AbsolutePath::from) } else { None })
                .command_line_config(st.cli.clone());
            // only touch the optional flags when asked to switch them off (no-op on a tree without them)
            if !st.inc_project { p = p.include_project_config(false); }
            if !st.inc_local { p = p.include_local_config(false); }
            match XvcConfig::new(p) { Ok(c) => show_config(&c), Err(e) => format!("error {}", esc(&format!("{e:?}"))) }
        }
        [""] => "".into(),
        _ => "bad-op".into(),
    }
}

fn main() {
    let args: Vec<String> = std::env::args().collect();
    let base = PathBuf::from(&args[1]).canonicalize().expect("scratch dir");
    let home = base.join("home");
    std::fs::create_dir_all(home.join(".config")).unwrap();
    std::env::set_var("HOME", &home);
    std::env::set_var("XDG_CONFIG_HOME", home.join(".config"));
    let stale: Vec<String> = std::env::vars().map(|(k, _)| k).filter(|k| k.starts_with("XVC")).collect();
    for k in stale { std::env::remove_var(k); }
    std::panic::set_hook(Box::new(|_| {}));
    let stdin = std::io::stdin();
    let stdout = std::io::stdout();
    let mut out = std::io::BufWriter::new(stdout.lock());
    let mut st = St::new(&base);
    for line in stdin.lock().lines() {
        let line = line.unwrap();
        let t = line.trim_end_matches('\n');
        if t == "reset" { st.clear(); writeln!(out, "ok").unwrap(); continue; }
        let toks: Vec<&str> = t.split(' ').collect();
        let ans = match catch_unwind(AssertUnwindSafe(|| step(&mut st, &toks))) { Ok(a) => a, Err(_) => "panic".into() };
        writeln!(out, "{ans}").unwrap();
    }
    st.clear();
}
