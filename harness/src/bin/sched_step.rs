//! Step command used by the scheduler checks (C10/C11/C13).  It is the command of every generated pipeline
//! step: `sched_step <name>` run by xvc in the repository root.  It does not use any xvc code.
//!
//! Behaviour is read from `.ctl/<name>` (one `key value` per line):
//!   sleep_ms N     sleep N milliseconds between the journal lines
//!   rc N           exit status
//!   out N / err N  write N bytes to stdout / stderr (before sleeping)
//!   touch PATH     on success append a line to PATH (the declared output of the step)
//!   signal N       instead of exiting: journal `end <name> <ns> <128+N>`, then send signal N to the process whose pid is the
//!                  second argument (`$$` of the shell xvc runs the command with: the shell itself, or this process when the
//!                  shell exec'ed it) so that xvc sees a command TERMINATED BY A SIGNAL, not an exit code
//!   closefds M     after the output (before sleeping) close stdout (M=1), stderr (M=2) or both (M=3), like a command that starts
//!                  with `exec > run.log 2>&1`: xvc sees end-of-file on the pipes while the command is still running
//!   sigtouch 1     with `signal`: write the declared outputs before the signal (a killed command that left its output)
//! Journal `.ctl/journal` (O_APPEND, one write per line):
//!   start <name> <monotonic ns>
//!   end <name> <monotonic ns> <rc>
use std::fs::OpenOptions;
use std::io::Write;
use std::time::{Duration, Instant};

/// CLOCK_MONOTONIC in nanoseconds.  `Instant` is a `timespec` of CLOCK_MONOTONIC on Linux; its Debug form is
/// `Instant { tv_sec: S, tv_nsec: N }`.
fn mono_ns() -> u128 {
    let s = format!("{:?}", Instant::now());
    let num = |key: &str| -> Option<u128> {
        let i = s.find(key)? + key.len();
        let rest = &s[i..];
        let end = rest.find(|c: char| !c.is_ascii_digit()).unwrap_or(rest.len());
        rest[..end].parse().ok()
    };
    match (num("tv_sec: "), num("tv_nsec: ")) {
        (Some(a), Some(b)) => a * 1_000_000_000 + b,
        _ => std::time::SystemTime::now()
            .duration_since(std::time::UNIX_EPOCH)
            .map(|d| d.as_nanos())
            .unwrap_or(0),
    }
}

fn journal(line: &str) {
    if let Ok(mut f) = OpenOptions::new().create(true).append(true).open(".ctl/journal") {
        let _ = f.write_all(line.as_bytes());
    }
}

fn main() {
    let name = std::env::args().nth(1).unwrap_or_default();
    let ctl = std::fs::read_to_string(format!(".ctl/{}", name)).unwrap_or_default();
    let shell_pid = std::env::args().nth(2).unwrap_or_default();
    let (mut sleep_ms, mut rc, mut out, mut err) = (0u64, 0i32, 0usize, 0usize);
    let (mut signal, mut sigtouch) = (0i32, false);
    let mut closefds = 0i32;
    let mut touch: Vec<String> = vec![];
    for l in ctl.lines() {
        let mut it = l.splitn(2, ' ');
        match (it.next(), it.next()) {
            (Some("sleep_ms"), Some(v)) => sleep_ms = v.trim().parse().unwrap_or(0),
            (Some("rc"), Some(v)) => rc = v.trim().parse().unwrap_or(0),
            (Some("out"), Some(v)) => out = v.trim().parse().unwrap_or(0),
            (Some("err"), Some(v)) => err = v.trim().parse().unwrap_or(0),
            (Some("touch"), Some(v)) => touch.push(v.trim().to_string()),
            (Some("signal"), Some(v)) => signal = v.trim().parse().unwrap_or(0),
            (Some("closefds"), Some(v)) => closefds = v.trim().parse().unwrap_or(0),
            (Some("sigtouch"), Some(v)) => sigtouch = v.trim() == "1",
            _ => {}
        }
    }
    journal(&format!("start {} {}\n", name, mono_ns()));
    // stderr first: with a relay that reads stdout to EOF before stderr this blocks when err > pipe capacity
    if err > 0 {
        let buf = vec![b'e'; err];
        let _ = std::io::stderr().write_all(&buf);
        let _ = std::io::stderr().write_all(b"\n");
    }
    if out > 0 {
        let buf = vec![b'o'; out];
        let _ = std::io::stdout().write_all(&buf);
        let _ = std::io::stdout().write_all(b"\n");
    }
    if closefds > 0 {
        use std::os::unix::io::FromRawFd;
        let _ = std::io::stdout().flush();
        for fd in [1, 2] {
            if closefds & fd != 0 {
                // the pipe to xvc is closed here; the command keeps running
                drop(unsafe { std::fs::File::from_raw_fd(fd) });
            }
        }
    }
    if sleep_ms > 0 {
        std::thread::sleep(Duration::from_millis(sleep_ms));
    }
    if signal > 0 && shell_pid.chars().all(|c| c.is_ascii_digit()) && !shell_pid.is_empty() {
        if sigtouch {
            for p in &touch {
                if let Ok(mut f) = OpenOptions::new().create(true).append(true).open(p) {
                    let _ = f.write_all(format!("{} partial {}\n", name, mono_ns()).as_bytes());
                }
            }
        }
        journal(&format!("end {} {} {}\n", name, mono_ns(), 128 + signal));
        let _ = std::io::stdout().flush();
        let _ = std::process::Command::new("kill")
            .arg(format!("-{}", signal))
            .arg(&shell_pid)
            .status();
        // when the shell did not exec this program it is the shell that died; leave quickly so that the pipes close
        std::thread::sleep(Duration::from_millis(200));
        std::process::exit(1);
    }
    if rc == 0 {
        for p in touch {
            if let Ok(mut f) = OpenOptions::new().create(true).append(true).open(&p) {
                let _ = f.write_all(format!("{} {}\n", name, mono_ns()).as_bytes());
            }
        }
    }
    journal(&format!("end {} {} {}\n", name, mono_ns(), rc));
    std::process::exit(rc);
}
