//! Answers the ECS line protocol (see /verif/lean/XvcEcs/Main.lean) with the real xvc-ecs code.
//! Besides the answer compared with the model, lines starting with `#oracle` report checks the
//! harness does on its own (reference BTreeMap, append-only directory listing).
use std::collections::BTreeMap;
use std::io::{BufRead, Write};
use std::panic::{catch_unwind, AssertUnwindSafe};
use std::path::{Path, PathBuf};
use xvc_core::types::diff::{apply_diff, diff_store, update_with_actual, Diff, DiffStore};
use xvc_ecs::{HStore, R11Store, R1NStore, XvcEntity, XvcStore};

fn ent(n: u64) -> XvcEntity { XvcEntity::from((n, 0u64)) }
fn num(e: XvcEntity) -> u64 { let t: (u64, u64) = e.into(); t.0 }
fn show_opt(o: Option<String>) -> String { match o { None => "none".into(), Some(v) => format!("some({v})") } }

fn listing(dir: &Path) -> BTreeMap<String, Vec<u8>> {
    let mut m = BTreeMap::new();
    if let Ok(rd) = std::fs::read_dir(dir) {
        for f in rd.flatten() {
            m.insert(f.file_name().to_string_lossy().to_string(), std::fs::read(f.path()).unwrap_or_default());
        }
    }
    m
}

struct St {
    root: PathBuf,
    store: XvcStore<String>,
    cur: String,
    reference: BTreeMap<u64, String>,
    r1n: R1NStore<String, i32>,
    r11: R11Store<String, i32>,
    gen_bin: PathBuf,
    oracle_failures: Vec<String>,
}

impl St {
    fn dir(&self, n: &str) -> PathBuf { self.root.join(format!("dir-{n}")) }
    fn new_r1n() -> R1NStore<String, i32> {
        R1NStore { parents: XvcStore::new(), children: XvcStore::new(), child_parents: XvcStore::new() }
    }
    fn check_reference(&mut self, ctx: &str) {
        let actual: BTreeMap<u64, String> = self.store.iter().map(|(e, v)| (num(*e), v.clone())).collect();
        if actual != self.reference {
            self.oracle_failures.push(format!("{ctx}: store map {actual:?} differs from reference map {:?}", self.reference));
        }
        // lookups by value: exactly the current holders
        let mut vals: Vec<String> = self.reference.values().cloned().collect();
        vals.push("zz-absent".into());
        vals.extend(["a", "b", "c"].iter().map(|s| s.to_string()));
        for v in vals {
            let mut holders: Vec<u64> = self.reference.iter().filter(|(_, x)| **x == v).map(|(e, _)| *e).collect();
            holders.sort();
            let mut got: Vec<u64> = self.store.entities_for(&v).map(|l| l.iter().map(|e| num(*e)).collect()).unwrap_or_default();
            got.sort();
            if got != holders {
                self.oracle_failures.push(format!("{ctx}: entities_for({v}) = {got:?} but holders are {holders:?}"));
            }
            let by = self.store.entity_by_value(&v).map(num);
            match by {
                Some(e) => if !holders.contains(&e) { self.oracle_failures.push(format!("{ctx}: entity_by_value({v}) = {e} is not a holder {holders:?}")); },
                None => if !holders.is_empty() { self.oracle_failures.push(format!("{ctx}: entity_by_value({v}) = None but holders are {holders:?}")); },
            }
        }
    }
}


fn parse_pairs(s: &str) -> Option<Vec<(u64, String)>> {
    if s == "-" { return Some(vec![]); }
    s.split(',').map(|it| { let mut p = it.split(':'); match (p.next(), p.next(), p.next()) { (Some(e), Some(v), None) => e.parse().ok().map(|e| (e, v.to_string())), _ => None } }).collect()
}
fn parse_ents(s: &str) -> Option<Vec<u64>> {
    if s == "-" { return Some(vec![]); }
    s.split(',').map(|e| e.parse().ok()).collect()
}
fn parse_diffs(s: &str) -> Option<Vec<(u64, Diff<String>)>> {
    if s == "-" { return Some(vec![]); }
    s.split(',').map(|it| {
        let (e, d) = it.split_once('=')?;
        let e: u64 = e.parse().ok()?;
        let parts: Vec<&str> = d.split(':').collect();
        let d = match parts.as_slice() {
            ["I"] => Diff::Identical,
            ["S"] => Diff::Skipped,
            ["RM", a] => Diff::RecordMissing { actual: a.to_string() },
            ["AM", r] => Diff::ActualMissing { record: r.to_string() },
            ["D", r, a] => Diff::Different { record: r.to_string(), actual: a.to_string() },
            _ => return None,
        };
        Some((e, d))
    }).collect()
}
fn show_diff(d: &Diff<String>) -> String {
    match d {
        Diff::Identical => "I".into(),
        Diff::Skipped => "S".into(),
        Diff::RecordMissing { actual } => format!("RM:{actual}"),
        Diff::ActualMissing { record } => format!("AM:{record}"),
        Diff::Different { record, actual } => format!("D:{record}:{actual}"),
    }
}
fn parse_bool(s: &str) -> Option<bool> { match s { "1" => Some(true), "0" => Some(false), _ => None } }

/// the harness's own idea of what applying one diff to a plain map means (independent of xvc-core)
fn reference_apply(reference: &mut BTreeMap<u64, String>, diffs: &[(u64, Diff<String>)], an: bool, rm: bool) {
    for (e, d) in diffs {
        match d {
            Diff::Identical | Diff::Skipped => {}
            Diff::RecordMissing { actual } => { if an { reference.insert(*e, actual.clone()); } }
            Diff::ActualMissing { .. } => { if rm { reference.remove(e); } }
            Diff::Different { actual, .. } => { reference.insert(*e, actual.clone()); }
        }
    }
}
fn show_r11(r: &R11Store<String, i32>) -> String {
    let l: Vec<String> = r.left.iter().map(|(e, v)| format!("{}:{}", num(*e), v)).collect();
    let x: Vec<String> = r.right.iter().map(|(e, v)| format!("{}:{}", num(*e), v)).collect();
    format!("left={{{}}} right={{{}}}", l.join(","), x.join(","))
}

fn step(st: &mut St, toks: &[&str]) -> String {
    match toks {
        ["new"] => { st.store = XvcStore::new(); st.reference.clear(); "ok".into() }
        ["ins", e, v] => {
            let e: u64 = match e.parse() { Ok(e) => e, Err(_) => return "bad-op".into() };
            let r = st.store.insert(ent(e), v.to_string());
            st.reference.insert(e, v.to_string());
            st.check_reference("ins");
            format!("ret={}", show_opt(r))
        }
        ["upd", e, v] => {
            let e: u64 = match e.parse() { Ok(e) => e, Err(_) => return "bad-op".into() };
            let r = st.store.update(ent(e), v.to_string());
            st.reference.insert(e, v.to_string());
            st.check_reference("upd");
            format!("ret={}", show_opt(r))
        }
        ["rem", e] => {
            let e: u64 = match e.parse() { Ok(e) => e, Err(_) => return "bad-op".into() };
            let r = st.store.remove(ent(e));
            st.reference.remove(&e);
            st.check_reference("rem");
            format!("ret={}", show_opt(r))
        }
        ["save"] => {
            let d = st.dir(&st.cur);
            let before = listing(&d);
            std::thread::sleep(std::time::Duration::from_micros(3));
            st.store.to_dir(&d).unwrap();
            let after = listing(&d);
            for (name, bytes) in &before {
                match after.get(name) {
                    None => st.oracle_failures.push(format!("save: file {name} was deleted")),
                    Some(b) => if b != bytes { st.oracle_failures.push(format!("save: file {name} was rewritten")) },
                }
            }
            if after.len() > before.len() + 1 { st.oracle_failures.push("save: more than one file added".into()); }
            if let (Some(newest_before), Some(added)) = (before.keys().next_back(), after.keys().find(|k| !before.contains_key(*k))) {
                if added <= newest_before { st.oracle_failures.push(format!("save: new file {added} does not sort after {newest_before}")); }
            }
            format!("files={}", after.len())
        }
        ["load"] => {
            let d = st.dir(&st.cur);
            st.store = XvcStore::from_dir(&d).unwrap();
            // the reference after a load is whatever an independent replay of the files gives
            let mut reference = BTreeMap::new();
            for (_, bytes) in listing(&d) {
                let v: serde_json_lite::Value = serde_json_lite::parse(&bytes);
                for ev in v.events { match ev { (e, Some(val)) => { reference.insert(e, val); } (e, None) => { reference.remove(&e); } } }
            }
            st.reference = reference;
            st.check_reference("load");
            "ok".into()
        }
        ["dir", n] => { st.cur = n.to_string(); "ok".into() }
        ["cpdir", a, b] => {
            let (da, db) = (st.dir(a), st.dir(b));
            let _ = std::fs::remove_dir_all(&db);
            std::fs::create_dir_all(&db).unwrap();
            for (name, bytes) in listing(&da) { std::fs::write(db.join(name), bytes).unwrap(); }
            "ok".into()
        }
        ["merge", a, b] => {
            let (da, db) = (st.dir(a), st.dir(b));
            std::fs::create_dir_all(&da).unwrap();
            let have = listing(&da);
            for (name, bytes) in listing(&db) { if !have.contains_key(&name) { std::fs::write(da.join(name), bytes).unwrap(); } }
            format!("files={}", listing(&da).len())
        }
        ["q", "map"] => {
            let items: Vec<String> = st.store.iter().map(|(e, v)| format!("{}:{}", num(*e), v)).collect();
            format!("{{{}}}", items.join(","))
        }
        ["q", "entfor", v] => match st.store.entities_for(&v.to_string()) {
            None => "none".into(),
            Some(l) => format!("[{}]", l.iter().map(|e| num(*e).to_string()).collect::<Vec<_>>().join(",")),
        },
        ["q", "ebyval", v] => match st.store.entity_by_value(&v.to_string()) { None => "none".into(), Some(e) => num(e).to_string() },
        ["q", "indexmap"] => {
            let m = st.store.index_map().unwrap();
            format!("{{{}}}", m.iter().map(|(v, e)| format!("{}:{}", v, num(*e))).collect::<Vec<_>>().join(","))
        }
        ["q", "log", e] => {
            let e: u64 = match e.parse() { Ok(e) => e, Err(_) => return "bad-op".into() };
            let log = st.store.all_event_log_for_entity(ent(e)).unwrap();
            let items: Vec<String> = log.iter().map(|ev| match ev { xvc_ecs::ecs::event::Event::Add { value, .. } => format!("+{value}"), _ => "-".into() }).collect();
            format!("[{}]", items.join(","))
        }
        ["q", "sentfor", v] => match st.store.entities_for(&v.to_string()) {
            None => "none".into(),
            Some(l) => { let mut l: Vec<u64> = l.iter().map(|e| num(*e)).collect(); l.sort(); format!("[{}]", l.iter().map(|e| e.to_string()).collect::<Vec<_>>().join(",")) }
        },
        ["diff", acts, sub] => {
            let acts = match parse_pairs(acts) { Some(a) => a, None => return "bad-op".into() };
            let sub: Option<std::collections::HashSet<XvcEntity>> = if *sub == "all" { None } else { match parse_ents(sub) { Some(l) => Some(l.into_iter().map(ent).collect()), None => return "bad-op".into() } };
            let mut actuals = HStore::<String>::new();
            for (e, v) in acts { actuals.insert(ent(e), v); }
            let d = diff_store(&st.store, &actuals, sub.as_ref());
            let mut items: Vec<(u64, String)> = d.iter().map(|(e, d)| (num(*e), show_diff(d))).collect();
            items.sort();
            format!("[{}]", items.iter().map(|(e, d)| format!("{e}={d}")).collect::<Vec<_>>().join(","))
        }
        [op @ ("adiff" | "uwa"), an, rm, acts] => {
            let (an, rm, acts) = match (parse_bool(an), parse_bool(rm), parse_pairs(acts)) { (Some(a), Some(b), Some(c)) => (a, b, c), _ => return "bad-op".into() };
            let mut actuals = HStore::<String>::new();
            let mut act_ref: BTreeMap<u64, String> = BTreeMap::new();
            for (e, v) in acts { actuals.insert(ent(e), v.clone()); act_ref.insert(e, v); }
            let d = diff_store(&st.store, &actuals, None);
            if *op == "adiff" { st.store = apply_diff(&st.store, &d, an, rm).unwrap(); } else { update_with_actual(&mut st.store, &d, an, rm).unwrap(); }
            // reference: what "make the records equal to the actual values, as far as the flags allow" means for a plain map
            let keys: Vec<u64> = st.reference.keys().chain(act_ref.keys()).copied().collect();
            for e in keys {
                match (st.reference.get(&e).cloned(), act_ref.get(&e).cloned()) {
                    (None, Some(a)) => { if an { st.reference.insert(e, a); } }
                    (Some(_), None) => { if rm { st.reference.remove(&e); } }
                    (Some(r), Some(a)) => { if r != a { st.reference.insert(e, a); } }
                    (None, None) => {}
                }
            }
            st.check_reference(op);
            "ok".into()
        }
        [op @ ("adiffx" | "uwax"), an, rm, diffs] => {
            let (an, rm, diffs) = match (parse_bool(an), parse_bool(rm), parse_diffs(diffs)) { (Some(a), Some(b), Some(c)) => (a, b, c), _ => return "bad-op".into() };
            let mut d: DiffStore<String> = HStore::new();
            let mut last: BTreeMap<u64, Diff<String>> = BTreeMap::new();
            for (e, x) in diffs { d.insert(ent(e), x.clone()); last.insert(e, x); }
            if *op == "adiffx" { st.store = apply_diff(&st.store, &d, an, rm).unwrap(); } else { update_with_actual(&mut st.store, &d, an, rm).unwrap(); }
            let last: Vec<(u64, Diff<String>)> = last.into_iter().collect();
            reference_apply(&mut st.reference, &last, an, rm);
            st.check_reference(op);
            "ok".into()
        }
        ["r11-new"] => { st.r11 = R11Store::new(); "ok".into() }
        ["r11-ins", e, l, x] => {
            let (e, x): (u64, i32) = match (e.parse(), x.parse()) { (Ok(a), Ok(b)) => (a, b), _ => return "bad-op".into() };
            st.r11.insert(&ent(e), l.to_string(), x);
            "ok".into()
        }
        ["r11-rem", e] => {
            let e: u64 = match e.parse() { Ok(e) => e, Err(_) => return "bad-op".into() };
            st.r11.remove(ent(e));
            "ok".into()
        }
        ["r11-save"] => {
            std::thread::sleep(std::time::Duration::from_micros(3));
            st.r11.save_r11store(&st.root.join("r11")).unwrap();
            "ok".into()
        }
        ["r11-load"] => { st.r11 = R11Store::load_r11store(&st.root.join("r11")).unwrap(); "ok".into() }
        ["r11-q"] => show_r11(&st.r11),
        ["r11-tuple", e] => {
            let e: u64 = match e.parse() { Ok(e) => e, Err(_) => return "bad-op".into() };
            let (l, x) = st.r11.tuple(&ent(e));
            format!("{}|{}", show_opt(l.cloned()), show_opt(x.map(|x| x.to_string())))
        }
        ["r11-l2r", e] => {
            let e: u64 = match e.parse() { Ok(e) => e, Err(_) => return "bad-op".into() };
            match st.r11.left_to_right(&ent(e)) { None => "none".into(), Some((e, x)) => format!("{}:{}", num(*e), x) }
        }
        ["r11-r2l", e] => {
            let e: u64 = match e.parse() { Ok(e) => e, Err(_) => return "bad-op".into() };
            match st.r11.right_to_left(&ent(e)) { None => "none".into(), Some((e, l)) => format!("{}:{}", num(*e), l) }
        }
        ["r11-ebl", l] => match st.r11.entity_by_left(&l.to_string()) { None => "none".into(), Some(e) => num(e).to_string() },
        ["r11-ebr", x] => {
            let x: i32 = match x.parse() { Ok(x) => x, Err(_) => return "bad-op".into() };
            match st.r11.entity_by_right(&x) { None => "none".into(), Some(e) => num(e).to_string() }
        }
        ["r11-lbl", l] => show_opt(st.r11.lookup_by_left(&l.to_string()).map(|x| x.to_string())),
        ["r11-lbr", x] => {
            let x: i32 = match x.parse() { Ok(x) => x, Err(_) => return "bad-op".into() };
            show_opt(st.r11.lookup_by_right(&x).cloned())
        }
        ["r11-filter", k] => {
            let k: i32 = match k.parse() { Ok(k) => k, Err(_) => return "bad-op".into() };
            show_r11(&st.r11.filter(|_, x| k <= *x))
        }
        ["r1n-new"] => { st.r1n = St::new_r1n(); "ok".into() }
        ["r1n-ins", pe, pc, ce, cc] => {
            let (pe, ce, cc): (u64, u64, i32) = match (pe.parse(), ce.parse(), cc.parse()) { (Ok(a), Ok(b), Ok(c)) => (a, b, c), _ => return "bad-op".into() };
            let r = st.r1n.insert(ent(pe), pc.to_string(), ent(ce), cc);
            format!("ret={}", show_opt(r.map(|e| num(e).to_string())))
        }
        ["r1n-children", pe] => {
            let pe: u64 = match pe.parse() { Ok(e) => e, Err(_) => return "bad-op".into() };
            let h = st.r1n.children_of(&ent(pe)).unwrap();
            let mut items: Vec<(u64, i32)> = h.iter().map(|(e, v)| (num(*e), *v)).collect();
            items.sort();
            format!("[{}]", items.iter().map(|(e, v)| format!("{e}:{v}")).collect::<Vec<_>>().join(","))
        }
        ["r1n-parent", ce] => {
            let ce: u64 = match ce.parse() { Ok(e) => e, Err(_) => return "bad-op".into() };
            match st.r1n.parent_of(&ent(ce)) { Err(_) => "none".into(), Ok((pe, pc)) => format!("{}:{}", num(**pe), pc) }
        }
        ["r1n-rmchild", ce] => {
            let ce: u64 = match ce.parse() { Ok(e) => e, Err(_) => return "bad-op".into() };
            st.r1n.remove_child(ent(ce)).unwrap();
            "ok".into()
        }
        ["r1n-save"] => {
            std::thread::sleep(std::time::Duration::from_micros(3));
            R1NStore::save_r1nstore(&st.r1n, &st.root.join("r1n")).unwrap();
            "ok".into()
        }
        ["r1n-load"] => { st.r1n = R1NStore::load_r1nstore(&st.root.join("r1n")).unwrap(); "ok".into() }
        ["r1n-q"] => {
            let p: Vec<String> = st.r1n.parents.iter().map(|(e, v)| format!("{}:{}", num(*e), v)).collect();
            let c: Vec<String> = st.r1n.children.iter().map(|(e, v)| format!("{}:{}", num(*e), v)).collect();
            let cp: Vec<String> = st.r1n.child_parents.iter().map(|(e, v)| format!("{}:{}", num(*e), num(**v))).collect();
            format!("parents={{{}}} children={{{}}} cp={{{}}}", p.join(","), c.join(","), cp.join(","))
        }
        ["gen-session", k] => {
            let d = st.root.join("gen");
            std::fs::create_dir_all(&d).unwrap();
            let out = std::process::Command::new(&st.gen_bin).arg(&d).arg(k).output().unwrap();
            if !out.status.success() { return "panic".into(); }
            String::from_utf8_lossy(&out.stdout).trim().to_string()
        }
        [""] => "".into(),
        _ => "bad-op".into(),
    }
}

/// Minimal independent reader of the event-file JSON (array of {"Add":{"entity":[c,r],"value":"s"}} /
/// {"Remove":{"entity":[c,r]}}) — deliberately not xvc's own deserialiser.
mod serde_json_lite {
    pub struct Value { pub events: Vec<(u64, Option<String>)> }
    pub fn parse(bytes: &[u8]) -> Value {
        let s = String::from_utf8_lossy(bytes).to_string();
        let mut events = vec![];
        let mut rest = s.as_str();
        loop {
            let a = rest.find("{\"Add\"");
            let r = rest.find("{\"Remove\"");
            let (pos, is_add) = match (a, r) { (None, None) => break, (Some(a), None) => (a, true), (None, Some(r)) => (r, false), (Some(a), Some(r)) => if a < r { (a, true) } else { (r, false) } };
            rest = &rest[pos + 1..];
            let ep = rest.find("\"entity\":[").unwrap() + 10;
            let tail = &rest[ep..];
            let comma = tail.find(',').unwrap();
            let e: u64 = tail[..comma].trim().parse().unwrap();
            if is_add {
                let vp = rest.find("\"value\":\"").unwrap() + 9;
                let vt = &rest[vp..];
                let end = vt.find('"').unwrap();
                events.push((e, Some(vt[..end].to_string())));
                rest = &vt[end..];
            } else {
                events.push((e, None));
                rest = tail;
            }
        }
        Value { events }
    }
}

fn main() {
    let args: Vec<String> = std::env::args().collect();
    let base = PathBuf::from(&args[1]);
    let gen_bin = std::env::current_exe().unwrap().parent().unwrap().join("ecs_gen_session");
    std::panic::set_hook(Box::new(|_| {}));
    let stdin = std::io::stdin();
    let stdout = std::io::stdout();
    let mut out = std::io::BufWriter::new(stdout.lock());
    let mut case = 0u64;
    let mk = |case: u64| -> St {
        let root = base.join(format!("case-{case}"));
        let _ = std::fs::remove_dir_all(&root);
        std::fs::create_dir_all(&root).unwrap();
        St { root, store: XvcStore::new(), cur: "A".into(), reference: BTreeMap::new(), r1n: St::new_r1n(), r11: R11Store::new(), gen_bin: gen_bin.clone(), oracle_failures: vec![] }
    };
    let mut st = mk(case);
    for line in stdin.lock().lines() {
        let line = line.unwrap();
        let t = line.trim();
        if t == "reset" {
            for f in &st.oracle_failures { writeln!(out, "#oracle {f}").unwrap(); }
            let _ = std::fs::remove_dir_all(&st.root);
            case += 1;
            st = mk(case);
            writeln!(out, "ok").unwrap();
            continue;
        }
        let toks: Vec<&str> = t.split(' ').collect();
        let ans = match catch_unwind(AssertUnwindSafe(|| step(&mut st, &toks))) { Ok(a) => a, Err(_) => "panic".into() };
        writeln!(out, "{ans}").unwrap();
    }
    for f in &st.oracle_failures { writeln!(out, "#oracle {f}").unwrap(); }
    let _ = std::fs::remove_dir_all(&st.root);
}
