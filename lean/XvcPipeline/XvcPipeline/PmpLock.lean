import XvcPipeline.Gen.PmpLocks
import XvcPipeline.LockOrder
/-!
# The path metadata provider never re-acquires its own lock  (helper definitions and lemmas for C11)

Every dependency comparison of every step thread looks paths up in ONE `XvcPathMetadataProvider` (core/src/util/pmp.rs), whose
map sits behind a std `RwLock` shared with the file-system watcher thread.  The scheduler model treats a lookup as atomic.
`Gen.pmpAcquisitions` (lib/lock_extract.py `analyse_pmp`, regenerated on every run) lists every acquisition event in the
functions of the provider together with the guards of the same thread that are alive at that point.

* the table side: `pmpNoReacquire`, the nesting edges `pmpEdges` and their closure `pReach` (decidable, checked in Props/C11);
* the thread-local side (any lock type): a program of `acquire`/`release` operations that never acquires a lock of which it
  holds a guard is, at every point where it may have to wait, not a holder of the lock it waits for (`noReacquire_at_wait`);
* the RwLock side: an exclusive request of a thread that holds a guard of the same lock is refused, and stays refused whatever
  the OTHER threads do (`own_guard_blocks_forever`): the self-deadlock.
-/
namespace Sched
open Gen

/-! ## the regenerated table -/

/-- no acquisition event of the table acquires (in any mode) a lock of which the same thread holds a guard
    (`get`, `path_present`, `update_metadata`, `update_with_glob`, `glob_paths`, the watcher's `handle_fs_event`) -/
def pmpNoReacquire (tbl : List PAcq) : Bool := tbl.all fun a => a.held.all fun h => h.1 != a.lock

/-- nesting edges of the table: (held, acquired) -/
def pmpEdgesOf (tbl : List PAcq) : List (PLock × PLock) := tbl.flatMap fun a => a.held.map fun h => (h.1, a.lock)

def pmpEdges : List (PLock × PLock) := pmpEdgesOf pmpAcquisitions

def pEdge (a b : PLock) : Bool := pmpEdges.contains (a, b)

def pStep (r : PLock → PLock → Bool) (a b : PLock) : Bool := r a b || allPLocks.any (fun m => r a m && r m b)

/-- closure by repeated squaring (enough for 8 locks); transitivity is CHECKED in Props/C11, not assumed -/
def pReach : PLock → PLock → Bool := pStep (pStep (pStep pEdge))

theorem mem_pmpEdges {tbl : List PAcq} {a : PAcq} (ha : a ∈ tbl) {h : PLock} (hh : h ∈ a.held.map (·.1)) :
    (h, a.lock) ∈ pmpEdgesOf tbl := by
  simp only [pmpEdgesOf, List.mem_flatMap, List.mem_map]
  obtain ⟨x, hx, rfl⟩ := List.mem_map.1 hh
  exact ⟨a, ha, x, hx, rfl⟩

/-! ## thread-local programs (any lock type) -/

section Local
variable {L : Type} [DecidableEq L]

/-- what a thread does to its own guards, in program order (`XvcPathMetadataProvider::get`: acquire (read) / release, call of
    `update_metadata` = acquire (write) / release, acquire (read) / release) -/
inductive GOp (L : Type) where
  | acquire (l : L)
  | release (l : L)

/-- the guards the thread holds after running `ops` from `held` -/
def heldAfter : List (GOp L) → List L → List L
  | [], h => h
  | .acquire l :: r, h => heldAfter r (l :: h)
  | .release l :: r, h => heldAfter r (h.erase l)

/-- the program never acquires a lock of which it still holds a guard -/
def NoReacquire : List (GOp L) → List L → Prop
  | [], _ => True
  | .acquire l :: r, h => l ∉ h ∧ NoReacquire r (l :: h)
  | .release l :: r, h => NoReacquire r (h.erase l)

/-- at EVERY point of such a program where the thread is about to acquire (and so may have to wait for) `l`, it holds no guard
    of `l`: by induction over the prefix that was executed -/
theorem noReacquire_at_wait (pre post : List (GOp L)) (l : L) :
    ∀ h, NoReacquire (pre ++ .acquire l :: post) h → l ∉ heldAfter pre h := by
  induction pre with
  | nil => intro h hn; exact hn.1
  | cons op pre ih =>
    intro h hn
    cases op with
    | acquire k => exact ih (k :: h) hn.2
    | release k => exact ih (h.erase k) hn

/-- snapshot of a family of threads: thread `t` has executed the first `pc t` operations of `prog t` -/
def holdsAt {T : Type} (prog : T → List (GOp L)) (pc : T → Nat) (t : T) (l : L) : Prop :=
  l ∈ heldAfter ((prog t).take (pc t)) []

/-- ... and waits for `l` when its next operation is `acquire l` -/
def waitsAt {T : Type} (prog : T → List (GOp L)) (pc : T → Nat) (t : T) (l : L) : Prop :=
  ∃ post, (prog t).drop (pc t) = .acquire l :: post

/-- NO SELF-DEADLOCK, thread-locally: whatever the other threads do and wherever the threads are, a thread whose program never
    re-acquires does not wait for a lock it holds itself -/
theorem no_self_wait {T : Type} (prog : T → List (GOp L)) (pc : T → Nat) (t : T)
    (h : NoReacquire (prog t) []) : ¬ WaitsFor (holdsAt prog pc) (waitsAt prog pc) t t := by
  rintro ⟨l, ⟨post, hw⟩, hh⟩
  have hsplit : prog t = (prog t).take (pc t) ++ .acquire l :: post := by
    rw [← hw, List.take_append_drop]
  rw [hsplit] at h
  exact noReacquire_at_wait _ post l [] h hh

end Local

/-! ## why a re-acquisition never resolves: the RwLock -/

section RwLock
variable {T : Type} [DecidableEq T]

/-- std `RwLock`: an exclusive request is granted only when there is no guard at all, a shared one only when there is no
    exclusive guard (the writer-preference of the implementation can only refuse more) -/
def grantable (m : PMode) (guards : List (T × PMode)) : Bool :=
  match m with
  | .exclusive => guards.isEmpty
  | .shared => guards.all fun g => g.2 == .shared

/-- what the OTHER threads can do to the guards of a lock while `t` is blocked: take and drop guards of their own -/
inductive OtherStep (t : T) : List (T × PMode) → List (T × PMode) → Prop where
  | take {g u m} : u ≠ t → OtherStep t g ((u, m) :: g)
  | drop {g u m} : u ≠ t → OtherStep t g (g.erase (u, m))

inductive OtherSteps (t : T) : List (T × PMode) → List (T × PMode) → Prop where
  | refl {g} : OtherSteps t g g
  | step {g g' g''} : OtherSteps t g g' → OtherStep t g' g'' → OtherSteps t g g''

theorem otherSteps_keep_own {t : T} {m : PMode} {g g' : List (T × PMode)} (h : OtherSteps t g g') (hm : (t, m) ∈ g) :
    (t, m) ∈ g' := by
  induction h with
  | refl => exact hm
  | step _ st ih =>
    cases st with
    | take hu => exact List.mem_cons_of_mem _ ih
    | drop hu =>
      rename_i u m'
      exact (List.mem_erase_of_ne (by intro he; cases he; exact hu rfl)).2 ih

/-- THE SELF-DEADLOCK: a thread that holds a guard (shared or exclusive) of a lock and requests it exclusively is refused,
    and stays refused after any number of steps of the other threads — only the blocked thread itself could drop the guard -/
theorem own_guard_blocks_forever {t : T} {m : PMode} {g g' : List (T × PMode)} (hm : (t, m) ∈ g)
    (h : OtherSteps t g g') : grantable .exclusive g' = false := by
  have := otherSteps_keep_own h hm
  cases g' with
  | nil => cases this
  | cons _ _ => rfl

end RwLock

end Sched
