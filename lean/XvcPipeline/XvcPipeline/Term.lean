import XvcPipeline.Inv
/-!
# Termination of the scheduler (helper lemmas for C11) and soundness of the executable step function
-/
namespace Sched
open Gen

/-! ## `stepL` is sound for `Next` -/

theorem guardB_sound {c : Cfg} {σ : Sys} {s : Nat} {x : St} {f e : Ev} {k : Nat}
    (h : guardB c σ s x f e = some k) : Guard c σ s x f e k := by
  unfold guardB at h
  split at h
  all_goals (try split at h)
  all_goals (try (cases h; done))
  all_goals (cases h)
  · exact .runNever (by simp_all)
  · exact .runConditional (by simp_all)
  · exact .noDepSteps (by simp_all)
  · exact .depStepsRunning (by simp_all)
  · exact .waitDone (by simp_all)
  · exact .waitBroken (by simp_all) (by simp_all) (by simp_all)
  · exact .waitBrokenIgnored (by simp_all) (by simp_all) (by simp_all)
  · exact .checkedOutputs _ (by simp)
  · exact .checkedOutputs _ (by simp)
  · exact .superficialChanged _ (by simp)
  · exact .superficialChanged _ (by simp)
  · exact .superficialNotChanged _ (by simp) (by simp_all)
  · exact .superficialNotChanged _ (by simp) (by simp_all)
  · exact .thoroughChanged _ (by simp)
  · exact .thoroughChanged _ (by simp)
  · exact .thoroughNotChanged _ (by simp) (by simp_all)
  · exact .thoroughNotChanged _ (by simp) (by simp_all)
  · exact .cmpRunAlways _ (by simp) (by simp_all)
  · exact .cmpRunAlways _ (by simp) (by simp_all)
  · exact .cmpChanged _ (by simp) (by simp_all)
  · exact .cmpChanged _ (by simp) (by simp_all)
  · exact .cmpNotChanged _ (by simp) (by simp_all)
  · exact .cmpNotChanged _ (by simp) (by simp_all)
  · exact .cmpThoroughChanged
  · exact .start _ (by simp) (by simp_all)
  · exact .start _ (by simp) (by simp_all)
  · exact .start _ (by simp) (by simp_all)
  · exact .poolFull _ (by simp) (by simp_all)
  · exact .poolFull _ (by simp) (by simp_all)
  · exact .spawn
  · exact .exitOk (by simp_all)
  · exact .exitFail (by simp_all)
  · exact .timeout (by simp_all)

/-- whatever the driver executes is a step of the transition system -/
theorem stepL_sound {c : Cfg} {σ σ' : Sys} {l : Label} (h : stepL c σ l = some σ') : Next c σ σ' := by
  cases l with
  | publish s =>
    simp only [stepL] at h
    split at h
    · rename_i hc; cases h; exact .publish σ s hc.1 hc.2.1 hc.2.2
    · cases h
  | handler s e =>
    simp only [stepL] at h
    split at h
    · rename_i hc
      split at h
      · rename_i y k ht hg
        cases h
        exact .handler σ s hc.1 (σ.loc s) (σ.frm s) e y k rfl rfl hc.2.1 hc.2.2 ht (guardB_sound hg)
      · cases h
    · cases h
  | deliver s =>
    simp only [stepL] at h
    split at h
    · rename_i hc
      split at h
      · rename_i x rest hx; cases h; exact .deliver σ s hc x rest hx
      · cases h
    · cases h
  | procExit s ok =>
    simp only [stepL] at h
    split at h
    · rename_i hc; cases h; exact .procExit σ s hc.1 ok hc.2
    · cases h
  | die s =>
    simp only [stepL] at h
    split at h
    · rename_i hc; cases h; exact .die σ s hc.1 hc.2.1 hc.2.2
    · cases h

theorem runL_reach {c : Cfg} {σ σ' : Sys} (r : Reach c σ) (ls : List Label) (h : runL c σ ls = some σ') :
    Reach c σ' := by
  induction ls generalizing σ with
  | nil => simp [runL] at h; subst h; exact r
  | cons l ls ih =>
    simp only [runL] at h
    split at h
    · rename_i σ1 h1; exact ih (.step r (stepL_sound h1)) h
    · cases h

/-! ## the measure -/

/-- rank of the states of the GENERATED machine; `fsmRank_edges` checks it against the generated table -/
def fsmRank : St → Nat
  | .Begin => 8
  | .WaitingDependencySteps => 7
  | .CheckingOutputs => 6
  | .CheckingSuperficialDiffs => 5
  | .CheckingThoroughDiffs => 4
  | .ComparingDiffsAndOutputs => 3
  | .WaitingToRun => 2
  | .Running => 1
  | .DoneByRunning => 0
  | .DoneWithoutRunning => 0
  | .Broken => 0

/-- the rank strictly decreases along every edge of the generated table that is not a self loop: the state
    machine has no cycle except self loops (an edited machine with a cycle breaks this `decide`) -/
theorem fsmRank_edges :
    (allSt.all fun x => allEv.all fun e =>
      match trans x e with
      | some y => x == y || decide (fsmRank y < fsmRank x)
      | none => true) = true := by decide

theorem fsmRank_edge {x y : St} {e : Ev} (h : trans x e = some y) : x = y ∨ fsmRank y < fsmRank x := by
  have := fsmRank_edges
  simp only [List.all_eq_true] at this
  have := this x (mem_allSt x) e (mem_allEv e)
  rw [h] at this
  simpa using this

/-- `e` is a self loop at `x` -/
def selfLoop (x : St) (e : Ev) : Bool := trans x e == some x

/-- rank of (state, entering event): a self loop is taken at most once in a row -/
def rank2 (x : St) (f : Ev) : Nat := 2 * fsmRank x + (if selfLoop x f then 0 else 1)

/-- no handler returns a self-loop event when the state was entered by a self-loop event:
    the polling loops are inside the handlers -/
theorem guard_from_not_selfLoop {c σ s x f e k} (g : Guard c σ s x f e k) (h : trans x e = some x) :
    selfLoop x f = false := by
  cases g <;> simp [Gen.trans] at h <;> (try (rename_i hf; rcases hf with rfl | rfl)) <;> simp [selfLoop, Gen.trans]

theorem guard_rank {c σ s x f e k y} (g : Guard c σ s x f e k) (ht : trans x e = some y) :
    rank2 y e < rank2 x f := by
  rcases fsmRank_edge ht with hxy | hlt
  · subst hxy
    have h1 := guard_from_not_selfLoop g ht
    have h2 : selfLoop x e = true := by simp [selfLoop, ht]
    simp [rank2, h1, h2]
  · unfold rank2; split <;> split <;> omega

theorem fsmRank_pos {x : St} (h : x.terminal = false) : 1 ≤ fsmRank x := by
  cases x <;> simp_all [St.terminal, fsmRank]

def stepWeight (σ : Sys) (s : Nat) : Nat :=
  4 * rank2 (σ.loc s) (σ.frm s) + (if σ.sent s then 0 else 2) + (σ.chan s).length +
    (if σ.proc s = .running then 1 else 0)

def sumTo (f : Nat → Nat) : Nat → Nat
  | 0 => 0
  | n+1 => sumTo f n + f n

/-- the termination measure: Σ over the steps of 4·rank + 2·[state not sent yet] + queued states + [command runs] -/
def measure (c : Cfg) (σ : Sys) : Nat := sumTo (stepWeight σ) c.n

theorem sumTo_congr {f g : Nat → Nat} {n : Nat} (h : ∀ j < n, f j = g j) : sumTo f n = sumTo g n := by
  induction n with
  | zero => rfl
  | succ m ih => simp [sumTo, ih (fun j hj => h j (by omega)), h m (by omega)]

theorem sumTo_lt {f g : Nat → Nat} {n s : Nat} (hs : s < n) (hlt : g s < f s) (h : ∀ j, j ≠ s → g j = f j) :
    sumTo g n < sumTo f n := by
  induction n with
  | zero => omega
  | succ m ih =>
    by_cases hm : s = m
    · subst hm
      have : sumTo g s = sumTo f s := sumTo_congr (fun j hj => h j (by omega))
      simp [sumTo, this]; exact hlt
    · have := ih (by omega)
      have e := h m (fun e => hm e.symm)
      simp [sumTo, e]; exact this

theorem measure_step {c : Cfg} {σ σ' : Sys} (st : Next c σ σ') : measure c σ' < measure c σ := by
  cases st with
  | publish s hs h1 h2 =>
    apply sumTo_lt hs
    · simp [stepWeight, h1]; omega
    · intro j hj; simp [stepWeight, hj]
  | deliver s hs x rest hc =>
    apply sumTo_lt hs
    · simp [stepWeight, hc]
    · intro j hj; simp [stepWeight, hj]
  | procExit s hs ok hp =>
    apply sumTo_lt hs
    · simp [stepWeight, hp]
    · intro j hj; simp [stepWeight, hj]
  | handler s hs x f e y k hl hf h1 h2 ht g =>
    apply sumTo_lt hs
    · have := guard_rank g ht
      have b1 : (if procEffect e (σ.proc s) = Proc.running then 1 else 0) ≤ 1 := by split <;> omega
      simp only [stepWeight, upd_same, hl, hf, h1]
      simp
      omega
    · intro j hj; simp [stepWeight, hj]
  | die s hs h2 hnt =>
    apply sumTo_lt hs
    · have := fsmRank_pos hnt
      have h0 : rank2 .Broken .KeepBroken = 0 := by decide
      simp only [stepWeight, upd_same, h0]
      have : 2 ≤ rank2 (σ.loc s) (σ.frm s) := by unfold rank2; omega
      by_cases hp : σ.proc s = .running <;> simp [hp] <;> split <;> omega
    · intro j hj; simp [stepWeight, hj]

/-! ## further invariants -/

def lastOr {α} (a : α) : List α → α
  | [] => a
  | x :: xs => lastOr x xs

theorem lastOr_concat {α} (a b : α) (l : List α) : lastOr a (l ++ [b]) = b := by
  induction l generalizing a with
  | nil => rfl
  | cons x xs ih => simp [lastOr, ih]

/-- thread life cycle, and the last state sent is the current one -/
def FinInv (σ : Sys) : Prop :=
  ∀ s, (σ.fin s = true → σ.sent s = true ∧ (σ.loc s).terminal = true) ∧
       (σ.sent s = true → (σ.loc s).terminal = true → σ.fin s = true) ∧
       (σ.sent s = true → lastOr (σ.pub s) (σ.chan s) = (σ.loc s, σ.frm s))

theorem finInv_init (c : Cfg) : FinInv (init c) := by intro s; simp [init]

theorem finInv_step {c : Cfg} {σ σ' : Sys} (h : FinInv σ) (st : Next c σ σ') : FinInv σ' := by
  cases st with
  | publish s hs h1 h2 =>
    intro t
    by_cases hts : t = s
    · subst hts; simp [lastOr_concat]
    · simp [hts]; exact h t
  | deliver s hs x rest hc =>
    intro t
    obtain ⟨a, b, c'⟩ := h t
    by_cases hts : t = s
    · subst hts
      refine ⟨a, b, ?_⟩
      intro hsent
      have := c' hsent
      simp [hc, lastOr] at this
      simpa using this
    · simp [hts]; exact ⟨a, b, c'⟩
  | procExit s hs ok hp => exact h
  | handler s hs x f e y k hl hf h1 h2 ht g =>
    intro t
    by_cases hts : t = s
    · subst hts; simp [h2]
    · simp [hts]; exact h t
  | die s hs h2 hnt =>
    intro t
    by_cases hts : t = s
    · subst hts; simp [lastOr_concat, St.terminal]
    · simp [hts]; exact h t

/-- the entering event fits the state -/
def FrmInv (σ : Sys) : Prop :=
  ∀ s, (σ.loc s = .Begin ∧ σ.frm s = .Init) ∨ ∃ x, trans x (σ.frm s) = some (σ.loc s)

theorem frmInv_init (c : Cfg) : FrmInv (init c) := by intro s; left; simp [init]

theorem frmInv_step {c : Cfg} {σ σ' : Sys} (h : FrmInv σ) (st : Next c σ σ') : FrmInv σ' := by
  cases st with
  | publish s hs h1 h2 => exact h
  | deliver s hs x rest hc => exact h
  | procExit s hs ok hp => exact h
  | handler s hs x f e y k hl hf h1 h2 ht g =>
    intro t
    by_cases hts : t = s
    · subst hts; right; exact ⟨x, by simp [ht]⟩
    · simp [hts]; exact h t
  | die s hs h2 hnt =>
    intro t
    by_cases hts : t = s
    · subst hts; right; exact ⟨.Broken, by simp [Gen.trans]⟩
    · simp [hts]; exact h t

/-- before its terminal state is delivered, nothing terminal is in the bulletin or in the channel of a step;
    a terminal state is the last thing a step sends -/
def ChanInv (σ : Sys) : Prop :=
  ∀ d, (σ.fin d = false → ∀ x ∈ σ.pub d :: σ.chan d, x.1.terminal = false) ∧
       (∀ x ∈ (σ.pub d :: σ.chan d).dropLast, x.1.terminal = false)

theorem chanInv_init (c : Cfg) : ChanInv (init c) := by
  intro d; simp [init, St.terminal]

theorem chanInv_step {c : Cfg} {σ σ' : Sys} (hf : FinInv σ) (h : ChanInv σ) (st : Next c σ σ') : ChanInv σ' := by
  cases st with
  | procExit s hs ok hp => exact h
  | handler s hs x f e y k hl hf' h1 h2 ht g => exact h
  | publish s hs h1 h2 =>
    intro d
    obtain ⟨a, b⟩ := h d
    by_cases hds : d = s
    · subst hds
      have hall := a h2
      constructor
      · intro hfin x hx
        simp at hfin
        simp at hx
        rcases hx with hx | hx | hx
        · exact hall x (by simp [hx])
        · exact hall x (by simp [hx])
        · subst hx; exact hfin
      · intro x hx
        have : (σ.pub d :: (σ.chan d ++ [(σ.loc d, σ.frm d)])).dropLast = σ.pub d :: σ.chan d := by
          rw [← List.cons_append, List.dropLast_concat]
        simp only [upd_same] at hx
        rw [this] at hx
        exact hall x hx
    · simp only [upd_other _ _ _ _ hds]; exact ⟨a, b⟩
  | die s hs h2 hnt =>
    intro d
    obtain ⟨a, b⟩ := h d
    by_cases hds : d = s
    · subst hds
      have hall := a h2
      constructor
      · intro hfin; simp at hfin
      · intro x hx
        have : (σ.pub d :: (σ.chan d ++ [(St.Broken, Ev.KeepBroken)])).dropLast = σ.pub d :: σ.chan d := by
          rw [← List.cons_append, List.dropLast_concat]
        simp only [upd_same] at hx
        rw [this] at hx
        exact hall x hx
    · simp only [upd_other _ _ _ _ hds]; exact ⟨a, b⟩
  | deliver s hs x rest hc =>
    intro d
    obtain ⟨a, b⟩ := h d
    by_cases hds : d = s
    · subst hds
      constructor
      · intro hfin y hy
        simp only [upd_same] at hy
        exact a hfin y (by rw [hc]; exact List.mem_cons_of_mem _ hy)
      · intro y hy
        simp only [upd_same] at hy
        apply b y
        rw [hc]
        simp only [List.dropLast_cons_cons]
        exact List.mem_cons_of_mem _ hy
    · simp only [upd_other _ _ _ _ hds]; exact ⟨a, b⟩

/-- the bulletin never changes a finished verdict -/
theorem pub_terminal_chan_empty {σ : Sys} (h : ChanInv σ) (d : Nat) (ht : (σ.pub d).1.terminal = true) :
    σ.chan d = [] := by
  cases hc : σ.chan d with
  | nil => rfl
  | cons x rest =>
    have := (h d).2 (σ.pub d) (by rw [hc]; simp [List.dropLast_cons_cons])
    rw [ht] at this; cases this

structure Inv2 (c : Cfg) (σ : Sys) : Prop extends Inv c σ where
  finI : FinInv σ
  frmI : FrmInv σ
  chanI : ChanInv σ

theorem reach_inv2 {c : Cfg} {σ : Sys} (r : Reach c σ) : Inv2 c σ := by
  induction r with
  | init => exact ⟨inv_init c, finInv_init c, frmInv_init c, chanInv_init c⟩
  | step _ st ih =>
    exact ⟨inv_step ih.toInv st, finInv_step ih.finI st, frmInv_step ih.frmI st, chanInv_step ih.finI ih.chanI st⟩

end Sched
