import XvcPipeline.Sched
import XvcPipeline.Gen.RunCond
/-!
# Label sequences used by the non-vacuity examples of the property files (not part of the model)
-/
namespace Sched
open Gen

/-- two steps, step 1 depends on step 0, both `by_dependencies` with recorded dependencies, pool 1 -/
def demoChain : Cfg :=
  { n := 2, deps := fun i => if i = 1 then [0] else [], pool := 1, rc := fun _ => run_calculated, noDeps := fun _ => false }

/-- three independent steps, pool 1 -/
def demoPool : Cfg :=
  { n := 3, deps := fun _ => [], pool := 1, rc := fun _ => run_always, noDeps := fun _ => true }

/-- step 2 depends on steps 0 and 1 -/
def demoJoin : Cfg :=
  { n := 3, deps := fun i => if i = 2 then [0, 1] else [], pool := 2, rc := fun _ => run_calculated, noDeps := fun _ => false }

def toRunning (s : Nat) : List Label :=
  [.handler s .CheckedOutputs, .publish s, .handler s .SuperficialDiffsChanged, .publish s,
   .handler s .ThoroughDiffsChanged, .publish s, .handler s .DiffsHasChanged, .publish s,
   .handler s .StartProcess, .publish s, .handler s .WaitProcess, .publish s]

def deliverN (s : Nat) : Nat → List Label
  | 0 => []
  | k+1 => .deliver s :: deliverN s k

def toWaitingToRun (s : Nat) : List Label :=
  [.publish s, .handler s .RunConditional, .publish s, .handler s .DependencyStepsFinishedSuccessfully, .publish s,
   .handler s .CheckedOutputs, .publish s, .handler s .SuperficialDiffsChanged, .publish s,
   .handler s .ThoroughDiffsChanged, .publish s, .handler s .DiffsHasChanged, .publish s]

def runTo (s : Nat) (ok : Bool) : List Label :=
  [.publish s, .handler s .RunConditional, .publish s, .handler s .DependencyStepsFinishedSuccessfully, .publish s,
   .handler s .CheckedOutputs, .publish s, .handler s .SuperficialDiffsChanged, .publish s,
   .handler s .ThoroughDiffsChanged, .publish s, .handler s .DiffsHasChanged, .publish s,
   .handler s .StartProcess, .publish s, .handler s .WaitProcess, .publish s, .procExit s ok,
   .handler s (if ok then .ProcessCompletedSuccessfully else .ProcessReturnedNonZero), .publish s] ++ deliverN s 10

/-- step 0 runs and succeeds, step 1 waits, sees it done, and starts its command -/
def demoOk : List Label :=
  [.publish 0, .handler 0 .RunConditional, .publish 0, .handler 0 .DependencyStepsFinishedSuccessfully, .publish 0] ++
  toRunning 0 ++
  [.publish 1, .handler 1 .RunConditional, .publish 1, .handler 1 .DependencyStepsRunning, .publish 1,
   .procExit 0 true, .handler 0 .ProcessCompletedSuccessfully, .publish 0] ++ deliverN 0 10 ++
  [.handler 1 .DependencyStepsFinishedSuccessfully, .publish 1] ++ toRunning 1

/-- step 0 fails, step 1 ends `Broken` without starting: hypotheses of `C10_failed_upstream_blocks` -/
def demoFail : List Label :=
  [.publish 0, .handler 0 .RunConditional, .publish 0, .handler 0 .DependencyStepsFinishedSuccessfully, .publish 0] ++
  toRunning 0 ++
  [.publish 1, .handler 1 .RunConditional, .publish 1, .handler 1 .DependencyStepsRunning, .publish 1,
   .procExit 0 false, .handler 0 .ProcessReturnedNonZero, .publish 0] ++ deliverN 0 10 ++
  [.handler 1 .DependencyStepsFinishedBroken, .publish 1]

/-- the condition under which the unrepaired `s_waiting_dependency_steps_f_dependency_steps_running` returned -/
def oldWaitReturns (c : Cfg) (σ : Sys) (s : Nat) : Bool :=
  allDone c σ s || (c.deps s).all (fun d => (σ.pub d).1 == .Broken)

def f5Labels : List Label :=
  [.publish 2, .handler 2 .RunConditional, .publish 2, .handler 2 .DependencyStepsRunning, .publish 2] ++
  runTo 0 true ++ runTo 1 false

theorem f5_isSome : (runL demoJoin (init demoJoin) f5Labels).isSome = true := by decide

/-- step 2 waits, step 0 ended `DoneByRunning`, step 1 ended `Broken`, everything delivered -/
def f5State : Sys := (runL demoJoin (init demoJoin) f5Labels).get f5_isSome

end Sched
