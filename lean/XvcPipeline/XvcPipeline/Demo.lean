import XvcPipeline.Sched
/-!
# Label sequences used by the non-vacuity examples of the property files (not part of the model)
-/
namespace Sched
open Gen

def toRunning (s : Nat) : List Label :=
  [.handler s .CheckedOutputs, .publish s, .handler s .SuperficialDiffsChanged, .publish s,
   .handler s .ThoroughDiffsChanged, .publish s, .handler s .DiffsHasChanged, .publish s,
   .handler s .StartProcess, .publish s, .handler s .WaitProcess, .publish s]

def deliverN (s : Nat) : Nat → List Label
  | 0 => []
  | k+1 => .deliver s :: deliverN s k

def toWaitingToRun (s : Nat) : List Label :=
  [.publish s, .handler s .RunConditional, .publish s, .handler s .DependencyStepsFinishedSuccessfully, .publish s,
   .handler s .CheckedOutputs, .publish s, .handler s .SuperficialDiffsChanged, .publish s,
   .handler s .ThoroughDiffsChanged, .publish s, .handler s .DiffsHasChanged, .publish s]

def runTo (s : Nat) (ok : Bool) : List Label :=
  [.publish s, .handler s .RunConditional, .publish s, .handler s .DependencyStepsFinishedSuccessfully, .publish s,
   .handler s .CheckedOutputs, .publish s, .handler s .SuperficialDiffsChanged, .publish s,
   .handler s .ThoroughDiffsChanged, .publish s, .handler s .DiffsHasChanged, .publish s,
   .handler s .StartProcess, .publish s, .handler s .WaitProcess, .publish s, .procExit s ok,
   .handler s (if ok then .ProcessCompletedSuccessfully else .ProcessReturnedNonZero), .publish s] ++ deliverN s 10

end Sched
