import XvcPipeline.Sched
import XvcPipeline.Gen.DepEdges
/-!
# The dependency graph of a pipeline run

Transcription of `add_explicit_dependencies`, `add_implicit_dependencies` (pipeline/src/pipeline/mod.rs),
`dependencies_to_path` (pipeline/src/pipeline/deps/mod.rs; after fix patch C10-G1: a glob dependency matches a
declared output by its path, whether or not the file exists yet) and of the cycle test
`toposort(&dependency_graph, None)` in `the_grand_pipeline_loop` (petgraph is modelled by Kahn's algorithm).
-/
namespace Sched
open Gen

/-- the dependency records the graph construction looks at (`XvcDependency`), with the state an earlier run recorded -/
inductive DepRec where
  | step (j : Nat)                              -- `XvcDependency::Step`, resolved to the step with that name
  | path (k : DepKind) (path : String)          -- File / Regex / RegexItems / Param / Lines / LineItems / SqliteQueryDigest
  | glob (pattern : String)                     -- Glob
  | globItems (pattern : String) (recorded : List String)   -- GlobItems with the items recorded by an earlier run
  | other                                       -- Generic / UrlDigest: never an edge
deriving Repr

/-- glob fragment used by the generated pipelines: `*` and `?` do not cross `/` -/
def globMatch : List Char → List Char → Bool
  | [], s => s.isEmpty
  | p :: ps, s =>
    if p = '*' then
      globMatch ps s || (match s with
        | [] => false
        | c :: cs => c != '/' && globMatch (p :: ps) cs)
    else match s with
      | [] => false
      | c :: cs => (if p = '?' then c != '/' else p == c) && globMatch ps cs
termination_by p s => p.length + s.length

/-- `dependencies_to_path`: does dependency record `r` make its step depend on the step that declares output `p`?
    The decision per kind is the GENERATED `Gen.depEdge` (the arms of the Rust match). -/
def DepRec.reads (r : DepRec) (p : String) : Bool :=
  match r with
  | .path k q => depEdge k (q == p) false false true
  | .glob g => depEdge .Glob false (globMatch g.toList p.toList) false true
  | .globItems g recorded =>
      depEdge .GlobItems false (globMatch g.toList p.toList) (recorded.contains p) recorded.isEmpty
  | _ => false

structure Pipeline where
  n : Nat
  recs : Nat → List DepRec      -- `all_deps.children_of(step)`
  outs : Nat → List String      -- `all_outs.children_of(step)` as paths

def dedup : List Nat → List Nat
  | [] => []
  | x :: xs => if (dedup xs).contains x then dedup xs else x :: dedup xs

/-- `dedup` keeps every element -/
theorem mem_dedup {x : Nat} {l : List Nat} (h : x ∈ l) : x ∈ dedup l := by
  induction l with
  | nil => cases h
  | cons y ys ih =>
    simp only [dedup]
    rcases List.mem_cons.mp h with rfl | h'
    · split
      · rename_i hc; simpa using hc
      · simp
    · split
      · exact ih h'
      · exact List.mem_cons_of_mem _ (ih h')

/-- `dependency_steps(step, graph)` after `add_explicit_dependencies` and `add_implicit_dependencies` -/
def buildGraph (p : Pipeline) (i : Nat) : List Nat :=
  dedup ((p.recs i).filterMap (fun r => match r with | .step j => some j | _ => none) ++
    (List.range p.n).filter (fun j => (p.outs j).any (fun o => (p.recs i).any (fun r => r.reads o))))

/-! ## cycle test (Kahn) -/

/-- `placed` grows by one node whose dependencies are all placed, as long as there is one -/
def kahn (n : Nat) (deps : Nat → List Nat) : Nat → List Nat → List Nat
  | 0, placed => placed
  | fuel + 1, placed =>
    match (List.range n).find? (fun s => !placed.contains s && (deps s).all placed.contains) with
    | some s => kahn n deps fuel (placed ++ [s])
    | none => placed

/-- a topological order of all `n` steps, if there is one -/
def toposort (n : Nat) (deps : Nat → List Nat) : Option (List Nat) :=
  let r := kahn n deps n []
  if (List.range n).all r.contains then some r else none

def acyclic (n : Nat) (deps : Nat → List Nat) : Bool := (toposort n deps).isSome

/-- `the_grand_pipeline_loop` up to the point where the step threads are spawned: a cyclic graph is an error
    (`Error::PipelineStepsContainCycle`), otherwise the scheduler starts in `init` -/
def start (c : Cfg) : Option Sys := if acyclic c.n c.deps then some (init c) else none

end Sched
