/-!
# Relaying the output of a step command  (C11, second sentence; K4a)

Two-party model of `CommandProcess::update_output_channels` (pipeline/src/pipeline/command.rs) and the child process.

* The child executes a program: a list of one-byte writes (`false` = stdout, `true` = stderr), then exits, which
  closes both pipes.  A write blocks while the pipe holds `cap` bytes (`cap` = 65536 on Linux).
* `Mode.sequential` is the relay of the unrepaired code: `stdout.read_to_string()` until end-of-file, only then
  `stderr.read_to_string()`.
* `Mode.concurrent` is the relay after fix patch C11-K4a: `Popen::communicate` polls both pipes and reads whichever
  has data, until both are at end-of-file.

The model mirrors the code; the pipes themselves (kernel) are modelled, not verified.
-/
namespace Relay

inductive Phase where
  | out | err | done
deriving DecidableEq, Repr

inductive Mode where
  | sequential | concurrent
deriving DecidableEq, Repr

structure RS where
  prog : List Bool
  exited : Bool
  po : Nat
  pe : Nat
  phase : Phase
deriving DecidableEq, Repr

def init (prog : List Bool) : RS := { prog := prog, exited := false, po := 0, pe := 0, phase := .out }

inductive Step (m : Mode) (cap : Nat) : RS → RS → Prop where
  /- the child -/
  | writeOut (σ : RS) (rest : List Bool) (h : σ.prog = false :: rest) (hc : σ.po < cap) :
      Step m cap σ { σ with prog := rest, po := σ.po + 1 }
  | writeErr (σ : RS) (rest : List Bool) (h : σ.prog = true :: rest) (hc : σ.pe < cap) :
      Step m cap σ { σ with prog := rest, pe := σ.pe + 1 }
  | exit (σ : RS) (h : σ.prog = []) (he : σ.exited = false) : Step m cap σ { σ with exited := true }
  /- the sequential relay -/
  | seqReadOut (σ : RS) (hm : m = .sequential) (hp : σ.phase = .out) (h : 0 < σ.po) : Step m cap σ { σ with po := 0 }
  | seqEofOut (σ : RS) (hm : m = .sequential) (hp : σ.phase = .out) (h : σ.po = 0) (he : σ.exited = true) :
      Step m cap σ { σ with phase := .err }
  | seqReadErr (σ : RS) (hm : m = .sequential) (hp : σ.phase = .err) (h : 0 < σ.pe) : Step m cap σ { σ with pe := 0 }
  | seqEofErr (σ : RS) (hm : m = .sequential) (hp : σ.phase = .err) (h : σ.pe = 0) (he : σ.exited = true) :
      Step m cap σ { σ with phase := .done }
  /- the concurrent relay -/
  | conReadOut (σ : RS) (hm : m = .concurrent) (hp : σ.phase = .out) (h : 0 < σ.po) : Step m cap σ { σ with po := 0 }
  | conReadErr (σ : RS) (hm : m = .concurrent) (hp : σ.phase = .out) (h : 0 < σ.pe) : Step m cap σ { σ with pe := 0 }
  | conEof (σ : RS) (hm : m = .concurrent) (hp : σ.phase = .out) (h1 : σ.po = 0) (h2 : σ.pe = 0)
      (he : σ.exited = true) : Step m cap σ { σ with phase := .done }

inductive Reach (m : Mode) (cap : Nat) : RS → RS → Prop where
  | refl (σ : RS) : Reach m cap σ σ
  | tail {σ σ1 σ2 : RS} : Reach m cap σ σ1 → Step m cap σ1 σ2 → Reach m cap σ σ2

theorem Reach.head {m cap} {σ σ1 σ2 : RS} (h : Step m cap σ σ1) (r : Reach m cap σ1 σ2) : Reach m cap σ σ2 := by
  induction r with
  | refl => exact .tail (.refl _) h
  | tail _ st ih => exact .tail ih st

/-- no party can move -/
def Stuck (m : Mode) (cap : Nat) (σ : RS) : Prop := ∀ σ', ¬ Step m cap σ σ'

/-- bytes the program still writes to stderr -/
def errs : List Bool → Nat
  | [] => 0
  | b :: bs => (if b then 1 else 0) + errs bs

/-! ## termination measure (both modes) -/

def phaseW : Phase → Nat
  | .out => 2 | .err => 1 | .done => 0

def measure (σ : RS) : Nat := 2 * σ.prog.length + σ.po + σ.pe + (if σ.exited then 0 else 1) + phaseW σ.phase

theorem measure_step {m cap σ σ'} (h : Step m cap σ σ') : measure σ' < measure σ := by
  cases h <;> simp_all [measure, phaseW] <;> omega

/-! ## the concurrent relay never blocks -/

theorem concurrent_phase {cap σ0 σ} (h0 : σ0.phase ≠ .err) (r : Reach .concurrent cap σ0 σ) : σ.phase ≠ .err := by
  induction r with
  | refl => exact h0
  | tail _ st ih => cases st <;> simp_all

theorem concurrent_progress {cap : Nat} (hcap : 0 < cap) {σ : RS} (hp : σ.phase = .out) :
    ∃ σ', Step .concurrent cap σ σ' := by
  cases hprog : σ.prog with
  | cons b rest =>
    cases b
    · by_cases hc : σ.po < cap
      · exact ⟨_, .writeOut σ rest hprog hc⟩
      · exact ⟨_, .conReadOut σ rfl hp (by omega)⟩
    · by_cases hc : σ.pe < cap
      · exact ⟨_, .writeErr σ rest hprog hc⟩
      · exact ⟨_, .conReadErr σ rfl hp (by omega)⟩
  | nil =>
    cases he : σ.exited
    · exact ⟨_, .exit σ hprog he⟩
    · by_cases h1 : 0 < σ.po
      · exact ⟨_, .conReadOut σ rfl hp h1⟩
      · by_cases h2 : 0 < σ.pe
        · exact ⟨_, .conReadErr σ rfl hp h2⟩
        · exact ⟨_, .conEof σ rfl hp (by omega) (by omega) he⟩

/-! ## the sequential relay blocks exactly when more than `cap` bytes go to stderr -/

/-- invariant of the sequential relay -/
def SeqInv (cap : Nat) (σ : RS) : Prop :=
  (σ.exited = true → σ.prog = []) ∧ (σ.phase = .out → σ.pe + errs σ.prog ≤ cap) ∧ (σ.phase ≠ .out → σ.exited = true)

theorem seqInv_init {cap : Nat} {prog : List Bool} (h : errs prog ≤ cap) : SeqInv cap (init prog) := by
  simp [SeqInv, init, h]

theorem seqInv_step {cap σ σ'} (h : SeqInv cap σ) (st : Step .sequential cap σ σ') : SeqInv cap σ' := by
  obtain ⟨h0, h1, h2⟩ := h
  cases st with
  | writeOut rest hp hc =>
    refine ⟨?_, ?_, ?_⟩
    · intro he; have := h0 he; rw [hp] at this; cases this
    · intro hph; have := h1 hph; simp [hp, errs] at this; simpa using this
    · intro hph; exact h2 hph
  | writeErr rest hp hc =>
    refine ⟨?_, ?_, ?_⟩
    · intro he; have := h0 he; rw [hp] at this; cases this
    · intro hph; have := h1 hph; simp [hp, errs] at this; simp; omega
    · intro hph; exact h2 hph
  | exit hp he => exact ⟨fun _ => hp, h1, fun _ => rfl⟩
  | seqReadOut hm hp h => exact ⟨h0, h1, h2⟩
  | seqEofOut hm hp h he => exact ⟨h0, by intro hph; simp at hph, fun _ => he⟩
  | seqReadErr hm hp h =>
    refine ⟨h0, ?_, h2⟩
    intro hph; simp at hph; rw [hp] at hph; cases hph
  | seqEofErr hm hp h he => exact ⟨h0, by intro hph; simp at hph, fun _ => he⟩
  | conReadOut hm => cases hm
  | conReadErr hm => cases hm
  | conEof hm => cases hm

theorem seqInv_reach {cap σ0 σ} (h : SeqInv cap σ0) (r : Reach .sequential cap σ0 σ) : SeqInv cap σ := by
  induction r with
  | refl => exact h
  | tail _ st ih => exact seqInv_step ih st

/-- with at most `cap` bytes on stderr the sequential relay always makes progress until it is done -/
theorem sequential_progress {cap : Nat} (hcap : 0 < cap) {σ : RS} (hi : SeqInv cap σ) (hd : σ.phase ≠ .done) :
    ∃ σ', Step .sequential cap σ σ' := by
  obtain ⟨h0, h1, h2⟩ := hi
  cases hph : σ.phase with
  | done => exact absurd hph hd
  | err =>
    have he := h2 (by rw [hph]; simp)
    by_cases hpe : 0 < σ.pe
    · exact ⟨_, .seqReadErr σ rfl hph hpe⟩
    · exact ⟨_, .seqEofErr σ rfl hph (by omega) he⟩
  | out =>
    cases hprog : σ.prog with
    | cons b rest =>
      cases b
      · by_cases hc : σ.po < cap
        · exact ⟨_, .writeOut σ rest hprog hc⟩
        · exact ⟨_, .seqReadOut σ rfl hph (by omega)⟩
      · have := h1 hph
        rw [hprog] at this
        simp [errs] at this
        exact ⟨_, .writeErr σ rest hprog (by omega)⟩
    | nil =>
      cases he : σ.exited
      · exact ⟨_, .exit σ hprog he⟩
      · by_cases hpo : 0 < σ.po
        · exact ⟨_, .seqReadOut σ rfl hph hpo⟩
        · exact ⟨_, .seqEofOut σ rfl hph (by omega) he⟩

/-- with more than `cap` bytes on stderr the sequential relay and the child can block each other forever:
    from a state with an empty stdout pipe a stuck state is reachable -/
theorem sequential_deadlock {cap : Nat} (hcap : 0 < cap) :
    ∀ (prog : List Bool) (pe : Nat), pe ≤ cap → cap < pe + errs prog →
      ∃ σ, Reach .sequential cap { prog := prog, exited := false, po := 0, pe := pe, phase := .out } σ ∧
        Stuck .sequential cap σ ∧ σ.phase ≠ .done := by
  intro prog
  induction prog with
  | nil => intro pe h1 h2; simp [errs] at h2; omega
  | cons b rest ih =>
    intro pe h1 h2
    cases b
    · -- a byte to stdout: written, then read by the relay
      simp [errs] at h2
      obtain ⟨σ, r, hs, hd⟩ := ih pe h1 (by omega)
      refine ⟨σ, ?_, hs, hd⟩
      apply Reach.head (.writeOut _ rest rfl (by simpa using hcap))
      apply Reach.head (.seqReadOut _ rfl rfl (by simp))
      simpa using r
    · simp [errs] at h2
      by_cases hc : pe < cap
      · obtain ⟨σ, r, hs, hd⟩ := ih (pe + 1) (by omega) (by omega)
        refine ⟨σ, ?_, hs, hd⟩
        apply Reach.head (.writeErr _ rest rfl (by simpa using hc))
        simpa using r
      · -- the stderr pipe is full, the relay waits for the end of stdout: nobody can move
        refine ⟨_, .refl _, ?_, by simp⟩
        intro σ' st
        cases st <;> simp_all

theorem errs_replicate (k : Nat) : errs (List.replicate k true) = k := by
  induction k with
  | zero => rfl
  | succ m ih => simp [List.replicate, errs, ih]; omega

end Relay
