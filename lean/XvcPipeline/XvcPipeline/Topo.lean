import XvcPipeline.Graph
/-!
# The cycle test: Kahn's algorithm succeeds exactly on graphs that have a rank function
-/
namespace Sched

/-- every dependency is a step of the pipeline -/
def WF (n : Nat) (deps : Nat → List Nat) : Prop := ∀ s < n, ∀ d ∈ deps s, d < n

/-- the graph has no cycle: dependencies have a strictly smaller rank -/
def Ranked (n : Nat) (deps : Nat → List Nat) : Prop :=
  ∃ rank : Nat → Nat, ∀ s < n, ∀ d ∈ deps s, rank d < rank s

/-- among the steps with property `P` there is one none of whose dependencies has `P` -/
theorem exists_min {n : Nat} {deps : Nat → List Nat} (hwf : WF n deps) {rank : Nat → Nat}
    (hr : ∀ s < n, ∀ d ∈ deps s, rank d < rank s) (P : Nat → Prop) :
    ∀ k s, rank s = k → s < n → P s → ∃ t, t < n ∧ P t ∧ ∀ d ∈ deps t, ¬ P d := by
  intro k
  induction k using Nat.strongRecOn with
  | _ k ih =>
    intro s hk hs hp
    by_cases h : ∃ d ∈ deps s, P d
    · obtain ⟨d, hd, hpd⟩ := h
      exact ih (rank d) (by rw [← hk]; exact hr s hs d hd) d rfl (hwf s hs d hd) hpd
    · exact ⟨s, hs, hp, fun d hd hpd => h ⟨d, hd, hpd⟩⟩

/-! ### invariant of `kahn`: every placed node has its dependencies placed before it -/

/-- position of the first occurrence of `s` in a list -/
def pos : List Nat → Nat → Nat
  | [], _ => 0
  | x :: xs, s => if x = s then 0 else pos xs s + 1

theorem pos_append_mem {pre l : List Nat} {d : Nat} (h : d ∈ pre) :
    pos (pre ++ l) d = pos pre d ∧ pos pre d < pre.length := by
  induction pre with
  | nil => cases h
  | cons x xs ih =>
    by_cases hx : x = d
    · simp [pos, hx]
    · have hm : d ∈ xs := by
        rcases List.mem_cons.mp h with h1 | h1
        · exact absurd h1.symm hx
        · exact h1
      have := ih hm
      simp [pos, hx, this.1]; exact this.2

theorem pos_append_not_mem {pre l : List Nat} {s : Nat} (h : s ∉ pre) :
    pos (pre ++ l) s = pre.length + pos l s := by
  induction pre with
  | nil => simp
  | cons x xs ih =>
    have hx : x ≠ s := fun e => h (by simp [e])
    have hm : s ∉ xs := fun e => h (List.mem_cons_of_mem _ e)
    simp [pos, hx, ih hm]; omega

def Placed (deps : Nat → List Nat) (placed : List Nat) : Prop :=
  ∀ s ∈ placed, ∀ d ∈ deps s, d ∈ placed ∧ pos placed d < pos placed s

theorem placed_snoc {deps : Nat → List Nat} {placed : List Nat} {s : Nat} (h : Placed deps placed)
    (hnew : s ∉ placed) (hs : ∀ d ∈ deps s, d ∈ placed) : Placed deps (placed ++ [s]) := by
  intro t ht d hd
  rcases List.mem_append.mp ht with ht | ht
  · obtain ⟨hdm, hlt⟩ := h t ht d hd
    refine ⟨List.mem_append_left _ hdm, ?_⟩
    rw [(pos_append_mem hdm).1, (pos_append_mem ht).1]; exact hlt
  · have : t = s := by simpa using ht
    subst this
    have hdm := hs d hd
    refine ⟨List.mem_append_left _ hdm, ?_⟩
    rw [(pos_append_mem hdm).1, pos_append_not_mem hnew]
    have := (pos_append_mem (l := [t]) hdm).2
    omega

theorem kahn_placed {n : Nat} {deps : Nat → List Nat} (fuel : Nat) (placed : List Nat) (h : Placed deps placed) :
    Placed deps (kahn n deps fuel placed) := by
  induction fuel generalizing placed with
  | zero => exact h
  | succ m ih =>
    simp only [kahn]
    split
    · rename_i s hf
      have := List.find?_some hf
      simp at this
      exact ih _ (placed_snoc h this.1 (fun d hd => this.2 d hd))
    · exact h

/-- a successful Kahn run yields a rank function: the position in the order -/
theorem toposort_ranked {n : Nat} {deps : Nat → List Nat} (h : acyclic n deps = true) : Ranked n deps := by
  unfold acyclic toposort at h
  simp only at h
  split at h
  · rename_i hall
    have hpl : Placed deps (kahn n deps n []) := kahn_placed n [] (by intro s hs; cases hs)
    refine ⟨pos (kahn n deps n []), ?_⟩
    intro s hs d hd
    have hmem : s ∈ kahn n deps n [] := by
      simp only [List.all_eq_true] at hall
      have := hall s (List.mem_range.mpr hs)
      simpa using this
    exact (hpl s hmem d hd).2
  · simp at h

/-! ### completeness: on a ranked graph Kahn places every step -/

theorem filter_length_lt {l : List Nat} {p q : Nat → Bool} (hqp : ∀ x, q x = true → p x = true)
    (hex : ∃ x ∈ l, p x = true ∧ q x = false) : (l.filter q).length < (l.filter p).length := by
  induction l with
  | nil => obtain ⟨x, hx, _⟩ := hex; cases hx
  | cons y ys ih =>
    have hle : (ys.filter q).length ≤ (ys.filter p).length := by
      clear ih hex
      induction ys with
      | nil => simp
      | cons z zs ih2 =>
        by_cases hq : q z = true
        · simp [List.filter, hq, hqp z hq]; exact ih2
        · by_cases hp : p z = true
          · simp [List.filter, hq, hp]; omega
          · simp [List.filter, hq, hp]; exact ih2
    obtain ⟨x, hx, hpx, hqx⟩ := hex
    rcases List.mem_cons.mp hx with rfl | hx'
    · simp [List.filter, hpx, hqx]; omega
    · have := ih ⟨x, hx', hpx, hqx⟩
      by_cases hq : q y = true
      · simp [List.filter, hq, hqp y hq]; exact this
      · by_cases hp : p y = true
        · simp [List.filter, hq, hp]; omega
        · simp [List.filter, hq, hp]; exact this

/-- the steps not placed yet -/
def unplaced (n : Nat) (placed : List Nat) : List Nat := (List.range n).filter (fun s => !placed.contains s)

theorem kahn_mono {n : Nat} {deps : Nat → List Nat} (fuel : Nat) (placed : List Nat) {s : Nat} (h : s ∈ placed) :
    s ∈ kahn n deps fuel placed := by
  induction fuel generalizing placed with
  | zero => exact h
  | succ m ih =>
    simp only [kahn]
    split
    · exact ih _ (List.mem_append_left _ h)
    · exact h

theorem kahn_complete {n : Nat} {deps : Nat → List Nat} (hwf : WF n deps) (hr : Ranked n deps) :
    ∀ fuel placed, (unplaced n placed).length ≤ fuel → ∀ s < n, s ∈ kahn n deps fuel placed := by
  obtain ⟨rank, hrank⟩ := hr
  intro fuel
  induction fuel with
  | zero =>
    intro placed hlen s hs
    have hnil : unplaced n placed = [] := List.eq_nil_of_length_eq_zero (by omega)
    simp only [kahn]
    by_cases hm : s ∈ placed
    · exact hm
    · have : s ∈ unplaced n placed := by
        simp [unplaced, hs, hm]
      rw [hnil] at this; cases this
  | succ m ih =>
    intro placed hlen s hs
    simp only [kahn]
    split
    · rename_i t hf
      have ht := List.find?_some hf
      have htm := List.mem_of_find?_eq_some hf
      simp at ht
      apply ih _ _ s hs
      have : (unplaced n (placed ++ [t])).length < (unplaced n placed).length := by
        apply filter_length_lt
        · intro x hx; simp at hx ⊢; exact hx.1
        · exact ⟨t, htm, by simp [ht.1], by simp⟩
      omega
    · rename_i hnone
      by_cases hm : s ∈ placed
      · exact hm
      · exfalso
        obtain ⟨t, htn, htp, hmin⟩ := exists_min hwf hrank (fun x => x ∉ placed) (rank s) s rfl hs hm
        have := List.find?_eq_none.mp hnone t (List.mem_range.mpr htn)
        simp at this
        obtain ⟨d, hd, hdn⟩ := this htp
        exact hmin d hd hdn

theorem ranked_toposort {n : Nat} {deps : Nat → List Nat} (hwf : WF n deps) (hr : Ranked n deps) :
    acyclic n deps = true := by
  unfold acyclic toposort
  simp only
  have hall : ((List.range n).all (kahn n deps n []).contains) = true := by
    simp only [List.all_eq_true]
    intro s hs
    have hlen : (unplaced n []).length ≤ n := by
      have := List.length_filter_le (fun s => !([] : List Nat).contains s) (List.range n)
      simpa [unplaced] using this
    have := kahn_complete hwf hr n [] hlen s (List.mem_range.mp hs)
    simpa using this
  simp [hall]

end Sched
