import XvcPipeline.Sched
/-!
# Inductive invariants of the scheduler transition system (helper lemmas for C10 and C13)
-/
namespace Sched
open Gen

theorem done_terminal {x : St} (h : x.done = true) : x.terminal = true := by
  cases x <;> simp_all [St.done, St.terminal]

theorem guard_src_not_terminal {c σ s x f e k} (g : Guard c σ s x f e k) : x.terminal = false := by
  cases g <;> rfl

/-! ## what the bulletin (or a channel) calls finished is really finished -/

def PubSound (σ : Sys) : Prop :=
  (∀ d, (σ.pub d).1.terminal = true → σ.loc d = (σ.pub d).1) ∧
  (∀ d x, x ∈ σ.chan d → x.1.terminal = true → σ.loc d = x.1)

theorem pubSound_init (c : Cfg) : PubSound (init c) := by
  constructor
  · intro d h; simp [init, St.terminal] at h
  · intro d x h; simp [init] at h

theorem pubSound_step {c : Cfg} {σ σ' : Sys} (h : PubSound σ) (st : Next c σ σ') : PubSound σ' := by
  obtain ⟨h1, h2⟩ := h
  cases st with
  | publish s hs hsent hfin =>
    refine ⟨h1, ?_⟩
    intro d x hx hxt
    by_cases hds : d = s
    · subst hds
      simp at hx
      rcases hx with hx | hx
      · exact h2 d x hx hxt
      · subst hx; rfl
    · simp [hds] at hx; exact h2 d x hx hxt
  | handler s hs x f e y k hl hf hsent hfin ht g =>
    have hnt := guard_src_not_terminal g
    constructor
    · intro d hd
      by_cases hds : d = s
      · subst hds
        have e1 := h1 d hd
        simp only at hd
        rw [← e1, hl] at hd
        simp [hnt] at hd
      · simp [hds]; exact h1 d hd
    · intro d z hz hzd
      by_cases hds : d = s
      · subst hds
        have e1 := h2 d z hz hzd
        rw [← e1, hl] at hzd
        simp [hnt] at hzd
      · simp [hds]; exact h2 d z hz hzd
  | deliver s hs x rest hc =>
    constructor
    · intro d hd
      by_cases hds : d = s
      · subst hds; simp at hd ⊢; exact h2 d x (by simp [hc]) hd
      · simp [hds] at hd ⊢; exact h1 d hd
    · intro d y hy hyd
      by_cases hds : d = s
      · subst hds; simp at hy ⊢; exact h2 d y (by simp [hc, hy]) hyd
      · simp [hds] at hy ⊢; exact h2 d y hy hyd
  | procExit s hs ok hp => exact ⟨h1, h2⟩
  | die s hs hfin hnt =>
    constructor
    · intro d hd
      by_cases hds : d = s
      · subst hds
        have e1 := h1 d hd
        simp only at hd
        rw [← e1] at hd
        simp [hnt] at hd
      · simp [hds]; exact h1 d hd
    · intro d z hz hzd
      by_cases hds : d = s
      · subst hds
        simp at hz
        rcases hz with hz | hz
        · have e1 := h2 d z hz hzd
          rw [← e1] at hzd
          simp [hnt] at hzd
        · subst hz; simp
      · simp [hds] at hz ⊢; exact h2 d z hz hzd

/-! ## C10: a step that passed `WaitingDependencySteps` has all its dependencies finished -/

/-- all dependencies done, or the step ignores broken dependencies and all of them are finished -/
def DepsOK (c : Cfg) (loc : Nat → St) (s : Nat) : Prop :=
  (∀ d ∈ c.deps s, (loc d).done = true) ∨
  ((c.rc s).ignore_broken_dep_steps = true ∧ ∀ d ∈ c.deps s, (loc d).terminal = true)

def DepsInv (c : Cfg) (σ : Sys) : Prop := ∀ s, (σ.loc s).passed = true → DepsOK c σ.loc s

/-- finished dependencies stay finished: a local state changes only while it is not terminal -/
theorem depsOK_upd {c : Cfg} {loc : Nat → St} {s t : Nat} {y : St}
    (hnt : (loc t).terminal = false) (h : DepsOK c loc s) : DepsOK c (upd loc t y) s := by
  rcases h with h | ⟨hi, h⟩
  · left
    intro d hd
    by_cases hdt : d = t
    · subst hdt; have := done_terminal (h d hd); simp_all
    · simp [hdt]; exact h d hd
  · right
    refine ⟨hi, ?_⟩
    intro d hd
    by_cases hdt : d = t
    · subst hdt; have := h d hd; simp_all
    · simp [hdt]; exact h d hd

theorem depsInv_step {c : Cfg} {σ σ' : Sys} (hp : PubSound σ) (h : DepsInv c σ) (st : Next c σ σ') :
    DepsInv c σ' := by
  cases st with
  | publish s hs hsent hfin => exact h
  | deliver s hs x rest hc => exact h
  | procExit s hs ok hpr => exact h
  | die s hs hfin hnt =>
    intro t ht
    simp only at ht ⊢
    by_cases hts : t = s
    · subst hts; simp [St.passed] at ht
    · simp [hts] at ht
      exact depsOK_upd hnt (h t ht)
  | handler s hs x f e y k hl hf hsent hfin htr g =>
    have hnt : (σ.loc s).terminal = false := by rw [hl]; exact guard_src_not_terminal g
    intro t ht
    simp only at ht ⊢
    by_cases hts : t = s
    · subst hts
      simp at ht
      apply depsOK_upd hnt
      have old : x.passed = true → DepsOK c σ.loc t := fun hx => h t (by rw [hl]; exact hx)
      cases g <;> simp [Gen.trans] at htr <;> subst htr <;> (try (simp [St.passed] at ht; done)) <;>
        (try (exact old (by rfl); done))
      case noDepSteps hd =>
        left; intro d hdm; simp [hd] at hdm
      case waitDone hd =>
        left; intro d hdm
        have hpd : (σ.pub d).1.done = true := by
          simp [allDone, List.all_eq_true] at hd; exact hd d hdm
        rw [hp.1 d (done_terminal hpd)]; exact hpd
      case waitBrokenIgnored hd htm hi =>
        right; refine ⟨hi, ?_⟩
        intro d hdm
        have hpd : (σ.pub d).1.terminal = true := by
          simp [allTerminal, List.all_eq_true] at htm; exact htm d hdm
        rw [hp.1 d hpd]; exact hpd
    · simp [hts] at ht
      exact depsOK_upd hnt (h t ht)

/-! ## C13: the shared slot counter -/

def cnt (f : Nat → St) : Nat → Nat
  | 0 => 0
  | n+1 => cnt f n + (if f n = .Running then 1 else 0)

theorem cnt_upd_ge (f : Nat → St) (s : Nat) (y : St) (n : Nat) (h : n ≤ s) : cnt (upd f s y) n = cnt f n := by
  induction n with
  | zero => rfl
  | succ m ih =>
    have hm : m ≠ s := by omega
    simp [cnt, ih (by omega), upd_other _ _ _ _ hm]

theorem cnt_upd_lt (f : Nat → St) (s : Nat) (y : St) (n : Nat) (h : s < n) :
    cnt (upd f s y) n + (if f s = .Running then 1 else 0) = cnt f n + (if y = .Running then 1 else 0) := by
  induction n with
  | zero => omega
  | succ m ih =>
    by_cases hm : s = m
    · subst hm
      simp only [cnt, upd_same, cnt_upd_ge f s y s (Nat.le_refl _)]
      omega
    · have hlt : s < m := by omega
      have := ih hlt
      have hne : m ≠ s := fun e => hm e.symm
      simp only [cnt, upd_other _ _ _ _ hne]
      omega

/-- threads in state `Running` + free slots = pool size -/
def PoolInv (c : Cfg) (σ : Sys) : Prop := cnt σ.loc c.n + σ.slots = c.pool

theorem poolInv_init (c : Cfg) : PoolInv c (init c) := by
  have : ∀ n, cnt (fun _ => St.Begin) n = 0 := by
    intro n; induction n with
    | zero => rfl
    | succ m ih => simp [cnt, ih]
  simp [PoolInv, init, this]

theorem poolInv_step {c : Cfg} {σ σ' : Sys} (h : PoolInv c σ) (st : Next c σ σ') : PoolInv c σ' := by
  cases st with
  | publish s hs hsent hfin => exact h
  | deliver s hs x rest hc => exact h
  | procExit s hs ok hpr => exact h
  | die s hs hfin hnt =>
    unfold PoolInv at *
    have key := cnt_upd_lt σ.loc s .Broken c.n hs
    simp only
    by_cases hr : σ.loc s = .Running <;> simp_all <;> omega
  | handler s hs x f e y k hl hf hsent hfin htr g =>
    unfold PoolInv at *
    have key := cnt_upd_lt σ.loc s y c.n hs
    simp only
    cases g <;> simp [Gen.trans] at htr <;> subst htr <;> simp_all <;> omega

/-- events by which the model's `Running` handlers give the slot back -/
def releasesSlot : Ev → Bool
  | .ProcessCompletedSuccessfully | .ProcessReturnedNonZero | .ProcessTimeout => true
  | _ => false

/-! ## the step command as a process -/

/-- states from which the command has certainly not been started -/
def Gen.St.preRun : St → Bool
  | .Running | .DoneByRunning | .Broken => false
  | _ => true

def ProcInv (σ : Sys) : Prop :=
  ∀ s, (σ.proc s = .running → σ.loc s = .Running ∧ σ.frm s = .WaitProcess) ∧
       (σ.loc s = .Running → σ.frm s = .StartProcess → σ.proc s = .idle) ∧
       (σ.loc s = .DoneByRunning → σ.proc s = .exited true) ∧
       ((σ.loc s).preRun = true → σ.proc s = .idle) ∧
       (σ.loc s = .Running → σ.frm s = .WaitProcess → σ.proc s = .running ∨ σ.proc s = .exited false ∨ σ.proc s = .exited true)

theorem procInv_init (c : Cfg) : ProcInv (init c) := by
  intro s; simp [init, St.preRun]

theorem procInv_step {c : Cfg} {σ σ' : Sys} (h : ProcInv σ) (st : Next c σ σ') : ProcInv σ' := by
  cases st with
  | publish s hs hsent hfin => exact h
  | deliver s hs x rest hc => exact h
  | procExit s hs ok hpr =>
    intro t
    obtain ⟨a, b, c', d, e'⟩ := h t
    by_cases hts : t = s
    · subst hts
      have ha := a hpr
      simp [ha.1, ha.2, St.preRun]
    · simp [hts]; exact ⟨a, b, c', d, e'⟩
  | die s hs hfin hnt =>
    intro t
    obtain ⟨a, b, c', d, e'⟩ := h t
    by_cases hts : t = s
    · subst hts
      simp [St.preRun]
      by_cases hr : σ.proc t = .running <;> simp [hr]
    · simp [hts]; exact ⟨a, b, c', d, e'⟩
  | handler s hs x f e y k hl hf hsent hfin htr g =>
    intro t
    obtain ⟨a, b, c', d, e'⟩ := h t
    by_cases hts : t = s
    · subst hts
      simp only [upd_same]
      cases g <;> simp [Gen.trans] at htr <;> subst htr <;>
        simp_all [procEffect, St.preRun]
    · simp [hts]; exact ⟨a, b, c', d, e'⟩

/-- running commands -/
def cntP (p : Nat → Proc) : Nat → Nat
  | 0 => 0
  | n+1 => cntP p n + (if p n = .running then 1 else 0)

theorem cntP_le_cnt {σ : Sys} (h : ProcInv σ) (n : Nat) : cntP σ.proc n ≤ cnt σ.loc n := by
  induction n with
  | zero => exact Nat.le_refl _
  | succ m ih =>
    simp only [cntP, cnt]
    by_cases hp : σ.proc m = .running
    · have := ((h m).1 hp).1
      simp [hp, this]; exact ih
    · simp [hp]; omega

/-- two distinct running commands count at least 2 -/
theorem cntP_one {p : Nat → Proc} {n s : Nat} (hs : s < n) (h : p s = .running) : 1 ≤ cntP p n := by
  induction n with
  | zero => omega
  | succ m ih =>
    by_cases hm : s = m
    · subst hm; simp [cntP, h]
    · have := ih (by omega); simp only [cntP]; omega

theorem cntP_two {p : Nat → Proc} {n s t : Nat} (hst : s < t) (ht : t < n) (h1 : p s = .running)
    (h2 : p t = .running) : 2 ≤ cntP p n := by
  induction n with
  | zero => omega
  | succ m ih =>
    by_cases hm : t = m
    · subst hm
      have := cntP_one (p := p) hst h1
      simp only [cntP, h2]; simp; omega
    · have := ih (by omega); simp only [cntP]; omega

/-! ## a started command had its dependencies finished (and they stay finished) -/

def StartedInv (c : Cfg) (σ : Sys) : Prop := ∀ s, σ.proc s ≠ .idle → DepsOK c σ.loc s

theorem startedInv_step {c : Cfg} {σ σ' : Sys} (hd : DepsInv c σ') (h : StartedInv c σ)
    (st : Next c σ σ') : StartedInv c σ' := by
  cases st with
  | publish s hs hsent hfin => exact h
  | deliver s hs x rest hc => exact h
  | procExit s hs ok hpr =>
    intro t ht
    by_cases hts : t = s
    · subst hts; exact h t (by rw [hpr]; simp)
    · simp [hts] at ht; exact h t ht
  | die s hs hfin hnt =>
    intro t ht
    simp only at ht ⊢
    apply depsOK_upd hnt
    by_cases hts : t = s
    · subst hts
      apply h t
      intro hidle; simp [hidle] at ht
    · simp [hts] at ht; exact h t ht
  | handler s hs x f e y k hl hf hsent hfin htr g =>
    have hnt : (σ.loc s).terminal = false := by rw [hl]; exact guard_src_not_terminal g
    intro t ht
    simp only at ht ⊢
    by_cases hts : t = s
    · subst hts
      simp only [upd_same] at ht
      by_cases hidle : σ.proc t = .idle
      · -- the command is spawned by this step: the new state is `Running`, which is `passed`
        have hy : y.passed = true := by
          cases g <;> simp [Gen.trans] at htr <;> subst htr <;> simp_all [procEffect, St.passed]
        have := hd t
        simp only [upd_same] at this
        exact this hy
      · exact depsOK_upd hnt (h t hidle)
    · simp [hts] at ht
      exact depsOK_upd hnt (h t ht)

/-! ## all invariants together -/

structure Inv (c : Cfg) (σ : Sys) : Prop where
  pub : PubSound σ
  deps : DepsInv c σ
  pool : PoolInv c σ
  proc : ProcInv σ
  started : StartedInv c σ

theorem inv_init (c : Cfg) : Inv c (init c) :=
  ⟨pubSound_init c, by intro s hs; simp [init, St.passed] at hs, poolInv_init c, procInv_init c,
   by intro s hs; simp [init] at hs⟩

theorem inv_step {c : Cfg} {σ σ' : Sys} (h : Inv c σ) (st : Next c σ σ') : Inv c σ' :=
  ⟨pubSound_step h.pub st, depsInv_step h.pub h.deps st, poolInv_step h.pool st, procInv_step h.proc st,
   startedInv_step (depsInv_step h.pub h.deps st) h.started st⟩

theorem reach_inv {c : Cfg} {σ : Sys} (r : Reach c σ) : Inv c σ := by
  induction r with
  | init => exact inv_init c
  | step _ st ih => exact inv_step ih st

end Sched
