import XvcPipeline.Sched
/-!
# Minimal models of the UNREPAIRED code, used only by the `*_unrepaired_counterexample` theorems

F6: `available_process_slots` was created inside `step_state_handler`: one counter per step thread, each initialised
to the pool size, so no thread ever saw a slot taken by another one.  `slots i` is the private counter of thread `i`;
thread `i` starts its command when `slots i > 0`.
-/
namespace Sched

structure F6State where
  running : Nat → Bool
  slots : Nat → Nat

inductive F6Step : F6State → F6State → Prop where
  | start (σ : F6State) (i : Nat) (h : 0 < σ.slots i) (hr : σ.running i = false) :
      F6Step σ { running := upd σ.running i true, slots := upd σ.slots i (σ.slots i - 1) }

end Sched
