import XvcPipeline.Term
/-!
# How many states a step publishes  (helper definitions and lemmas for C11: bounded channels)

Every state a step thread enters is sent once to its channel (`publish`), forwarded by the bulletin thread to the shared map
and to the notifier channel (bounded by `CHANNEL_CAPACITY = 100000`, never read).  `pubBound x f` is an upper bound for the
number of states a step still publishes when it is in state `x` entered by event `f` and has not sent it yet.
-/
namespace Sched
open Gen

/-- longest remaining path, in published states, through the handler table (hand written; checked against the GENERATED
    tables `Gen.emits` and `Gen.trans` by `pubBound_table`) -/
def pubBound : St → Ev → Nat
  | .Begin, _ => 12
  | .WaitingDependencySteps, .DependencyStepsRunning => 10
  | .WaitingDependencySteps, _ => 11
  | .CheckingOutputs, _ => 9
  | .CheckingSuperficialDiffs, _ => 8
  | .CheckingThoroughDiffs, _ => 7
  | .ComparingDiffsAndOutputs, _ => 6
  | .WaitingToRun, .ProcessPoolFull => 4
  | .WaitingToRun, _ => 5
  | .Running, .WaitProcess => 2
  | .Running, _ => 3
  | .DoneByRunning, _ => 1
  | .DoneWithoutRunning, _ => 1
  | .Broken, _ => 1

/-- along EVERY edge the handlers of the code can take (`Gen.emits`, regenerated from the `s_*` functions) the bound strictly
    decreases: no handler returns to a state that publishes again without progress.  A handler that returns a self transition
    from the state that transition enters (a publishing self loop: one more published state per poll) breaks this `decide`. -/
def pubBoundTable : Bool :=
  allSt.all fun x => x.terminal || allEv.all fun f => (emits x f).all fun e =>
    match trans x e with
    | some y => decide (pubBound y e < pubBound x f)
    | none => true

/-- every state publishes at least itself; a non terminal state at least one more -/
def pubBoundPositive : Bool :=
  allSt.all fun x => allEv.all fun f => decide (1 ≤ pubBound x f) && (x.terminal || decide (2 ≤ pubBound x f))

/-- states still to be published by step `s` -/
def remaining (σ : Sys) (s : Nat) : Nat :=
  if σ.fin s then 0
  else if σ.sent s then pubBound (σ.loc s) (σ.frm s) - 1
  else pubBound (σ.loc s) (σ.frm s)

/-- states a label makes step `s` publish: `publish`, and the `Broken` a failed thread publishes -/
def Label.pubs : Label → Nat → Nat
  | .publish t, s => if s = t then 1 else 0
  | .die t, s => if s = t then 1 else 0
  | _, _ => 0

def countPub (s : Nat) : List Label → Nat
  | [] => 0
  | l :: ls => l.pubs s + countPub s ls

/-- every event a guard of the model allows is returned by the source of the handler for that (state, entering event) -/
theorem guard_emits {c : Cfg} {σ : Sys} {s : Nat} {x : St} {f e : Ev} {k : Nat} (g : Guard c σ s x f e k) : e ∈ emits x f := by
  cases g with
  | checkedOutputs f hf => rcases hf with rfl | rfl <;> simp [emits]
  | superficialChanged f hf => rcases hf with rfl | rfl <;> simp [emits]
  | superficialNotChanged f hf _ => rcases hf with rfl | rfl <;> simp [emits]
  | thoroughChanged f hf => rcases hf with rfl | rfl <;> simp [emits]
  | thoroughNotChanged f hf _ => rcases hf with rfl | rfl <;> simp [emits]
  | cmpRunAlways f hf _ => rcases hf with rfl | rfl <;> simp [emits]
  | cmpChanged f hf _ => rcases hf with rfl | rfl <;> simp [emits]
  | cmpNotChanged f hf _ => rcases hf with rfl | rfl <;> simp [emits]
  | start f hf _ => rcases hf with rfl | rfl | rfl <;> simp [emits]
  | poolFull f hf _ => rcases hf with rfl | rfl <;> simp [emits]
  | _ => simp [emits]

theorem pubBound_decreases (htab : pubBoundTable = true) {x y : St} {f e : Ev} (hnt : x.terminal = false)
    (he : e ∈ emits x f) (ht : trans x e = some y) : pubBound y e < pubBound x f := by
  unfold pubBoundTable at htab
  simp only [List.all_eq_true] at htab
  have h := htab x (mem_allSt x)
  simp only [hnt, Bool.false_or, List.all_eq_true] at h
  have h2 := h f (mem_allEv f) e he
  rw [ht] at h2
  simpa using h2

theorem pubBound_pos (hpos : pubBoundPositive = true) (x : St) (f : Ev) :
    1 ≤ pubBound x f ∧ (x.terminal = false → 2 ≤ pubBound x f) := by
  unfold pubBoundPositive at hpos
  simp only [List.all_eq_true] at hpos
  have h := hpos x (mem_allSt x) f (mem_allEv f)
  simp only [Bool.and_eq_true, decide_eq_true_eq, Bool.or_eq_true] at h
  refine ⟨h.1, fun hnt => ?_⟩
  rcases h.2 with h2 | h2
  · rw [hnt] at h2; cases h2
  · exact h2

/-- one step of the executable model: what it publishes for step `s` is paid for by the decrease of `remaining` -/
theorem stepL_remaining (htab : pubBoundTable = true) (hpos : pubBoundPositive = true)
    (hem : ∀ {c : Cfg} {σ : Sys} {s : Nat} {x : St} {f e : Ev} {k : Nat}, Guard c σ s x f e k → e ∈ emits x f)
    {c : Cfg} {σ σ' : Sys} {l : Label} (h : stepL c σ l = some σ') (s : Nat) :
    l.pubs s + remaining σ' s ≤ remaining σ s := by
  cases l with
  | publish t =>
    simp only [stepL] at h
    split at h
    · rename_i hc
      cases h
      by_cases hst : s = t
      · subst hst
        have hp := pubBound_pos hpos (σ.loc s) (σ.frm s)
        simp only [Label.pubs, remaining, upd_same, hc.2.1, hc.2.2, if_true]
        cases hterm : (σ.loc s).terminal <;> simp <;> omega
      · simp [Label.pubs, remaining, hst]
    · cases h
  | handler t e =>
    simp only [stepL] at h
    split at h
    · rename_i hc
      split at h
      · rename_i y k ht hg
        cases h
        by_cases hst : s = t
        · subst hst
          have g := guardB_sound hg
          have hd := pubBound_decreases htab (guard_src_not_terminal g) (hem g) ht
          simp only [Label.pubs, remaining, upd_same, hc.2.1, hc.2.2]
          simp; omega
        · simp [Label.pubs, remaining, hst]
      · cases h
    · cases h
  | deliver t =>
    simp only [stepL] at h
    split at h
    · split at h
      · cases h; simp [Label.pubs, remaining]
      · cases h
    · cases h
  | procExit t ok =>
    simp only [stepL] at h
    split at h
    · cases h; simp [Label.pubs, remaining]
    · cases h
  | die t =>
    simp only [stepL] at h
    split at h
    · rename_i hc
      cases h
      by_cases hst : s = t
      · subst hst
        have hp := (pubBound_pos hpos (σ.loc s) (σ.frm s)).2 hc.2.2
        simp only [Label.pubs, remaining, upd_same, hc.2.1, if_true]
        cases hsent : σ.sent s <;> simp <;> omega
      · simp [Label.pubs, remaining, hst]
    · cases h

theorem runL_pub_bound (htab : pubBoundTable = true) (hpos : pubBoundPositive = true)
    (hem : ∀ {c : Cfg} {σ : Sys} {s : Nat} {x : St} {f e : Ev} {k : Nat}, Guard c σ s x f e k → e ∈ emits x f)
    {c : Cfg} (B : Nat) :
    ∀ (ls : List Label) (σ σ' : Sys) (acc : Nat → Nat), (∀ s, acc s + remaining σ s ≤ B) → runL c σ ls = some σ' →
      ∀ s, acc s + countPub s ls ≤ B := by
  intro ls
  induction ls with
  | nil => intro σ σ' acc h _ s; have := h s; simp [countPub]; omega
  | cons l ls ih =>
    intro σ σ' acc h hr s
    simp only [runL] at hr
    split at hr
    · rename_i σ1 h1
      have key := ih σ1 σ' (fun s => acc s + l.pubs s)
        (by intro t; have := stepL_remaining htab hpos hem h1 t; have := h t; omega) hr s
      simp only [countPub]; omega
    · cases hr

/-- publications of all steps together -/
def totalPub (n : Nat) (ls : List Label) : Nat := sumTo (fun s => countPub s ls) n

theorem sumTo_le_mul {f : Nat → Nat} {B : Nat} (h : ∀ s, f s ≤ B) (n : Nat) : sumTo f n ≤ B * n := by
  induction n with
  | zero => simp [sumTo]
  | succ m ih => have := h m; simp only [sumTo, Nat.mul_succ]; omega

end Sched
