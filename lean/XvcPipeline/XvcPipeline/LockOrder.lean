import XvcPipeline.Gen.Locks
/-!
# Lock order: no wait-for cycle  (helper definitions and lemmas for C11)

A general model of blocking locks: any type of threads `T`, any type of locks `L`, a snapshot of who HOLDS which lock (as a
reader or as a writer alike) and who WAITS for which lock.  Thread `t` waits for thread `u` when `t` waits for a lock that
`u` holds.  A std `RwLock` makes a second `read()` of a thread that already holds a read guard wait as soon as a writer
is queued, so "waits for a lock it holds itself" is a wait-for cycle of length one.

`lockReach` is the transitive closure of the GENERATED table `Gen.lockEdges`, computed by iteration.
-/
namespace Sched
open Gen

section General
variable {T L : Type}

/-- `t` waits for a lock that `u` holds -/
def WaitsFor (holds waits : T → L → Prop) (t u : T) : Prop := ∃ l, waits t l ∧ holds u l

/-- a non-empty chain of waiting threads -/
inductive WaitChain (holds waits : T → L → Prop) : T → T → Prop where
  | single {t u} : WaitsFor holds waits t u → WaitChain holds waits t u
  | tail {t u v} : WaitChain holds waits t u → WaitsFor holds waits u v → WaitChain holds waits t v

/-- along a chain the awaited locks increase: the first lock awaited is at most the lock through which the last
    thread is reached -/
theorem waitChain_increases {holds waits : T → L → Prop} {lt : L → L → Prop}
    (trans : ∀ a b c, lt a b → lt b c → lt a c)
    (disc : ∀ t l h, waits t l → holds t h → lt h l)
    {t u : T} (c : WaitChain holds waits t u) :
    ∃ l0, waits t l0 ∧ ∃ lk, holds u lk ∧ (l0 = lk ∨ lt l0 lk) := by
  induction c with
  | single w => obtain ⟨l, hw, hh⟩ := w; exact ⟨l, hw, l, hh, Or.inl rfl⟩
  | tail _ w ih =>
    obtain ⟨l0, hw0, lk, hhk, hle⟩ := ih
    obtain ⟨l, hw, hh⟩ := w
    have hlt := disc _ l lk hw hhk
    refine ⟨l0, hw0, l, hh, Or.inr ?_⟩
    rcases hle with rfl | hle
    · exact hlt
    · exact trans _ _ _ hle hlt

/-- LOCK ORDER THEOREM.  For any number of threads, any locks and any moment of any schedule: if every thread that waits
    for a lock holds only locks that are strictly smaller in a strict order (in particular it never waits for a lock it
    holds), then no thread is in a wait-for cycle — nobody waits, directly or through others, for itself. -/
theorem no_wait_cycle {holds waits : T → L → Prop} {lt : L → L → Prop}
    (irrefl : ∀ a, ¬ lt a a) (trans : ∀ a b c, lt a b → lt b c → lt a c)
    (disc : ∀ t l h, waits t l → holds t h → lt h l) (t : T) : ¬ WaitChain holds waits t t := by
  intro c
  obtain ⟨l0, hw0, lk, hhk, hle⟩ := waitChain_increases trans disc c
  have hlt := disc t l0 lk hw0 hhk
  rcases hle with rfl | hle
  · exact irrefl _ hlt
  · exact irrefl _ (trans _ _ _ hle hlt)

end General

/-! ## the extracted table -/

def lockStep (r : Lock → Lock → Bool) (a b : Lock) : Bool :=
  r a b || allLocks.any (fun m => r a m && r m b)

def lockEdge (a b : Lock) : Bool := lockEdges.contains (a, b)

/-- closure by repeated squaring: `2^k ≥ number of locks` iterations suffice for any table with up to 16 locks;
    transitivity of the result is CHECKED (`lockReach_trans`), not assumed -/
def lockReach : Lock → Lock → Bool := lockStep (lockStep (lockStep (lockStep lockEdge)))

end Sched
