import XvcPipeline.Sched
import XvcPipeline.Gen.PoolOps
/-!
# The process pool as the LIST of its slot holders  (C13, round 6)

`Sched.lean` models the pool as the code has it: ONE counter `available_process_slots` (`Sys.slots`), decremented by
`reserve_process_slot`, incremented by `release_process_slot` and by the failure block of `step_state_handler`.  A counter
cannot say WHO holds a slot.  This file is the same pool with the holders spelled out: every step that holds a slot has one
entry in `holders`, and the entry is the step's COMMAND (`XvcStepCommand`, a value with equality: two steps of one pipeline
may have the same command string).  `Sys.slots` is `pool - holders.length`.

What a release does to the list is a parameter (`Gen.ReleaseOp`, regenerated from the code by `parse_pool_ops`):
a counter increment / `erase` take ONE entry away, `retain(|c| c != x)` takes every EQUAL entry away.
`Props/C13.lean` proves the pool bound for the first kind for EVERY assignment of commands to steps, and refutes it for the second.
-/
namespace Sched.Pool
open Gen

/-- `release` on the list of holders.  Commands are numbers: only their equality matters.
    A bare counter has no identities: `+= 1` is "one holder fewer" -/
def releaseSem : ReleaseOp → List Nat → Nat → List Nat
  | .counterInc, hs, c => hs.erase c
  | .eraseOne, hs, c => hs.erase c
  | .removeAllEqual, hs, c => hs.filter (fun x => x != c)
  | .unknown, _, _ => []

/-- the release gives back the slot of ONE holder -/
def _root_.Sched.Gen.ReleaseOp.removesOne : ReleaseOp → Bool
  | .counterInc | .eraseOne => true
  | _ => false

/-- the reservation checks for a free slot and takes it under one lock -/
def _root_.Sched.Gen.ReserveOp.guarded : ReserveOp → Bool
  | .guardedDec | .guardedPush => true
  | _ => false

structure PSys where
  /-- the commands of the steps that hold a slot, one entry per holding step -/
  holders : List Nat
  /-- step `s` holds a slot (its thread is in state `Running`) -/
  run : Nat → Bool

/-- `cmd s` = the command of step `s` (ANY function: equal commands allowed), steps `0 .. n-1`, `pool` slots -/
inductive PNext (rop : ReserveOp) (op : ReleaseOp) (cmd : Nat → Nat) (n pool : Nat) : PSys → PSys → Prop where
  /-- `reserve_process_slot` returned true -/
  | reserve (σ : PSys) (s : Nat) (hs : s < n) (h : σ.run s = false)
      (hfree : rop.guarded = true → σ.holders.length < pool) :
      PNext rop op cmd n pool σ { holders := cmd s :: σ.holders, run := upd σ.run s true }
  /-- `release_process_slot` / the failure block of `step_state_handler`, by a step that holds a slot -/
  | release (σ : PSys) (s : Nat) (hs : s < n) (h : σ.run s = true) :
      PNext rop op cmd n pool σ { holders := releaseSem op σ.holders (cmd s), run := upd σ.run s false }

inductive PReach (rop : ReserveOp) (op : ReleaseOp) (cmd : Nat → Nat) (n pool : Nat) : PSys → Prop where
  | init : PReach rop op cmd n pool { holders := [], run := fun _ => false }
  | step {σ σ'} : PReach rop op cmd n pool σ → PNext rop op cmd n pool σ σ' → PReach rop op cmd n pool σ'

/-- number of `s < n` with `f s` -/
def cntB (f : Nat → Bool) : Nat → Nat
  | 0 => 0
  | n+1 => cntB f n + (if f n then 1 else 0)

theorem cntB_congr {f g : Nat → Bool} (n : Nat) (h : ∀ i, i < n → f i = g i) : cntB f n = cntB g n := by
  induction n with
  | zero => rfl
  | succ m ih => simp [cntB, ih (fun i hi => h i (by omega)), h m (by omega)]

theorem cntB_false (n : Nat) : cntB (fun _ => false) n = 0 := by
  induction n with
  | zero => rfl
  | succ m ih => simp [cntB, ih]

theorem cntB_upd_ge (f : Nat → Bool) (s : Nat) (v : Bool) (n : Nat) (h : n ≤ s) : cntB (upd f s v) n = cntB f n :=
  cntB_congr n (fun i hi => upd_other _ _ _ _ (by omega))

theorem cntB_upd_lt (f : Nat → Bool) (s : Nat) (v : Bool) (n : Nat) (h : s < n) :
    cntB (upd f s v) n + (if f s then 1 else 0) = cntB f n + (if v then 1 else 0) := by
  induction n with
  | zero => omega
  | succ m ih =>
    by_cases hm : s = m
    · subst hm
      simp only [cntB, upd_same, cntB_upd_ge f s v s (Nat.le_refl _)]
      omega
    · have hlt : s < m := by omega
      have := ih hlt
      have hne : m ≠ s := fun e => hm e.symm
      simp only [cntB, upd_other _ _ _ _ hne]
      omega

theorem cntB_pos {f : Nat → Bool} {n s : Nat} (hs : s < n) (h : f s = true) : 1 ≤ cntB f n := by
  induction n with
  | zero => omega
  | succ m ih =>
    by_cases hm : s = m
    · subst hm; simp [cntB, h]
    · have := ih (by omega); simp only [cntB]; omega

/-- the holders with command `c` among the steps that hold a slot -/
def holdsCmd (run : Nat → Bool) (cmd : Nat → Nat) (c : Nat) : Nat → Bool := fun t => run t && (cmd t == c)

theorem holdsCmd_upd (run : Nat → Bool) (cmd : Nat → Nat) (c s : Nat) (v : Bool) (i : Nat) :
    holdsCmd (upd run s v) cmd c i = upd (holdsCmd run cmd c) s (v && (cmd s == c)) i := by
  by_cases h : i = s
  · subst h; simp [holdsCmd]
  · simp [holdsCmd, upd_other _ _ _ _ h]

/-- the list of holders is exact: as many entries as steps that hold a slot, and for every command `c` as many entries `c` as
    holding steps whose command is `c` -/
structure PInv (cmd : Nat → Nat) (n : Nat) (σ : PSys) : Prop where
  len : σ.holders.length = cntB σ.run n
  cnt : ∀ c, σ.holders.count c = cntB (holdsCmd σ.run cmd c) n

theorem releaseSem_removesOne {op : ReleaseOp} (h : op.removesOne = true) (hs : List Nat) (c : Nat) :
    releaseSem op hs c = hs.erase c := by
  cases op <;> simp [Gen.ReleaseOp.removesOne] at h <;> rfl

theorem pinv_step {rop : ReserveOp} {op : ReleaseOp} (hop : op.removesOne = true) {cmd : Nat → Nat} {n pool : Nat}
    {σ σ' : PSys} (i : PInv cmd n σ) (st : PNext rop op cmd n pool σ σ') : PInv cmd n σ' := by
  cases st with
  | reserve s hs h hfree =>
    constructor
    · have := cntB_upd_lt σ.run s true n hs
      simp [h] at this
      simp [i.len, this]
    · intro c
      have e : cntB (holdsCmd (upd σ.run s true) cmd c) n = cntB (upd (holdsCmd σ.run cmd c) s (true && (cmd s == c))) n :=
        cntB_congr n (fun j _ => holdsCmd_upd σ.run cmd c s true j)
      have := cntB_upd_lt (holdsCmd σ.run cmd c) s (true && (cmd s == c)) n hs
      simp [holdsCmd, h] at this
      simp only [e, List.count_cons, i.cnt c]
      by_cases hc : cmd s = c <;> simp [hc] at this ⊢ <;> omega
  | release s hs h =>
    have hmem : cmd s ∈ σ.holders := by
      have h1 : 1 ≤ cntB (holdsCmd σ.run cmd (cmd s)) n := cntB_pos hs (by simp [holdsCmd, h])
      have h2 := i.cnt (cmd s)
      exact List.count_pos_iff.mp (by omega)
    constructor
    · have := cntB_upd_lt σ.run s false n hs
      simp [h] at this
      have hl := i.len
      simp only [releaseSem_removesOne hop, List.length_erase_of_mem hmem]
      omega
    · intro c
      have hfs : holdsCmd σ.run cmd c s = (cmd s == c) := by simp [holdsCmd, h]
      have key := cntB_upd_lt (holdsCmd σ.run cmd c) s false n hs
      rw [hfs] at key
      have e : cntB (holdsCmd (upd σ.run s false) cmd c) n = cntB (upd (holdsCmd σ.run cmd c) s false) n :=
        cntB_congr n (fun j _ => by rw [holdsCmd_upd]; simp)
      have hc0 := i.cnt c
      simp only [releaseSem_removesOne hop]
      by_cases hc : cmd s = c
      · subst hc
        simp at key
        rw [e, List.count_erase_self]
        omega
      · have hne : c ≠ cmd s := fun x => hc x.symm
        have hb : (cmd s == c) = false := by simp [hc]
        rw [hb] at key
        simp at key
        rw [e, List.count_erase_of_ne hne]
        omega

theorem pinv_reach {rop : ReserveOp} {op : ReleaseOp} (hop : op.removesOne = true) {cmd : Nat → Nat} {n pool : Nat}
    {σ : PSys} (r : PReach rop op cmd n pool σ) : PInv cmd n σ := by
  induction r with
  | init =>
    refine ⟨by simp [cntB_false], fun c => ?_⟩
    have : cntB (holdsCmd (fun _ => false) cmd c) n = 0 :=
      (cntB_congr n (fun j _ => by simp [holdsCmd])).trans (cntB_false n)
    simp [this]
  | step _ st ih => exact pinv_step hop ih st

theorem len_le_pool {rop : ReserveOp} {op : ReleaseOp} (hr : rop.guarded = true) (hop : op.removesOne = true)
    {cmd : Nat → Nat} {n pool : Nat} {σ : PSys} (r : PReach rop op cmd n pool σ) : σ.holders.length ≤ pool := by
  induction r with
  | init => simp
  | step r0 st ih =>
    cases st with
    | reserve s hs h hfree => have := hfree hr; simp; omega
    | release s hs h =>
      simp only [releaseSem_removesOne hop]
      exact Nat.le_trans (List.erase_sublist).length_le ih

end Sched.Pool
