import XvcPipeline.Progress
import XvcPipeline.Relay
import XvcPipeline.Demo
import XvcPipeline.LockOrder
import XvcPipeline.PmpLock
import XvcPipeline.Gen.FailurePath
import XvcPipeline.PubBound
/-!
# C11 — `xvc pipeline run` always terminates with a verdict for every step

Model: `Sched.lean` after fix patches C11-F5 (all dependencies finished and some broken ⇒ broken), C11-K4b (a failing
step thread publishes `Broken`, returns its slot, its command is killed) and C13-F6; `Relay.lean` after C11-K4a.
All theorems: every pipeline, every combination of outcomes (`procExit` with any status, comparison results chosen by
the handlers, thread failures `die` at any moment), every schedule.

Assumptions (hypotheses of the theorems or of the model, see §5/§7 of DESIGN.md): the dependency graph is acyclic
(`Ranked`, otherwise the run is rejected, C10), `pipeline.process_pool_size > 0`, step commands terminate
(`procExit` is a step of the system); the bounded channels (capacity 100000) never block for pipelines of at most 8333
steps: `C11_publications_bounded`, `C11_bounded_channels_never_block`.
-/
namespace Sched
open Gen

/-- EVERY step of the system strictly decreases a natural-number measure
    (Σ over the steps: 4·rank of (state, entering event) + 2·[state not sent] + queued states + [command running]);
    the rank comes from `fsmRank`, which `fsmRank_edges` checks against the GENERATED table -/
theorem C11_measure {c : Cfg} {σ σ' : Sys} (st : Next c σ σ') : measure c σ' < measure c σ := measure_step st

/-- hence there is no infinite run: no step is left waiting, polling or relaying forever -/
theorem C11_no_infinite_run {c : Cfg} (f : Nat → Sys) (h : ∀ i, Next c (f i) (f (i + 1))) : False :=
  no_infinite_run f h

/-- a bound on the length of every run from the initial state: at most 67 transitions per step -/
theorem C11_run_length_bound (c : Cfg) : measure c (init c) = 70 * c.n := by
  have : ∀ n, sumTo (stepWeight (init c)) n = 70 * n := by
    intro n
    induction n with
    | zero => rfl
    | succ m ih =>
      have h : stepWeight (init c) m = 70 := by
        simp [stepWeight, init, rank2, selfLoop, fsmRank, Gen.trans]
      simp only [sumTo, ih, h]; omega
  exact this c.n

/-- DEADLOCK FREEDOM: in every reachable state of an acyclic pipeline with a non-empty pool that is not final,
    some step of the system other than a thread failure is enabled (this is where fix F5 is needed: a waiting step
    whose dependencies have all finished can always leave `WaitingDependencySteps`) -/
theorem C11_progress {c : Cfg} {σ : Sys} (r : Reach c σ) (hwf : WF c.n c.deps) (hr : Ranked c.n c.deps)
    (hpool : 0 < c.pool) (hnf : ¬ Final c σ) :
    ∃ l, l.isDie = false ∧ (stepL c σ l).isSome = true := progress r hwf hr hpool hnf

/-- so a run can only stop in a final state -/
theorem C11_stuck_is_final {c : Cfg} {σ : Sys} (r : Reach c σ) (hwf : WF c.n c.deps) (hr : Ranked c.n c.deps)
    (hpool : 0 < c.pool) (hstuck : ∀ l, l.isDie = false → stepL c σ l = none) : Final c σ := by
  apply Classical.byContradiction
  intro hnf
  obtain ⟨l, hl, hs⟩ := C11_progress r hwf hr hpool hnf
  rw [hstuck l hl] at hs; cases hs

/-- THE VERDICT: in a final state every step is `DoneByRunning`, `DoneWithoutRunning` or `Broken`, and the bulletin
    map (from which `the_grand_pipeline_loop` computes the result of the run) shows exactly that state -/
theorem C11_final_verdict {c : Cfg} {σ : Sys} (r : Reach c σ) (hf : Final c σ) (s : Nat) (hs : s < c.n) :
    (σ.loc s = .DoneByRunning ∨ σ.loc s = .DoneWithoutRunning ∨ σ.loc s = .Broken) ∧
    σ.pub s = (σ.loc s, σ.frm s) := by
  have I := reach_inv2 r
  obtain ⟨hfin, hchan⟩ := hf s hs
  obtain ⟨hsent, hterm⟩ := (I.finI s).1 hfin
  constructor
  · cases hl : σ.loc s <;> simp [hl, St.terminal] at hterm <;> simp
  · have := (I.finI s).2.2 hsent
    rw [hchan] at this; exact this

/-- from every reachable state the run completes: a final state is reachable without any thread failure
    (together with `C11_no_infinite_run`: every run that keeps taking enabled steps ends in a final state) -/
theorem C11_terminates {c : Cfg} (hwf : WF c.n c.deps) (hr : Ranked c.n c.deps) (hpool : 0 < c.pool) :
    ∀ (k : Nat) (σ : Sys), measure c σ = k → Reach c σ → ∃ σ', Reach c σ' ∧ Final c σ' := by
  intro k
  induction k using Nat.strongRecOn with
  | _ k ih =>
    intro σ hk r
    by_cases hf : Final c σ
    · exact ⟨σ, r, hf⟩
    · obtain ⟨l, _, hs⟩ := C11_progress r hwf hr hpool hf
      cases hσ : stepL c σ l with
      | none => rw [hσ] at hs; cases hs
      | some σ1 =>
        have st := stepL_sound hσ
        exact ih (measure c σ1) (by rw [← hk]; exact measure_step st) σ1 rfl (.step r st)

/-- fix K4b in the model: a failing step thread leaves its step `Broken`, published and finished, whatever it was
    doing; nobody waits for it forever (`C11_progress` holds in the resulting state like in any other) -/
theorem C11_thread_failure_publishes_broken {c : Cfg} {σ σ' : Sys} (s : Nat)
    (h : stepL c σ (.die s) = some σ') :
    σ'.loc s = .Broken ∧ σ'.fin s = true ∧ (St.Broken, Ev.KeepBroken) ∈ σ'.chan s := by
  simp only [stepL] at h
  split at h
  · cases h; simp
  · cases h

/-! ### non-vacuity: the F5 shape -/

/-- one dependency done, one broken: the waiting step becomes `Broken` (the unrepaired loop polled forever here),
    the run reaches a final state with a verdict for every step -/
example : (runL demoJoin (init demoJoin)
    ([.publish 2, .handler 2 .RunConditional, .publish 2, .handler 2 .DependencyStepsRunning, .publish 2] ++
     runTo 0 true ++ runTo 1 false ++ [.handler 2 .DependencyStepsFinishedBroken, .publish 2] ++ deliverN 2 4)).map
    (fun σ => (decide (σ.loc 0 = .DoneByRunning), decide (σ.loc 1 = .Broken), decide (σ.loc 2 = .Broken),
               (List.range 3).all (fun s => σ.fin s && (σ.chan s).isEmpty))) = some (true, true, true, true) := by decide

/-- and it cannot proceed as if they were done -/
example : (runL demoJoin (init demoJoin)
    ([.publish 2, .handler 2 .RunConditional, .publish 2, .handler 2 .DependencyStepsRunning, .publish 2] ++
     runTo 0 true ++ runTo 1 false ++ [.handler 2 .DependencyStepsFinishedSuccessfully])).isSome = false := by decide

/-! ### F5 (repaired by C11-F5.patch): the unrepaired wait loop returned only when ALL dependencies were done or
ALL were broken -/

/-- a reachable state in which every dependency of step 2 has FINISHED in the bulletin (so, by `C10_pub_monotone`,
    the bulletin never changes again for them) and the unrepaired condition is false: the old loop polled forever,
    while the repaired guard `waitBroken` is enabled (first example above) -/
theorem C11_F5_unrepaired_counterexample :
    ∃ σ, Reach demoJoin σ ∧ allTerminal demoJoin σ 2 = true ∧ oldWaitReturns demoJoin σ 2 = false ∧
      σ.loc 2 = .WaitingDependencySteps :=
  ⟨f5State, runL_reach .init f5Labels (Option.some_get f5_isSome).symm, by decide, by decide, by decide⟩

/-- the hypotheses of `C11_progress` are satisfiable (`Ranked`, `WF` for the join) -/
example : WF demoJoin.n demoJoin.deps ∧ Ranked demoJoin.n demoJoin.deps := by
  constructor
  · intro s hs d hd
    simp only [demoJoin] at hd hs ⊢
    split at hd <;> simp at hd
    rcases hd with rfl | rfl <;> omega
  · refine ⟨id, ?_⟩
    intro s hs d hd
    simp only [demoJoin] at hd
    by_cases h2 : s = 2
    · subst h2; simp at hd; rcases hd with rfl | rfl <;> simp
    · simp [h2] at hd

/-! ## The bounded channels never block

The model's channels are unbounded lists; the real ones are `crossbeam_channel::bounded(CHANNEL_CAPACITY)` with
`CHANNEL_CAPACITY = 100000`, and the notifier channel into which `step_state_bulletin` forwards EVERY published state is never
read: after 100000 publications in one run the bulletin thread blocks forever.  What the model assumes is therefore a theorem
about the regenerated handler table: no step publishes more than 12 states. -/

/-- over the REGENERATED handler table (`Gen.emits`, `Gen.trans`): along every edge a handler of the code can take the number
    of states still to be published strictly decreases — in particular no handler returns a self transition from the state
    that transition enters (no publishing self loop: with it every 10 ms poll would publish one more state) -/
theorem C11_publish_table_decreases : pubBoundTable = true ∧ pubBoundPositive = true := by decide

/-- the events the model's guards allow are events the handler's source returns -/
theorem C11_guard_in_handler_table {c : Cfg} {σ : Sys} {s : Nat} {x : St} {f e : Ev} {k : Nat}
    (g : Guard c σ s x f e k) : e ∈ emits x f := guard_emits g

/-- ALONG EVERY RUN of the executable model (the runs the trace validator accepts; thread failures included) every step
    publishes at most 12 states -/
theorem C11_publications_bounded {c : Cfg} {σ' : Sys} (ls : List Label) (h : runL c (init c) ls = some σ') (s : Nat) :
    countPub s ls ≤ 12 := by
  have := runL_pub_bound C11_publish_table_decreases.1 C11_publish_table_decreases.2
    (fun g => C11_guard_in_handler_table g) 12 ls (init c) σ' (fun _ => 0)
    (by intro t; simp [remaining, init, pubBound]) h s
  simpa using this

/-- hence all steps together publish at most 12·n states, and a pipeline of at most 8333 steps never fills a channel of
    capacity 100000: the bounded channels of the implementation never block (limit of the UNCHANGED code: a run is bounded
    to 100000 publications in total, i.e. ⌊100000/12⌋ = 8333 steps) -/
theorem C11_bounded_channels_never_block {c : Cfg} {σ' : Sys} (ls : List Label) (h : runL c (init c) ls = some σ')
    (hn : c.n ≤ 8333) : totalPub c.n ls ≤ 12 * c.n ∧ totalPub c.n ls ≤ 100000 := by
  have h1 : totalPub c.n ls ≤ 12 * c.n := sumTo_le_mul (fun s => C11_publications_bounded ls h s) c.n
  exact ⟨h1, by omega⟩

/-- non-vacuity: the bound is tight up to the one state a step without dependency steps skips — an independent step that
    finds the pool full publishes 11 states (a step that also waited for dependency steps: 12) -/
example : (runL demoPool (init demoPool)
    (toWaitingToRun 0 ++ [.handler 0 .StartProcess, .publish 0, .handler 0 .WaitProcess, .publish 0] ++
     toWaitingToRun 1 ++ [.handler 1 .ProcessPoolFull, .publish 1, .procExit 0 true,
       .handler 0 .ProcessCompletedSuccessfully, .publish 0, .handler 1 .StartProcess, .publish 1, .handler 1 .WaitProcess, .publish 1,
       .procExit 1 true, .handler 1 .ProcessCompletedSuccessfully, .publish 1])).isSome = true ∧
    countPub 1 (toWaitingToRun 1 ++ [.handler 1 .ProcessPoolFull, .publish 1, .handler 1 .StartProcess, .publish 1,
      .handler 1 .WaitProcess, .publish 1, .handler 1 .ProcessCompletedSuccessfully, .publish 1]) = 11 := by decide

/-! ## A reserved slot always comes back (seed C11-4: a start failure returned as an ordinary transition leaked it) -/

/-- SLOT CONSERVATION over the regenerated tables (`Gen.emits`, `Gen.trans`): every event by which a handler of the code can
    leave `Running` — including a start failure — is one on which the slot reserved in `WaitingToRun` is given back; an error
    return is the thread-failure path, which gives it back too (`Next.die`, `C11_handler_final_on_every_path`).  A re-homed
    `CannotStartProcess: Running => Broken` returned as an ordinary transition leaks the slot and breaks this `decide`. -/
theorem C11_slot_released_on_every_exit_from_running :
    (allEv.all fun f => (emits .Running f).all fun e =>
      trans .Running e == some .Running || releasesSlot e) = true := by decide

/-! ## The failure path of a step thread when messages cannot be delivered

`Next.die` (fix K4b) gives the slot back and publishes `Broken` atomically.  The real `step_state_handler` does these things
one after the other and also reports the error on the output channel; `error!` is `send(..).unwrap()` and panics — outside
`catch_unwind` — when the output thread is gone (the reader of xvc's stdout closed the pipe).  Assumption of the termination
theorems about output otherwise: relaying never blocks (`C11_relay_no_block`); a FAILING emit is covered by this section.
`Gen.failurePath` is the source order of the three kinds of operation in the handler, regenerated on every run. -/

/-- run the failure path; an `emit` aborts the rest of the path when the output channel is dead.
    Result: (slot given back, `Broken` published) -/
def runFailurePath (emitFails : Bool) : List FailOp → Bool × Bool → Bool × Bool
  | [], acc => acc
  | .releaseSlot :: rest, (_, p) => runFailurePath emitFails rest (true, p)
  | .publishBroken :: rest, (r, _) => runFailurePath emitFails rest (r, true)
  | .emit :: rest, acc => if emitFails then acc else runFailurePath emitFails rest acc

/-- on EVERY path through the handler's failure branch — whether or not its messages can be delivered — the process slot
    has been given back and a final state has been published before anything can abort it: the model's atomic `die` step
    is what the code does -/
theorem C11_handler_final_on_every_path (emitFails : Bool) :
    runFailurePath emitFails failurePath (false, false) = (true, true) := by
  cases emitFails <;> decide

/-- non-vacuity: the reordered handler (report first) loses both when the output channel is dead -/
example : runFailurePath true [.emit, .releaseSlot, .publishBroken] (false, false) = (false, false) := by decide

/-! ## No step thread blocks forever on a lock

The scheduler model treats the sections under `dependency_diffs`, `output_diffs`, `current_states`,
`available_process_slots` and `command_process` as atomic.  That is justified only if no thread can block forever inside
one.  `Gen.lockEdges` (lib/lock_extract.py, regenerated from the Rust sources on every run) lists every pair
"lock acquired while a guard of another lock is held" that the sources contain. -/

/-- the extracted lock-nesting table has no self edge (no lock is re-acquired by a thread that holds it: a second `read()`
    on a std RwLock blocks behind a queued writer) and no cycle: its transitive closure is irreflexive -/
theorem C11_lock_order :
    (lockEdges.all fun e => e.1 != e.2) = true ∧ (allLocks.all fun l => !lockReach l l) = true := by decide

/-- the closure is transitive and contains the table: together with `C11_lock_order` a strict order on the locks in which
    every nested acquisition goes upwards -/
theorem C11_lock_order_strict :
    (allLocks.all fun a => allLocks.all fun b => allLocks.all fun c =>
      !(lockReach a b && lockReach b c) || lockReach a c) = true ∧
    (lockEdges.all fun e => lockReach e.1 e.2) = true := by decide

/-- the general theorem (any threads, any locks, readers and writers alike, any moment of any schedule): acquiring only
    upwards in a strict order excludes every wait-for cycle, including the cycle of length one -/
theorem C11_lock_order_no_wait_cycle {T L : Type} {holds waits : T → L → Prop} {lt : L → L → Prop}
    (irrefl : ∀ a, ¬ lt a a) (trans : ∀ a b c, lt a b → lt b c → lt a c)
    (disc : ∀ t l h, waits t l → holds t h → lt h l) (t : T) : ¬ WaitChain holds waits t t :=
  no_wait_cycle irrefl trans disc t

/-- hence: ANY set of threads whose nested acquisitions are all in the extracted table (what the extractor establishes
    for the step threads, the bulletin thread and the main thread of `xvc pipeline run`) never contains a thread that
    waits, directly or through others, for itself: no deadlock on these locks -/
theorem C11_no_lock_deadlock {T : Type} (holds waits : T → Lock → Prop)
    (respects : ∀ t l h, waits t l → holds t h → (h, l) ∈ lockEdges) (t : T) : ¬ WaitChain holds waits t t := by
  have ho := C11_lock_order.2
  have hs := C11_lock_order_strict
  simp only [List.all_eq_true] at ho hs
  apply no_wait_cycle (lt := fun a b => lockReach a b = true)
  · intro a h
    have := ho a (mem_allLocks a)
    simp [h] at this
  · intro a b c hab hbc
    have := hs.1 a (mem_allLocks a) b (mem_allLocks b) c (mem_allLocks c)
    simpa [hab, hbc] using this
  · intro t l h hw hh
    exact hs.2 (h, l) (respects t l h hw hh)

/-- non-vacuity of the discipline, for every edge of the table: a thread that holds `h` and waits for `l` while another
    thread holds `l` (e.g. `update_command_environment` holding `dependency_diffs`, waiting for `command_process`)
    respects the table -/
example (h l : Lock) (he : (h, l) ∈ lockEdges) : ∀ (t : Bool) (l' h' : Lock),
    (t = true ∧ l' = l) → ((t = true ∧ h' = h) ∨ (t = false ∧ h' = l)) → (h', l') ∈ lockEdges := by
  intro t l' h' hw hh
  obtain ⟨rfl, rfl⟩ := hw
  rcases hh with ⟨_, rfl⟩ | ⟨h1, _⟩
  · exact he
  · cases h1

/-- the recursive acquisition: a thread that holds a guard of a lock and waits for the same lock (a second `read()` behind
    a queued writer) is a wait-for cycle of length one — why a self edge in the table must break `C11_lock_order` -/
example (l : Lock) : WaitChain (fun (_ : Unit) (x : Lock) => x = l) (fun (_ : Unit) (x : Lock) => x = l) () () :=
  .single ⟨l, rfl, rfl⟩

/-! ## No step thread blocks itself inside the path metadata provider

Every dependency comparison looks its path up in the ONE `XvcPathMetadataProvider` of the run (core/src/util/pmp.rs); the map
is behind a std `RwLock` that all step threads and the file-system watcher thread share, and results are cached per path: the
second lookup of a path — by the same or by another step — takes a different branch from the first.  The scheduler model
treats a lookup as one atomic step that returns.  `Gen.pmpAcquisitions` (lib/lock_extract.py, regenerated on every run) lists
every acquisition event in the provider with the guards of the same thread alive at that point. -/

/-- over the REGENERATED table: no function of the provider acquires — in any mode, directly or through a call
    (`update_metadata`, the watcher's inserts) — a lock of which the same thread still holds a guard, and the nesting edges of
    the table have no cycle.  A `get` that calls `update_metadata` inside `if let Some(md) = self.path_map.read().unwrap().get(..)`
    adds the entry `held := [(path_map, shared)]`, `lock := path_map`, `mode := exclusive` and breaks this `decide`. -/
theorem C11_pmp_no_self_deadlock :
    pmpNoReacquire pmpAcquisitions = true ∧ (allPLocks.all fun l => !pReach l l) = true := by decide

/-- the closure is transitive and contains the nesting edges -/
theorem C11_pmp_order_strict :
    (allPLocks.all fun a => allPLocks.all fun b => allPLocks.all fun c => !(pReach a b && pReach b c) || pReach a c) = true ∧
    (pmpEdges.all fun e => pReach e.1 e.2) = true := by decide

/-- the general lemma (any lock type, any number of threads, any moment): a thread whose program of acquire/release operations
    never acquires a lock of which it holds a guard does not, at any point, wait for a lock it holds itself -/
theorem C11_no_reacquisition_no_self_wait {T L : Type} [DecidableEq L] (prog : T → List (GOp L)) (pc : T → Nat) (t : T)
    (h : NoReacquire (prog t) []) : ¬ WaitsFor (holdsAt prog pc) (waitsAt prog pc) t t := no_self_wait prog pc t h

/-- hence: ANY set of threads (step threads, the watcher thread) whose waiting points are acquisition events of the extracted
    table — the thread waits for the lock of the entry and holds at most the guards the entry lists — never contains a
    thread that waits, directly or through others, for itself: no deadlock inside the provider, a lookup returns -/
theorem C11_pmp_no_lock_deadlock {T : Type} (holds waits : T → PLock → Prop)
    (respects : ∀ t l, waits t l → ∃ a ∈ pmpAcquisitions, a.lock = l ∧ ∀ h, holds t h → h ∈ a.held.map (·.1)) (t : T) :
    ¬ WaitChain holds waits t t := by
  have ho := C11_pmp_no_self_deadlock.2
  have hs := C11_pmp_order_strict
  simp only [List.all_eq_true] at ho hs
  apply no_wait_cycle (lt := fun a b => pReach a b = true)
  · intro a h
    have := ho a (mem_allPLocks a)
    simp [h] at this
  · intro a b c hab hbc
    have := hs.1 a (mem_allPLocks a) b (mem_allPLocks b) c (mem_allPLocks c)
    simpa [hab, hbc] using this
  · intro t l h hw hh
    obtain ⟨a, ha, rfl, hheld⟩ := respects t l hw
    exact hs.2 (h, a.lock) (mem_pmpEdges ha (hheld h hh))

/-- non-vacuity: the table is not empty, contains exclusive acquisitions reached through a call (`get` → `update_metadata`) and
    the watcher's inserts, and the hypothesis of `C11_pmp_no_lock_deadlock` is satisfiable by a thread that waits for
    `path_map` while another one holds it -/
example : (pmpAcquisitions.any fun a => a.fn == "get" && a.mode == .exclusive) = true ∧
    (pmpAcquisitions.any fun a => a.fn == "new::{closure handle_fs_event}" && a.mode == .exclusive) = true ∧
    (pmpAcquisitions.any fun a => a.fn == "get" && a.mode == .shared) = true := by decide

example : ∀ (t : Bool) (l : PLock), (t = true ∧ l = .path_map) →
    ∃ a ∈ pmpAcquisitions, a.lock = l ∧ ∀ h, (t = false ∧ h = PLock.path_map) → h ∈ a.held.map (·.1) := by
  rintro t l ⟨rfl, rfl⟩
  have h : (pmpAcquisitions.any fun a => a.lock == .path_map) = true := by decide
  obtain ⟨a, ha, hl⟩ := List.any_eq_true.1 h
  exact ⟨a, ha, by simpa using hl, by rintro h ⟨ht, _⟩; cases ht⟩

/-- the discipline on a program: `get` of the unchanged code (read guard dropped before `update_metadata` writes, then a read) -/
example : NoReacquire (L := PLock)
    [.acquire .path_map, .release .path_map, .acquire .path_map, .release .path_map, .acquire .path_map, .release .path_map] [] := by
  simp [NoReacquire]

/-- THE RE-ACQUISITION (seed C11-5), on the model: a `get` that still holds the read guard of `path_map` when it calls
    `update_metadata` (i) is rejected by the table check, (ii) is a thread that waits for a lock it holds itself — a wait-for
    cycle of length one — and (iii) is refused by the RwLock for ever, whatever the other threads do -/
theorem C11_pmp_reacquisition_counterexample :
    pmpNoReacquire [{ fn := "get", line := 0, lock := .path_map, mode := .exclusive, held := [(.path_map, .shared)] }] = false ∧
    WaitChain (holdsAt (fun (_ : Unit) => [GOp.acquire PLock.path_map, .acquire .path_map]) (fun _ => 1))
              (waitsAt (fun (_ : Unit) => [GOp.acquire PLock.path_map, .acquire .path_map]) (fun _ => 1)) () () ∧
    ∀ g' : List (Unit × PMode), OtherSteps () [((), PMode.shared)] g' → grantable .exclusive g' = false := by
  refine ⟨by decide, .single ⟨.path_map, ⟨[], rfl⟩, by simp [holdsAt, heldAfter]⟩, ?_⟩
  intro g' h
  exact own_guard_blocks_forever (m := .shared) (by simp) h

end Sched

/-! ## Relaying the output never blocks the step -/
namespace Relay

/-- after fix K4a (`communicate`: both pipes are polled): for every program of the child, every pipe capacity > 0
    and every reachable state of child + relay, somebody can move until the relay is done ... -/
theorem C11_relay_no_block {cap : Nat} (hcap : 0 < cap) (prog : List Bool) {σ : RS}
    (r : Reach .concurrent cap (init prog) σ) (hd : σ.phase ≠ .done) : ∃ σ', Step .concurrent cap σ σ' := by
  have hne := concurrent_phase (σ0 := init prog) (by simp [init]) r
  cases hp : σ.phase with
  | out => exact concurrent_progress hcap hp
  | err => exact absurd hp hne
  | done => exact absurd hp hd

/-- ... and every move decreases a measure: the relay is done after finitely many steps, whatever is written -/
theorem C11_relay_terminates {m : Mode} {cap : Nat} {σ σ' : RS} (h : Step m cap σ σ') : measure σ' < measure σ :=
  measure_step h

/-- the unrepaired relay (stdout to end-of-file, then stderr) is free of deadlock when at most `cap` bytes go to
    stderr (excluded region of K4a as an explicit decidable hypothesis) -/
theorem C11_relay_sequential_partial {cap : Nat} (hcap : 0 < cap) (prog : List Bool) (hn : errs prog ≤ cap) {σ : RS}
    (r : Reach .sequential cap (init prog) σ) (hd : σ.phase ≠ .done) : ∃ σ', Step .sequential cap σ σ' :=
  sequential_progress hcap (seqInv_reach (seqInv_init hn) r) hd

/-- K4a: and it deadlocks for EVERY program that writes more than `cap` bytes to stderr -/
theorem C11_relay_sequential_counterexample {cap : Nat} (hcap : 0 < cap) (prog : List Bool) (hn : cap < errs prog) :
    ∃ σ, Reach .sequential cap (init prog) σ ∧ Stuck .sequential cap σ ∧ σ.phase ≠ .done := by
  have := sequential_deadlock hcap prog 0 (by omega) (by omega)
  simpa [init] using this

/-- the replayed instance: 65537 bytes to stderr with the Linux pipe capacity of 65536 -/
theorem C11_relay_K4a_instance :
    ∃ σ, Reach .sequential 65536 (init (List.replicate 65537 true)) σ ∧ Stuck .sequential 65536 σ ∧ σ.phase ≠ .done :=
  C11_relay_sequential_counterexample (by decide) _ (by rw [errs_replicate]; decide)

/-- non-vacuity: a concrete blocked state of the sequential relay (capacity 2, three bytes to stderr) -/
example : Stuck .sequential 2 { prog := [true], exited := false, po := 0, pe := 2, phase := .out } := by
  intro σ' st; cases st <;> simp_all

end Relay

#print axioms Sched.C11_measure
#print axioms Sched.C11_no_infinite_run
#print axioms Sched.C11_run_length_bound
#print axioms Sched.C11_progress
#print axioms Sched.C11_stuck_is_final
#print axioms Sched.C11_final_verdict
#print axioms Sched.C11_terminates
#print axioms Sched.C11_thread_failure_publishes_broken
#print axioms Sched.C11_F5_unrepaired_counterexample
#print axioms Sched.C11_publish_table_decreases
#print axioms Sched.C11_guard_in_handler_table
#print axioms Sched.C11_publications_bounded
#print axioms Sched.C11_bounded_channels_never_block
#print axioms Sched.C11_slot_released_on_every_exit_from_running
#print axioms Sched.C11_handler_final_on_every_path
#print axioms Sched.C11_lock_order
#print axioms Sched.C11_lock_order_strict
#print axioms Sched.C11_lock_order_no_wait_cycle
#print axioms Sched.C11_no_lock_deadlock
#print axioms Sched.C11_pmp_no_self_deadlock
#print axioms Sched.C11_pmp_order_strict
#print axioms Sched.C11_no_reacquisition_no_self_wait
#print axioms Sched.C11_pmp_no_lock_deadlock
#print axioms Sched.C11_pmp_reacquisition_counterexample
#print axioms Relay.C11_relay_no_block
#print axioms Relay.C11_relay_terminates
#print axioms Relay.C11_relay_sequential_partial
#print axioms Relay.C11_relay_sequential_counterexample
#print axioms Relay.C11_relay_K4a_instance
