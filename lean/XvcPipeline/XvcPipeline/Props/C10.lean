import XvcPipeline.Inv
/-!
# Property theorems C10 / C13 / C11 of the scheduler model

Only statements of the properties, non-vacuity examples and `#print axioms`.
Model: `Sched.lean` (transcription of pipeline/src/pipeline/mod.rs after the fix patches C13-F6, C11-F5,
C11-K4b, C11-K4a); generated tables: `Gen/StepFsm.lean`, `Gen/RunCond.lean`, `Gen/Handlers.lean`.
All theorems hold for every configuration `c` (any number of steps, any dependency relation, any pool size,
any run conditions) and every interleaving of the `Next` rules.
-/
namespace Sched
open Gen

/-! ## C10 -/

/-- every step of the system moves every local state along an edge of the GENERATED state machine
    (or leaves it unchanged, or is the forced `Broken` of a failed step thread) -/
theorem C10_fsm_respected {c : Cfg} {σ σ' : Sys} (st : Next c σ σ') (s : Nat) :
    σ'.loc s = σ.loc s ∨ (∃ e, trans (σ.loc s) e = some (σ'.loc s)) ∨
    ((σ.loc s).terminal = false ∧ σ'.loc s = .Broken) := by
  cases st with
  | publish t _ _ _ => left; rfl
  | deliver t _ _ _ => left; rfl
  | procExit t _ _ => left; rfl
  | die t _ _ hnt =>
    by_cases h : s = t
    · subst h; right; right; exact ⟨hnt, by simp⟩
    · left; simp [h]
  | handler t _ x f e y k hl _ _ _ ht _ =>
    by_cases h : s = t
    · subst h; right; left; exact ⟨e, by simp [hl, ht]⟩
    · left; simp [h]

/-- the events the model allows a handler to return are exactly the events the handler's source returns
    (`Gen.emits` is extracted from the `s_*` functions on every run) -/
theorem C10_handlers_match_code :
    (allSt.all fun x => x.terminal || allEv.all fun f => allEv.all fun e =>
      (guardEvents x f).contains e == (emits x f).contains e) = true := by decide

theorem C10_guard_events {c σ s x f e k} (g : Guard c σ s x f e k) : e ∈ guardEvents x f := by
  cases g with
  | checkedOutputs f hf => rcases hf with rfl | rfl <;> simp [guardEvents]
  | superficialChanged f hf => rcases hf with rfl | rfl <;> simp [guardEvents]
  | superficialNotChanged f hf _ => rcases hf with rfl | rfl <;> simp [guardEvents]
  | thoroughChanged f hf => rcases hf with rfl | rfl <;> simp [guardEvents]
  | thoroughNotChanged f hf _ => rcases hf with rfl | rfl <;> simp [guardEvents]
  | cmpRunAlways f hf _ => rcases hf with rfl | rfl <;> simp [guardEvents]
  | cmpChanged f hf _ => rcases hf with rfl | rfl <;> simp [guardEvents]
  | cmpNotChanged f hf _ => rcases hf with rfl | rfl <;> simp [guardEvents]
  | start f hf _ => rcases hf with rfl | rfl | rfl <;> simp [guardEvents]
  | poolFull f hf _ => rcases hf with rfl | rfl <;> simp [guardEvents]
  | _ => simp [guardEvents]

end Sched
