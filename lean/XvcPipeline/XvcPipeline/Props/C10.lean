import XvcPipeline.Progress
import XvcPipeline.Demo
import XvcPipeline.Gen.ExitStatus
import XvcPipeline.Gen.ImplicitEdges
/-!
# Property theorems C10 / C13 / C11 of the scheduler model

Only statements of the properties, non-vacuity examples and `#print axioms`.
Model: `Sched.lean` (transcription of pipeline/src/pipeline/mod.rs after the fix patches C13-F6, C11-F5,
C11-K4b, C11-K4a); generated tables: `Gen/StepFsm.lean`, `Gen/RunCond.lean`, `Gen/Handlers.lean`.
All theorems hold for every configuration `c` (any number of steps, any dependency relation, any pool size,
any run conditions) and every interleaving of the `Next` rules.
-/
namespace Sched
open Gen

/-! ## C10 -/

/-- every step of the system moves every local state along an edge of the GENERATED state machine
    (or leaves it unchanged, or is the forced `Broken` of a failed step thread) -/
theorem C10_fsm_respected {c : Cfg} {σ σ' : Sys} (st : Next c σ σ') (s : Nat) :
    σ'.loc s = σ.loc s ∨ (∃ e, trans (σ.loc s) e = some (σ'.loc s)) ∨
    ((σ.loc s).terminal = false ∧ σ'.loc s = .Broken) := by
  cases st with
  | publish t _ _ _ => left; rfl
  | deliver t _ _ _ _ => left; rfl
  | procExit t _ _ _ => left; rfl
  | die t _ _ hnt =>
    by_cases h : s = t
    · subst h; right; right; exact ⟨hnt, by simp⟩
    · left; simp [h]
  | handler t _ x f e y k hl _ _ _ ht _ =>
    by_cases h : s = t
    · subst h; right; left; exact ⟨e, by simp [hl, ht]⟩
    · left; simp [h]

/-- the events the model allows a handler to return are exactly the events the handler's source returns
    (`Gen.emits` is extracted from the `s_*` functions on every run) -/
theorem C10_handlers_match_code :
    (allSt.all fun x => x.terminal || allEv.all fun f => allEv.all fun e =>
      (guardEvents x f).contains e == (emits x f).contains e) = true := by decide

theorem C10_guard_events {c σ s x f e k} (g : Guard c σ s x f e k) : e ∈ guardEvents x f := by
  cases g with
  | checkedOutputs f hf => rcases hf with rfl | rfl <;> simp [guardEvents]
  | superficialChanged f hf => rcases hf with rfl | rfl <;> simp [guardEvents]
  | superficialNotChanged f hf _ => rcases hf with rfl | rfl <;> simp [guardEvents]
  | thoroughChanged f hf => rcases hf with rfl | rfl <;> simp [guardEvents]
  | thoroughNotChanged f hf _ => rcases hf with rfl | rfl <;> simp [guardEvents]
  | cmpRunAlways f hf _ => rcases hf with rfl | rfl <;> simp [guardEvents]
  | cmpChanged f hf _ => rcases hf with rfl | rfl <;> simp [guardEvents]
  | cmpNotChanged f hf _ => rcases hf with rfl | rfl <;> simp [guardEvents]
  | start f hf _ => rcases hf with rfl | rfl | rfl <;> simp [guardEvents]
  | poolFull f hf _ => rcases hf with rfl | rfl <;> simp [guardEvents]
  | _ => simp [guardEvents]

/-- THE ORDERING PROPERTY.  In every reachable state, for every graph and every schedule: if the command of step
    `s` has been started (is running, has exited or was killed), then every step `d` it depends on has finished
    successfully in this run (`DoneByRunning`, its command exited with status 0) or was found up to date
    (`DoneWithoutRunning`, its command was never started); unless `s` ignores broken dependencies (`always`),
    in which case every dependency has at least finished and no dependency command is running. -/
theorem C10_deps_done_before_start {c : Cfg} {σ : Sys} (r : Reach c σ) (s : Nat) (h : σ.proc s ≠ .idle) :
    (∀ d ∈ c.deps s, (σ.loc d = .DoneByRunning ∧ σ.proc d = .exited true) ∨
                     (σ.loc d = .DoneWithoutRunning ∧ σ.proc d = .idle)) ∨
    ((c.rc s).ignore_broken_dep_steps = true ∧
      ∀ d ∈ c.deps s, (σ.loc d).terminal = true ∧ σ.proc d ≠ .running) := by
  have I := reach_inv r
  rcases I.started s h with hd | ⟨hi, ht⟩
  · left
    intro d hdm
    have hdone := hd d hdm
    cases hl : σ.loc d <;> simp [hl, St.done] at hdone
    · right; exact ⟨rfl, (I.proc d).2.2.2.1 (by rw [hl]; rfl)⟩
    · left; exact ⟨rfl, (I.proc d).2.2.1 hl⟩
  · right
    refine ⟨hi, ?_⟩
    intro d hdm
    refine ⟨ht d hdm, ?_⟩
    intro hrun
    have := ((I.proc d).1 hrun).1
    have ht' := ht d hdm
    rw [this] at ht'; cases ht'

/-- what the bulletin map shows as finished is the real, final local state of that step -/
theorem C10_pub_sound {c : Cfg} {σ : Sys} (r : Reach c σ) (d : Nat) (h : (σ.pub d).1.terminal = true) :
    σ.loc d = (σ.pub d).1 := (reach_inv r).pub.1 d h

/-- finished local states never change (terminal states are absorbing) -/
theorem C10_terminal_absorbing {c : Cfg} {σ σ' : Sys} (st : Next c σ σ') (d : Nat)
    (h : (σ.loc d).terminal = true) : σ'.loc d = σ.loc d := by
  cases st with
  | publish t _ _ _ => rfl
  | deliver t _ _ _ _ => rfl
  | procExit t _ _ _ => rfl
  | die t _ _ hnt =>
    by_cases hdt : d = t
    · subst hdt; rw [h] at hnt; cases hnt
    · simp [hdt]
  | handler t _ x f e y k hl _ _ _ _ g =>
    by_cases hdt : d = t
    · subst hdt; have := guard_src_not_terminal g; rw [← hl, h] at this; cases this
    · simp [hdt]

/-- the bulletin is monotone: once it shows a finished state for a step it never shows anything else
    (this is what makes the validation of hook traces against reconstructed bulletin states sound) -/
theorem C10_pub_monotone {c : Cfg} {σ σ' : Sys} (r : Reach c σ) (st : Next c σ σ') (d : Nat)
    (h : (σ.pub d).1.terminal = true) : σ'.pub d = σ.pub d := by
  have hc := pub_terminal_chan_empty (reach_inv2 r).chanI d h
  cases st with
  | publish t _ _ _ => rfl
  | procExit t _ _ _ => rfl
  | die t _ _ _ => rfl
  | handler t _ x f e y k _ _ _ _ _ _ => rfl
  | deliver t _ x rest hx =>
    by_cases hdt : d = t
    · subst hdt; rw [hc] at hx; cases hx
    · simp [hdt]

/-- a step that does not ignore broken dependencies never starts its command (and never gets past
    `WaitingDependencySteps`) once one of its dependencies is broken -/
theorem C10_failed_upstream_blocks {c : Cfg} {σ : Sys} (r : Reach c σ) (s d : Nat) (hd : d ∈ c.deps s)
    (hb : σ.loc d = .Broken) (hi : (c.rc s).ignore_broken_dep_steps = false) :
    σ.proc s = .idle ∧ (σ.loc s).passed = false := by
  have I := reach_inv r
  have no : ¬ DepsOK c σ.loc s := by
    intro h
    rcases h with h | ⟨h, _⟩
    · have := h d hd; rw [hb] at this; cases this
    · rw [hi] at h; cases h
  constructor
  · apply Classical.byContradiction; intro h; exact no (I.started s h)
  · cases hp : (σ.loc s).passed
    · rfl
    · exact absurd (I.deps s hp) no

/-- ... and a broken dependency stays broken, so this holds forever -/
theorem C10_broken_forever {c : Cfg} {σ σ' : Sys} (st : Next c σ σ') (d : Nat) (hb : σ.loc d = .Broken) :
    σ'.loc d = .Broken := by
  rw [C10_terminal_absorbing st d (by rw [hb]; rfl)]; exact hb

/-! ### which finished commands count as successful

The model abstracts the exit status of a step command to `ok : Bool` (`Next.procExit`, `Proc.exited ok`): `exitOk` needs
`exited true`, `exitFail` needs `exited false`.  `Gen.exitEvent` is regenerated from the arms of `match poll_result` in
`s_running_f_wait_process`; the theorems pin the abstraction `ok = (status = Exited 0)`. -/

/-- the ONLY exit status the code maps to the done event is `Exited(0)`: a command that exited with another code, was
    terminated by a signal (`Signaled`), or ended in any other way (`Other`, `Undetermined`) does not finish successfully -/
theorem C10_only_exit_zero_is_done (st : ExitStatus) :
    exitEvent st = .ProcessCompletedSuccessfully ↔ st = .Exited 0 := by
  cases st with
  | Exited n => cases n <;> simp [exitEvent]
  | Signaled n => simp [exitEvent]
  | Other n => simp [exitEvent]
  | Undetermined => simp [exitEvent]

/-- every other exit status yields an event of the generated machine that leads from `Running` to `Broken`, and
    `Exited(0)` leads to `DoneByRunning`: the Bool abstraction of the model is exactly the code's classification -/
theorem C10_exit_status_abstraction (st : ExitStatus) :
    trans .Running (exitEvent st) = some (if st = .Exited 0 then .DoneByRunning else .Broken) ∧
    (exitEvent st = .ProcessCompletedSuccessfully ∨ exitEvent st = .ProcessReturnedNonZero) := by
  cases st with
  | Exited n => cases n <;> simp [exitEvent, Gen.trans]
  | Signaled n => simp [exitEvent, Gen.trans]
  | Other n => simp [exitEvent, Gen.trans]
  | Undetermined => simp [exitEvent, Gen.trans]

/-- non-vacuity: a command killed by SIGSEGV, by SIGKILL, and one that exits with 139 are all failures -/
example : exitEvent (.Signaled 11) = .ProcessReturnedNonZero ∧ exitEvent (.Signaled 9) = .ProcessReturnedNonZero ∧
    exitEvent (.Exited 139) = .ProcessReturnedNonZero ∧ exitEvent (.Exited 0) = .ProcessCompletedSuccessfully := by decide

/-! ### the implicit edges do not depend on what an earlier run recorded

`Gen.depEdge` is regenerated from the arms of `let has_path = match dep { .. }` in `dependencies_to_path`; `buildGraph` uses it
(`DepRec.reads`).  A recorded item was found through the declared pattern (`rh → gm`) and a recorded item means the record is
not empty (`rh → ¬ re`). -/

/-- for every kind of dependency: whether a step depends on the producer of an output is decided by the DECLARED path or
    pattern alone; the items recorded by an earlier run make no difference -/
theorem C10_edge_independent_of_recorded_state (k : DepKind) (pe gm rh re : Bool)
    (h1 : rh = true → gm = true) (h2 : rh = true → re = false) :
    depEdge k pe gm rh re = depEdge k pe gm false true := by
  cases k <;> cases pe <;> cases gm <;> cases rh <;> cases re <;> simp_all [depEdge]

/-- a declared glob pattern that matches a declared output is an edge, whatever is recorded -/
theorem C10_glob_match_is_edge (rh re : Bool) :
    depEdge .Glob false true rh re = true ∧ depEdge .GlobItems false true rh re = true := by
  cases rh <;> cases re <;> simp [depEdge]

/-- at the level of the graph model: a glob-items dependency with recorded items reads exactly the paths it reads with no
    recorded items (an output added to the pipeline after a run is not overlooked) -/
theorem C10_recorded_items_do_not_hide_outputs (g : String) (recorded : List String) (p : String)
    (hrec : ∀ q ∈ recorded, globMatch g.toList q.toList = true) :
    (DepRec.globItems g recorded).reads p = (DepRec.globItems g []).reads p := by
  simp only [DepRec.reads]
  have h := C10_edge_independent_of_recorded_state .GlobItems false (globMatch g.toList p.toList)
    (recorded.contains p) recorded.isEmpty
    (by intro hc; exact hrec p (by simpa using hc))
    (by intro hc; cases recorded with
        | nil => simp at hc
        | cons _ _ => rfl)
  simpa using h

/-- non-vacuity (the C10-3 shape): items are recorded (`re = false`), the new output is not one of them (`rh = false`), the
    declared pattern matches it (`gm = true`): it is read -/
example : depEdge .GlobItems false true false false = true := by decide

/-! ### every producer of a path is a dependency -/

/-- the graph model has an edge (consumer, p) for EVERY step p that declares an output the consumer reads — for all
    producers of a path, not for one of them -/
theorem C10_every_producer_is_a_dependency (p : Pipeline) (i j : Nat) (o : String) (r : DepRec)
    (hj : j < p.n) (ho : o ∈ p.outs j) (hr : r ∈ p.recs i) (hread : r.reads o = true) : j ∈ buildGraph p i := by
  unfold buildGraph
  apply mem_dedup
  apply List.mem_append_right
  simp only [List.mem_filter, List.mem_range, List.any_eq_true]
  exact ⟨hj, o, ho, r, hr, hread⟩

/-- transcription of `add_implicit_dependencies` (regenerated): the edge is added inside the loop over all steps and all their
    declared outputs, and no map keyed by the output path is built (which would keep one producer per path) -/
theorem C10_implicit_edges_per_producer : edgePerProducerAndOutput = true ∧ producersIndexedByPath = false := by decide

/-- non-vacuity: two steps declare `x.txt`, step 0 reads it: both are dependencies -/
example : buildGraph { n := 3, recs := fun i => if i = 0 then [.path .File "x.txt"] else [],
                       outs := fun j => if j = 0 then [] else ["x.txt"] } 0 = [1, 2] := by decide

/-- the cycle test of the model is exact: Kahn succeeds iff the steps can be ranked so that every dependency has a
    smaller rank than its dependent, i.e. iff the graph has no cycle -/
theorem C10_acyclic_iff_toposort {n : Nat} {deps : Nat → List Nat} (hwf : WF n deps) :
    acyclic n deps = true ↔ Ranked n deps :=
  ⟨toposort_ranked, ranked_toposort hwf⟩

/-- a pipeline whose graph has a cycle is rejected: the run has no scheduler state at all, so no step thread is
    spawned and no command runs -/
theorem C10_cycle_rejected {c : Cfg} (hwf : WF c.n c.deps) (h : ¬ Ranked c.n c.deps) : start c = none := by
  have : acyclic c.n c.deps = false := by
    cases ha : acyclic c.n c.deps
    · rfl
    · exact absurd ((C10_acyclic_iff_toposort hwf).mp ha) h
  simp [start, this]

/-- and an acyclic one starts in the initial state of the transition system -/
theorem C10_acyclic_starts {c : Cfg} (hwf : WF c.n c.deps) (h : Ranked c.n c.deps) : start c = some (init c) := by
  simp [start, (C10_acyclic_iff_toposort hwf).mpr h]

/-- every label sequence the trace validator (`schedmodel sched-validate`) executes is a run of the system -/
theorem C10_validated_trace_is_run {c : Cfg} {σ' : Sys} (ls : List Label) (h : runL c (init c) ls = some σ') :
    Reach c σ' := runL_reach .init ls h

/-! ### non-vacuity: concrete runs of the executable model -/

/-- the hypotheses of `C10_deps_done_before_start` are satisfiable: the command of step 1 is running, after its
    dependency exited with status 0 -/
example : (runL demoChain (init demoChain) demoOk).map
    (fun σ => (decide (σ.proc 1 = .running), decide (σ.loc 0 = .DoneByRunning), decide (σ.proc 0 = .exited true))) =
    some (true, true, true) := by decide

/-- step 1 may NOT proceed while step 0 is still running: the `waitDone` guard is false -/
example : (runL demoChain (init demoChain)
    ([.publish 0, .handler 0 .RunConditional, .publish 0, .handler 0 .DependencyStepsFinishedSuccessfully, .publish 0] ++
     toRunning 0 ++ deliverN 0 9 ++
     [.publish 1, .handler 1 .RunConditional, .publish 1, .handler 1 .DependencyStepsRunning, .publish 1,
      .handler 1 .DependencyStepsFinishedSuccessfully])).isSome = false := by decide

example : (runL demoChain (init demoChain) demoFail).map
    (fun σ => (decide (σ.loc 0 = .Broken), decide (σ.loc 1 = .Broken), decide (σ.proc 1 = .idle))) =
    some (true, true, true) := by decide

/-- a 2-cycle and a self loop are rejected, a chain is accepted -/
example : acyclic 2 (fun i => if i = 0 then [1] else [0]) = false := by decide
example : acyclic 1 (fun _ => [0]) = false := by decide
example : acyclic 3 (fun i => if i = 0 then [] else [i - 1]) = true := by decide
example : ¬ Ranked 2 (fun i => if i = 0 then [1] else [0]) := by
  intro ⟨rank, h⟩
  have h1 := h 0 (by decide) 1 (by simp)
  have h2 := h 1 (by decide) 0 (by simp)
  omega

#print axioms C10_fsm_respected
#print axioms C10_handlers_match_code
#print axioms C10_guard_events
#print axioms C10_deps_done_before_start
#print axioms C10_pub_sound
#print axioms C10_terminal_absorbing
#print axioms C10_pub_monotone
#print axioms C10_failed_upstream_blocks
#print axioms C10_broken_forever
#print axioms C10_edge_independent_of_recorded_state
#print axioms C10_glob_match_is_edge
#print axioms C10_recorded_items_do_not_hide_outputs
#print axioms C10_every_producer_is_a_dependency
#print axioms C10_implicit_edges_per_producer
#print axioms C10_only_exit_zero_is_done
#print axioms C10_exit_status_abstraction
#print axioms C10_acyclic_iff_toposort
#print axioms C10_cycle_rejected
#print axioms C10_acyclic_starts
#print axioms C10_validated_trace_is_run
end Sched
