import XvcPipeline.Props.C10
import XvcPipeline.Unrepaired
import XvcPipeline.Gen.WaitPath
import XvcPipeline.Pool
/-!
# C13 — Concurrent step commands never exceed the configured process pool

Model: `Sched.lean` after fix patch C13-F6 (ONE `available_process_slots` counter created in
`the_grand_pipeline_loop`; `reserve_process_slot` checks and decrements under one write lock).
All theorems: every pipeline, every pool size, every schedule.
-/
namespace Sched
open Gen

/-- at every moment of every run: the number of running step commands, and of step threads in state `Running`,
    is at most `pipeline.process_pool_size` -/
theorem C13_pool_bound {c : Cfg} {σ : Sys} (r : Reach c σ) :
    cntP σ.proc c.n ≤ c.pool ∧ cnt σ.loc c.n ≤ c.pool := by
  have h := reach_inv r
  have h1 := cntP_le_cnt h.proc c.n
  have h2 : cnt σ.loc c.n + σ.slots = c.pool := h.pool
  omega

/-- the counter is exact: free slots + threads holding a slot = pool size (no slot is lost or invented, also when
    a step thread fails) -/
theorem C13_slots_exact {c : Cfg} {σ : Sys} (r : Reach c σ) : cnt σ.loc c.n + σ.slots = c.pool :=
  (reach_inv r).pool

/-- the counter never leaves `0 .. pool`: it is a natural number that is decremented only under the guard `0 < slots`
    (`Guard.start`), so it cannot wrap below zero, and by `C13_slots_exact` it never exceeds the pool size.  The trace
    validator relies on this: a logged counter value above the pool size is not a state of the model. -/
theorem C13_slots_bounded {c : Cfg} {σ : Sys} (r : Reach c σ) : σ.slots ≤ c.pool := by
  have := C13_slots_exact r; omega

/-- a reservation never succeeds on an empty pool and always takes exactly one slot -/
theorem C13_reserve_guarded {c : Cfg} {σ : Sys} {s : Nat} {f : Ev} {k : Nat}
    (g : Guard c σ s .WaitingToRun f .StartProcess k) : 0 < σ.slots ∧ k + 1 = σ.slots := by
  cases g with
  | start _ _ hs => exact ⟨hs, by omega⟩

/-! ### the slot is held from the reservation until the command has EXITED -/

/-- a command that is running belongs to a step thread in state `Running`, i.e. to one of the threads `C13_slots_exact` counts
    as slot holders: the slot is held in every `Running` state, from `StartProcess` until the exit is reported -/
theorem C13_command_running_holds_slot {c : Cfg} {σ : Sys} (r : Reach c σ) (s : Nat) (h : σ.proc s = .running) :
    σ.loc s = .Running ∧ σ.frm s = .WaitProcess := ((reach_inv r).proc s).1 h

/-- the model gives the slot back exactly on the events that LEAVE `Running`, and those need the command to have exited
    (or to be terminated by the timeout): no release while the command runs on -/
theorem C13_exit_guard_releases {c : Cfg} {σ : Sys} {s : Nat} {f e : Ev} {k : Nat} {y : St}
    (g : Guard c σ s .Running f e k) (ht : trans .Running e = some y) (hy : y ≠ .Running) :
    k = σ.slots + 1 ∧ (σ.proc s = .exited true ∨ σ.proc s = .exited false ∨ e = .ProcessTimeout) := by
  cases g with
  | spawn => simp [Gen.trans] at ht; exact absurd ht.symm hy
  | exitOk hp => exact ⟨rfl, Or.inl hp⟩
  | exitFail hp => exact ⟨rfl, Or.inr (Or.inl hp)⟩
  | timeout hp => exact ⟨rfl, Or.inr (Or.inr rfl)⟩

/-- over the REGENERATED source order of `s_running_f_wait_process`: the slot is given back exactly once, after the loop that
    polls the command until it has exited — not before it (e.g. after the first read of the output, which ends when the command
    CLOSES its streams) and not inside it -/
theorem C13_slot_released_only_after_exit : waitPath = [.pollUntilExit, .releaseSlot] := by decide

/-- with a pool of 1 no two step commands ever run at the same time: the executions are totally ordered -/
theorem C13_pool_one_serial {c : Cfg} {σ : Sys} (r : Reach c σ) (hp : c.pool = 1) (s t : Nat)
    (hs : s < c.n) (ht : t < c.n) (h1 : σ.proc s = .running) (h2 : σ.proc t = .running) : s = t := by
  have hb := (C13_pool_bound r).1
  rcases Nat.lt_trichotomy s t with h | h | h
  · have := cntP_two h ht h1 h2; omega
  · exact h
  · have := cntP_two h hs h2 h1; omega

/-- ... and that order is compatible with the dependency graph: whenever the command of `s` has been started,
    no command of a step it depends on is running (it ended before, by C10) -/
theorem C13_serial_respects_deps {c : Cfg} {σ : Sys} (r : Reach c σ) (s d : Nat) (hd : d ∈ c.deps s)
    (h : σ.proc s ≠ .idle) : σ.proc d ≠ .running := by
  rcases C10_deps_done_before_start r s h with h1 | ⟨_, h2⟩
  · rcases h1 d hd with ⟨_, hp⟩ | ⟨_, hp⟩ <;> rw [hp] <;> simp
  · exact (h2 d hd).2

/-! ### non-vacuity -/

/-- the bound is tight and the pool really blocks: step 0 runs, step 1 finds the pool full, cannot start, and starts
    after step 0 has ended -/
example : (runL demoPool (init demoPool)
    (toWaitingToRun 0 ++ [.handler 0 .StartProcess, .publish 0, .handler 0 .WaitProcess, .publish 0] ++
     toWaitingToRun 1 ++ [.handler 1 .ProcessPoolFull, .publish 1])).map
    (fun σ => (cntP σ.proc 3, σ.slots, decide (σ.frm 1 = .ProcessPoolFull))) = some (1, 0, true) := by decide

example : (runL demoPool (init demoPool)
    (toWaitingToRun 0 ++ [.handler 0 .StartProcess, .publish 0, .handler 0 .WaitProcess, .publish 0] ++
     toWaitingToRun 1 ++ [.handler 1 .StartProcess])).isSome = false := by decide

example : (runL demoPool (init demoPool)
    (toWaitingToRun 0 ++ [.handler 0 .StartProcess, .publish 0, .handler 0 .WaitProcess, .publish 0] ++
     toWaitingToRun 1 ++ [.handler 1 .ProcessPoolFull, .publish 1, .procExit 0 true,
       .handler 0 .ProcessCompletedSuccessfully, .handler 1 .StartProcess, .publish 1, .handler 1 .WaitProcess])).map
    (fun σ => (cntP σ.proc 3, σ.slots, decide (σ.proc 1 = .running), decide (σ.proc 0 = .exited true))) =
    some (1, 0, true, true) := by decide

/-! ### F6 (repaired by C13-F6.patch): the unrepaired counter was created inside `step_state_handler`

One counter per step thread, each initialised to the pool size: no thread ever sees a slot taken by another one.
Minimal model of that arrangement: `slots i` is the private counter of thread `i`, thread `i` starts its command when
`slots i > 0`. -/

/-- with private counters two commands run at the same time although the pool size is 1 -/
theorem C13_F6_unrepaired_counterexample :
    ∃ σ1 σ2, F6Step { running := fun _ => false, slots := fun _ => 1 } σ1 ∧ F6Step σ1 σ2 ∧
      σ2.running 0 = true ∧ σ2.running 1 = true := by
  refine ⟨_, _, .start _ 0 (by decide) rfl, .start _ 1 (by simp) (by simp), by simp, by simp⟩

/-! ### the identity of the slot holders does not matter (round 6; `Pool.lean`, table `Gen/PoolOps.lean`)

The pool with its holders spelled out: `holders` has one entry per step that holds a slot, the entry is the step's command.
`cmd : Nat → Nat` assigns commands to steps and is ARBITRARY: several steps of a pipeline may have the same command string. -/

open Pool in
/-- a release that erases ONE occurrence gives back exactly one slot and touches no other holder, however many holders are equal:
    the list gets one shorter, the released command is held once less, every other command as often as before -/
theorem C13_release_removes_one_holder (hs : List Nat) (c : Nat) (h : c ∈ hs) :
    (hs.erase c).length + 1 = hs.length ∧ (hs.erase c).count c + 1 = hs.count c ∧
    ∀ d, d ≠ c → (hs.erase c).count d = hs.count d := by
  have hp : 0 < hs.count c := List.count_pos_iff.mpr h
  have hl : 0 < hs.length := List.length_pos_of_mem h
  refine ⟨?_, ?_, fun d hd => List.count_erase_of_ne hd⟩
  · rw [List.length_erase_of_mem h]; omega
  · rw [List.count_erase_self]; omega

open Pool in
/-- for ANY assignment of commands to steps, equal ones included, any number of steps and any pool size, at every moment of every
    run of reservations and releases: with a guarded reservation and a release that removes one holder (a counter increment or
    `erase`), at most `pool` steps hold a slot, the list of holders is exactly as long as the number of holding steps, and every
    command is listed as often as there are holding steps with that command (no slot lost, none invented) -/
theorem C13_pool_bound_with_duplicate_commands {rop : Gen.ReserveOp} {op : Gen.ReleaseOp}
    (hr : rop.guarded = true) (hop : op.removesOne = true) {cmd : Nat → Nat} {n pool : Nat} {σ : PSys}
    (r : PReach rop op cmd n pool σ) :
    cntB σ.run n ≤ pool ∧ σ.holders.length = cntB σ.run n ∧
    ∀ c, σ.holders.count c = cntB (holdsCmd σ.run cmd c) n := by
  have i := pinv_reach hop r
  have := len_le_pool hr hop r
  exact ⟨by rw [← i.len]; exact this, i.len, i.cnt⟩

open Pool in
/-- over the REGENERATED table of what the code does (`parse_pool_ops`): the reservation is guarded and EVERY release site
    (`release_process_slot`, the failure block of `step_state_handler`) gives back the slot of one holder; hence the bound
    of `C13_pool_bound_with_duplicate_commands` holds for the operations the code has, whatever the commands are -/
theorem C13_generated_pool_ops_keep_bound :
    Gen.reserveOp.guarded = true ∧ (∀ op ∈ Gen.releaseOps, op.removesOne = true) ∧
    ∀ op ∈ Gen.releaseOps, ∀ (cmd : Nat → Nat) (n pool : Nat) (σ : PSys),
      PReach Gen.reserveOp op cmd n pool σ → cntB σ.run n ≤ pool := by
  have h1 : Gen.reserveOp.guarded = true := by decide
  have h2 : ∀ op ∈ Gen.releaseOps, op.removesOne = true := by decide
  exact ⟨h1, h2, fun op ho _ _ _ _ r => (C13_pool_bound_with_duplicate_commands h1 (h2 op ho) r).1⟩

open Pool in
/-- a release BY VALUE (`holders.retain(|c| c != x)`, i.e. `filter (· != x)`) breaks the bound as soon as two holders are equal:
    four steps with one command, pool 2; steps 0 and 1 hold the two slots, step 0 releases, BOTH entries go, steps 2 and 3
    reserve: three steps hold a slot of a pool of two -/
theorem C13_release_by_value_counterexample :
    ∃ σ, PReach .guardedPush .removeAllEqual (fun _ => 0) 4 2 σ ∧ cntB σ.run 4 = 3 ∧ σ.holders.length = 2 := by
  refine ⟨_, .step (.step (.step (.step (.step .init
      (.reserve _ 0 (by decide) rfl (fun _ => by decide)))
      (.reserve _ 1 (by decide) (by decide) (fun _ => by decide)))
      (.release _ 0 (by decide) (by decide)))
      (.reserve _ 2 (by decide) (by decide) (fun _ => by decide)))
      (.reserve _ 3 (by decide) (by decide) (fun _ => by decide)), by decide, by decide⟩

/-- non-vacuity of `C13_release_removes_one_holder`: two equal holders, one release, one of them is still listed -/
example : ([7, 7, 3].erase 7) = [7, 3] ∧ (7 ∈ [7, 7, 3]) := by decide

open Pool in
/-- non-vacuity of `C13_pool_bound_with_duplicate_commands`: the same history as the counterexample up to the release, with
    erase-one: the twin keeps its slot, the pool has ONE free slot, so step 2 reserves and step 3 cannot -/
example : ∃ σ, PReach .guardedDec .counterInc (fun _ => 0) 4 2 σ ∧ cntB σ.run 4 = 2 ∧ σ.holders = [0, 0] ∧
    ¬ (σ.holders.length < 2) := by
  refine ⟨_, .step (.step (.step (.step .init
      (.reserve _ 0 (by decide) rfl (fun _ => by decide)))
      (.reserve _ 1 (by decide) (by decide) (fun _ => by decide)))
      (.release _ 0 (by decide) (by decide)))
      (.reserve _ 2 (by decide) (by decide) (fun _ => by decide)), by decide, by decide, by decide⟩

#print axioms C13_release_removes_one_holder
#print axioms C13_pool_bound_with_duplicate_commands
#print axioms C13_generated_pool_ops_keep_bound
#print axioms C13_release_by_value_counterexample
#print axioms C13_F6_unrepaired_counterexample
#print axioms C13_pool_bound
#print axioms C13_slots_exact
#print axioms C13_command_running_holds_slot
#print axioms C13_exit_guard_releases
#print axioms C13_slot_released_only_after_exit
#print axioms C13_slots_bounded
#print axioms C13_reserve_guarded
#print axioms C13_pool_one_serial
#print axioms C13_serial_respects_deps
end Sched
