import XvcPipeline.Props.C10
import XvcPipeline.Unrepaired
import XvcPipeline.Gen.WaitPath
/-!
# C13 — Concurrent step commands never exceed the configured process pool

Model: `Sched.lean` after fix patch C13-F6 (ONE `available_process_slots` counter created in
`the_grand_pipeline_loop`; `reserve_process_slot` checks and decrements under one write lock).
All theorems: every pipeline, every pool size, every schedule.
-/
namespace Sched
open Gen

/-- at every moment of every run: the number of running step commands, and of step threads in state `Running`,
    is at most `pipeline.process_pool_size` -/
theorem C13_pool_bound {c : Cfg} {σ : Sys} (r : Reach c σ) :
    cntP σ.proc c.n ≤ c.pool ∧ cnt σ.loc c.n ≤ c.pool := by
  have h := reach_inv r
  have h1 := cntP_le_cnt h.proc c.n
  have h2 : cnt σ.loc c.n + σ.slots = c.pool := h.pool
  omega

/-- the counter is exact: free slots + threads holding a slot = pool size (no slot is lost or invented, also when
    a step thread fails) -/
theorem C13_slots_exact {c : Cfg} {σ : Sys} (r : Reach c σ) : cnt σ.loc c.n + σ.slots = c.pool :=
  (reach_inv r).pool

/-- the counter never leaves `0 .. pool`: it is a natural number that is decremented only under the guard `0 < slots`
    (`Guard.start`), so it cannot wrap below zero, and by `C13_slots_exact` it never exceeds the pool size.  The trace
    validator relies on this: a logged counter value above the pool size is not a state of the model. -/
theorem C13_slots_bounded {c : Cfg} {σ : Sys} (r : Reach c σ) : σ.slots ≤ c.pool := by
  have := C13_slots_exact r; omega

/-- a reservation never succeeds on an empty pool and always takes exactly one slot -/
theorem C13_reserve_guarded {c : Cfg} {σ : Sys} {s : Nat} {f : Ev} {k : Nat}
    (g : Guard c σ s .WaitingToRun f .StartProcess k) : 0 < σ.slots ∧ k + 1 = σ.slots := by
  cases g with
  | start _ _ hs => exact ⟨hs, by omega⟩

/-! ### the slot is held from the reservation until the command has EXITED -/

/-- a command that is running belongs to a step thread in state `Running`, i.e. to one of the threads `C13_slots_exact` counts
    as slot holders: the slot is held in every `Running` state, from `StartProcess` until the exit is reported -/
theorem C13_command_running_holds_slot {c : Cfg} {σ : Sys} (r : Reach c σ) (s : Nat) (h : σ.proc s = .running) :
    σ.loc s = .Running ∧ σ.frm s = .WaitProcess := ((reach_inv r).proc s).1 h

/-- the model gives the slot back exactly on the events that LEAVE `Running`, and those need the command to have exited
    (or to be terminated by the timeout): no release while the command runs on -/
theorem C13_exit_guard_releases {c : Cfg} {σ : Sys} {s : Nat} {f e : Ev} {k : Nat} {y : St}
    (g : Guard c σ s .Running f e k) (ht : trans .Running e = some y) (hy : y ≠ .Running) :
    k = σ.slots + 1 ∧ (σ.proc s = .exited true ∨ σ.proc s = .exited false ∨ e = .ProcessTimeout) := by
  cases g with
  | spawn => simp [Gen.trans] at ht; exact absurd ht.symm hy
  | exitOk hp => exact ⟨rfl, Or.inl hp⟩
  | exitFail hp => exact ⟨rfl, Or.inr (Or.inl hp)⟩
  | timeout hp => exact ⟨rfl, Or.inr (Or.inr rfl)⟩

/-- over the REGENERATED source order of `s_running_f_wait_process`: the slot is given back exactly once, after the loop that
    polls the command until it has exited — not before it (e.g. after the first read of the output, which ends when the command
    CLOSES its streams) and not inside it -/
theorem C13_slot_released_only_after_exit : waitPath = [.pollUntilExit, .releaseSlot] := by decide

/-- with a pool of 1 no two step commands ever run at the same time: the executions are totally ordered -/
theorem C13_pool_one_serial {c : Cfg} {σ : Sys} (r : Reach c σ) (hp : c.pool = 1) (s t : Nat)
    (hs : s < c.n) (ht : t < c.n) (h1 : σ.proc s = .running) (h2 : σ.proc t = .running) : s = t := by
  have hb := (C13_pool_bound r).1
  rcases Nat.lt_trichotomy s t with h | h | h
  · have := cntP_two h ht h1 h2; omega
  · exact h
  · have := cntP_two h hs h2 h1; omega

/-- ... and that order is compatible with the dependency graph: whenever the command of `s` has been started,
    no command of a step it depends on is running (it ended before, by C10) -/
theorem C13_serial_respects_deps {c : Cfg} {σ : Sys} (r : Reach c σ) (s d : Nat) (hd : d ∈ c.deps s)
    (h : σ.proc s ≠ .idle) : σ.proc d ≠ .running := by
  rcases C10_deps_done_before_start r s h with h1 | ⟨_, h2⟩
  · rcases h1 d hd with ⟨_, hp⟩ | ⟨_, hp⟩ <;> rw [hp] <;> simp
  · exact (h2 d hd).2

/-! ### non-vacuity -/

/-- the bound is tight and the pool really blocks: step 0 runs, step 1 finds the pool full, cannot start, and starts
    after step 0 has ended -/
example : (runL demoPool (init demoPool)
    (toWaitingToRun 0 ++ [.handler 0 .StartProcess, .publish 0, .handler 0 .WaitProcess, .publish 0] ++
     toWaitingToRun 1 ++ [.handler 1 .ProcessPoolFull, .publish 1])).map
    (fun σ => (cntP σ.proc 3, σ.slots, decide (σ.frm 1 = .ProcessPoolFull))) = some (1, 0, true) := by decide

example : (runL demoPool (init demoPool)
    (toWaitingToRun 0 ++ [.handler 0 .StartProcess, .publish 0, .handler 0 .WaitProcess, .publish 0] ++
     toWaitingToRun 1 ++ [.handler 1 .StartProcess])).isSome = false := by decide

example : (runL demoPool (init demoPool)
    (toWaitingToRun 0 ++ [.handler 0 .StartProcess, .publish 0, .handler 0 .WaitProcess, .publish 0] ++
     toWaitingToRun 1 ++ [.handler 1 .ProcessPoolFull, .publish 1, .procExit 0 true,
       .handler 0 .ProcessCompletedSuccessfully, .handler 1 .StartProcess, .publish 1, .handler 1 .WaitProcess])).map
    (fun σ => (cntP σ.proc 3, σ.slots, decide (σ.proc 1 = .running), decide (σ.proc 0 = .exited true))) =
    some (1, 0, true, true) := by decide

/-! ### F6 (repaired by C13-F6.patch): the unrepaired counter was created inside `step_state_handler`

One counter per step thread, each initialised to the pool size: no thread ever sees a slot taken by another one.
Minimal model of that arrangement: `slots i` is the private counter of thread `i`, thread `i` starts its command when
`slots i > 0`. -/

/-- with private counters two commands run at the same time although the pool size is 1 -/
theorem C13_F6_unrepaired_counterexample :
    ∃ σ1 σ2, F6Step { running := fun _ => false, slots := fun _ => 1 } σ1 ∧ F6Step σ1 σ2 ∧
      σ2.running 0 = true ∧ σ2.running 1 = true := by
  refine ⟨_, _, .start _ 0 (by decide) rfl, .start _ 1 (by simp) (by simp), by simp, by simp⟩

#print axioms C13_F6_unrepaired_counterexample
#print axioms C13_pool_bound
#print axioms C13_slots_exact
#print axioms C13_command_running_holds_slot
#print axioms C13_exit_guard_releases
#print axioms C13_slot_released_only_after_exit
#print axioms C13_slots_bounded
#print axioms C13_reserve_guarded
#print axioms C13_pool_one_serial
#print axioms C13_serial_respects_deps
end Sched
