import XvcPipeline.Inv
/-!
# C13 — Concurrent step commands never exceed the configured process pool
(model: `Sched.lean`, after fix patch C13-F6: one shared counter, reserve under one write lock)
-/
namespace Sched
open Gen

/-- at every moment of every run, for every pipeline: the number of running step commands (and of step threads
    in state `Running`) is at most `pipeline.process_pool_size` -/
theorem C13_pool_bound {c : Cfg} {σ : Sys} (r : Reach c σ) :
    cntP σ.proc c.n ≤ c.pool ∧ cnt σ.loc c.n ≤ c.pool := by
  have h := reach_inv r
  have h1 := cntP_le_cnt h.proc c.n
  have h2 : cnt σ.loc c.n + σ.slots = c.pool := h.pool
  omega

#print axioms C13_pool_bound
end Sched
