import XvcPipeline.Term
import XvcPipeline.Topo
/-!
# Deadlock freedom of the scheduler (helper lemmas for C11)
-/
namespace Sched
open Gen

/-- every step thread has returned and the bulletin has consumed every message -/
def Final (c : Cfg) (σ : Sys) : Prop := ∀ s, s < c.n → σ.fin s = true ∧ σ.chan s = []

def Label.isDie : Label → Bool
  | .die _ => true
  | _ => false

theorem cnt_zero (f : Nat → St) (n : Nat) (h : ∀ s, s < n → f s ≠ .Running) : cnt f n = 0 := by
  induction n with
  | zero => rfl
  | succ m ih =>
    simp [cnt, ih (fun s hs => h s (by omega)), h m (by omega)]

/-! which events enter which state (read off the generated table) -/
theorem frm_begin {x : St} {f : Ev} (h : trans x f = some .Begin) : False := by
  cases x <;> cases f <;> simp [Gen.trans] at h
theorem frm_waiting {x : St} {f : Ev} (h : trans x f = some .WaitingDependencySteps) :
    f = .RunConditional ∨ f = .DependencyStepsRunning := by
  cases x <;> cases f <;> simp [Gen.trans] at h <;> simp
theorem frm_checkingOutputs {x : St} {f : Ev} (h : trans x f = some .CheckingOutputs) :
    f = .DependencyStepsFinishedSuccessfully ∨ f = .DependencyStepsFinishedBrokenIgnored := by
  cases x <;> cases f <;> simp [Gen.trans] at h <;> simp
theorem frm_superficial {x : St} {f : Ev} (h : trans x f = some .CheckingSuperficialDiffs) :
    f = .CheckedOutputs ∨ f = .OutputsIgnored := by
  cases x <;> cases f <;> simp [Gen.trans] at h <;> simp
theorem frm_thorough {x : St} {f : Ev} (h : trans x f = some .CheckingThoroughDiffs) :
    f = .SuperficialDiffsChanged ∨ f = .SuperficialDiffsIgnored := by
  cases x <;> cases f <;> simp [Gen.trans] at h <;> simp
theorem frm_comparing {x : St} {f : Ev} (h : trans x f = some .ComparingDiffsAndOutputs) :
    f = .SuperficialDiffsNotChanged ∨ f = .ThoroughDiffsNotChanged ∨ f = .ThoroughDiffsChanged := by
  cases x <;> cases f <;> simp [Gen.trans] at h <;> simp
theorem frm_waitingToRun {x : St} {f : Ev} (h : trans x f = some .WaitingToRun) :
    f = .DiffsHasChanged ∨ f = .RunAlways ∨ f = .ProcessPoolFull := by
  cases x <;> cases f <;> simp [Gen.trans] at h <;> simp
theorem frm_running {x : St} {f : Ev} (h : trans x f = some .Running) :
    f = .StartProcess ∨ f = .WaitProcess := by
  cases x <;> cases f <;> simp [Gen.trans] at h <;> simp

theorem handler_enabled {c : Cfg} {σ : Sys} {s : Nat} (e : Ev) (hs : s < c.n) (h1 : σ.sent s = true)
    (h2 : σ.fin s = false) (ht : (trans (σ.loc s) e).isSome = true)
    (hg : (guardB c σ s (σ.loc s) (σ.frm s) e).isSome = true) :
    ∃ l, l.isDie = false ∧ (stepL c σ l).isSome = true := by
  cases hy : trans (σ.loc s) e with
  | none => rw [hy] at ht; cases ht
  | some y =>
    cases hk : guardB c σ s (σ.loc s) (σ.frm s) e with
    | none => rw [hk] at hg; cases hg
    | some k => exact ⟨.handler s e, rfl, by simp [stepL, hs, h1, h2, hy, hk]⟩

/-- in every reachable state of an acyclic pipeline with a non-empty pool that is not final, some step other
    than a thread failure is enabled -/
theorem progress {c : Cfg} {σ : Sys} (r : Reach c σ) (hwf : WF c.n c.deps) (hr : Ranked c.n c.deps)
    (hpool : 0 < c.pool) (hnf : ¬ Final c σ) :
    ∃ l, l.isDie = false ∧ (stepL c σ l).isSome = true := by
  have I := reach_inv2 r
  by_cases h1 : ∃ s, s < c.n ∧ σ.chan s ≠ []
  · obtain ⟨s, hs, hc⟩ := h1
    cases hcs : σ.chan s with
    | nil => exact absurd hcs hc
    | cons x rest => exact ⟨.deliver s, rfl, by simp [stepL, hs, hcs]⟩
  by_cases h2 : ∃ s, s < c.n ∧ σ.sent s = false ∧ σ.fin s = false
  · obtain ⟨s, hs, ha, hb⟩ := h2
    exact ⟨.publish s, rfl, by simp [stepL, hs, ha, hb]⟩
  have hchan : ∀ s, s < c.n → σ.chan s = [] :=
    fun s hs => Classical.byContradiction (fun hc => h1 ⟨s, hs, hc⟩)
  have hsent : ∀ s, s < c.n → σ.sent s = true := by
    intro s hs
    cases hfin : σ.fin s
    · cases hse : σ.sent s
      · exact absurd ⟨s, hs, hse, hfin⟩ h2
      · rfl
    · exact ((I.finI s).1 hfin).1
  have hpub : ∀ s, s < c.n → σ.pub s = (σ.loc s, σ.frm s) := by
    intro s hs
    have := (I.finI s).2.2 (hsent s hs)
    rw [hchan s hs] at this; exact this
  have notfin_of_nonterminal : ∀ s, (σ.loc s).terminal = false → σ.fin s = false := by
    intro s hnt
    cases hf : σ.fin s
    · rfl
    · have := ((I.finI s).1 hf).2; rw [hnt] at this; cases this
  by_cases h3 : ∃ s, s < c.n ∧ σ.loc s = .Running
  · obtain ⟨s, hs, hl⟩ := h3
    have hfin : σ.fin s = false := notfin_of_nonterminal s (by rw [hl]; rfl)
    rcases I.frmI s with ⟨hb, _⟩ | ⟨x, hx⟩
    · rw [hl] at hb; cases hb
    · rw [hl] at hx
      rcases frm_running hx with hf | hf
      · exact handler_enabled .WaitProcess hs (hsent s hs) hfin (by rw [hl]; rfl) (by rw [hl, hf]; simp [guardB])
      · rcases (I.proc s).2.2.2.2 hl hf with hp | hp | hp
        · exact ⟨.procExit s true, rfl, by simp [stepL, hs, hp]⟩
        · exact handler_enabled .ProcessReturnedNonZero hs (hsent s hs) hfin (by rw [hl]; rfl)
            (by rw [hl, hf]; simp [guardB, hp])
        · exact handler_enabled .ProcessCompletedSuccessfully hs (hsent s hs) hfin (by rw [hl]; rfl)
            (by rw [hl, hf]; simp [guardB, hp])
  have hcnt : cnt σ.loc c.n = 0 := cnt_zero _ _ (fun s hs hl => h3 ⟨s, hs, hl⟩)
  have hslots : 0 < σ.slots := by
    have := I.pool; unfold PoolInv at this; omega
  have hex : ∃ s, s < c.n ∧ σ.fin s = false := by
    apply Classical.byContradiction
    intro hno
    apply hnf
    intro s hs
    refine ⟨?_, hchan s hs⟩
    cases hf : σ.fin s
    · exact absurd ⟨s, hs, hf⟩ hno
    · rfl
  obtain ⟨s0, hs0, hf0⟩ := hex
  obtain ⟨rank, hrank⟩ := hr
  obtain ⟨t, ht, hft, hmin⟩ := exists_min hwf hrank (fun x => σ.fin x = false) (rank s0) s0 rfl hs0 hf0
  have hterm : allTerminal c σ t = true := by
    simp only [allTerminal, List.all_eq_true]
    intro d hd
    have hdn := hwf t ht d hd
    have hfd : σ.fin d = true := by
      cases h : σ.fin d
      · exact absurd h (hmin d hd)
      · rfl
    rw [hpub d hdn]; exact ((I.finI d).1 hfd).2
  have hnt : (σ.loc t).terminal = false := by
    cases h : (σ.loc t).terminal
    · rfl
    · have := (I.finI t).2.1 (hsent t ht) h; rw [hft] at this; cases this
  have hst := hsent t ht
  cases hl : σ.loc t with
  | DoneByRunning => rw [hl] at hnt; cases hnt
  | DoneWithoutRunning => rw [hl] at hnt; cases hnt
  | Broken => rw [hl] at hnt; cases hnt
  | Running => exact absurd ⟨t, ht, hl⟩ h3
  | Begin =>
    rcases I.frmI t with ⟨_, hf⟩ | ⟨x, hx⟩
    · cases hn : (c.rc t).never
      · exact handler_enabled .RunConditional ht hst hft (by rw [hl]; rfl) (by rw [hl, hf]; simp [guardB, hn])
      · exact handler_enabled .RunNever ht hst hft (by rw [hl]; rfl) (by rw [hl, hf]; simp [guardB, hn])
    · rw [hl] at hx; exact (frm_begin hx).elim
  | WaitingDependencySteps =>
    rcases I.frmI t with ⟨hb, _⟩ | ⟨x, hx⟩
    · rw [hl] at hb; cases hb
    · rw [hl] at hx
      rcases frm_waiting hx with hf | hf
      · by_cases hd : c.deps t = []
        · exact handler_enabled .DependencyStepsFinishedSuccessfully ht hst hft (by rw [hl]; rfl)
            (by rw [hl, hf]; simp [guardB, hd])
        · exact handler_enabled .DependencyStepsRunning ht hst hft (by rw [hl]; rfl)
            (by rw [hl, hf]; simp [guardB, hd])
      · cases hd : allDone c σ t
        · cases hi : (c.rc t).ignore_broken_dep_steps
          · exact handler_enabled .DependencyStepsFinishedBroken ht hst hft (by rw [hl]; rfl)
              (by rw [hl, hf]; simp [guardB, hd, hterm, hi])
          · exact handler_enabled .DependencyStepsFinishedBrokenIgnored ht hst hft (by rw [hl]; rfl)
              (by rw [hl, hf]; simp [guardB, hd, hterm, hi])
        · exact handler_enabled .DependencyStepsFinishedSuccessfully ht hst hft (by rw [hl]; rfl)
            (by rw [hl, hf]; simp [guardB, hd])
  | CheckingOutputs =>
    rcases I.frmI t with ⟨hb, _⟩ | ⟨x, hx⟩
    · rw [hl] at hb; cases hb
    · rw [hl] at hx
      rcases frm_checkingOutputs hx with hf | hf <;>
        exact handler_enabled .CheckedOutputs ht hst hft (by rw [hl]; rfl) (by rw [hl, hf]; simp [guardB])
  | CheckingSuperficialDiffs =>
    rcases I.frmI t with ⟨hb, _⟩ | ⟨x, hx⟩
    · rw [hl] at hb; cases hb
    · rw [hl] at hx
      rcases frm_superficial hx with hf | hf <;>
        exact handler_enabled .SuperficialDiffsChanged ht hst hft (by rw [hl]; rfl) (by rw [hl, hf]; simp [guardB])
  | CheckingThoroughDiffs =>
    rcases I.frmI t with ⟨hb, _⟩ | ⟨x, hx⟩
    · rw [hl] at hb; cases hb
    · rw [hl] at hx
      rcases frm_thorough hx with hf | hf <;>
        exact handler_enabled .ThoroughDiffsChanged ht hst hft (by rw [hl]; rfl) (by rw [hl, hf]; simp [guardB])
  | ComparingDiffsAndOutputs =>
    rcases I.frmI t with ⟨hb, _⟩ | ⟨x, hx⟩
    · rw [hl] at hb; cases hb
    · rw [hl] at hx
      rcases frm_comparing hx with hf | hf | hf
      · cases ha : (c.rc t).always
        · exact handler_enabled .DiffsHasChanged ht hst hft (by rw [hl]; rfl) (by rw [hl, hf]; simp [guardB, ha])
        · exact handler_enabled .RunAlways ht hst hft (by rw [hl]; rfl) (by rw [hl, hf]; simp [guardB, ha])
      · cases ha : (c.rc t).always
        · exact handler_enabled .DiffsHasChanged ht hst hft (by rw [hl]; rfl) (by rw [hl, hf]; simp [guardB, ha])
        · exact handler_enabled .RunAlways ht hst hft (by rw [hl]; rfl) (by rw [hl, hf]; simp [guardB, ha])
      · exact handler_enabled .DiffsHasChanged ht hst hft (by rw [hl]; rfl) (by rw [hl, hf]; simp [guardB])
  | WaitingToRun =>
    rcases I.frmI t with ⟨hb, _⟩ | ⟨x, hx⟩
    · rw [hl] at hb; cases hb
    · rw [hl] at hx
      rcases frm_waitingToRun hx with hf | hf | hf <;>
        exact handler_enabled .StartProcess ht hst hft (by rw [hl]; rfl) (by rw [hl, hf]; simp [guardB, hslots])

/-- a strictly decreasing natural-number measure excludes infinite runs -/
theorem no_infinite_run {c : Cfg} (f : Nat → Sys) (h : ∀ i, Next c (f i) (f (i + 1))) : False := by
  have key : ∀ i, measure c (f i) + i ≤ measure c (f 0) := by
    intro i
    induction i with
    | zero => simp
    | succ j ih => have := measure_step (h j); omega
  have := key (measure c (f 0) + 1)
  omega

end Sched
