def hello := "world"
