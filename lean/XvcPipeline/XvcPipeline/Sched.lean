import XvcPipeline.Gen.StepFsm
import XvcPipeline.Gen.RunCond
import XvcPipeline.Gen.Handlers
/-!
# The scheduler of `xvc pipeline run` as a transition system  (C10, C11, C13)

Transcription of `pipeline/src/pipeline/mod.rs` (`the_grand_pipeline_loop`, `step_state_handler`,
`step_state_loop`, `step_state_bulletin`, the `s_*` handler functions) **as it is after the fix patches
C13-F6, C11-F5, C11-K4b, C11-K4a** (see notes/reports/C10-C11-C13.md).

* one thread per step runs `step_state_loop`: at the top of the loop the current state is sent to the
  step's channel (`publish`), a terminal state ends the thread, otherwise the handler selected by
  (state, entering event) returns an event of the GENERATED state machine `Gen.trans` (`handler`);
  the polling loops inside `s_waiting_dependency_steps_f_dependency_steps_running`,
  `s_waiting_to_run_f_process_pool_full` and `s_running_f_wait_process` are stuttering: the handler step is
  enabled exactly when the loop would return;
* the bulletin thread copies one queued state into the shared map `current_states` (`deliver`);
* the operating system ends a running step command (`procExit`);
* a handler error or panic (`die`): `step_state_handler` publishes `Broken(FromKeepBroken)`, gives a held
  process slot back and the command is killed by `Drop for CommandProcess`.

State components are functions on `Nat`; the steps of a pipeline are `0 .. n-1`.
Core-only imports: the driver (`Main.lean`) evaluates these definitions.
-/
namespace Sched
open Gen

def upd {α} (f : Nat → α) (i : Nat) (v : α) : Nat → α := fun j => if j = i then v else f j
@[simp] theorem upd_same {α} (f : Nat → α) (i : Nat) (v : α) : upd f i v i = v := by simp [upd]
@[simp] theorem upd_other {α} (f : Nat → α) (i j : Nat) (v : α) (h : j ≠ i) : upd f i v j = f j := by simp [upd, h]

/-- `DoneByRunning | DoneWithoutRunning`: what the wait loop and the final verdict of
    `the_grand_pipeline_loop` accept as success -/
def Gen.St.done : St → Bool
  | .DoneByRunning | .DoneWithoutRunning => true
  | _ => false

/-- the step went through `WaitingDependencySteps` and may start (or has started) its command -/
def Gen.St.passed : St → Bool
  | .CheckingOutputs | .CheckingSuperficialDiffs | .CheckingThoroughDiffs | .ComparingDiffsAndOutputs
  | .WaitingToRun | .Running | .DoneByRunning => true
  | _ => false

/-- the step command as an operating system process (`CommandProcess.process`) -/
inductive Proc where
  | idle                    -- never spawned
  | running
  | exited (ok : Bool)      -- exit status 0 / anything else
  | killed                  -- terminated by xvc (timeout, or thread death through `Drop`)
deriving DecidableEq, Repr

/-- a published state: `XvcStepState::X(XState::FromE)` -/
abbrev PSt := St × Ev

structure Sys where
  /-- `step_state` of the step thread -/
  loc   : Nat → St
  /-- the event by which `loc` was entered (`FromE`) -/
  frm   : Nat → Ev
  /-- the current state has been sent at the top of the loop, the handler has not returned yet -/
  sent  : Nat → Bool
  /-- the step thread has returned -/
  fin   : Nat → Bool
  /-- `state_channels[step]` (crossbeam FIFO) -/
  chan  : Nat → List PSt
  /-- `current_states` written by `step_state_bulletin` -/
  pub   : Nat → PSt
  /-- `available_process_slots` (ONE counter shared by all step threads: fix F6) -/
  slots : Nat
  proc  : Nat → Proc

structure Cfg where
  n      : Nat
  /-- `dependency_steps(step, graph)`: explicit and implicit dependencies -/
  deps   : Nat → List Nat
  /-- `pipeline.process_pool_size` -/
  pool   : Nat
  /-- `run_conditions[step]` -/
  rc     : Nat → RunConditions
  /-- the step has no recorded dependency at all (`recorded_dependencies.children_of(step).is_empty()`) -/
  noDeps : Nat → Bool

def allDone (c : Cfg) (σ : Sys) (s : Nat) : Bool := (c.deps s).all (fun d => (σ.pub d).1.done)
def allTerminal (c : Cfg) (σ : Sys) (s : Nat) : Bool := (c.deps s).all (fun d => (σ.pub d).1.terminal)

/-- `Guard c σ s x f e k`: in system state `σ` the handler of step `s` dispatched for state `x` entered by
    event `f` may return event `e`, leaving `k` free process slots.  One constructor per `return` of the
    `s_*` functions. -/
inductive Guard (c : Cfg) (σ : Sys) (s : Nat) : St → Ev → Ev → Nat → Prop where
  /- s_begin_f_init -/
  | runNever (h : (c.rc s).never = true) : Guard c σ s .Begin .Init .RunNever σ.slots
  | runConditional (h : (c.rc s).never = false) : Guard c σ s .Begin .Init .RunConditional σ.slots
  /- s_waiting_dependency_steps_f_run_conditional -/
  | noDepSteps (h : c.deps s = []) :
      Guard c σ s .WaitingDependencySteps .RunConditional .DependencyStepsFinishedSuccessfully σ.slots
  | depStepsRunning (h : c.deps s ≠ []) :
      Guard c σ s .WaitingDependencySteps .RunConditional .DependencyStepsRunning σ.slots
  /- s_waiting_dependency_steps_f_dependency_steps_running: the loop returns when ... (fix F5) -/
  | waitDone (hd : allDone c σ s = true) :
      Guard c σ s .WaitingDependencySteps .DependencyStepsRunning .DependencyStepsFinishedSuccessfully σ.slots
  | waitBroken (hd : allDone c σ s = false) (ht : allTerminal c σ s = true)
      (hi : (c.rc s).ignore_broken_dep_steps = false) :
      Guard c σ s .WaitingDependencySteps .DependencyStepsRunning .DependencyStepsFinishedBroken σ.slots
  | waitBrokenIgnored (hd : allDone c σ s = false) (ht : allTerminal c σ s = true)
      (hi : (c.rc s).ignore_broken_dep_steps = true) :
      Guard c σ s .WaitingDependencySteps .DependencyStepsRunning .DependencyStepsFinishedBrokenIgnored σ.slots
  /- s_checking_missing_outputs (both entering events) -/
  | checkedOutputs (f : Ev)
      (hf : f = .DependencyStepsFinishedSuccessfully ∨ f = .DependencyStepsFinishedBrokenIgnored) :
      Guard c σ s .CheckingOutputs f .CheckedOutputs σ.slots
  /- s_checking_superficial_diffs (both entering events); the comparison result is an outcome oracle -/
  | superficialChanged (f : Ev) (hf : f = .CheckedOutputs ∨ f = .OutputsIgnored) :
      Guard c σ s .CheckingSuperficialDiffs f .SuperficialDiffsChanged σ.slots
  | superficialNotChanged (f : Ev) (hf : f = .CheckedOutputs ∨ f = .OutputsIgnored) (h : c.noDeps s = false) :
      Guard c σ s .CheckingSuperficialDiffs f .SuperficialDiffsNotChanged σ.slots
  /- s_checking_thorough_diffs_f_superficial_diffs_changed / _ignored -/
  | thoroughChanged (f : Ev) (hf : f = .SuperficialDiffsChanged ∨ f = .SuperficialDiffsIgnored) :
      Guard c σ s .CheckingThoroughDiffs f .ThoroughDiffsChanged σ.slots
  | thoroughNotChanged (f : Ev) (hf : f = .SuperficialDiffsChanged ∨ f = .SuperficialDiffsIgnored)
      (h : c.noDeps s = false) :
      Guard c σ s .CheckingThoroughDiffs f .ThoroughDiffsNotChanged σ.slots
  /- s_comparing_diffs_and_outputs_f_* -/
  | cmpRunAlways (f : Ev) (hf : f = .SuperficialDiffsNotChanged ∨ f = .ThoroughDiffsNotChanged)
      (h : (c.rc s).always = true) :
      Guard c σ s .ComparingDiffsAndOutputs f .RunAlways σ.slots
  | cmpChanged (f : Ev) (hf : f = .SuperficialDiffsNotChanged ∨ f = .ThoroughDiffsNotChanged)
      (h : (c.rc s).always = false) :
      Guard c σ s .ComparingDiffsAndOutputs f .DiffsHasChanged σ.slots
  | cmpNotChanged (f : Ev) (hf : f = .SuperficialDiffsNotChanged ∨ f = .ThoroughDiffsNotChanged)
      (h : (c.rc s).always = false) :
      Guard c σ s .ComparingDiffsAndOutputs f .DiffsHasNotChanged σ.slots
  | cmpThoroughChanged : Guard c σ s .ComparingDiffsAndOutputs .ThoroughDiffsChanged .DiffsHasChanged σ.slots
  /- s_waiting_to_run_f_diffs_has_changed / _f_run_always / _f_process_pool_full with reserve_process_slot:
     check and decrement under one write lock (fix F6) -/
  | start (f : Ev) (hf : f = .DiffsHasChanged ∨ f = .RunAlways ∨ f = .ProcessPoolFull) (hs : 0 < σ.slots) :
      Guard c σ s .WaitingToRun f .StartProcess (σ.slots - 1)
  | poolFull (f : Ev) (hf : f = .DiffsHasChanged ∨ f = .RunAlways) (hs : σ.slots = 0) :
      Guard c σ s .WaitingToRun f .ProcessPoolFull σ.slots
  /- s_running_f_start_process: spawns the command (effect on `proc` in `procEffect`) -/
  | spawn : Guard c σ s .Running .StartProcess .WaitProcess σ.slots
  /- s_running_f_wait_process: the loop returns when `poll()` gives an exit status or the timeout expired;
     release_process_slot -/
  | exitOk (hp : σ.proc s = .exited true) :
      Guard c σ s .Running .WaitProcess .ProcessCompletedSuccessfully (σ.slots + 1)
  | exitFail (hp : σ.proc s = .exited false) :
      Guard c σ s .Running .WaitProcess .ProcessReturnedNonZero (σ.slots + 1)
  | timeout (hp : σ.proc s = .running) :
      Guard c σ s .Running .WaitProcess .ProcessTimeout (σ.slots + 1)

/-- effect of a handler on the step's process: `CommandProcess::run` / `process.terminate()` -/
def procEffect (e : Ev) (p : Proc) : Proc :=
  match e with
  | .WaitProcess => .running
  | .ProcessTimeout => .killed
  | _ => p

inductive Next (c : Cfg) : Sys → Sys → Prop where
  /-- top of the loop in `step_state_loop`: `step_state_sender.send(Some(step_state.clone()))`; a terminal
      state ends the thread -/
  | publish (σ : Sys) (s : Nat) (hs : s < c.n) (h1 : σ.sent s = false) (h2 : σ.fin s = false) :
      Next c σ { σ with sent := upd σ.sent s true, chan := upd σ.chan s (σ.chan s ++ [(σ.loc s, σ.frm s)]),
                        fin := upd σ.fin s (σ.loc s).terminal }
  /-- the dispatched handler returns event `e`; the new state is given by the generated table -/
  | handler (σ : Sys) (s : Nat) (hs : s < c.n) (x : St) (f e : Ev) (y : St) (k : Nat)
      (hl : σ.loc s = x) (hf : σ.frm s = f) (h1 : σ.sent s = true) (h2 : σ.fin s = false)
      (ht : trans x e = some y) (g : Guard c σ s x f e k) :
      Next c σ { σ with loc := upd σ.loc s y, frm := upd σ.frm s e, sent := upd σ.sent s false, slots := k,
                        proc := upd σ.proc s (procEffect e (σ.proc s)) }
  /-- `step_state_bulletin`: one received state is written to `current_states` -/
  | deliver (σ : Sys) (s : Nat) (hs : s < c.n) (x : PSt) (rest : List PSt) (h : σ.chan s = x :: rest) :
      Next c σ { σ with chan := upd σ.chan s rest, pub := upd σ.pub s x }
  /-- the step command ends -/
  | procExit (σ : Sys) (s : Nat) (hs : s < c.n) (ok : Bool) (h : σ.proc s = .running) :
      Next c σ { σ with proc := upd σ.proc s (.exited ok) }
  /-- `step_state_loop` returns an error or panics (fix K4b) -/
  | die (σ : Sys) (s : Nat) (hs : s < c.n) (h2 : σ.fin s = false) (hnt : (σ.loc s).terminal = false) :
      Next c σ { σ with loc := upd σ.loc s .Broken, frm := upd σ.frm s .KeepBroken, sent := upd σ.sent s true,
                        fin := upd σ.fin s true, chan := upd σ.chan s (σ.chan s ++ [(.Broken, .KeepBroken)]),
                        slots := if σ.loc s = .Running then σ.slots + 1 else σ.slots,
                        proc := upd σ.proc s (if σ.proc s = .running then .killed else σ.proc s) }

def init (c : Cfg) : Sys :=
  { loc := fun _ => .Begin, frm := fun _ => .Init, sent := fun _ => false, fin := fun _ => false,
    chan := fun _ => [], pub := fun _ => (.Begin, .Init), slots := c.pool, proc := fun _ => .idle }

inductive Reach (c : Cfg) : Sys → Prop where
  | init : Reach c (init c)
  | step {σ σ'} : Reach c σ → Next c σ σ' → Reach c σ'

/-! ## Executable form (used by the driver to validate hook traces) -/

/-- decision procedure for `Guard`: the number of free slots after the handler, if event `e` may be returned -/
def guardB (c : Cfg) (σ : Sys) (s : Nat) (x : St) (f e : Ev) : Option Nat :=
  match x, f, e with
  | .Begin, .Init, .RunNever => if (c.rc s).never then some σ.slots else none
  | .Begin, .Init, .RunConditional => if (c.rc s).never then none else some σ.slots
  | .WaitingDependencySteps, .RunConditional, .DependencyStepsFinishedSuccessfully =>
      if c.deps s = [] then some σ.slots else none
  | .WaitingDependencySteps, .RunConditional, .DependencyStepsRunning =>
      if c.deps s = [] then none else some σ.slots
  | .WaitingDependencySteps, .DependencyStepsRunning, .DependencyStepsFinishedSuccessfully =>
      if allDone c σ s then some σ.slots else none
  | .WaitingDependencySteps, .DependencyStepsRunning, .DependencyStepsFinishedBroken =>
      if !allDone c σ s && allTerminal c σ s && !(c.rc s).ignore_broken_dep_steps then some σ.slots else none
  | .WaitingDependencySteps, .DependencyStepsRunning, .DependencyStepsFinishedBrokenIgnored =>
      if !allDone c σ s && allTerminal c σ s && (c.rc s).ignore_broken_dep_steps then some σ.slots else none
  | .CheckingOutputs, .DependencyStepsFinishedSuccessfully, .CheckedOutputs => some σ.slots
  | .CheckingOutputs, .DependencyStepsFinishedBrokenIgnored, .CheckedOutputs => some σ.slots
  | .CheckingSuperficialDiffs, .CheckedOutputs, .SuperficialDiffsChanged => some σ.slots
  | .CheckingSuperficialDiffs, .OutputsIgnored, .SuperficialDiffsChanged => some σ.slots
  | .CheckingSuperficialDiffs, .CheckedOutputs, .SuperficialDiffsNotChanged =>
      if c.noDeps s then none else some σ.slots
  | .CheckingSuperficialDiffs, .OutputsIgnored, .SuperficialDiffsNotChanged =>
      if c.noDeps s then none else some σ.slots
  | .CheckingThoroughDiffs, .SuperficialDiffsChanged, .ThoroughDiffsChanged => some σ.slots
  | .CheckingThoroughDiffs, .SuperficialDiffsIgnored, .ThoroughDiffsChanged => some σ.slots
  | .CheckingThoroughDiffs, .SuperficialDiffsChanged, .ThoroughDiffsNotChanged =>
      if c.noDeps s then none else some σ.slots
  | .CheckingThoroughDiffs, .SuperficialDiffsIgnored, .ThoroughDiffsNotChanged =>
      if c.noDeps s then none else some σ.slots
  | .ComparingDiffsAndOutputs, .SuperficialDiffsNotChanged, .RunAlways =>
      if (c.rc s).always then some σ.slots else none
  | .ComparingDiffsAndOutputs, .ThoroughDiffsNotChanged, .RunAlways =>
      if (c.rc s).always then some σ.slots else none
  | .ComparingDiffsAndOutputs, .SuperficialDiffsNotChanged, .DiffsHasChanged =>
      if (c.rc s).always then none else some σ.slots
  | .ComparingDiffsAndOutputs, .ThoroughDiffsNotChanged, .DiffsHasChanged =>
      if (c.rc s).always then none else some σ.slots
  | .ComparingDiffsAndOutputs, .SuperficialDiffsNotChanged, .DiffsHasNotChanged =>
      if (c.rc s).always then none else some σ.slots
  | .ComparingDiffsAndOutputs, .ThoroughDiffsNotChanged, .DiffsHasNotChanged =>
      if (c.rc s).always then none else some σ.slots
  | .ComparingDiffsAndOutputs, .ThoroughDiffsChanged, .DiffsHasChanged => some σ.slots
  | .WaitingToRun, .DiffsHasChanged, .StartProcess => if 0 < σ.slots then some (σ.slots - 1) else none
  | .WaitingToRun, .RunAlways, .StartProcess => if 0 < σ.slots then some (σ.slots - 1) else none
  | .WaitingToRun, .ProcessPoolFull, .StartProcess => if 0 < σ.slots then some (σ.slots - 1) else none
  | .WaitingToRun, .DiffsHasChanged, .ProcessPoolFull => if σ.slots = 0 then some σ.slots else none
  | .WaitingToRun, .RunAlways, .ProcessPoolFull => if σ.slots = 0 then some σ.slots else none
  | .Running, .StartProcess, .WaitProcess => some σ.slots
  | .Running, .WaitProcess, .ProcessCompletedSuccessfully =>
      if σ.proc s = .exited true then some (σ.slots + 1) else none
  | .Running, .WaitProcess, .ProcessReturnedNonZero =>
      if σ.proc s = .exited false then some (σ.slots + 1) else none
  | .Running, .WaitProcess, .ProcessTimeout => if σ.proc s = .running then some (σ.slots + 1) else none
  | _, _, _ => none

/-- the events the model lets the handler of (state, entering event) return, independent of the system state;
    compared with the generated `Gen.emits` in `Props.lean` -/
def guardEvents : St → Ev → List Ev
  | .Begin, .Init => [.RunNever, .RunConditional]
  | .WaitingDependencySteps, .RunConditional => [.DependencyStepsFinishedSuccessfully, .DependencyStepsRunning]
  | .WaitingDependencySteps, .DependencyStepsRunning =>
      [.DependencyStepsFinishedSuccessfully, .DependencyStepsFinishedBroken, .DependencyStepsFinishedBrokenIgnored]
  | .CheckingOutputs, .DependencyStepsFinishedSuccessfully => [.CheckedOutputs]
  | .CheckingOutputs, .DependencyStepsFinishedBrokenIgnored => [.CheckedOutputs]
  | .CheckingSuperficialDiffs, .CheckedOutputs => [.SuperficialDiffsChanged, .SuperficialDiffsNotChanged]
  | .CheckingSuperficialDiffs, .OutputsIgnored => [.SuperficialDiffsChanged, .SuperficialDiffsNotChanged]
  | .CheckingThoroughDiffs, .SuperficialDiffsChanged => [.ThoroughDiffsChanged, .ThoroughDiffsNotChanged]
  | .CheckingThoroughDiffs, .SuperficialDiffsIgnored => [.ThoroughDiffsChanged, .ThoroughDiffsNotChanged]
  | .ComparingDiffsAndOutputs, .SuperficialDiffsNotChanged => [.RunAlways, .DiffsHasChanged, .DiffsHasNotChanged]
  | .ComparingDiffsAndOutputs, .ThoroughDiffsNotChanged => [.RunAlways, .DiffsHasChanged, .DiffsHasNotChanged]
  | .ComparingDiffsAndOutputs, .ThoroughDiffsChanged => [.DiffsHasChanged]
  | .WaitingToRun, .DiffsHasChanged => [.StartProcess, .ProcessPoolFull]
  | .WaitingToRun, .RunAlways => [.StartProcess, .ProcessPoolFull]
  | .WaitingToRun, .ProcessPoolFull => [.StartProcess]
  | .Running, .StartProcess => [.WaitProcess]
  | .Running, .WaitProcess => [.ProcessCompletedSuccessfully, .ProcessReturnedNonZero, .ProcessTimeout]
  | _, _ => []

/-- labels of `Next` steps -/
inductive Label where
  | publish (s : Nat)
  | handler (s : Nat) (e : Ev)
  | deliver (s : Nat)
  | procExit (s : Nat) (ok : Bool)
  | die (s : Nat)
deriving Repr

/-- executable successor function: `some σ'` iff the labelled step is enabled -/
def stepL (c : Cfg) (σ : Sys) : Label → Option Sys
  | .publish s =>
      if s < c.n ∧ σ.sent s = false ∧ σ.fin s = false then
        some { σ with sent := upd σ.sent s true, chan := upd σ.chan s (σ.chan s ++ [(σ.loc s, σ.frm s)]),
                      fin := upd σ.fin s (σ.loc s).terminal }
      else none
  | .handler s e =>
      if s < c.n ∧ σ.sent s = true ∧ σ.fin s = false then
        match trans (σ.loc s) e, guardB c σ s (σ.loc s) (σ.frm s) e with
        | some y, some k =>
            some { σ with loc := upd σ.loc s y, frm := upd σ.frm s e, sent := upd σ.sent s false, slots := k,
                          proc := upd σ.proc s (procEffect e (σ.proc s)) }
        | _, _ => none
      else none
  | .deliver s =>
      if s < c.n then
        match σ.chan s with
        | x :: rest => some { σ with chan := upd σ.chan s rest, pub := upd σ.pub s x }
        | [] => none
      else none
  | .procExit s ok =>
      if s < c.n ∧ σ.proc s = .running then some { σ with proc := upd σ.proc s (.exited ok) } else none
  | .die s =>
      if s < c.n ∧ σ.fin s = false ∧ (σ.loc s).terminal = false then
        some { σ with loc := upd σ.loc s .Broken, frm := upd σ.frm s .KeepBroken, sent := upd σ.sent s true,
                      fin := upd σ.fin s true, chan := upd σ.chan s (σ.chan s ++ [(.Broken, .KeepBroken)]),
                      slots := if σ.loc s = .Running then σ.slots + 1 else σ.slots,
                      proc := upd σ.proc s (if σ.proc s = .running then .killed else σ.proc s) }
      else none

/-- run a list of labels from a state -/
def runL (c : Cfg) : Sys → List Label → Option Sys
  | σ, [] => some σ
  | σ, l :: ls => match stepL c σ l with
    | some σ' => runL c σ' ls
    | none => none

end Sched
