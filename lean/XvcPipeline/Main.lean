import XvcPipeline.Sched
import XvcPipeline.Graph
/-!
  Line-protocol driver of the scheduler model (`schedmodel sched-validate`).

  Input, per case (lib/sched_common.py `driver_input`):
      case <id>
      n <n> pool <k>
      step <i> <name> <when>                  when = by_dependencies | always | never
      dep <i> step <j> | dep <i> file <path> | dep <i> glob <pattern>
      out <j> <path>
      trace-begin
      <lines of the XVC_VERIF_TRACE file of one `xvc pipeline run`>    (format: pipeline/src/pipeline/verif.rs)
      trace-end
  Answer: one line, `valid steps=<k> final=<..> rules=<..>` or `invalid at=<seq> reason=<..>`.

  A trace is valid when
    * the logged edge list (E lines) equals `buildGraph` of the records, the logged run conditions (R lines) equal
      `Gen.runConditions`, the logged pool size equals the configured one;
    * the sequence of labels derived from the H / B / S / D lines is executed by `Sched.stepL` from `Sched.init`
      without ever returning `none` (so, by `Sched.stepL_sound`, it is a run of `Next`), where a handler step is
      placed at its slot operation (S line) if it has one and otherwise immediately before the H line that publishes
      its result (sound because the guards that read the bulletin are monotone: `C10_pub_monotone`);
      an unobserved process exit is inserted before the handler step that reports it;
    * every logged state, delivered state and slot count equals the model's;
    * a thread failure logged in state `Running` (D line) is executed as the model's `die` step at the `S release` line
      that follows it (the real counter changes there, under its lock; between the two lines other threads still see
      the slot as taken), a failure in any other state at the D line itself;
    * at the end every step thread has finished, all slots are back, and for every step whose queue is empty the bulletin
      map equals the local state (the bulletin thread may be stopped with a last message still queued).
-/
open Sched Sched.Gen

structure Entry where
  seq : Nat
  kind : String
  step : Nat
  st : St := default
  ev : Ev := default
  op : String := ""
  slots : Nat := 0
deriving Inhabited

structure Case where
  id : String := ""
  n : Nat := 0
  pool : Nat := 0
  names : List (String × Nat) := []
  whens : List (Nat × String) := []
  recs : List (Nat × DepRec) := []
  outs : List (Nat × String) := []
  trace : Array String := #[]

def parseState (s : String) : Option (St × Ev) :=
  match s.splitOn "(" with
  | [a, b] =>
    let bl := b.toList
    let bl := if bl.take 4 == "From".toList then bl.drop 4 else bl
    let bl := bl.takeWhile (· != ')')
    match St.ofName a, Ev.ofName (String.ofList bl) with
    | some x, some e => some (x, e)
    | _, _ => none
  | _ => none

def whenOf (s : String) : Option Invalidate :=
  if s == "by_dependencies" then some .ByDependencies
  else if s == "always" then some .Always
  else if s == "never" then some .Never
  else none

def lookupS (l : List (String × Nat)) (k : String) : Option Nat := (l.find? (fun p => p.1 == k)).map (·.2)

def insertSorted (x : Nat) : List Nat → List Nat
  | [] => [x]
  | y :: ys => if x < y then x :: y :: ys else if x == y then y :: ys else y :: insertSorted x ys
def sortDedup (l : List Nat) : List Nat := l.foldr insertSorted []

def boolStr (b : Bool) : String := if b then "true" else "false"

def showSt (p : St × Ev) : String := s!"{p.1.name}(From{p.2.name})"

/-- validate one case; returns the answer line -/
def validate (cs : Case) : String := Id.run do
  let pl : Pipeline := {
    n := cs.n,
    recs := fun i => (cs.recs.filter (fun p => p.1 == i)).map (·.2),
    outs := fun j => (cs.outs.filter (fun p => p.1 == j)).map (·.2) }
  let whenI : Nat → Invalidate := fun i =>
    match (cs.whens.find? (fun p => p.1 == i)).bind (fun p => whenOf p.2) with
    | some w => w
    | none => .ByDependencies
  let noDeps : Nat → Bool := fun i => (pl.recs i).isEmpty
  let c : Cfg := { n := cs.n, deps := buildGraph pl, pool := cs.pool,
                   rc := fun i => runConditions (whenI i) (noDeps i), noDeps := noDeps }
  -- pass 1: tokens, entity names
  let mut ents : List (String × Nat) := []
  let mut entries : Array Entry := #[]
  let mut edges : List (Nat × Nat) := []
  let mut rcs : List (Nat × String) := []
  let mut poolLogged : Option Nat := none
  for line in cs.trace do
    let t := line.trimAscii.toString.splitOn " "
    match t with
    | [_, "V", ent, name] =>
      match lookupS cs.names name with
      | some i => ents := (ent, i) :: ents
      | none => return s!"invalid at=0 reason=unknown-step-name:{name}"
    | _ => pure ()
  for line in cs.trace do
    let t := line.trimAscii.toString.splitOn " "
    match t with
    | [_, "V", _, _] => pure ()
    | [sq, "E", a, b] =>
      match lookupS ents a, lookupS ents b with
      | some i, some j => edges := (i, j) :: edges
      | _, _ => return s!"invalid at={sq} reason=edge-of-unknown-step"
    | [sq, "R", a, r1, r2, r3, r4] =>
      match lookupS ents a with
      | some i => rcs := (i, s!"{r1} {r2} {r3} {r4}") :: rcs
      | none => return s!"invalid at={sq} reason=R-of-unknown-step"
    | [_, "P", k] => poolLogged := k.toNat?
    | [sq, k, a, s, sl] =>
      if k == "H" || k == "D" then
        match sq.toNat?, lookupS ents a, parseState s, sl.toNat? with
        | some q, some i, some (x, e), some n => entries := entries.push { seq := q, kind := k, step := i, st := x, ev := e, slots := n }
        | _, _, _, _ => return s!"invalid at={sq} reason=unparsable-line"
      else if k == "S" then
        match sq.toNat?, lookupS ents a, sl.toNat? with
        | some q, some i, some n => entries := entries.push { seq := q, kind := k, step := i, op := s, slots := n }
        | _, _, _ => return s!"invalid at={sq} reason=unparsable-line"
      else return s!"invalid at={sq} reason=unknown-kind:{k}"
    | [sq, "B", a, s] =>
      match sq.toNat?, lookupS ents a, parseState s with
      | some q, some i, some (x, e) => entries := entries.push { seq := q, kind := "B", step := i, st := x, ev := e }
      | _, _, _ => return s!"invalid at={sq} reason=unparsable-line"
    | _ => return s!"invalid at=0 reason=unparsable-line:{line}"
  -- static part: graph, run conditions, pool
  if ents.length != cs.n then return s!"invalid at=0 reason=graph-nodes:{ents.length}-expected:{cs.n}"
  for i in List.range cs.n do
    let logged := sortDedup ((edges.filter (fun p => p.1 == i)).map (·.2))
    let model := sortDedup (c.deps i)
    if logged != model then
      return s!"invalid at=0 reason=edges-of-step-{i}:logged={logged}:buildGraph={model}"
    let r := c.rc i
    let want := s!"{boolStr r.never} {boolStr r.always} {boolStr r.ignore_broken_dep_steps} {boolStr r.ignore_missing_outputs}"
    match rcs.find? (fun p => p.1 == i) with
    | some (_, got) => if got != want then return s!"invalid at=0 reason=run-conditions-of-step-{i}:logged={got}:model={want}"
    | none => return s!"invalid at=0 reason=no-run-conditions-logged-for-step-{i}"
  if poolLogged != some cs.pool then return s!"invalid at=0 reason=pool-size:logged={poolLogged}:configured={cs.pool}"
  -- dynamic part
  let mut σ := init c
  let mut nsteps := 0
  let mut died : List Nat := []
  -- threads whose failure (D line) was logged in state `Running`: the model's `die` step (which gives the slot back)
  -- is applied at the `S release` line that follows, because that is where the real counter changes (under its lock);
  -- between the two lines other threads legitimately still see the slot as taken
  let mut dying : List Nat := []
  let mut rules : List (String × Nat) := []
  let bump := fun (rules : List (String × Nat)) (k : String) =>
    if rules.any (fun p => p.1 == k) then rules.map (fun p => if p.1 == k then (p.1, p.2 + 1) else p) else rules ++ [(k, 1)]
  -- the event by which step `s` enters the state published by its next H line after index `k`
  let nextEv := fun (k : Nat) (s : Nat) => Id.run do
    let mut r : Option (String × Ev) := none
    for j in List.range entries.size do
      if j > k && r.isNone then
        let e := entries[j]!
        if e.step == s && (e.kind == "H" || e.kind == "D") then r := some (e.kind, e.ev)
    return r
  for k in List.range entries.size do
    let en := entries[k]!
    let s := en.step
    -- C13_slots_bounded: along every run of the model 0 <= free slots <= pool size; a logged value above the pool size
    -- (e.g. an unsigned counter that wrapped below zero) is no state of the model
    if en.kind != "B" && en.slots > cs.pool then
      return s!"invalid at={en.seq} reason=slot counter {en.slots} > pool size {cs.pool} (logged on a {en.kind} line of step {s}; C13_slots_bounded: 0 <= free slots <= pool size along every run)"
    -- apply a handler step (inserting the unobserved process exit it reports)
    let doHandler := fun (σ : Sys) (e : Ev) =>
      let σ1 := match e with
        | .ProcessCompletedSuccessfully => if σ.proc s = .running then (stepL c σ (.procExit s true)).getD σ else σ
        | .ProcessReturnedNonZero => if σ.proc s = .running then (stepL c σ (.procExit s false)).getD σ else σ
        | _ => σ
      stepL c σ1 (.handler s e)
    if en.kind == "H" then
      if died.contains s || dying.contains s then return s!"invalid at={en.seq} reason=state-published-after-thread-death"
      if σ.loc s != en.st || σ.frm s != en.ev then
        match doHandler σ en.ev with
        | some σ' => σ := σ'; nsteps := nsteps + 1; rules := bump rules en.ev.name
        | none => return s!"invalid at={en.seq} reason=handler-not-enabled:step={s}:from={showSt (σ.loc s, σ.frm s)}:event={en.ev.name}"
      if σ.loc s != en.st || σ.frm s != en.ev then
        return s!"invalid at={en.seq} reason=state-differs:step={s}:logged={showSt (en.st, en.ev)}:model={showSt (σ.loc s, σ.frm s)}"
      match stepL c σ (.publish s) with
      | some σ' => σ := σ'; nsteps := nsteps + 1; rules := bump rules "publish"
      | none => return s!"invalid at={en.seq} reason=publish-not-enabled:step={s}:state={showSt (en.st, en.ev)}"
    else if en.kind == "B" then
      match σ.chan s with
      | x :: _ =>
        if x != (en.st, en.ev) then
          return s!"invalid at={en.seq} reason=bulletin-out-of-order:step={s}:logged={showSt (en.st, en.ev)}:model-channel-head={showSt x}"
      | [] => return s!"invalid at={en.seq} reason=bulletin-delivers-unsent-state:step={s}:logged={showSt (en.st, en.ev)}"
      match stepL c σ (.deliver s) with
      | some σ' => σ := σ'; nsteps := nsteps + 1; rules := bump rules "deliver"
      | none => return s!"invalid at={en.seq} reason=deliver-not-enabled"
    else if en.kind == "D" then
      if σ.loc s != en.st then
        return s!"invalid at={en.seq} reason=state-differs-at-death:step={s}:logged={en.st.name}:model={(σ.loc s).name}"
      if died.contains s || dying.contains s then return s!"invalid at={en.seq} reason=thread-failure-logged-twice:step={s}"
      if σ.loc s == .Running then
        dying := s :: dying
      else
        match stepL c σ (.die s) with
        | some σ' => σ := σ'; nsteps := nsteps + 1; died := s :: died; rules := bump rules "die"
        | none => return s!"invalid at={en.seq} reason=die-not-enabled:step={s}"
    else -- S
      if en.op == "acquire" then
        match doHandler σ .StartProcess with
        | some σ' => σ := σ'; nsteps := nsteps + 1; rules := bump rules "StartProcess"
        | none => return s!"invalid at={en.seq} reason=slot-acquired-but-start-not-enabled:step={s}:model-slots={σ.slots}:state={showSt (σ.loc s, σ.frm s)}"
      else if en.op == "full" then
        if σ.loc s == .WaitingToRun && σ.frm s == .ProcessPoolFull && σ.sent s then
          -- poll inside s_waiting_to_run_f_process_pool_full: no step, the guard of `start` must be false
          if σ.slots != 0 then return s!"invalid at={en.seq} reason=pool-reported-full-with-free-slots:model-slots={σ.slots}"
        else
          match doHandler σ .ProcessPoolFull with
          | some σ' => σ := σ'; nsteps := nsteps + 1; rules := bump rules "ProcessPoolFull"
          | none => return s!"invalid at={en.seq} reason=pool-full-not-enabled:step={s}:model-slots={σ.slots}:state={showSt (σ.loc s, σ.frm s)}"
      else if en.op == "release" then
        if dying.contains s then
          -- the slot held by a failed thread comes back: this is the model's `die` step
          match stepL c σ (.die s) with
          | some σ' =>
            σ := σ'; nsteps := nsteps + 1; died := s :: died; dying := dying.filter (· != s)
            rules := bump rules "die-at-Running"
          | none => return s!"invalid at={en.seq} reason=die-not-enabled:step={s}"
        else if died.contains s then
          return s!"invalid at={en.seq} reason=slot-released-by-a-failed-thread-that-holds-none:step={s} (C13_slots_exact: a slot comes back exactly once)"
        else
          match nextEv k s with
          | some ("H", e) =>
            match doHandler σ e with
            | some σ' => σ := σ'; nsteps := nsteps + 1; rules := bump rules e.name
            | none => return s!"invalid at={en.seq} reason=slot-released-but-exit-not-enabled:step={s}:event={e.name}:state={showSt (σ.loc s, σ.frm s)}"
          | some ("D", _) =>
            return s!"invalid at={en.seq} reason=slot-released-by-the-handler-before-the-thread-failure-releases-it-again:step={s}:state={showSt (σ.loc s, σ.frm s)} (the model's `die` step at Running gives the slot back exactly once; C13_slots_exact)"
          | _ => return s!"invalid at={en.seq} reason=slot-released-without-a-following-state:step={s}"
      else return s!"invalid at={en.seq} reason=unknown-slot-operation:{en.op}"
      if σ.slots != en.slots then
        return s!"invalid at={en.seq} reason=slot-counter-differs:logged={en.slots}:model={σ.slots}"
  -- final
  let mut undelivered := 0
  for i in List.range cs.n do
    if dying.contains i then
      return s!"invalid at=end reason=thread-of-step-{i}-failed-in-Running-but-its-slot-never-came-back"
    if !σ.fin i then return s!"invalid at=end reason=step-{i}-did-not-finish:model-state={showSt (σ.loc i, σ.frm i)}"
    -- the bulletin thread is stopped by a kill signal after the step threads are joined; it may stop between its last
    -- poll and a final message (a benign race of the implementation), so queued states at the end are tolerated
    if !(σ.chan i).isEmpty then undelivered := undelivered + 1
    else if σ.pub i != (σ.loc i, σ.frm i) then return s!"invalid at=end reason=bulletin-differs-from-local-state-of-step-{i}"
  if σ.slots != cs.pool then return s!"invalid at=end reason=slots-not-returned:model-slots={σ.slots}"
  let final := ",".intercalate ((List.range cs.n).map (fun i => s!"{i}:{(σ.loc i).name}"))
  let rs := ",".intercalate (rules.map (fun p => s!"{p.1}:{p.2}"))
  return s!"valid steps={nsteps} final={final} rules={rs} undelivered={undelivered}"

def parseCaseLine (cs : Case) (line : String) : Case :=
  match line.trimAscii.toString.splitOn " " with
  | ["case", id] => { cs with id := id }
  | ["n", n, "pool", k] => { cs with n := n.toNat?.getD 0, pool := k.toNat?.getD 0 }
  | ["step", i, name, w] =>
    match i.toNat? with
    | some i => { cs with names := (name, i) :: cs.names, whens := (i, w) :: cs.whens }
    | none => cs
  | ["dep", i, "step", j] =>
    match i.toNat?, j.toNat? with
    | some i, some j => { cs with recs := cs.recs ++ [(i, DepRec.step j)] }
    | _, _ => cs
  | ["dep", i, "file", p] =>
    match i.toNat? with
    | some i => { cs with recs := cs.recs ++ [(i, DepRec.path .File p)] }
    | none => cs
  | ["dep", i, "path", k, p] =>          -- any path-equality kind by its Rust name (Regex, RegexItems, Lines, LineItems, Param, ..)
    match i.toNat?, DepKind.ofName k with
    | some i, some k => { cs with recs := cs.recs ++ [(i, DepRec.path k p)] }
    | _, _ => cs
  | ["dep", i, "globitems", g, recorded] =>   -- recorded items comma separated, `-` for none
    match i.toNat? with
    | some i => { cs with recs := cs.recs ++ [(i, DepRec.globItems g (if recorded == "-" then [] else recorded.splitOn ","))] }
    | none => cs
  | ["dep", i, "glob", p] =>
    match i.toNat? with
    | some i => { cs with recs := cs.recs ++ [(i, DepRec.glob p)] }
    | none => cs
  | ["dep", i, "other"] =>
    match i.toNat? with
    | some i => { cs with recs := cs.recs ++ [(i, DepRec.other)] }
    | none => cs
  | ["out", j, p] =>
    match j.toNat? with
    | some j => { cs with outs := cs.outs ++ [(j, p)] }
    | none => cs
  | _ => cs

/-- `schedmodel acyclic`: one graph per line `n e=a>b,c>d` -> `acyclic` | `cycle` (model-level cycle test) -/
def acyclicLine (line : String) : String :=
  match line.trimAscii.toString.splitOn " " with
  | [n, es] =>
    let n := n.toNat?.getD 0
    let pairs := ((es.drop 2).toString.splitOn ",").filterMap (fun e =>
      match e.splitOn ">" with
      | [a, b] => match a.toNat?, b.toNat? with
        | some a, some b => some (a, b)
        | _, _ => none
      | _ => none)
    let deps := fun i => (pairs.filter (fun p => p.1 == i)).map (·.2)
    if acyclic n deps then "acyclic" else "cycle"
  | _ => "bad-line"

partial def loopValidate (stdin stdout : IO.FS.Stream) (cs : Case) (inTrace : Bool) : IO Unit := do
  let line ← stdin.getLine
  if line.isEmpty then return ()
  let l := line.trimAscii.toString
  if inTrace then
    if l == "trace-end" then
      stdout.putStrLn (validate cs)
      stdout.flush
      loopValidate stdin stdout {} false
    else loopValidate stdin stdout { cs with trace := cs.trace.push l } true
  else if l == "trace-begin" then loopValidate stdin stdout cs true
  else loopValidate stdin stdout (parseCaseLine cs l) false

/-- `schedmodel edge`: one question per line `<Kind> <pattern or path> <recorded items, comma separated, or -> <output path>`
    -> `true` | `false`: does the model's `dependencies_to_path` produce the edge? -/
def edgeLine (line : String) : String :=
  match line.trimAscii.toString.splitOn " " with
  | [k, pat, recorded, out] =>
    match DepKind.ofName k with
    | some kind =>
      let rec_ := if recorded == "-" then [] else recorded.splitOn ","
      let r : DepRec := if kind == .Glob then .glob pat else if kind == .GlobItems then .globItems pat rec_ else .path kind pat
      if r.reads out then "true" else "false"
    | none => "unknown-kind"
  | _ => "bad-line"

partial def loopEdge (stdin stdout : IO.FS.Stream) : IO Unit := do
  let line ← stdin.getLine
  if line.isEmpty then return ()
  stdout.putStrLn (edgeLine line)
  loopEdge stdin stdout

partial def loopAcyclic (stdin stdout : IO.FS.Stream) : IO Unit := do
  let line ← stdin.getLine
  if line.isEmpty then return ()
  stdout.putStrLn (acyclicLine line)
  loopAcyclic stdin stdout

def main (args : List String) : IO UInt32 := do
  let stdin ← IO.getStdin
  let stdout ← IO.getStdout
  match args with
  | ["sched-validate"] => loopValidate stdin stdout {} false; return 0
  | ["acyclic"] => loopAcyclic stdin stdout; return 0
  | ["edge"] => loopEdge stdin stdout; return 0
  | _ => IO.eprintln "usage: schedmodel sched-validate | acyclic | edge"; return 2
