import XvcPipeline.Sched
def main (_args : List String) : IO UInt32 := do
  let stdin ← IO.getStdin
  let stdout ← IO.getStdout
  let mut go := true
  while go do
    let line ← stdin.getLine
    if line.isEmpty then go := false
    else if line.trimAscii.toString == "trace-end" then stdout.putStrLn "valid stub"
  return 0
