-- This module serves as the root of the `XvcPipeline` library.
-- Import modules here that should be built as part of the library.
import XvcPipeline.Basic
