import XvcPipeline.Gen.StepFsm
import XvcPipeline.Gen.RunCond
import XvcPipeline.Gen.Handlers
import XvcPipeline.Sched
import XvcPipeline.Inv
import XvcPipeline.Props.C10
import XvcPipeline.Props.C13
import XvcPipeline.Graph
