import XvcIgnore.WalkLemmas
/-!
  # The walkers as a transition system (model of the thread structure of walker/src/walk_parallel.rs
  and of the loop of walker/src/walk_serial.rs)

  `PStep` is a small-step system over the shared state of a walk: the one growing rule list
  (`IgnoreRules`, behind its `RwLock`), the queue/stack of directories still to visit, the directories
  some thread is currently listing with the children it has not checked yet, and the paths sent so far.
  **Any** pending directory may be started at any time and **any** unchecked child of **any** started
  directory may be checked next: this covers every interleaving of the `MAX_THREADS_PARALLEL_WALK`
  threads of `walk_parallel` (each thread: pop a directory, `update_ignore_rules`, check its children in
  listing order, push the surviving sub-directories), every queue discipline, and `walk_serial` (one
  thread, LIFO stack, `read_dir` order).  Atomicity is that of the code: `update_ignore_rules` runs
  under the write lock, every `check` under the read lock.

  `Job.base` / `Act.base` are history variables (the rules a schedule-free walk would use); no guard
  and no effect of a step reads them.
-/
namespace Ign

/-! ## paths as component lists -/

/-- `[] ↦ ""`, `[a, b] ↦ "/a/b"` -/
def pathOf (cs : List Str) : Str := cs.flatMap (fun c => '/' :: c)

theorem pathOf_snoc (cs : List Str) (n : Str) : pathOf (cs ++ [n]) = childPath (pathOf cs) n := by
  simp [pathOf, childPath, List.flatMap_append]

/-- a usable entry name: non-empty, no separator (true of every file system; since the F32 repair glob
    metacharacters in names are harmless: the directory part of a glob is escaped) -/
def NameOk (n : Str) : Prop := n ≠ [] ∧ ∀ c ∈ n, c ≠ '/'

instance (n : Str) : Decidable (NameOk n) := by unfold NameOk; infer_instance

theorem split_first_slash : ∀ (d a X Y : Str), '/' ∉ d → '/' ∉ a → (d ++ '/' :: X) <+: (a ++ '/' :: Y) → d = a ∧ X <+: Y
  | [], [], X, Y, _, _, h => by
    obtain ⟨t, ht⟩ := h
    simp only [List.nil_append, List.cons_append, List.cons.injEq, true_and] at ht
    exact ⟨rfl, t, ht⟩
  | [], c :: a, X, Y, _, ha, h => by
    obtain ⟨t, ht⟩ := h
    simp only [List.nil_append, List.cons_append, List.cons.injEq] at ht
    exact absurd (ht.1 ▸ (by simp : c ∈ c :: a)) ha
  | c :: d, [], X, Y, hd, _, h => by
    obtain ⟨t, ht⟩ := h
    simp only [List.nil_append, List.cons_append, List.cons.injEq] at ht
    exact absurd (ht.1 ▸ (by simp : c ∈ c :: d)) hd
  | c :: d, e :: a, X, Y, hd, ha, h => by
    obtain ⟨t, ht⟩ := h
    simp only [List.cons_append, List.cons.injEq] at ht
    obtain ⟨h1, h2⟩ := split_first_slash d a X Y (fun h => hd (by simp [h])) (fun h => ha (by simp [h])) ⟨t, ht.2⟩
    exact ⟨by rw [ht.1, h1], h2⟩

/-- if the directory `D` contains the entry `A/name` then `D` is `A` or one of its ancestors -/
theorem prefix_of_under : ∀ (D A : List Str) (name : Str), (∀ d ∈ D, NameOk d) → (∀ a ∈ A, NameOk a) → NameOk name →
    Under (pathOf D) (pathOf (A ++ [name])) → D <+: A
  | [], A, _, _, _, _, _ => List.nil_prefix
  | d :: D, [], name, hD, _, hn, h => by
    exfalso
    unfold Under at h
    simp only [pathOf, List.flatMap_cons, List.flatMap_nil, List.nil_append, List.append_nil, List.cons_append] at h
    obtain ⟨t, ht⟩ := h
    simp only [List.cons_append, List.cons.injEq, true_and] at ht
    -- d ++ (rest ++ "/") ++ t = name : `name` would contain a '/'
    have hmem : '/' ∈ name := by
      rw [← ht]
      cases hD' : List.flatMap (fun c => '/' :: c) D with
      | nil => simp
      | cons x xs =>
        have : x = '/' := by
          cases D with
          | nil => simp at hD'
          | cons y ys => simp only [List.flatMap_cons, List.cons_append, List.cons.injEq] at hD'; exact hD'.1.symm
        subst this; simp
    exact (hn.2 _ hmem) rfl
  | d :: D, a :: A, name, hD, hA, hn, h => by
    unfold Under at h
    have hd := hD d (by simp); have ha := hA a (by simp)
    have e1 : pathOf (d :: D) ++ ['/'] = '/' :: (d ++ (pathOf D ++ ['/'])) := by simp [pathOf]
    have e2 : pathOf (a :: A ++ [name]) = '/' :: (a ++ pathOf (A ++ [name])) := by simp [pathOf]
    rw [e1, e2] at h
    obtain ⟨t, ht⟩ := h
    simp only [List.cons_append, List.cons.injEq, true_and] at ht
    -- both continuations start with '/'
    obtain ⟨X, hX⟩ : ∃ X, pathOf D ++ ['/'] = '/' :: X := by
      cases D with
      | nil => exact ⟨[], by simp [pathOf]⟩
      | cons y ys => exact ⟨y ++ pathOf ys ++ ['/'], by simp [pathOf]⟩
    obtain ⟨Y, hY⟩ : ∃ Y, pathOf (A ++ [name]) = '/' :: Y := by
      cases A with
      | nil => exact ⟨name, by simp [pathOf]⟩
      | cons y ys => exact ⟨y ++ pathOf (ys ++ [name]), by simp [pathOf]⟩
    have hp : (d ++ '/' :: X) <+: (a ++ '/' :: Y) := ⟨t, by rw [← hX, ← hY]; simpa [List.append_assoc] using ht⟩
    obtain ⟨hda, hXY⟩ := split_first_slash d a X Y (fun h => (hd.2 _ h) rfl) (fun h => (ha.2 _ h) rfl) hp
    subst hda
    have : Under (pathOf D) (pathOf (A ++ [name])) := by
      unfold Under; rw [hX, hY]; exact (List.cons_prefix_cons.2 ⟨rfl, hXY⟩)
    exact List.cons_prefix_cons.2 ⟨rfl, prefix_of_under D A name (fun x hx => hD x (by simp [hx])) (fun x hx => hA x (by simp [hx])) hn this⟩

/-! ## the ignore file of a sub-directory is confined to it -/

theorem pathOf_last : ∀ (D : List Str), D ≠ [] → (∀ d ∈ D, NameOk d) → ∃ x, (pathOf D).getLast? = some x ∧ x ≠ '/'
  | [], h, _ => absurd rfl h
  | [d], _, hD => by
    have hd := hD d (by simp)
    obtain ⟨x, hx⟩ : ∃ x, d.getLast? = some x := by
      cases hl : d.getLast? with
      | none => exact absurd (List.getLast?_eq_none_iff.1 hl) hd.1
      | some x => exact ⟨x, rfl⟩
    refine ⟨x, ?_, fun e => (hd.2 x (List.mem_of_getLast? hx)) e⟩
    simp only [pathOf, List.flatMap_cons, List.flatMap_nil, List.append_nil]
    cases d with
    | nil => exact absurd rfl hd.1
    | cons c r => rw [List.getLast?_cons_cons]; exact hx
  | d :: d2 :: r, _, hD => by
    obtain ⟨x, hx, hne⟩ := pathOf_last (d2 :: r) (by simp) (fun y hy => hD y (by simp [hy]))
    refine ⟨x, ?_, hne⟩
    have : pathOf (d :: d2 :: r) = ('/' :: d) ++ pathOf (d2 :: r) := by simp [pathOf]
    rw [this, List.getLast?_append, hx]; rfl

theorem currentDir_pathOf (D : List Str) (hne : D ≠ []) (hD : ∀ d ∈ D, NameOk d) :
    currentDir (.file ((pathOf D).drop 1)) = pathOf D := by
  obtain ⟨x, hx, hxs⟩ := pathOf_last D hne hD
  cases D with
  | nil => exact absurd rfl hne
  | cons d D' =>
    have hd := hD d (by simp)
    have e : pathOf (d :: D') = '/' :: (d ++ pathOf D') := by simp [pathOf]
    rw [e] at hx ⊢
    simp only [List.drop_succ_cons, List.drop_zero]
    have hh : (d ++ pathOf D').head? ≠ some '/' := by
      cases d with
      | nil => exact absurd rfl hd.1
      | cons c r =>
        simp only [List.cons_append, List.head?_cons, ne_eq, Option.some.injEq]
        exact (hd.2 c (by simp))
    unfold currentDir
    simp only [hh, if_false]
    have : ('/' :: (d ++ pathOf D')).getLast? ≠ some '/' := by rw [hx]; simpa using hxs
    simp only [this, if_false]

theorem plainDir_pathOf (D : List Str) (hne : D ≠ []) : PlainDir (pathOf D) := by
  unfold PlainDir
  cases D with
  | nil => exact absurd rfl hne
  | cons d D' => simp [pathOf]

/-- every pattern of the ignore file of the sub-directory `D` matches only below `D` -/
theorem rulesOf_confined (D : List Str) (hne : D ≠ []) (hD : ∀ d ∈ D, NameOk d) (content : Str) :
    ∀ r ∈ rulesOf (pathOf D) content, Confined (pathOf D) r := by
  intro r hr
  unfold rulesOf contentToPatterns at hr
  obtain ⟨l, _, rfl⟩ := List.mem_map.1 hr
  have := new_confined (.file ((pathOf D).drop 1)) (if endsWith l "\\ ".toList then l else trimEnd l)
    (by rw [currentDir_pathOf D hne hD]; exact plainDir_pathOf D hne)
  rw [currentDir_pathOf D hne hD] at this
  exact this

/-! ## well-formed trees and navigation -/

mutual
/-- the sub-tree at a component path (first entry with the name, as a file system has at most one) -/
def nodeAt : Tree → List Str → Option Tree
  | t, [] => some t
  | .node _ _ dirs, c :: rest => nodeAtDirs dirs c rest
def nodeAtDirs : List (Str × Tree) → Str → List Str → Option Tree
  | [], _, _ => none
  | (n, t) :: ds, c, rest => if n = c then nodeAt t rest else nodeAtDirs ds c rest
end

mutual
/-- what every directory tree of a file system satisfies: names are non-empty and contain no `/`, the
    entries of one directory have distinct names — plus the restriction of `PlainDir`: no `* ? [ \` -/
def TreeOk : Tree → Prop
  | .node _ files dirs => (∀ f ∈ files, NameOk f) ∧ DirsOk dirs ∧ (dirs.map (·.1)).Nodup
def DirsOk : List (Str × Tree) → Prop
  | [] => True
  | (n, t) :: ds => NameOk n ∧ TreeOk t ∧ DirsOk ds
end

theorem dirsOk_mem : ∀ (ds : List (Str × Tree)), DirsOk ds → ∀ nt ∈ ds, NameOk nt.1 ∧ TreeOk nt.2
  | [], _, _, h => by simp at h
  | (n, t) :: ds, hok, nt, h => by
    simp only [DirsOk] at hok
    rcases List.mem_cons.1 h with rfl | h
    · exact ⟨hok.1, hok.2.1⟩
    · exact dirsOk_mem ds hok.2.2 nt h

theorem dirsOk_sub : ∀ (d1 : List (Str × Tree)) (x : Str × Tree) (d2 : List (Str × Tree)), DirsOk (d1 ++ x :: d2) → DirsOk (d1 ++ d2)
  | [], (n, t), d2, h => by simp only [List.nil_append, DirsOk] at h ⊢; exact h.2.2
  | (m, u) :: d1, x, d2, h => by
    simp only [List.cons_append, DirsOk] at h ⊢
    exact ⟨h.1, h.2.1, dirsOk_sub d1 x d2 h.2.2⟩

theorem nodeAtDirs_mem : ∀ (ds : List (Str × Tree)) (n : Str) (sub : Tree), (ds.map (·.1)).Nodup → (n, sub) ∈ ds →
    nodeAtDirs ds n [] = some sub
  | [], _, _, _, h => by simp at h
  | (m, u) :: ds, n, sub, hnd, h => by
    simp only [List.map_cons, List.nodup_cons] at hnd
    simp only [nodeAtDirs]
    rcases List.mem_cons.1 h with e | h
    · simp only [Prod.mk.injEq] at e; obtain ⟨rfl, rfl⟩ := e; simp [nodeAt]
    · have : m ≠ n := by
        intro e; subst e
        exact hnd.1 (List.mem_map.2 ⟨(m, sub), h, rfl⟩)
      simp only [this, if_false]
      exact nodeAtDirs_mem ds n sub hnd.2 h

mutual
theorem nodeAt_snoc : ∀ (t : Tree) (A : List Str) (c : Str) (files : List Str) (dirs : List (Str × Tree)) (n : Str) (sub : Tree),
    nodeAt t A = some (.node c files dirs) → (dirs.map (·.1)).Nodup → (n, sub) ∈ dirs → nodeAt t (A ++ [n]) = some sub
  | t, [], c, files, dirs, n, sub, h, hnd, hm => by
    simp only [nodeAt, Option.some.injEq] at h; subst h
    simp only [List.nil_append, nodeAt]
    exact nodeAtDirs_mem dirs n sub hnd hm
  | .node _ _ ds0, a :: A, c, files, dirs, n, sub, h, hnd, hm => by
    simp only [nodeAt, List.cons_append] at h ⊢
    exact nodeAtDirs_snoc ds0 a A c files dirs n sub h hnd hm
theorem nodeAtDirs_snoc : ∀ (ds0 : List (Str × Tree)) (a : Str) (A : List Str) (c : Str) (files : List Str) (dirs : List (Str × Tree))
    (n : Str) (sub : Tree), nodeAtDirs ds0 a A = some (.node c files dirs) → (dirs.map (·.1)).Nodup → (n, sub) ∈ dirs →
    nodeAtDirs ds0 a (A ++ [n]) = some sub
  | [], _, _, _, _, _, _, _, h, _, _ => by simp [nodeAtDirs] at h
  | (m, u) :: ds0, a, A, c, files, dirs, n, sub, h, hnd, hm => by
    simp only [nodeAtDirs] at h ⊢
    by_cases hma : m = a
    · simp only [hma, if_true] at h ⊢
      exact nodeAt_snoc u A c files dirs n sub h hnd hm
    · simp only [hma, if_false] at h ⊢
      exact nodeAtDirs_snoc ds0 a A c files dirs n sub h hnd hm
end

/-! ## the transition system -/

/-- a directory that has been queued: its components, its sub-tree, and (history variable) the rules a
    schedule-free walk uses for it -/
structure Job where
  comps : List Str
  tree : Tree
  base : List Pattern

/-- a directory some thread is processing: `update_ignore_rules` done, these children not yet checked -/
structure Act where
  comps : List Str
  base : List Pattern
  files : List Str
  dirs : List (Str × Tree)

structure PState where
  loaded : List Pattern       -- the shared `IgnoreRules`
  pending : List Job          -- `dir_queue` / `dir_stack`
  active : List Act           -- one per busy thread (any number: the bound 8 plays no role)
  emitted : List Str          -- what went into `path_sender` / `res_paths`

def PState.init (t : Tree) : PState :=
  { loaded := globalRules, pending := [⟨[], t, globalRules⟩], active := [], emitted := [] }

def PState.final (s : PState) : Prop := s.pending = [] ∧ s.active = []

inductive PStep : PState → PState → Prop
  /-- a thread pops any queued directory: `update_ignore_rules(dir)` appends its ignore file, then `directory_list(dir)` -/
  | start (s : PState) (l1 l2 : List Job) (j : Job) (c : Str) (files : List Str) (dirs : List (Str × Tree)) :
      s.pending = l1 ++ j :: l2 → j.tree = .node c files dirs →
      PStep s { loaded := s.loaded ++ rulesOf (pathOf j.comps) c, pending := l1 ++ l2,
                active := ⟨j.comps, j.base ++ rulesOf (pathOf j.comps) c, files, dirs⟩ :: s.active, emitted := s.emitted }
  /-- any busy thread checks any of its remaining non-directory children against the rules loaded *now* -/
  | file (s : PState) (a1 a2 : List Act) (a : Act) (f1 f2 : List Str) (f : Str) :
      s.active = a1 ++ a :: a2 → a.files = f1 ++ f :: f2 →
      PStep s { s with active := a1 ++ { a with files := f1 ++ f2 } :: a2,
                       emitted := if ignored s.loaded (childPath (pathOf a.comps) f) then s.emitted
                                  else childPath (pathOf a.comps) f :: s.emitted }
  /-- … or any of its remaining sub-directories; a surviving one is sent and queued -/
  | dir (s : PState) (a1 a2 : List Act) (a : Act) (d1 d2 : List (Str × Tree)) (n : Str) (sub : Tree) :
      s.active = a1 ++ a :: a2 → a.dirs = d1 ++ (n, sub) :: d2 →
      PStep s (if ignored s.loaded (childPath (pathOf a.comps) n) then
                 { s with active := a1 ++ { a with dirs := d1 ++ d2 } :: a2 }
               else
                 { s with active := a1 ++ { a with dirs := d1 ++ d2 } :: a2,
                          pending := ⟨a.comps ++ [n], sub, a.base⟩ :: s.pending,
                          emitted := childPath (pathOf a.comps) n :: s.emitted })
  /-- a thread that has checked all children of its directory is free again -/
  | done (s : PState) (a1 a2 : List Act) (a : Act) :
      s.active = a1 ++ a :: a2 → a.files = [] → a.dirs = [] →
      PStep s { s with active := a1 ++ a2 }

inductive PReach (t : Tree) : PState → Prop
  | init : PReach t (PState.init t)
  | step (s s' : PState) : PReach t s → PStep s s' → PReach t s'

/-! ## invariant -/

def JobOk (t0 : Tree) (loaded : List Pattern) (j : Job) : Prop :=
  nodeAt t0 j.comps = some j.tree ∧ TreeOk j.tree ∧ (∀ a ∈ j.comps, NameOk a) ∧
  (∀ r ∈ globalRules, r ∈ j.base) ∧ (∀ r ∈ j.base, r ∈ loaded) ∧
  (∀ D c fs ds, D <+: j.comps → D ≠ j.comps → nodeAt t0 D = some (.node c fs ds) → ∀ r ∈ rulesOf (pathOf D) c, r ∈ j.base)

def ActOk (t0 : Tree) (loaded : List Pattern) (a : Act) : Prop :=
  (∀ x ∈ a.comps, NameOk x) ∧ (∀ f ∈ a.files, NameOk f) ∧ DirsOk a.dirs ∧
  (∀ nt ∈ a.dirs, nodeAt t0 (a.comps ++ [nt.1]) = some nt.2) ∧
  (∀ r ∈ globalRules, r ∈ a.base) ∧ (∀ r ∈ a.base, r ∈ loaded) ∧
  (∀ D c fs ds, D <+: a.comps → nodeAt t0 D = some (.node c fs ds) → ∀ r ∈ rulesOf (pathOf D) c, r ∈ a.base)

/-- every loaded pattern is built in or comes from the ignore file of a directory of the tree -/
def LoadedOk (t0 : Tree) (loaded : List Pattern) : Prop :=
  ∀ r ∈ loaded, r ∈ globalRules ∨
    ∃ D c fs ds, nodeAt t0 D = some (.node c fs ds) ∧ (∀ d ∈ D, NameOk d) ∧ r ∈ rulesOf (pathOf D) c

def Inv (t0 : Tree) (s : PState) : Prop :=
  LoadedOk t0 s.loaded ∧ (∀ j ∈ s.pending, JobOk t0 s.loaded j) ∧ (∀ a ∈ s.active, ActOk t0 s.loaded a)

theorem JobOk.mono {t0 : Tree} {l l' : List Pattern} {j : Job} (h : JobOk t0 l j) (hl : ∀ r ∈ l, r ∈ l') : JobOk t0 l' j :=
  ⟨h.1, h.2.1, h.2.2.1, h.2.2.2.1, fun r hr => hl r (h.2.2.2.2.1 r hr), h.2.2.2.2.2⟩

theorem ActOk.mono {t0 : Tree} {l l' : List Pattern} {a : Act} (h : ActOk t0 l a) (hl : ∀ r ∈ l, r ∈ l') : ActOk t0 l' a :=
  ⟨h.1, h.2.1, h.2.2.1, h.2.2.2.1, h.2.2.2.2.1, fun r hr => hl r (h.2.2.2.2.2.1 r hr), h.2.2.2.2.2.2⟩

theorem check_congr_matching (l1 l2 : List Pattern) (p : Str) (h : ∀ r, r.m p = true → (r ∈ l1 ↔ r ∈ l2)) :
    check l1 p = check l2 p := by
  have key : ∀ (w : Pattern → Bool), l1.any (fun r => w r && r.m p) = l2.any (fun r => w r && r.m p) := by
    intro w
    rw [Bool.eq_iff_iff]
    simp only [List.any_eq_true, Bool.and_eq_true]
    constructor
    · rintro ⟨r, hr, hw, hm⟩; exact ⟨r, (h r hm).1 hr, hw, hm⟩
    · rintro ⟨r, hr, hw, hm⟩; exact ⟨r, (h r hm).2 hr, hw, hm⟩
  unfold check
  rw [key (fun r => r.white), key (fun r => !r.white)]

/-- **The heart of schedule independence.**  Whatever other threads have loaded by now, the verdict
    for a child of a started directory is the verdict under the rules of its ancestors alone. -/
theorem verdict_eq (t0 : Tree) (loaded : List Pattern) (a : Act) (name : Str) (hl : LoadedOk t0 loaded)
    (ha : ActOk t0 loaded a) (hn : NameOk name) :
    ignored loaded (childPath (pathOf a.comps) name) = ignored a.base (childPath (pathOf a.comps) name) := by
  unfold ignored
  rw [check_congr_matching loaded a.base]
  intro r hm
  constructor
  · intro hr
    rcases hl r hr with hg | ⟨D, c, fs, ds, hnode, hD, hrD⟩
    · exact ha.2.2.2.2.1 r hg
    · by_cases hne : D = []
      · subst hne; exact ha.2.2.2.2.2.2 [] c fs ds List.nil_prefix hnode r hrD
      · have hu := rulesOf_confined D hne hD c r hrD _ hm
        rw [← pathOf_snoc] at hu
        exact ha.2.2.2.2.2.2 D c fs ds (prefix_of_under D a.comps name hD ha.1 hn hu) hnode r hrD
  · exact ha.2.2.2.2.2.1 r

theorem inv_init (t : Tree) (ht : TreeOk t) : Inv t (PState.init t) := by
  refine ⟨fun r hr => Or.inl hr, ?_, by simp [PState.init]⟩
  intro j hj
  simp only [PState.init, List.mem_singleton] at hj; subst hj
  refine ⟨by simp [nodeAt], ht, by simp, fun r h => h, fun r h => h, ?_⟩
  intro D c fs ds hp hne
  exact absurd (List.prefix_nil.1 hp) hne

theorem inv_step (t0 : Tree) (s s' : PState) (hi : Inv t0 s) (hs : PStep s s') : Inv t0 s' := by
  obtain ⟨hL, hP, hA⟩ := hi
  cases hs with
  | start l1 l2 j c files dirs hp ht =>
    have hj : JobOk t0 s.loaded j := hP j (by rw [hp]; simp)
    have hsub : ∀ r ∈ s.loaded, r ∈ s.loaded ++ rulesOf (pathOf j.comps) c := fun r h => List.mem_append_left _ h
    have hnode : nodeAt t0 j.comps = some (.node c files dirs) := by rw [← ht]; exact hj.1
    have hok : TreeOk (.node c files dirs) := by rw [← ht]; exact hj.2.1
    simp only [TreeOk] at hok
    refine ⟨?_, ?_, ?_⟩
    · intro r hr
      rcases List.mem_append.1 hr with h | h
      · exact hL r h
      · exact Or.inr ⟨j.comps, c, files, dirs, hnode, hj.2.2.1, h⟩
    · intro j' hj'
      exact (hP j' (by rw [hp]; rcases List.mem_append.1 hj' with h | h <;> simp [h])).mono hsub
    · intro a ha
      rcases List.mem_cons.1 ha with rfl | h
      · refine ⟨hj.2.2.1, hok.1, hok.2.1, ?_, ?_, ?_, ?_⟩
        · intro nt hnt
          exact nodeAt_snoc t0 j.comps c files dirs nt.1 nt.2 hnode hok.2.2 hnt
        · intro r hr; exact List.mem_append_left _ (hj.2.2.2.1 r hr)
        · intro r hr
          rcases List.mem_append.1 hr with h | h
          · exact List.mem_append_left _ (hj.2.2.2.2.1 r h)
          · exact List.mem_append_right _ h
        · intro D c' fs ds hpre hn r hr
          by_cases he : D = j.comps
          · subst he
            rw [hnode] at hn
            simp only [Option.some.injEq, Tree.node.injEq] at hn
            rw [← hn.1] at hr
            exact List.mem_append_right _ hr
          · exact List.mem_append_left _ (hj.2.2.2.2.2 D c' fs ds hpre he hn r hr)
      · exact (hA a h).mono hsub
  | file a1 a2 a f1 f2 f hact hf =>
    have ha : ActOk t0 s.loaded a := hA a (by rw [hact]; simp)
    refine ⟨hL, hP, ?_⟩
    intro b hb
    rcases List.mem_append.1 hb with h | h
    · exact hA b (by rw [hact]; simp [h])
    · rcases List.mem_cons.1 h with rfl | h
      · exact ⟨ha.1, fun x hx => ha.2.1 x (by rw [hf]; rcases List.mem_append.1 hx with h | h <;> simp [h]),
          ha.2.2.1, ha.2.2.2.1, ha.2.2.2.2.1, ha.2.2.2.2.2.1, ha.2.2.2.2.2.2⟩
      · exact hA b (by rw [hact]; simp [h])
  | dir a1 a2 a d1 d2 n sub hact hd =>
    have ha : ActOk t0 s.loaded a := hA a (by rw [hact]; simp)
    have hmem : (n, sub) ∈ a.dirs := by rw [hd]; simp
    have hsubset : ∀ x ∈ d1 ++ d2, x ∈ a.dirs := by
      intro x hx; rw [hd]; rcases List.mem_append.1 hx with h | h <;> simp [h]
    have ha' : ActOk t0 s.loaded { a with dirs := d1 ++ d2 } :=
      ⟨ha.1, ha.2.1, dirsOk_sub d1 (n, sub) d2 (by rw [← hd]; exact ha.2.2.1),
        fun nt hnt => ha.2.2.2.1 nt (hsubset nt hnt), ha.2.2.2.2.1, ha.2.2.2.2.2.1, ha.2.2.2.2.2.2⟩
    have hact' : ∀ b ∈ a1 ++ { a with dirs := d1 ++ d2 } :: a2, ActOk t0 s.loaded b := by
      intro b hb
      rcases List.mem_append.1 hb with h | h
      · exact hA b (by rw [hact]; simp [h])
      · rcases List.mem_cons.1 h with rfl | h
        · exact ha'
        · exact hA b (by rw [hact]; simp [h])
    by_cases hig : ignored s.loaded (childPath (pathOf a.comps) n) = true
    · simp only [hig, if_true]
      exact ⟨hL, hP, hact'⟩
    · simp only [hig]
      refine ⟨hL, ?_, hact'⟩
      intro j hj
      rcases List.mem_cons.1 hj with rfl | h
      · have hnt := dirsOk_mem a.dirs ha.2.2.1 (n, sub) hmem
        refine ⟨ha.2.2.2.1 (n, sub) hmem, hnt.2, ?_, ha.2.2.2.2.1, ha.2.2.2.2.2.1, ?_⟩
        · intro x hx
          rcases List.mem_append.1 hx with h | h
          · exact ha.1 x h
          · simp only [List.mem_singleton] at h; subst h; exact hnt.1
        · intro D c fs ds hpre hne hn r hr
          rcases List.prefix_concat_iff.1 hpre with h | h
          · exact absurd h hne
          · exact ha.2.2.2.2.2.2 D c fs ds h hn r hr
      · exact hP j h
  | done a1 a2 a hact _ _ =>
    refine ⟨hL, hP, ?_⟩
    intro b hb
    exact hA b (by rw [hact]; rcases List.mem_append.1 hb with h | h <;> simp [h])

theorem inv_reach (t : Tree) (ht : TreeOk t) (s : PState) (h : PReach t s) : Inv t s := by
  induction h with
  | init => exact inv_init t ht
  | step s s' _ hs ih => exact inv_step t s s' ih hs

/-! ## what is still to come -/

/-- what a schedule-free walk emits for a queued directory -/
def specJob (j : Job) : List Str := walkWith (fun _ => []) j.base (pathOf j.comps) j.tree

/-- … and for the unchecked children of a started one -/
def specAct (a : Act) : List Str :=
  ((a.files.map (childPath (pathOf a.comps))).filter (fun p => !ignored a.base p)) ++
  a.dirs.flatMap (dirPart (fun _ => []) a.base (pathOf a.comps))

/-- emitted so far ∪ what the schedule-free walk still owes -/
def Owes (s : PState) (p : Str) : Prop :=
  p ∈ s.emitted ∨ p ∈ s.pending.flatMap specJob ∨ p ∈ s.active.flatMap specAct

theorem specJob_node (j : Job) (c : Str) (files : List Str) (dirs : List (Str × Tree)) (ht : j.tree = .node c files dirs) :
    specJob j = specAct ⟨j.comps, j.base ++ rulesOf (pathOf j.comps) c, files, dirs⟩ := by
  simp only [specJob, ht, walkWith, List.append_nil, walkDirs_eq_flatMap, specAct]

theorem mem_flatMap_middle {α β} (f : α → List β) (l1 l2 : List α) (x : α) (p : β) :
    p ∈ (l1 ++ x :: l2).flatMap f ↔ p ∈ f x ∨ p ∈ (l1 ++ l2).flatMap f := by
  simp only [List.flatMap_append, List.flatMap_cons, List.mem_append]
  constructor
  · rintro (h | h | h)
    · exact Or.inr (Or.inl h)
    · exact Or.inl h
    · exact Or.inr (Or.inr h)
  · rintro (h | h | h)
    · exact Or.inr (Or.inl h)
    · exact Or.inl h
    · exact Or.inr (Or.inr h)

theorem owes_step (t0 : Tree) (s s' : PState) (hi : Inv t0 s) (hs : PStep s s') (p : Str) : Owes s' p ↔ Owes s p := by
  obtain ⟨hL, _, hA⟩ := hi
  cases hs with
  | start l1 l2 j c files dirs hp ht =>
    unfold Owes
    simp only [hp, mem_flatMap_middle, List.flatMap_cons, List.mem_append, specJob_node j c files dirs ht]
    constructor
    · rintro (h | h | h | h)
      · exact Or.inl h
      · exact Or.inr (Or.inl (Or.inr h))
      · exact Or.inr (Or.inl (Or.inl h))
      · exact Or.inr (Or.inr h)
    · rintro (h | (h | h) | h)
      · exact Or.inl h
      · exact Or.inr (Or.inr (Or.inl h))
      · exact Or.inr (Or.inl h)
      · exact Or.inr (Or.inr (Or.inr h))
  | file a1 a2 a f1 f2 f hact hf =>
    have ha : ActOk t0 s.loaded a := hA a (by rw [hact]; simp)
    have hv := verdict_eq t0 s.loaded a f hL ha (ha.2.1 f (by rw [hf]; simp))
    have key : p ∈ specAct a ↔
        (p = childPath (pathOf a.comps) f ∧ ignored a.base p = false) ∨ p ∈ specAct { a with files := f1 ++ f2 } := by
      simp only [specAct, hf, List.mem_append, List.mem_filter, List.mem_map, List.mem_cons, Bool.not_eq_true']
      constructor
      · rintro (⟨⟨x, hx, rfl⟩, hq⟩ | h)
        · rcases hx with h | rfl | h
          · exact Or.inr (Or.inl ⟨⟨x, Or.inl h, rfl⟩, hq⟩)
          · exact Or.inl ⟨rfl, hq⟩
          · exact Or.inr (Or.inl ⟨⟨x, Or.inr h, rfl⟩, hq⟩)
        · exact Or.inr (Or.inr h)
      · rintro (⟨rfl, hq⟩ | ⟨⟨x, hx, rfl⟩, hq⟩ | h)
        · exact Or.inl ⟨⟨f, Or.inr (Or.inl rfl), rfl⟩, hq⟩
        · exact Or.inl ⟨⟨x, by rcases hx with h | h <;> simp [h], rfl⟩, hq⟩
        · exact Or.inr h
    unfold Owes
    simp only [hact, mem_flatMap_middle, key]
    cases hig : ignored s.loaded (childPath (pathOf a.comps) f) with
    | true =>
      have hb : ignored a.base (childPath (pathOf a.comps) f) = true := by rw [← hv]; exact hig
      simp only [if_true]
      constructor
      · rintro (h | h | h | h)
        · exact Or.inl h
        · exact Or.inr (Or.inl h)
        · exact Or.inr (Or.inr (Or.inl (Or.inr h)))
        · exact Or.inr (Or.inr (Or.inr h))
      · rintro (h | h | (⟨rfl, hq⟩ | h) | h)
        · exact Or.inl h
        · exact Or.inr (Or.inl h)
        · rw [hb] at hq; cases hq
        · exact Or.inr (Or.inr (Or.inl h))
        · exact Or.inr (Or.inr (Or.inr h))
    | false =>
      have hb : ignored a.base (childPath (pathOf a.comps) f) = false := by rw [← hv]; exact hig
      simp only [Bool.false_eq_true, if_false, List.mem_cons]
      constructor
      · rintro ((rfl | h) | h | h | h)
        · exact Or.inr (Or.inr (Or.inl (Or.inl ⟨rfl, hb⟩)))
        · exact Or.inl h
        · exact Or.inr (Or.inl h)
        · exact Or.inr (Or.inr (Or.inl (Or.inr h)))
        · exact Or.inr (Or.inr (Or.inr h))
      · rintro (h | h | (⟨rfl, _⟩ | h) | h)
        · exact Or.inl (Or.inr h)
        · exact Or.inr (Or.inl h)
        · exact Or.inl (Or.inl rfl)
        · exact Or.inr (Or.inr (Or.inl h))
        · exact Or.inr (Or.inr (Or.inr h))
  | dir a1 a2 a d1 d2 n sub hact hd =>
    have ha : ActOk t0 s.loaded a := hA a (by rw [hact]; simp)
    have hmem : (n, sub) ∈ a.dirs := by rw [hd]; simp
    have hv := verdict_eq t0 s.loaded a n hL ha (dirsOk_mem a.dirs ha.2.2.1 (n, sub) hmem).1
    have key : p ∈ specAct a ↔
        p ∈ dirPart (fun _ => []) a.base (pathOf a.comps) (n, sub) ∨ p ∈ specAct { a with dirs := d1 ++ d2 } := by
      simp only [specAct, hd, List.mem_append, List.flatMap_append, List.flatMap_cons]
      constructor
      · rintro (h | h | h | h)
        · exact Or.inr (Or.inl h)
        · exact Or.inr (Or.inr (Or.inl h))
        · exact Or.inl h
        · exact Or.inr (Or.inr (Or.inr h))
      · rintro (h | h | h | h)
        · exact Or.inr (Or.inr (Or.inl h))
        · exact Or.inl h
        · exact Or.inr (Or.inl h)
        · exact Or.inr (Or.inr (Or.inr h))
    have hpart : p ∈ dirPart (fun _ => []) a.base (pathOf a.comps) (n, sub) ↔
        ignored a.base (childPath (pathOf a.comps) n) = false ∧
          (p = childPath (pathOf a.comps) n ∨ p ∈ specJob ⟨a.comps ++ [n], sub, a.base⟩) := by
      simp only [dirPart, List.append_nil, specJob, pathOf_snoc]
      cases hc : ignored a.base (childPath (pathOf a.comps) n) <;> simp
    unfold Owes
    cases hig : ignored s.loaded (childPath (pathOf a.comps) n) with
    | true =>
      have hb : ignored a.base (childPath (pathOf a.comps) n) = true := by rw [← hv]; exact hig
      simp only [if_true, hact, mem_flatMap_middle, key, hpart, hb]
      constructor
      · rintro (h | h | h | h)
        · exact Or.inl h
        · exact Or.inr (Or.inl h)
        · exact Or.inr (Or.inr (Or.inl (Or.inr h)))
        · exact Or.inr (Or.inr (Or.inr h))
      · rintro (h | h | (⟨hq, _⟩ | h) | h)
        · exact Or.inl h
        · exact Or.inr (Or.inl h)
        · cases hq
        · exact Or.inr (Or.inr (Or.inl h))
        · exact Or.inr (Or.inr (Or.inr h))
    | false =>
      have hb : ignored a.base (childPath (pathOf a.comps) n) = false := by rw [← hv]; exact hig
      simp only [Bool.false_eq_true, if_false, hact, mem_flatMap_middle, key, hpart, hb, List.mem_cons, List.flatMap_cons,
        List.mem_append, true_and]
      constructor
      · rintro ((rfl | h) | (h | h) | h | h)
        · exact Or.inr (Or.inr (Or.inl (Or.inl (Or.inl rfl))))
        · exact Or.inl h
        · exact Or.inr (Or.inr (Or.inl (Or.inl (Or.inr h))))
        · exact Or.inr (Or.inl h)
        · exact Or.inr (Or.inr (Or.inl (Or.inr h)))
        · exact Or.inr (Or.inr (Or.inr h))
      · rintro (h | h | ((rfl | h) | h) | h)
        · exact Or.inl (Or.inr h)
        · exact Or.inr (Or.inl (Or.inr h))
        · exact Or.inl (Or.inl rfl)
        · exact Or.inr (Or.inl (Or.inl h))
        · exact Or.inr (Or.inr (Or.inl h))
        · exact Or.inr (Or.inr (Or.inr h))
  | done a1 a2 a hact hf hd =>
    have hempty : ¬ p ∈ specAct a := by simp [specAct, hf, hd]
    unfold Owes
    simp only [hact, mem_flatMap_middle]
    constructor
    · rintro (h | h | h)
      · exact Or.inl h
      · exact Or.inr (Or.inl h)
      · exact Or.inr (Or.inr (Or.inr h))
    · rintro (h | h | h | h)
      · exact Or.inl h
      · exact Or.inr (Or.inl h)
      · exact absurd h hempty
      · exact Or.inr (Or.inr h)

/-- every reachable state owes exactly `walkSpec` -/
theorem owes_reach (t : Tree) (ht : TreeOk t) (s : PState) (h : PReach t s) (p : Str) : Owes s p ↔ p ∈ walkSpec t := by
  induction h with
  | init => simp [Owes, PState.init, specJob, walkSpec, pathOf]
  | step s s' hr hs ih => rw [owes_step t s s' (inv_reach t ht s hr) hs p, ih]

end Ign
