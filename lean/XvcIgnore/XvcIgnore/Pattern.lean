import XvcIgnore.Glob
/-!
  # Ignore patterns (model of walker/src/pattern.rs, walker/src/ignore_rules.rs and
  `content_to_patterns` of walker/src/lib.rs)

  The model mirrors the code **with the F8 repair** (patches/C09-F8.patch) and **with the F32 repair**
  (patches/F32-ignore-directory-literal.patch: the directory part of a glob is escaped): a line without an inner `/`
  that comes from an ignore file in a sub-directory gets the glob `<dir>/**/<line>` instead of
  `**/<line>`; for the root ignore file and for global patterns nothing changes.
-/
namespace Ign

/-- `xvc_walker::Source`.  `file parent` carries `path.parent()` of the ignore file, relative to the
    ignore root: `""` for the root ignore file, `"a/b"` for `a/b/.xvcignore`.  (`CommandLine` is never
    constructed in the code base.) -/
inductive Source where
  | global
  | file (parent : Str)
  deriving DecidableEq, Repr

/-- `MatchResult` -/
inductive MatchResult where
  | noMatch | ignore | whitelist
  deriving DecidableEq, Repr

/-- `xvc_walker::Pattern` (the `source` field is an input, not repeated here) -/
structure Pattern where
  glob : Str
  original : Str
  white : Bool            -- `effect == PatternEffect::Whitelist`
  relDir : Option Str     -- `relativity`: `none` = Anywhere, `some d` = RelativeTo { directory: d }
  dirOnly : Bool          -- `path_kind == PathKind::Directory`
  deriving DecidableEq, Repr

def endsWith (s suf : Str) : Bool := suf.reverse.isPrefixOf s.reverse

/-- whitespace removed by `str::trim_end` / `str::trim` (the ASCII part of Unicode White_Space) -/
def isWs (c : Char) : Bool :=
  c == ' ' || c == '\t' || c == '\n' || c == '\r' || c == Char.ofNat 11 || c == Char.ofNat 12

def trimEnd (s : Str) : Str := (s.reverse.dropWhile isWs).reverse

/-- the `current_dir` of `Pattern::new`, after the trailing-slash trim -/
def currentDir : Source → Str
  | .global => []
  | .file parent =>
    let p := if parent.head? = some '/' then parent else '/' :: parent
    if p.getLast? = some '/' then p.dropLast else p

/-- `escape_glob` (repair F32, patches/F32-ignore-directory-literal.patch): the characters that have a meaning
    in a glob get a backslash, so that a directory name is read as a literal -/
def escapeGlob : Str → Str
  | [] => []
  | c :: r =>
    if c = '*' ∨ c = '?' ∨ c = '[' ∨ c = ']' ∨ c = '{' ∨ c = '}' ∨ c = '!' ∨ c = '\\' then '\\' :: c :: escapeGlob r
    else c :: escapeGlob r

/-- `transform_pattern_for_glob` (with the F8 repair: `Anywhere` patterns of a non-root source are
    prefixed with the source directory; and with the F32 repair: the directory part is escaped) -/
def transformPatternForGlob (line cur : Str) (relDir : Option Str) (dirOnly : Bool) : Str :=
  let cur := escapeGlob cur
  match dirOnly, relDir.map escapeGlob with
  | false, none => if cur.isEmpty then "**/".toList ++ line else cur ++ "/**/".toList ++ line
  | false, some d => d ++ "/**/".toList ++ line
  | true, none =>
    if cur.isEmpty then "**/".toList ++ line ++ "/**".toList else cur ++ "/**/".toList ++ line ++ "/**".toList
  | true, some d => d ++ "/**/".toList ++ line ++ "/**".toList

/-- `Pattern::new(source, original)` — the string surgery in the order of the Rust code -/
def Pattern.new (src : Source) (original : Str) : Pattern :=
  let beginExclamation := original.head? == some '!'
  let line := if beginExclamation || "\\!".toList.isPrefixOf original then original.drop 1 else original
  let line := if endsWith line "\\ ".toList then line else trimEnd line
  let endSlash := line.getLast? == some '/'
  let line := if endSlash then line.dropLast else line
  let beginSlash := line.head? == some '/'
  let nonFinalSlash := line.dropLast.contains '/'
  let line := if beginSlash then line.drop 1 else line
  let cur := currentDir src
  let relDir := if nonFinalSlash then some cur else none
  { glob := transformPatternForGlob line cur relDir endSlash
    original := original
    white := beginExclamation
    relDir := relDir
    dirOnly := endSlash }

/-- `str::lines()`: split at `\n`, drop one trailing `\r` per line, no final empty line -/
def lineOfAcc (acc : Str) : Str := match acc with | '\r' :: a => a.reverse | a => a.reverse

def rustLinesAux : Str → Str → List Str
  | acc, [] => if acc.isEmpty then [] else [acc.reverse]
  | acc, c :: r =>
    if c = '\n' then lineOfAcc acc :: rustLinesAux [] r
    else rustLinesAux (c :: acc) r

def rustLines (s : Str) : List Str := rustLinesAux [] s

/-- `content_to_patterns(ignore_root, Some(file), content)` -/
def contentToPatterns (src : Source) (content : Str) : List Pattern :=
  ((rustLines content).filter (fun l => !((l.all isWs) || l.head? == some '#'))).map
    (fun l => Pattern.new src (if endsWith l "\\ ".toList then l else trimEnd l))

/-- `IgnoreRules::from_global_patterns`: every line of `given`, no comment filtering -/
def globalPatterns (given : Str) : List Pattern := (rustLines given).map (Pattern.new .global)

def Pattern.m (r : Pattern) (path : Str) : Bool := globMatch r.glob path

/-- `IgnoreRules::check` on the already formatted path string (`"/" + path relative to the root`):
    a matching whitelist pattern wins, else a matching ignore pattern, else no match.  The two
    pattern vectors of `IgnoreRules` are the two filters of the one list here. -/
def check (rules : List Pattern) (path : Str) : MatchResult :=
  if rules.any (fun r => r.white && r.m path) then .whitelist
  else if rules.any (fun r => !r.white && r.m path) then .ignore
  else .noMatch

def ignored (rules : List Pattern) (path : Str) : Bool := check rules path == .ignore

end Ign
