import XvcIgnore.Pattern
import XvcIgnore.Gen.Consts
/-!
  # Directory walks (model of walker/src/walk_serial.rs, walker/src/walk_parallel.rs,
  `update_ignore_rules`/`build_ignore_patterns` of walker/src/lib.rs and the wrappers in
  core/src/util/xvcignore.rs)

  A workspace is a finite tree; every directory carries the content of its ignore file (`""` when there
  is none — `update_ignore_rules` adds nothing in both cases), the names of its non-directory entries
  (the ignore file itself is one of them) and its sub-directories.

  Paths are the strings `IgnoreRules::check` matches against: `""` is the root directory, a child of
  `here` is `here ++ "/" ++ name` (so every path starts with `/` and never ends with one).
-/
namespace Ign

inductive Tree where
  | node (ignoreContent : Str) (files : List Str) (dirs : List (Str × Tree))

def childPath (here name : Str) : Str := here ++ '/' :: name

/-- patterns that `update_ignore_rules(dir)` appends: the ignore file of the directory `here`, read
    with `Source::File { path: <here relative to the root>/<ignore file> }` -/
def rulesOf (here content : Str) : List Pattern := contentToPatterns (.file (here.drop 1)) content

/-- the rules every walk starts with: `IgnoreRules::from_global_patterns(root, _, COMMON_IGNORE_PATTERNS)` -/
def globalRules : List Pattern := globalPatterns Gen.COMMON_IGNORE_PATTERNS.toList

mutual
/-- The sequential walk with interference.  `rules` is what has been loaded on the way from the root
    (globals + ignore files of all proper ancestors of `here`), the node's own ignore file is appended
    before any child is checked (`update_ignore_rules` precedes the checks in `walk_serial` and in
    `walk_parallel_inner`), and **every single check additionally sees `extra p`** — patterns that other
    threads (or earlier iterations of the serial loop) have appended to the shared `IgnoreRules` by then.
    Non-ignored entries are emitted, non-ignored directories are entered. -/
def walkWith (extra : Str → List Pattern) (rules : List Pattern) (here : Str) : Tree → List Str
  | .node content files dirs =>
    let rules' := rules ++ rulesOf here content
    ((files.map (childPath here)).filter (fun p => !ignored (rules' ++ extra p) p))
      ++ walkDirs extra rules' here dirs
def walkDirs (extra : Str → List Pattern) (rules : List Pattern) (here : Str) : List (Str × Tree) → List Str
  | [] => []
  | (n, t) :: rest =>
    let p := childPath here n
    (if ignored (rules ++ extra p) p then [] else p :: walkWith extra rules p t) ++ walkDirs extra rules here rest
end

/-- the schedule-free meaning of a walk: each entry is judged by the globals and the ignore files of
    its ancestor directories only -/
def walkSpec (t : Tree) : List Str := walkWith (fun _ => []) globalRules [] t

mutual
/-- all patterns `build_ignore_patterns` collects (used by `xvc check-ignore`, `build_gitignore`,
    `path_metadata_map_from_file_targets`): the ignore files of every directory that is reached
    through non-ignored directories; the shared list again grows during the traversal (`extra`). -/
def collectRules (extra : Str → List Pattern) (rules : List Pattern) (here : Str) : Tree → List Pattern
  | .node content _ dirs =>
    let own := rulesOf here content
    own ++ collectDirs extra (rules ++ own) here dirs
def collectDirs (extra : Str → List Pattern) (rules : List Pattern) (here : Str) : List (Str × Tree) → List Pattern
  | [] => []
  | (n, t) :: rest =>
    let p := childPath here n
    (if ignored (rules ++ extra p) p then [] else collectRules extra rules p t) ++ collectDirs extra rules here rest
end

/-- the rule list `xvc check-ignore` answers with -/
def allRules (t : Tree) : List Pattern := globalRules ++ collectRules (fun _ => []) globalRules [] t

/-! ## the file-system shape of the ignore file

  What the model assumes about the ignore file of a directory: **the rules of a directory are a function of
  the bytes its ignore-file name resolves to** (`Path::is_file` and `fs::read_to_string` in
  `update_ignore_rules` / `build_ignore_patterns` follow symbolic links), nothing else — not of whether
  the name is a regular file, a hard link, a symbolic link (relative, absolute, inside or outside the tree)
  or a chain of links.  A name that resolves to no regular file (absent, dangling link, link to a
  directory) loads nothing.  There is **one loader** (`rulesOf`) in the model, used by the serial walk,
  the parallel walk (`walkWith`, `PStep`) and the rule collection of `check-ignore` (`collectRules`) alike;
  that each of the three implementations is this loader is what the correspondence check (walkers on
  link-shaped ignore files vs the model, and vs the same rules as regular files) establishes. -/

/-- how the ignore-file name of a directory exists in the file system -/
inductive IgnoreEntry where
  | absent
  | regular (bytes : Str)
  | hardLink (bytes : Str)                 -- another name of a regular file
  | symlink (resolvesTo : Option Str)      -- final target after following every link: a regular file with these bytes, or none (dangling)
  | symlinkToDir

/-- the bytes `update_ignore_rules` reads: `ignore_path.is_file()` then `fs::read_to_string(ignore_path)` -/
def IgnoreEntry.resolve : IgnoreEntry → Option Str
  | .absent => none
  | .regular b => some b
  | .hardLink b => some b
  | .symlink r => r
  | .symlinkToDir => none

/-- a workspace whose ignore files come in these shapes -/
inductive ShapedTree where
  | node (ignore : IgnoreEntry) (files : List Str) (dirs : List (Str × ShapedTree))

mutual
/-- the view every rule loader has of a shaped workspace -/
def ShapedTree.resolved : ShapedTree → Tree
  | .node ig files dirs => .node (ig.resolve.getD []) files (ShapedTree.resolvedDirs dirs)
def ShapedTree.resolvedDirs : List (Str × ShapedTree) → List (Str × Tree)
  | [] => []
  | (n, t) :: ds => (n, t.resolved) :: ShapedTree.resolvedDirs ds
end

end Ign
