import XvcIgnore.GitIgnore
/-!
  # The ignore operations a materialisation emits (C16)

  `recheck_from_cache` (file/src/common/mod.rs) — the one place where recheck, copy, move (with another
  recheck method), carry-in, bring and untrack put a tracked file into the workspace — reports what
  it did to the ignore handler (`make_ignore_handler`, `handlerUpdate` in GitIgnore.lean) through
  `ignore_writer.send(Some(IgnoreOperation::…))`.  The handler is free to DROP an `IgnoreDir`: it
  writes `/dir/` only when xvc's matcher answers `NoMatch` for the directory, and a user whitelist that
  names the directory (`!/datasets`, `!models`) or the anchored line of a same-named tracked file
  elsewhere (K12) make it answer something else although git does not ignore the directory.  So that a
  materialised file is ignored whatever the handler decides about its directory, the sender has to
  report the FILE itself as well, unconditionally.  The send sites are regenerated from the source
  (Gen/IgnoreSends.lean, lib/c16_extract.py).
-/
namespace Ign.Git
open Ign

/-- which `IgnoreOperation` a send site sends; `computed` = the argument is not a literal constructor
    (a variable, a match result): nothing is known about it -/
inductive SendKind where
  | ignoreDir | ignoreFile | computed
  deriving DecidableEq, Repr

/-- under which condition the site is reached: `always` = a statement of the function body itself;
    `parentCreated` = inside exactly `if let Some(parent) = xvc_path.parents().first()` and
    `if !parent_dir.exists()` (the parent directory was missing and has just been created);
    `destAbsent` = inside exactly one `if` whose condition is the negation of `path.exists()` taken BEFORE the
    function removed what was at the destination (`if !path.exists()`, or `if !v` with `let v = path.exists();`):
    reached only when nothing was at the destination;
    `other` = any other enclosing condition -/
inductive SendGuard where
  | always | parentCreated | destAbsent | other
  deriving DecidableEq, Repr

structure SendSite where
  kind : SendKind
  guard : SendGuard
  deriving DecidableEq, Repr

/-- `IgnoreOperation` -/
inductive IgnoreOp where
  | dir (d : Target)
  | file (f : Target)
  deriving DecidableEq, Repr

/-- What sits at the destination path when `recheck_from_cache` is entered.  The function removes it
    ("If the file already exists, we delete it") and puts the cached content there; callers reach it with
    every one of these: `recheck` / `carry_in` delete the target themselves first (`absent`), `copy --force`
    onto a file xvc does not know (`file`: made by hand, or a path that was untracked), onto a path whose
    earlier materialisation was a symlink / hardlink into the cache (`link`), onto a link whose target is
    gone (`danglingLink`). -/
inductive PriorEntry where
  | absent | file | link | danglingLink
  deriving DecidableEq, Repr

/-- `Path::exists` (follows symbolic links): the test `recheck_from_cache` makes before `fs::remove_file` -/
def PriorEntry.pathExists : PriorEntry → Bool
  | .absent => false
  | .file => true
  | .link => true
  | .danglingLink => false

def PriorEntry.all : List PriorEntry := [.absent, .file, .link, .danglingLink]

/-- `xvc_path.parents().first()`: the directory of the file as a target (`none` for a file at the root) -/
def parentTarget (x : Target) : Option Target :=
  match x.dir.reverse with
  | [] => none
  | n :: d => some ⟨d.reverse, n⟩

/-- the operations the send sites emit for the materialised file `x`; `created` = its parent directory
    did not exist and was created; `prior` = what was at the path of `x` before.  A `computed` argument and
    an `other` guard contribute nothing: only what the source shows to be sent is counted. -/
def emittedOps (sites : List SendSite) (created : Bool) (prior : PriorEntry) (x : Target) : List IgnoreOp :=
  sites.flatMap fun s =>
    let fires := match s.guard with
      | .always => true
      | .parentCreated => created
      | .destAbsent => !prior.pathExists
      | .other => false
    if fires then
      match s.kind with
      | .ignoreDir => (parentTarget x).toList.map .dir
      | .ignoreFile => [.file x]
      | .computed => []
    else []

def opDirs (ops : List IgnoreOp) : List Target := ops.filterMap fun | .dir d => some d | .file _ => none
def opFiles (ops : List IgnoreOp) : List Target := ops.filterMap fun | .file f => some f | .dir _ => none

/-- all operations of one command: every materialised file with the flag "its parent was created" and
    what was at its path before -/
def materialiseOps (sites : List SendSite) (xs : List (Target × Bool × PriorEntry)) : List IgnoreOp :=
  xs.flatMap fun p => emittedOps sites p.2.1 p.2.2 p.1

/-- the `.gitignore` files after a command that materialised `xs`: the handler works on what was sent -/
def materialiseUpdate (sites : List SendSite) (date : Str) (xs : List (Target × Bool × PriorEntry)) (t : Tree) : Tree :=
  handlerUpdate date (opDirs (materialiseOps sites xs)) (opFiles (materialiseOps sites xs)) t

/-- a site that sends `IgnoreFile` unconditionally makes every materialised file a file operation -/
theorem file_op_of_unconditional_site (sites : List SendSite) (h : ⟨.ignoreFile, .always⟩ ∈ sites)
    (created : Bool) (prior : PriorEntry) (x : Target) : IgnoreOp.file x ∈ emittedOps sites created prior x := by
  unfold emittedOps
  rw [List.mem_flatMap]
  exact ⟨⟨.ignoreFile, .always⟩, h, by simp⟩

/-- sites whose guards do not look at the destination emit the same operations whatever was there -/
theorem emittedOps_prior_irrelevant (sites : List SendSite) (h : ∀ s ∈ sites, s.guard ≠ .destAbsent)
    (created : Bool) (p1 p2 : PriorEntry) (x : Target) :
    emittedOps sites created p1 x = emittedOps sites created p2 x := by
  unfold emittedOps
  induction sites with
  | nil => rfl
  | cons s rest ih =>
    simp only [List.flatMap_cons]
    rw [ih (fun s' hs' => h s' (List.mem_cons_of_mem _ hs'))]
    have hs := h s (List.mem_cons_self ..)
    cases hg : s.guard <;> simp_all

/-! ## the batch semantics of the handler: which queued files get a line

  `make_ignore_handler` collects ALL operations of one command, writes the directory lines, and then has to decide
  which of the queued files still need a line of their own.  How it decides is regenerated from the body of the
  function (Gen/IgnoreSends.lean `HANDLER_FILE_FILTER`, lib/c16_extract.py). -/

/-- what happens to the queued files between `update_dir_gitignores` and `update_file_gitignores`:
    `none` = nothing (checked against the rules read at the start only);
    `reloadCheck` = the rules are read again (`let gitignore = build_gitignore(…)`) and `update_file_gitignores` checks
      every file against them — the code;
    `startsWithComponents` = files below a queued directory are dropped, containment tested on path COMPONENTS
      (`XvcPath::starts_with`, `RelativePath::starts_with`);
    `startsWithStr` = the same with a test on the path TEXT (`XvcPath::starts_with_str`, `str::starts_with`);
    `other` = anything else: nothing is known, counts as "no file line is written" -/
inductive FileFilter where
  | none | reloadCheck | startsWithComponents | startsWithStr | other
  deriving DecidableEq, Repr

/-- `f` lies in the directory `d`, component-wise: what a line `/name/` in the `.gitignore` of `d`'s parent means to git -/
def insideDir (d f : Target) : Bool := (d.dir ++ [d.name]).isPrefixOf f.dir

/-- the path text of `f` starts with the path text of `d` (`out/src/m.bin` "starts with" `out/src/m`) -/
def strInside (d f : Target) : Bool := d.pathStr.isPrefixOf f.pathStr

/-- the handler with an arbitrary rule `drop dirs f` for leaving a queued file out after the directory lines of the
    queued directories `dirs` were written; the files that remain are checked against the rules read at the start -/
def handlerBatch (drop : List Target → Target → Bool) (date : Str) (dirOps fileOps : List Target) (t : Tree) : Tree :=
  let r0 := gitRules t
  let dirs := (dedup dirOps.reverse).reverse.filter (fun d => check r0 d.pathStr == .noMatch)
  let files := (dedup fileOps.reverse).reverse.filter (fun f => check r0 f.pathStr == .noMatch)
  let t1 := updateDirGitignores r0 date dirs t
  updateFileGitignores r0 date (files.filter (fun f => !drop dirs f)) t1

/-- the handler for each of the recognised filters -/
def handlerUpdateWith (filt : FileFilter) (date : Str) (dirOps fileOps : List Target) (t : Tree) : Tree :=
  match filt with
  | .reloadCheck => handlerUpdate date dirOps fileOps t
  | .none => handlerBatch (fun _ _ => false) date dirOps fileOps t
  | .startsWithComponents => handlerBatch (fun ds f => ds.any (insideDir · f)) date dirOps fileOps t
  | .startsWithStr => handlerBatch (fun ds f => ds.any (strInside · f)) date dirOps fileOps t
  | .other => updateDirGitignores (gitRules t) date
      ((dedup dirOps.reverse).reverse.filter (fun d => check (gitRules t) d.pathStr == .noMatch)) t

theorem insideDir_spec (d f : Target) (h : insideDir d f = true) : ∃ rest, f.dir = d.dir ++ d.name :: rest := by
  unfold insideDir at h
  rw [List.isPrefixOf_iff_prefix] at h
  obtain ⟨rest, hr⟩ := h
  exact ⟨rest, by rw [← hr]; simp⟩

theorem mem_opFiles (ops : List IgnoreOp) (x : Target) : x ∈ opFiles ops ↔ IgnoreOp.file x ∈ ops := by
  unfold opFiles
  rw [List.mem_filterMap]
  constructor
  · rintro ⟨o, ho, h⟩
    cases o with
    | dir d => simp at h
    | file f => simp at h; subst h; exact ho
  · intro h; exact ⟨_, h, rfl⟩

end Ign.Git
