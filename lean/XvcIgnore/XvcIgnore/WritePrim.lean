import XvcIgnore.GitIgnore
/-!
  # The write primitive behind the `.gitignore` updates (C16)

  `writeGroups` (GitIgnore.lean) edits a `.gitignore` with `fun old => old ++ appendText old lines date`:
  it ASSUMES that the code only ever adds bytes at the end of the file.  That is a fact about how the
  file is opened — `OpenOptions::new().create(true).append(true).open(path)` = `open(2)` with
  `O_WRONLY|O_CREAT|O_APPEND` — and not about the text that is written: a function that reads the file,
  builds the same text in memory and writes it back with `fs::write` (`O_TRUNC`) produces the same
  bytes in a fault-free run and loses the user's lines when the write is cut short (ENOSPC, EDQUOT,
  EFBIG, a kill between the truncating open and the end of the write).

  This file gives the write sites a type and the POSIX semantics of a write that may stop at any byte;
  the table of sites is generated from the Rust source (Gen/GitignoreWrites.lean, lib/c16_extract.py).
-/
namespace Ign.Git
open Ign

/-- how a write site gets at the file -/
inductive WriteKind where
  /-- `OpenOptions::new()/File::options()` … `.open(path)` with the literal arguments of
      `.append(_)`, `.create(_)`, `.truncate(_)`, `.write(_)`, `.create_new(_)` (absent = false) -/
  | openOptions (append create truncate write createNew : Bool)
  /-- `std::fs::write` = `File::create` + `write_all`: `O_WRONLY|O_CREAT|O_TRUNC` -/
  | fsWrite
  /-- `File::create`, `File::create_new` -/
  | fileCreate
  | removeFile
  | rename
  | copy
  | setLen
  deriving DecidableEq, Repr

/-- one call in the Rust source that can change a file: source file, enclosing `fn`, kind -/
structure WriteSite where
  file : String
  fn : String
  kind : WriteKind
  deriving DecidableEq, Repr

/-- the site opens the file so that every `write(2)` goes to the end of the file and nothing that is
    there is cut: `O_APPEND` without `O_TRUNC` -/
def WriteKind.appendOnly : WriteKind → Bool
  | .openOptions append _ truncate _ _ => append && !truncate
  | _ => false

/-- The content of a file with content `old` (`[]` = no file) after the site opened it and `written` —
    ANY prefix of what the program wanted to write, the write may fail or the process may be killed at
    every byte — reached the file.  `none` = the old file is gone (removed, renamed over).
    * `O_APPEND`: every write lands at the end;
    * `O_TRUNC` (`fs::write`, `File::create`, `.truncate(true)`): the file is emptied by the open itself;
    * plain `O_WRONLY`: writes start at offset 0 and overwrite;
    * `set_len`: the file is cut (or zero-filled, not modelled: cut) to the new length. -/
def WriteKind.after (k : WriteKind) (old written : Str) : Option Str :=
  match k with
  | .openOptions append _ truncate _ _ =>
    if truncate then some written
    else if append then some (old ++ written)
    else some (written ++ old.drop written.length)
  | .fsWrite => some written
  | .fileCreate => some written
  | .removeFile => none
  | .rename => none
  | .copy => some written
  | .setLen => some (old.take written.length)

theorem WriteKind.after_of_appendOnly (k : WriteKind) (h : k.appendOnly = true) (old written : Str) :
    k.after old written = some (old ++ written) := by
  cases k with
  | openOptions a c t w n =>
    simp only [WriteKind.appendOnly, Bool.and_eq_true, Bool.not_eq_true'] at h
    simp [WriteKind.after, h.1, h.2]
  | fsWrite => simp [WriteKind.appendOnly] at h
  | fileCreate => simp [WriteKind.appendOnly] at h
  | removeFile => simp [WriteKind.appendOnly] at h
  | rename => simp [WriteKind.appendOnly] at h
  | copy => simp [WriteKind.appendOnly] at h
  | setLen => simp [WriteKind.appendOnly] at h

end Ign.Git
