/-!
  # Glob matching (model of `fast_glob::glob_match`, crate fast-glob 0.3.3, as used by
  `xvc_walker::IgnoreRules::check`)

  `globMatch` is a *clean* recursive matcher: the glob is tokenised once (`unescape`, `tokenize`), the
  token list is matched by structural recursion (`matchToks`).  It models `glob_match_normal`
  (`fast-glob/src/glob.rs`) on the pattern shapes that `Pattern::new` (walker/src/pattern.rs) generates:
  literals, `?`, `*`, `[…]`, `\x`, a leading or inner `**/` and a trailing `/**` — `**` only as a whole
  path segment.  Outside that fragment (a leading `!` of the glob, `**` glued to other characters next
  to another `**`, negated classes that match `/`) the real matcher has quirks of its single-level
  backtracking that are not modelled; the correspondence check (lib/c09.py, stream `glob`) generates
  globs of exactly the modelled shapes and records which syntactic classes were compared.

  All strings are `List Char` (`Str`); the driver converts at the boundary.  Bytes = chars: the
  correspondence generators are ASCII only.
-/
namespace Ign

abbrev Str := List Char

/-- one glob character after escape processing (`unescape` in glob.rs) -/
inductive MCh where
  | raw (c : Char)        -- an unescaped character
  | esc (c : Char)        -- a character that was preceded by a backslash (already mapped)
  | dangling              -- a backslash at the very end of the glob
  deriving DecidableEq, Repr

/-- `unescape` of glob.rs: `\a \b \n \r \t` are mapped, every other escaped char stands for itself -/
def unescChar (c : Char) : Char :=
  if c = 'b' then Char.ofNat 8 else if c = 'n' then '\n' else if c = 'r' then '\r' else if c = 't' then '\t' else c

/-- first pass: resolve backslashes -/
def unescape : Str → List MCh
  | [] => []
  | '\\' :: [] => [.dangling]
  | '\\' :: c :: r => .esc (unescChar c) :: unescape r
  | c :: r => .raw c :: unescape r

inductive Tok where
  | lit (c : Char)
  | any                                        -- `?`
  | star                                       -- `*`, and `**` that is not a whole segment
  | cls (neg : Bool) (rs : List (Char × Char)) -- `[a-z]`, `[!ab]`
  | gss                                        -- `**/` at the start of a segment
  | gse                                        -- `**` at the start of a segment and at the end of the glob
  | bad                                        -- unterminated class / dangling backslash: matches nothing
  deriving DecidableEq, Repr

/-- class-parsing state of the tokenizer -/
inductive CMode where
  | normal
  | cls (neg first : Bool) (acc : List (Char × Char))
  deriving Repr

def MCh.char : MCh → Char
  | .raw c => c
  | .esc c => c
  | .dangling => '\\'

/-- Tokenizer.  `seg` = "the previous glob byte was `/` or we are at the start of the glob"
    (`state.glob_index < 3 || glob[state.glob_index - 3] == b'/'` in `glob_match_normal`).
    Class mode transcribes the `b'['` arm (negation by `^` or `!`, the first item may be `]`,
    ranges `a-z`, unterminated ⇒ no match). -/
def tokenize : Bool → CMode → List MCh → List Tok
  | _, .normal, [] => []
  | seg, .normal, .raw '*' :: .raw '*' :: .raw '/' :: r =>
      if seg then .gss :: tokenize true .normal r else .star :: .lit '/' :: tokenize true .normal r
  | seg, .normal, .raw '*' :: .raw '*' :: [] => if seg then [.gse] else [.star]
  | _, .normal, .raw '*' :: .raw '*' :: r => .star :: tokenize false .normal r
  | _, .normal, .raw '*' :: r => .star :: tokenize false .normal r
  | _, .normal, .raw '?' :: r => .any :: tokenize false .normal r
  | _, .normal, .raw '[' :: .raw '!' :: r => tokenize false (.cls true true []) r
  | _, .normal, .raw '[' :: .raw '^' :: r => tokenize false (.cls true true []) r
  | _, .normal, .raw '[' :: r => tokenize false (.cls false true []) r
  | _, .normal, .dangling :: _ => [.bad]
  | _, .normal, .raw c :: r => .lit c :: tokenize (c == '/') .normal r
  | _, .normal, .esc c :: r => .lit c :: tokenize (c == '/') .normal r
  | _, .cls _ _ _, [] => [.bad]
  | _, .cls _ _ _, .dangling :: _ => [.bad]
  | _, .cls neg false acc, .raw ']' :: r => .cls neg acc.reverse :: tokenize false .normal r
  | _, .cls _ _ _, _ :: .raw '-' :: .dangling :: _ => [.bad]
  | _, .cls neg _ acc, lo :: .raw '-' :: .raw ']' :: r =>
      -- `-` directly before the closing bracket is a literal item
      .cls neg (('-', '-') :: (lo.char, lo.char) :: acc).reverse :: tokenize false .normal r
  | _, .cls neg _ acc, lo :: .raw '-' :: hi :: r => tokenize false (.cls neg false ((lo.char, hi.char) :: acc)) r
  | _, .cls neg _ acc, lo :: r => tokenize false (.cls neg false ((lo.char, lo.char) :: acc)) r

def clsMatch (neg : Bool) (rs : List (Char × Char)) (c : Char) : Bool :=
  (rs.any (fun r => decide (r.1 ≤ c) && decide (c ≤ r.2))) != neg

/-- `*`: any number of non-separator characters, then the continuation -/
def starLoop (k : Str → Bool) : Str → Bool
  | [] => k []
  | c :: cs => k (c :: cs) || (c != '/' && starLoop k cs)

/-- `**/` may also swallow any prefix that ends with a separator (`skip_to_separator`) -/
def afterSlash (k : Str → Bool) : Str → Bool
  | [] => false
  | c :: cs => (c == '/' && k cs) || afterSlash k cs

def matchToks : List Tok → Str → Bool
  | [], p => p.isEmpty
  | .lit c :: ts, p => match p with | [] => false | x :: xs => x == c && matchToks ts xs
  | .any :: ts, p => match p with | [] => false | x :: xs => x != '/' && matchToks ts xs
  | .cls neg rs :: ts, p => match p with | [] => false | x :: xs => clsMatch neg rs x && matchToks ts xs
  | .star :: ts, p => starLoop (matchToks ts) p
  | .gss :: ts, p => matchToks ts p || afterSlash (matchToks ts) p
  | .gse :: _, _ => true
  | .bad :: _, _ => false

/-- tokens of a glob string -/
def globToks (g : Str) : List Tok := tokenize true .normal (unescape g)

/-- model of `fast_glob::glob_match(glob, path)` -/
def globMatch (g p : Str) : Bool := matchToks (globToks g) p

end Ign
