import XvcIgnore.Walk
/-!
  Helper lemmas for the C09 / C16 property theorems (core Lean only).
-/
namespace Ign

/-! ## `check` depends only on the set of rules -/

theorem any_congr_mem {α} (f : α → Bool) (l1 l2 : List α) (h : ∀ x, x ∈ l1 ↔ x ∈ l2) :
    l1.any f = l2.any f := by
  rw [Bool.eq_iff_iff]
  simp only [List.any_eq_true]
  constructor
  · rintro ⟨x, hx, hf⟩; exact ⟨x, (h x).1 hx, hf⟩
  · rintro ⟨x, hx, hf⟩; exact ⟨x, (h x).2 hx, hf⟩

theorem check_congr_mem (l1 l2 : List Pattern) (p : Str) (h : ∀ r, r ∈ l1 ↔ r ∈ l2) :
    check l1 p = check l2 p := by
  unfold check
  rw [any_congr_mem _ l1 l2 h, any_congr_mem (fun r => !r.white && r.m p) l1 l2 h]

/-- rules that do not match the path do not change the verdict -/
theorem check_append_nomatch (rules ex : List Pattern) (p : Str) (h : ∀ r ∈ ex, r.m p = false) :
    check (rules ++ ex) p = check rules p := by
  have h1 : ex.any (fun r => r.white && r.m p) = false := by
    simp only [List.any_eq_false]; intro r hr; simp [h r hr]
  have h2 : ex.any (fun r => !r.white && r.m p) = false := by
    simp only [List.any_eq_false]; intro r hr; simp [h r hr]
  simp [check, List.any_append, h1, h2]

/-! ## literal prefixes of globs -/

/-- characters without a special meaning in a glob -/
def plainChar (c : Char) : Bool := !(c == '*' || c == '?' || c == '[' || c == '\\')

theorem unescape_plain_cons (c : Char) (r : Str) (hc : c ≠ '\\') :
    unescape (c :: r) = .raw c :: unescape r := by
  conv => lhs; unfold unescape
  split <;> simp_all

theorem unescape_plain_append (d r : Str) (hd : ∀ c ∈ d, plainChar c = true) :
    unescape (d ++ r) = d.map .raw ++ unescape r := by
  induction d with
  | nil => rfl
  | cons c d ih =>
    have hc : c ≠ '\\' := by
      have := hd c (by simp); intro h; subst h; simp [plainChar] at this
    rw [List.cons_append, unescape_plain_cons _ _ hc, ih (fun c hc => hd c (by simp [hc]))]
    rfl

theorem tokenize_plain_cons (seg : Bool) (c : Char) (r : List MCh) (hc : plainChar c = true) :
    tokenize seg .normal (.raw c :: r) = .lit c :: tokenize (c == '/') .normal r := by
  have h1 : c ≠ '*' := by intro h; subst h; simp [plainChar] at hc
  have h2 : c ≠ '?' := by intro h; subst h; simp [plainChar] at hc
  have h3 : c ≠ '[' := by intro h; subst h; simp [plainChar] at hc
  conv => lhs; unfold tokenize
  split <;> simp_all

theorem tokenize_plain_append (seg : Bool) (d : Str) (r : List MCh) (hd : ∀ c ∈ d, plainChar c = true) :
    ∃ seg', tokenize seg .normal (d.map .raw ++ r) = d.map .lit ++ tokenize seg' .normal r := by
  induction d generalizing seg with
  | nil => exact ⟨seg, rfl⟩
  | cons c d ih =>
    obtain ⟨s', h⟩ := ih (c == '/') (fun c hc => hd c (by simp [hc]))
    refine ⟨s', ?_⟩
    simp only [List.map_cons, List.cons_append]
    rw [tokenize_plain_cons _ _ _ (hd c (by simp)), h]

theorem matchToks_lits (d : Str) (ts : List Tok) (p : Str) (h : matchToks (d.map .lit ++ ts) p = true) :
    ∃ q, p = d ++ q ∧ matchToks ts q = true := by
  induction d generalizing p with
  | nil => exact ⟨p, rfl, h⟩
  | cons c d ih =>
    cases p with
    | nil => simp [matchToks] at h
    | cons x xs =>
      simp only [List.map_cons, List.cons_append, matchToks, Bool.and_eq_true, beq_iff_eq] at h
      obtain ⟨q, hq, hm⟩ := ih xs h.2
      exact ⟨q, by rw [h.1, hq]; rfl, hm⟩

/-- a glob that starts with the plain string `d` only matches paths that start with `d` -/
theorem globMatch_plain_prefix (d r p : Str) (hd : ∀ c ∈ d, plainChar c = true)
    (h : globMatch (d ++ r) p = true) : d <+: p := by
  unfold globMatch globToks at h
  rw [unescape_plain_append d r hd] at h
  obtain ⟨s', hs⟩ := tokenize_plain_append true d (unescape r) hd
  rw [hs] at h
  obtain ⟨q, hq, _⟩ := matchToks_lits d _ p h
  exact ⟨q, hq.symm⟩

end Ign

namespace Ign

/-! ## confinement of patterns to the directory of their ignore file -/

/-- `p` lies strictly below the directory `d` (both in the `/a/b` form `check` uses) -/
def Under (d p : Str) : Prop := (d ++ ['/']) <+: p

instance (d p : Str) : Decidable (Under d p) := by unfold Under; infer_instance

/-- the pattern can only match paths below `d` -/
def Confined (d : Str) (r : Pattern) : Prop := ∀ p, r.m p = true → Under d p

/-- a non-root directory string whose characters have no special meaning in a glob -/
def PlainDir (d : Str) : Prop := d ≠ [] ∧ ∀ c ∈ d, plainChar c = true

instance (d : Str) : Decidable (PlainDir d) := by unfold PlainDir; infer_instance

theorem transform_prefix (line cur : Str) (rd : Option Str) (ds : Bool) (hc : cur ≠ [])
    (hrd : rd = none ∨ rd = some cur) :
    ∃ rest, transformPatternForGlob line cur rd ds = (cur ++ ['/']) ++ rest := by
  have hne : cur.isEmpty = false := by cases cur <;> simp_all
  have e1 : "/**/".toList = ['/', '*', '*', '/'] := by decide
  rcases hrd with h | h <;> subst h <;> cases ds <;>
    simp only [transformPatternForGlob, hne, e1, Bool.false_eq_true, if_false] <;>
    exact ⟨_, by simp only [List.append_assoc, List.cons_append, List.nil_append]; rfl⟩

theorem relDir_cases (b : Bool) (cur : Str) :
    (if b = true then some cur else none) = none ∨ (if b = true then some cur else none) = some cur := by
  cases b <;> simp

/-- after the F8 repair the glob of every pattern of a non-root source starts with the source directory -/
theorem new_glob_prefix (src : Source) (line : Str) (hc : currentDir src ≠ []) :
    ∃ rest, (Pattern.new src line).glob = (currentDir src ++ ['/']) ++ rest := by
  unfold Pattern.new
  simp only []
  apply transform_prefix _ _ _ _ hc
  exact relDir_cases _ _

theorem currentDir_head (src : Source) : currentDir src = [] ∨ ∃ r, currentDir src = '/' :: r := by
  cases src with
  | global => exact Or.inl rfl
  | file parent =>
    have hp : ∃ r, (if parent.head? = some '/' then parent else '/' :: parent) = '/' :: r := by
      by_cases h : parent.head? = some '/'
      · cases parent with
        | nil => simp at h
        | cons c r => simp only [List.head?_cons, Option.some.injEq] at h; subst h; exact ⟨r, by simp⟩
      · exact ⟨parent, by simp [h]⟩
    obtain ⟨r, hr⟩ := hp
    unfold currentDir
    simp only [hr]
    split
    · cases r with
      | nil => left; rfl
      | cons c r => right; exact ⟨(c :: r).dropLast, by simp [List.dropLast]⟩
    · right; exact ⟨r, rfl⟩

theorem transform_head (line cur : Str) (rd : Option Str) (ds : Bool)
    (hc : cur = [] ∨ ∃ r, cur = '/' :: r) (hrd : rd = none ∨ rd = some cur) :
    ∃ c rest, transformPatternForGlob line cur rd ds = c :: rest ∧ (c = '*' ∨ c = '/') := by
  have e1 : "/**/".toList = ['/', '*', '*', '/'] := by decide
  have e2 : "**/".toList = ['*', '*', '/'] := by decide
  rcases hc with rfl | ⟨r, rfl⟩ <;> rcases hrd with h | h <;> subst h <;> cases ds <;>
    simp only [transformPatternForGlob, e1, e2, List.isEmpty_nil, List.isEmpty_cons, if_true, Bool.false_eq_true, if_false,
      List.nil_append, List.cons_append] <;>
    exact ⟨_, _, rfl, by simp⟩

theorem new_glob_head (src : Source) (line : Str) :
    ∃ c rest, (Pattern.new src line).glob = c :: rest ∧ (c = '*' ∨ c = '/') := by
  unfold Pattern.new
  simp only []
  exact transform_head _ _ _ _ (currentDir_head src) (relDir_cases _ _)

theorem new_confined (src : Source) (line : Str) (hd : PlainDir (currentDir src)) :
    Confined (currentDir src) (Pattern.new src line) := by
  intro p hm
  obtain ⟨rest, hg⟩ := new_glob_prefix src line hd.1
  unfold Pattern.m at hm
  rw [hg] at hm
  refine globMatch_plain_prefix _ rest p ?_ hm
  intro c hc
  rcases List.mem_append.1 hc with h | h
  · exact hd.2 c h
  · simp only [List.mem_singleton] at h; subst h; decide

/-! ## interference that cannot change a verdict -/

/-- every pattern a check additionally sees is confined to a directory that the checked path is not under -/
def Admissible (extra : Str → List Pattern) : Prop :=
  ∀ p, ∀ r ∈ extra p, ∃ d, Confined d r ∧ ¬ Under d p

theorem ignored_extra (extra : Str → List Pattern) (ha : Admissible extra) (rules : List Pattern) (p : Str) :
    ignored (rules ++ extra p) p = ignored rules p := by
  unfold ignored
  rw [check_append_nomatch]
  intro r hr
  obtain ⟨d, hc, hn⟩ := ha p r hr
  cases hm : r.m p with
  | false => rfl
  | true => exact absurd (hc p hm) hn

mutual
theorem walkWith_extra (extra : Str → List Pattern) (ha : Admissible extra) (rules : List Pattern) (here : Str) :
    ∀ t, walkWith extra rules here t = walkWith (fun _ => []) rules here t
  | .node content files dirs => by
    simp only [walkWith, List.append_nil]
    congr 1
    · apply List.filter_congr; intro p _; rw [ignored_extra extra ha]
    · exact walkDirs_extra extra ha _ here dirs
theorem walkDirs_extra (extra : Str → List Pattern) (ha : Admissible extra) (rules : List Pattern) (here : Str) :
    ∀ ds, walkDirs extra rules here ds = walkDirs (fun _ => []) rules here ds
  | [] => by simp [walkDirs]
  | (n, t) :: rest => by
    simp only [walkDirs, List.append_nil]
    rw [ignored_extra extra ha, walkWith_extra extra ha rules (childPath here n) t,
      walkDirs_extra extra ha rules here rest]
end

mutual
theorem collectRules_extra (extra : Str → List Pattern) (ha : Admissible extra) (rules : List Pattern) (here : Str) :
    ∀ t, collectRules extra rules here t = collectRules (fun _ => []) rules here t
  | .node content files dirs => by
    simp only [collectRules]
    rw [collectDirs_extra extra ha _ here dirs]
theorem collectDirs_extra (extra : Str → List Pattern) (ha : Admissible extra) (rules : List Pattern) (here : Str) :
    ∀ ds, collectDirs extra rules here ds = collectDirs (fun _ => []) rules here ds
  | [] => by simp [collectDirs]
  | (n, t) :: rest => by
    simp only [collectDirs, List.append_nil]
    rw [ignored_extra extra ha, collectRules_extra extra ha rules (childPath here n) t,
      collectDirs_extra extra ha rules here rest]
end

end Ign
