import XvcIgnore.Walk
/-!
  Helper lemmas for the C09 / C16 property theorems (core Lean only).
-/
namespace Ign

/-! ## `check` depends only on the set of rules -/

theorem any_congr_mem {α} (f : α → Bool) (l1 l2 : List α) (h : ∀ x, x ∈ l1 ↔ x ∈ l2) :
    l1.any f = l2.any f := by
  rw [Bool.eq_iff_iff]
  simp only [List.any_eq_true]
  constructor
  · rintro ⟨x, hx, hf⟩; exact ⟨x, (h x).1 hx, hf⟩
  · rintro ⟨x, hx, hf⟩; exact ⟨x, (h x).2 hx, hf⟩

theorem check_congr_mem (l1 l2 : List Pattern) (p : Str) (h : ∀ r, r ∈ l1 ↔ r ∈ l2) :
    check l1 p = check l2 p := by
  unfold check
  rw [any_congr_mem _ l1 l2 h, any_congr_mem (fun r => !r.white && r.m p) l1 l2 h]

/-- rules that do not match the path do not change the verdict -/
theorem check_append_nomatch (rules ex : List Pattern) (p : Str) (h : ∀ r ∈ ex, r.m p = false) :
    check (rules ++ ex) p = check rules p := by
  have h1 : ex.any (fun r => r.white && r.m p) = false := by
    simp only [List.any_eq_false]; intro r hr; simp [h r hr]
  have h2 : ex.any (fun r => !r.white && r.m p) = false := by
    simp only [List.any_eq_false]; intro r hr; simp [h r hr]
  simp [check, List.any_append, h1, h2]

/-! ## literal prefixes of globs -/

/-- characters without a special meaning in a glob -/
def plainChar (c : Char) : Bool := !(c == '*' || c == '?' || c == '[' || c == '\\')

theorem unescape_plain_cons (c : Char) (r : Str) (hc : c ≠ '\\') :
    unescape (c :: r) = .raw c :: unescape r := by
  conv => lhs; unfold unescape
  split <;> simp_all

theorem unescape_plain_append (d r : Str) (hd : ∀ c ∈ d, plainChar c = true) :
    unescape (d ++ r) = d.map .raw ++ unescape r := by
  induction d with
  | nil => rfl
  | cons c d ih =>
    have hc : c ≠ '\\' := by
      have := hd c (by simp); intro h; subst h; simp [plainChar] at this
    rw [List.cons_append, unescape_plain_cons _ _ hc, ih (fun c hc => hd c (by simp [hc]))]
    rfl

theorem tokenize_plain_cons (seg : Bool) (c : Char) (r : List MCh) (hc : plainChar c = true) :
    tokenize seg .normal (.raw c :: r) = .lit c :: tokenize (c == '/') .normal r := by
  have h1 : c ≠ '*' := by intro h; subst h; simp [plainChar] at hc
  have h2 : c ≠ '?' := by intro h; subst h; simp [plainChar] at hc
  have h3 : c ≠ '[' := by intro h; subst h; simp [plainChar] at hc
  conv => lhs; unfold tokenize
  split <;> simp_all

theorem tokenize_plain_append (seg : Bool) (d : Str) (r : List MCh) (hd : ∀ c ∈ d, plainChar c = true) :
    ∃ seg', tokenize seg .normal (d.map .raw ++ r) = d.map .lit ++ tokenize seg' .normal r := by
  induction d generalizing seg with
  | nil => exact ⟨seg, rfl⟩
  | cons c d ih =>
    obtain ⟨s', h⟩ := ih (c == '/') (fun c hc => hd c (by simp [hc]))
    refine ⟨s', ?_⟩
    simp only [List.map_cons, List.cons_append]
    rw [tokenize_plain_cons _ _ _ (hd c (by simp)), h]

theorem matchToks_lits (d : Str) (ts : List Tok) (p : Str) (h : matchToks (d.map .lit ++ ts) p = true) :
    ∃ q, p = d ++ q ∧ matchToks ts q = true := by
  induction d generalizing p with
  | nil => exact ⟨p, rfl, h⟩
  | cons c d ih =>
    cases p with
    | nil => simp [matchToks] at h
    | cons x xs =>
      simp only [List.map_cons, List.cons_append, matchToks, Bool.and_eq_true, beq_iff_eq] at h
      obtain ⟨q, hq, hm⟩ := ih xs h.2
      exact ⟨q, by rw [h.1, hq]; rfl, hm⟩

/-- a glob that starts with the plain string `d` only matches paths that start with `d` -/
theorem globMatch_plain_prefix (d r p : Str) (hd : ∀ c ∈ d, plainChar c = true)
    (h : globMatch (d ++ r) p = true) : d <+: p := by
  unfold globMatch globToks at h
  rw [unescape_plain_append d r hd] at h
  obtain ⟨s', hs⟩ := tokenize_plain_append true d (unescape r) hd
  rw [hs] at h
  obtain ⟨q, hq, _⟩ := matchToks_lits d _ p h
  exact ⟨q, hq.symm⟩

end Ign

namespace Ign

/-! ## confinement of patterns to the directory of their ignore file -/

/-- `p` lies strictly below the directory `d` (both in the `/a/b` form `check` uses) -/
def Under (d p : Str) : Prop := (d ++ ['/']) <+: p

instance (d p : Str) : Decidable (Under d p) := by unfold Under; infer_instance

/-- the pattern can only match paths below `d` -/
def Confined (d : Str) (r : Pattern) : Prop := ∀ p, r.m p = true → Under d p

/-- a non-root directory string.  (Before the F32 repair the characters also had to be free of glob
    metacharacters; with the directory part escaped every name is a literal.) -/
def PlainDir (d : Str) : Prop := d ≠ []

instance (d : Str) : Decidable (PlainDir d) := by unfold PlainDir; infer_instance

/-! ### the escaped directory part is a literal -/

/-- what `unescape` makes of an escaped literal -/
def escMCh (c : Char) : MCh :=
  if c = '*' ∨ c = '?' ∨ c = '[' ∨ c = ']' ∨ c = '{' ∨ c = '}' ∨ c = '!' ∨ c = '\\' then .esc c else .raw c

theorem unescChar_special (c : Char) (h : c = '*' ∨ c = '?' ∨ c = '[' ∨ c = ']' ∨ c = '{' ∨ c = '}' ∨ c = '!' ∨ c = '\\') :
    unescChar c = c := by
  rcases h with h | h | h | h | h | h | h | h <;> subst h <;> decide

theorem unescape_escape_append : ∀ (d r : Str), unescape (escapeGlob d ++ r) = d.map escMCh ++ unescape r
  | [], r => rfl
  | c :: d, r => by
    by_cases h : c = '*' ∨ c = '?' ∨ c = '[' ∨ c = ']' ∨ c = '{' ∨ c = '}' ∨ c = '!' ∨ c = '\\'
    · simp only [escapeGlob, h, if_true, List.cons_append, List.map_cons, escMCh]
      rw [unescape, unescChar_special c h, unescape_escape_append d r]
    · have hb : c ≠ '\\' := fun e => h (by simp [e])
      simp only [escapeGlob, h, if_false, List.cons_append, List.map_cons, escMCh]
      rw [unescape_plain_cons _ _ hb, unescape_escape_append d r]

theorem tokenize_esc_cons (seg : Bool) (c : Char) (r : List MCh) :
    tokenize seg .normal (.esc c :: r) = .lit c :: tokenize (c == '/') .normal r := by
  conv => lhs; unfold tokenize

theorem tokenize_escMCh_cons (seg : Bool) (c : Char) (r : List MCh) :
    tokenize seg .normal (escMCh c :: r) = .lit c :: tokenize (c == '/') .normal r := by
  unfold escMCh
  by_cases h : c = '*' ∨ c = '?' ∨ c = '[' ∨ c = ']' ∨ c = '{' ∨ c = '}' ∨ c = '!' ∨ c = '\\'
  · simp only [h, if_true]; exact tokenize_esc_cons seg c r
  · simp only [h, if_false]
    apply tokenize_plain_cons
    simp only [plainChar, Bool.not_eq_true', Bool.or_eq_false_iff, beq_eq_false_iff_ne, ne_eq]
    refine ⟨⟨⟨?_, ?_⟩, ?_⟩, ?_⟩ <;> (intro e; apply h; simp [e])

theorem tokenize_escaped_append (seg : Bool) (d : Str) (r : List MCh) :
    ∃ seg', tokenize seg .normal (d.map escMCh ++ r) = d.map .lit ++ tokenize seg' .normal r := by
  induction d generalizing seg with
  | nil => exact ⟨seg, rfl⟩
  | cons c d ih =>
    obtain ⟨s', h⟩ := ih (c == '/')
    exact ⟨s', by simp only [List.map_cons, List.cons_append]; rw [tokenize_escMCh_cons, h]⟩

/-- **F32**: a glob that starts with the escaped string `d` only matches paths that start with `d` —
    for every `d`, whatever characters it contains -/
theorem globMatch_escaped_prefix (d r p : Str) (h : globMatch (escapeGlob d ++ r) p = true) :
    ∃ q, p = d ++ q ∧ ∃ seg, matchToks (tokenize seg .normal (unescape r)) q = true := by
  unfold globMatch globToks at h
  rw [unescape_escape_append d r] at h
  obtain ⟨s', hs⟩ := tokenize_escaped_append true d (unescape r)
  rw [hs] at h
  obtain ⟨q, hq, hm⟩ := matchToks_lits d _ p h
  exact ⟨q, hq, s', hm⟩

theorem matchToks_lit_self : ∀ n : Str, matchToks (n.map .lit) n = true
  | [] => by simp [matchToks]
  | c :: n => by simp [matchToks, matchToks_lit_self n]

/-- the escaped directory matches exactly the literal directory (`escape_glob` round-trips) -/
theorem globMatch_escaped_iff (d p : Str) : globMatch (escapeGlob d) p = true ↔ p = d := by
  constructor
  · intro h
    have h' : globMatch (escapeGlob d ++ []) p = true := by simpa using h
    obtain ⟨q, hq, seg, hm⟩ := globMatch_escaped_prefix d [] p h'
    have : tokenize seg CMode.normal (unescape []) = [] := by cases seg <;> simp [unescape, tokenize]
    rw [this] at hm
    cases q with
    | nil => simpa using hq
    | cons c q => simp [matchToks] at hm
  · rintro rfl
    unfold globMatch globToks
    have h1 := unescape_escape_append p []
    simp only [List.append_nil, unescape] at h1
    rw [h1]
    obtain ⟨s', hs⟩ := tokenize_escaped_append true p []
    simp only [List.append_nil] at hs
    rw [hs]
    have : tokenize s' CMode.normal [] = [] := by cases s' <;> simp [tokenize]
    rw [this, List.append_nil]
    exact matchToks_lit_self p

theorem transform_prefix (line cur : Str) (rd : Option Str) (ds : Bool) (hc : cur ≠ [])
    (hrd : rd = none ∨ rd = some cur) :
    ∃ rest, transformPatternForGlob line cur rd ds = escapeGlob cur ++ '/' :: rest := by
  have hne : (escapeGlob cur).isEmpty = false := by
    cases cur with
    | nil => exact absurd rfl hc
    | cons c r => unfold escapeGlob; split <;> simp
  have e1 : "/**/".toList = ['/', '*', '*', '/'] := by decide
  rcases hrd with h | h <;> subst h <;> cases ds <;>
    simp only [transformPatternForGlob, hne, e1, Option.map_none, Option.map_some, Bool.false_eq_true, if_false] <;>
    exact ⟨_, by simp only [List.append_assoc, List.cons_append, List.nil_append]; rfl⟩

theorem relDir_cases (b : Bool) (cur : Str) :
    (if b = true then some cur else none) = none ∨ (if b = true then some cur else none) = some cur := by
  cases b <;> simp

/-- after the F8 and F32 repairs the glob of every pattern of a non-root source starts with the escaped source directory -/
theorem new_glob_prefix (src : Source) (line : Str) (hc : currentDir src ≠ []) :
    ∃ rest, (Pattern.new src line).glob = escapeGlob (currentDir src) ++ '/' :: rest := by
  unfold Pattern.new
  simp only []
  apply transform_prefix _ _ _ _ hc
  exact relDir_cases _ _

theorem currentDir_head (src : Source) : currentDir src = [] ∨ ∃ r, currentDir src = '/' :: r := by
  cases src with
  | global => exact Or.inl rfl
  | file parent =>
    have hp : ∃ r, (if parent.head? = some '/' then parent else '/' :: parent) = '/' :: r := by
      by_cases h : parent.head? = some '/'
      · cases parent with
        | nil => simp at h
        | cons c r => simp only [List.head?_cons, Option.some.injEq] at h; subst h; exact ⟨r, by simp⟩
      · exact ⟨parent, by simp [h]⟩
    obtain ⟨r, hr⟩ := hp
    unfold currentDir
    simp only [hr]
    split
    · cases r with
      | nil => left; rfl
      | cons c r => right; exact ⟨(c :: r).dropLast, by simp [List.dropLast]⟩
    · right; exact ⟨r, rfl⟩

theorem escapeGlob_head (r : Str) : ∃ r', escapeGlob ('/' :: r) = '/' :: r' := by
  unfold escapeGlob
  have : ¬ ('/' = '*' ∨ '/' = '?' ∨ '/' = '[' ∨ '/' = ']' ∨ '/' = '{' ∨ '/' = '}' ∨ '/' = '!' ∨ '/' = '\\') := by decide
  simp only [this, if_false]
  exact ⟨_, rfl⟩

theorem transform_head (line cur : Str) (rd : Option Str) (ds : Bool)
    (hc : cur = [] ∨ ∃ r, cur = '/' :: r) (hrd : rd = none ∨ rd = some cur) :
    ∃ c rest, transformPatternForGlob line cur rd ds = c :: rest ∧ (c = '*' ∨ c = '/') := by
  have e1 : "/**/".toList = ['/', '*', '*', '/'] := by decide
  have e2 : "**/".toList = ['*', '*', '/'] := by decide
  rcases hc with rfl | ⟨r, rfl⟩
  · rcases hrd with h | h <;> subst h <;> cases ds <;>
      simp only [transformPatternForGlob, escapeGlob, e1, e2, Option.map_none, Option.map_some, List.isEmpty_nil, if_true,
        List.nil_append, List.cons_append] <;>
      exact ⟨_, _, rfl, by simp⟩
  · obtain ⟨r', hr'⟩ := escapeGlob_head r
    rcases hrd with h | h <;> subst h <;> cases ds <;>
      simp only [transformPatternForGlob, hr', e1, e2, Option.map_none, Option.map_some, List.isEmpty_cons, Bool.false_eq_true,
        if_false, List.cons_append] <;>
      exact ⟨_, _, rfl, by simp⟩

theorem new_glob_head (src : Source) (line : Str) :
    ∃ c rest, (Pattern.new src line).glob = c :: rest ∧ (c = '*' ∨ c = '/') := by
  unfold Pattern.new
  simp only []
  exact transform_head _ _ _ _ (currentDir_head src) (relDir_cases _ _)

theorem new_confined (src : Source) (line : Str) (hd : PlainDir (currentDir src)) :
    Confined (currentDir src) (Pattern.new src line) := by
  intro p hm
  obtain ⟨rest, hg⟩ := new_glob_prefix src line hd
  unfold Pattern.m at hm
  rw [hg] at hm
  obtain ⟨q, hq, seg, hq2⟩ := globMatch_escaped_prefix _ _ p hm
  -- the rest of the glob starts with the literal '/'
  rw [unescape_plain_cons _ _ (by decide), tokenize_plain_cons _ _ _ (by decide)] at hq2
  cases q with
  | nil => simp [matchToks] at hq2
  | cons x xs =>
    simp only [matchToks, Bool.and_eq_true, beq_iff_eq] at hq2
    unfold Under
    exact ⟨xs, by rw [hq, hq2.1]; simp⟩

/-! ## interference that cannot change a verdict -/

/-- every pattern a check additionally sees is confined to a directory that the checked path is not under -/
def Admissible (extra : Str → List Pattern) : Prop :=
  ∀ p, ∀ r ∈ extra p, ∃ d, Confined d r ∧ ¬ Under d p

theorem ignored_extra (extra : Str → List Pattern) (ha : Admissible extra) (rules : List Pattern) (p : Str) :
    ignored (rules ++ extra p) p = ignored rules p := by
  unfold ignored
  rw [check_append_nomatch]
  intro r hr
  obtain ⟨d, hc, hn⟩ := ha p r hr
  cases hm : r.m p with
  | false => rfl
  | true => exact absurd (hc p hm) hn

mutual
theorem walkWith_extra (extra : Str → List Pattern) (ha : Admissible extra) (rules : List Pattern) (here : Str) :
    ∀ t, walkWith extra rules here t = walkWith (fun _ => []) rules here t
  | .node content files dirs => by
    simp only [walkWith, List.append_nil]
    congr 1
    · apply List.filter_congr; intro p _; rw [ignored_extra extra ha]
    · exact walkDirs_extra extra ha _ here dirs
theorem walkDirs_extra (extra : Str → List Pattern) (ha : Admissible extra) (rules : List Pattern) (here : Str) :
    ∀ ds, walkDirs extra rules here ds = walkDirs (fun _ => []) rules here ds
  | [] => by simp [walkDirs]
  | (n, t) :: rest => by
    simp only [walkDirs, List.append_nil]
    rw [ignored_extra extra ha, walkWith_extra extra ha rules (childPath here n) t,
      walkDirs_extra extra ha rules here rest]
end

mutual
theorem collectRules_extra (extra : Str → List Pattern) (ha : Admissible extra) (rules : List Pattern) (here : Str) :
    ∀ t, collectRules extra rules here t = collectRules (fun _ => []) rules here t
  | .node content files dirs => by
    simp only [collectRules]
    rw [collectDirs_extra extra ha _ here dirs]
theorem collectDirs_extra (extra : Str → List Pattern) (ha : Admissible extra) (rules : List Pattern) (here : Str) :
    ∀ ds, collectDirs extra rules here ds = collectDirs (fun _ => []) rules here ds
  | [] => by simp [collectDirs]
  | (n, t) :: rest => by
    simp only [collectDirs, List.append_nil]
    rw [ignored_extra extra ha, collectRules_extra extra ha rules (childPath here n) t,
      collectDirs_extra extra ha rules here rest]
end

end Ign
