import XvcIgnore.Walk
/-!
  # `.gitignore` maintenance (model of file/src/common/gitignore.rs, the gitignore part of
  file/src/track/mod.rs, `build_gitignore` of core/src/util/git.rs) and git's own reading of
  `.gitignore` files (model of git's dir.c: `add_patterns_from_buffer`, `parse_path_pattern`,
  `last_matching_pattern`, "it is not possible to re-include a file if a parent directory of that file
  is excluded").

  The workspace is the `Tree` of Walk.lean; the `ignoreContent` of a node is the byte content of the
  `.gitignore` file of that directory (`""` = no file; `OpenOptions::create(true).append(true)` makes
  the two indistinguishable for the updates).  Two readings of the same files live side by side:

  * **xvc's reading** — `allRules t` (= `build_gitignore`: `build_ignore_patterns(COMMON_IGNORE_PATTERNS,
    root, ".gitignore")`) and `check`, i.e. the matcher of C09;
  * **git's reading** — `gitIgnored`, per-directory scoping, the last matching line of the deepest file
    wins, an excluded parent directory wins over everything.  git's `wildmatch` is modelled by the same
    `globMatch` (applied to the path relative to the `.gitignore`'s directory, or to the basename for
    patterns without a slash); the tie compares it with the real `git check-ignore`.

  The model mirrors the code WITH patches/C16-newline.patch (a missing final newline is completed
  before the banner is appended).
-/
namespace Ign.Git
open Ign

/-! ## navigating and editing the tree -/

mutual
/-- `.gitignore` contents on the way to an entry: root, `c₁`, `c₁/c₂`, … for all proper prefixes of
    `comps` (a missing directory contributes an empty file) -/
def contentsAlong : Tree → List Str → List Str
  | _, [] => []
  | .node c _ _, [_] => [c]
  | .node c _ dirs, c1 :: c2 :: rest => c :: contentsAlongDirs dirs c1 (c2 :: rest)
def contentsAlongDirs : List (Str × Tree) → Str → List Str → List Str
  | [], _, rest => rest.map (fun _ => [])
  | (n, t) :: ds, c1, rest => if n = c1 then contentsAlong t rest else contentsAlongDirs ds c1 rest
end

mutual
/-- rewrite the `.gitignore` of the directory `dir` (components from the root) with `f` -/
def editAt (f : Str → Str) : List Str → Tree → Tree
  | [], .node c files dirs => .node (f c) files dirs
  | c1 :: rest, .node c files dirs => .node c files (editAtDirs f c1 rest dirs)
def editAtDirs (f : Str → Str) (c1 : Str) (rest : List Str) : List (Str × Tree) → List (Str × Tree)
  | [] => []
  | (n, t) :: ds => if n = c1 then (n, editAt f rest t) :: ds else (n, t) :: editAtDirs f c1 rest ds
end

mutual
/-- the `.gitignore` content of the directory `dir` (`none`: no such directory) -/
def contentAt : List Str → Tree → Option Str
  | [], .node c _ _ => some c
  | c1 :: rest, .node _ _ dirs => contentAtDirs c1 rest dirs
def contentAtDirs (c1 : Str) (rest : List Str) : List (Str × Tree) → Option Str
  | [] => none
  | (n, t) :: ds => if n = c1 then contentAt rest t else contentAtDirs c1 rest ds
end

mutual
/-- every directory (as `/a/b`, root = `""`) with its `.gitignore` content -/
def allContents (here : Str) : Tree → List (Str × Str)
  | .node c _ dirs => (here, c) :: allContentsDirs here dirs
def allContentsDirs (here : Str) : List (Str × Tree) → List (Str × Str)
  | [] => []
  | (n, t) :: ds => allContents (childPath here n) t ++ allContentsDirs here ds
end

/-! ## xvc's updates -/

/-- a target of an update: the directory that contains it (components) and its name -/
structure Target where
  dir : List Str
  name : Str
  deriving DecidableEq, Repr

def joinSlash : List Str → Str
  | [] => []
  | [c] => c
  | c :: r => c ++ '/' :: joinSlash r

/-- the string `IgnoreRules::check` sees for `xvc_root.join(path)`: `/a/b/name` -/
def Target.pathStr (x : Target) : Str := '/' :: joinSlash (x.dir ++ [x.name])

def natStr (n : Nat) : Str := (toString n).toList

/-- `format!("### Following {} lines are added by xvc on {}\n{}", n, Utc::now().to_rfc2822(), values.join("\n"))`
    followed by the newline of `writeln!`; with patches/C16-newline.patch a missing final newline of
    the existing content is completed first -/
def appendText (old : Str) (lines : List Str) (date : Str) : Str :=
  (if old ≠ [] ∧ old.getLast? ≠ some '\n' then ['\n'] else []) ++
  "### Following ".toList ++ natStr lines.length ++ " lines are added by xvc on ".toList ++ date ++ ['\n'] ++
  joinWith lines ++ ['\n']
where
  joinWith : List Str → Str
    | [] => []
    | [l] => l
    | l :: r => l ++ '\n' :: joinWith r

def dedup {α} [DecidableEq α] : List α → List α
  | [] => []
  | x :: xs => if x ∈ xs then dedup xs else x :: dedup xs

/-- the groups `changes: HashMap<gitignore file, Vec<line>>` are written one file at a time; files
    differ per group, so the (arbitrary) iteration order of the map is irrelevant -/
def writeGroups (date : Str) (keep : List Target) (line : Target → Str) (t : Tree) : Tree :=
  (dedup (keep.map (·.dir))).foldl
    (fun t d => editAt (fun old => old ++ appendText old ((keep.filter (·.dir = d)).map line) date) d t) t

/-- `update_file_gitignores(xvc_root, current_gitignore, files)`: a file is skipped when xvc's
    matcher says `Ignore` ("Already gitignored") or `Whitelist` (an error is printed) -/
def updateFileGitignores (rules : List Pattern) (date : Str) (files : List Target) (t : Tree) : Tree :=
  writeGroups date (files.filter (fun f => check rules f.pathStr == .noMatch)) (fun f => '/' :: f.name) t

/-- `update_dir_gitignores`: the line is `/name/`.  The directory is checked **without** a trailing
    slash: `dir.ends_with("/")` is a component-wise test of `RelativePath` that always holds, so the
    branch `xvc_root.join(dir.to_string())` is taken and the other one (which appends `/`) is dead. -/
def updateDirGitignores (rules : List Pattern) (date : Str) (dirs : List Target) (t : Tree) : Tree :=
  writeGroups date (dirs.filter (fun d => check rules d.pathStr == .noMatch)) (fun d => '/' :: d.name ++ ['/']) t

/-- xvc's view of the `.gitignore` files: `build_gitignore(xvc_root)` -/
def gitRules (t : Tree) : List Pattern := allRules t

/-- the tail of `cmd_track`: directory targets first, rules reloaded, then all tracked files -/
def trackUpdate (date : Str) (dirs files : List Target) (t : Tree) : Tree :=
  let t1 := updateDirGitignores (gitRules t) date dirs t
  updateFileGitignores (gitRules t1) date files t1

/-- the tail of `cmd_move` for files that are renamed in the workspace (copy → copy), with
    patches/C16-move.patch: `update_file_gitignores(build_gitignore(root), renamed destinations)` -/
def moveUpdate (date : Str) (files : List Target) (t : Tree) : Tree :=
  updateFileGitignores (gitRules t) date files t

/-- `make_ignore_handler` (recheck, copy, move, carry-in, untrack, bring): operations are collected
    (deduplicated, pre-filtered with the initial rules — directories *without* trailing slash), then
    directories are written with the *initial* rules and files with reloaded ones -/
def handlerUpdate (date : Str) (dirOps fileOps : List Target) (t : Tree) : Tree :=
  let r0 := gitRules t
  let dirs := (dedup dirOps.reverse).reverse.filter (fun d => check r0 d.pathStr == .noMatch)
  let files := (dedup fileOps.reverse).reverse.filter (fun f => check r0 f.pathStr == .noMatch)
  let t1 := updateDirGitignores r0 date dirs t
  updateFileGitignores (gitRules t1) date files t1

/-! ## the commands as transitions of (XvcPath store, workspace)

  Between two commands the user may do anything to the workspace (delete a `.gitignore`, delete a
  directory and regenerate its files, remove single lines, drop a whitelisting rule): the ignore state
  and the store get out of step.  The store is therefore an explicit component of the state, so that
  "the `.gitignore` tail of `xvc file track` does not look at the store" is a statement about the model
  and not an artefact of leaving the store out. -/

/-- the part of the repository the `.gitignore` maintenance could look at: the recorded file paths
    (`XvcStore<XvcPath>` restricted to `XvcFileType::File`) and the workspace -/
structure Repo where
  recorded : List Target
  tree : Tree

/-- `cmd_track` (file/src/track/mod.rs).  `update_store_records(xvc_path_diff, add_new = true)` records
    the targets that are new to the store (`Diff::RecordMissing`); `dir_targets` go to
    `update_dir_gitignores`, the rules are reloaded, and `file_targets` — **all** targets of type
    `File`, recorded before or not — go to `update_file_gitignores`.  Unless `--no-commit` is given,
    `carry_in` then moves the targets whose content digest is new or different to the cache and
    `recheck_from_cache` reports each of them to the ignore handler: `carried` (which files changed is
    outside this model, so it is a parameter; `[]` for `--no-commit` and for unchanged files). -/
def trackCmd (date : Str) (dirs files carried : List Target) (r : Repo) : Repo :=
  { recorded := r.recorded ++ dedup (files.filter (· ∉ r.recorded)),
    tree := handlerUpdate date [] carried (trackUpdate date dirs files r.tree) }

/-- `cmd_recheck`, `cmd_carry_in`, `cmd_copy`, `cmd_bring`: the files that are materialised
    (`recheck_from_cache`: absent from the workspace, `--force`, changed content for carry-in, copy
    destinations) and the parent directories that had to be created are reported to the ignore
    handler; `newPaths` = the destinations `cmd_copy` records -/
def materialiseCmd (date : Str) (dirOps fileOps newPaths : List Target) (r : Repo) : Repo :=
  { recorded := r.recorded ++ dedup (newPaths.filter (· ∉ r.recorded)),
    tree := handlerUpdate date dirOps fileOps r.tree }

/-- `cmd_move` of files renamed in the workspace: the entity keeps its record, the path changes -/
def moveCmd (date : Str) (srcs dsts : List Target) (r : Repo) : Repo :=
  { recorded := r.recorded.filter (· ∉ srcs) ++ dsts,
    tree := moveUpdate date dsts r.tree }

/-- one step of a history: anything the user does to the workspace, or a command -/
inductive Step where
  | user (edit : Tree → Tree)
  | track (date : Str) (dirs files carried : List Target)
  | materialise (date : Str) (dirOps fileOps newPaths : List Target)
  | move (date : Str) (srcs dsts : List Target)

def Step.run : Step → Repo → Repo
  | .user edit, r => { r with tree := edit r.tree }
  | .track date dirs files carried, r => trackCmd date dirs files carried r
  | .materialise date d f n, r => materialiseCmd date d f n r
  | .move date s d, r => moveCmd date s d r

/-! ## git's reading -/

/-- one pattern as git keeps it after `parse_path_pattern` -/
structure GPat where
  neg : Bool          -- the line started with `!`
  dirOnly : Bool      -- trailing `/` (PATTERN_FLAG_MUSTBEDIR)
  anchored : Bool     -- contains a `/` other than the trailing one (no PATTERN_FLAG_NODIR)
  pat : Str           -- without `!`, trailing `/` and leading `/`
  deriving DecidableEq, Repr

/-- `trim_trailing_spaces` of dir.c: trailing blanks go unless quoted with a backslash -/
def trimTrailingSpaces : Str → Str
  | [] => []
  | '\\' :: c :: r => '\\' :: c :: trimTrailingSpaces r
  | c :: r =>
    let r' := trimTrailingSpaces r
    if c = ' ' ∧ r' = [] then [] else c :: r'

def mkPat2 (neg dirOnly : Bool) (l : Str) : Option GPat :=
  if l = [] then none else
  some { neg := neg, dirOnly := dirOnly, anchored := l.contains '/', pat := if l.head? = some '/' then l.drop 1 else l }

/-- `parse_path_pattern` on the text after an optional `!`: trailing `/` = directories only; a `/`
    elsewhere anchors the pattern at the directory of the file (the leading one is dropped) -/
def mkPat (neg : Bool) (l : Str) : Option GPat :=
  if l.getLast? = some '/' then mkPat2 neg true l.dropLast else mkPat2 neg false l

/-- one line of a `.gitignore` (`add_patterns_from_buffer` + `parse_path_pattern`): empty lines and
    lines starting with `#` are skipped, trailing blanks trimmed, a leading `!` negates -/
def parseLine (line : Str) : Option GPat :=
  if line = [] ∨ line.head? = some '#' then none else
  let l := trimTrailingSpaces line
  if l.head? = some '!' then mkPat true (l.drop 1) else mkPat false l

def parseContent (content : Str) : List GPat := (rustLines content).filterMap parseLine

/-- does the pattern of the `.gitignore` of directory `D` match the entry whose path relative to `D`
    is `rel` (`match_pathname` / `match_basename`) -/
def GPat.matches (g : GPat) (rel : List Str) (isDir : Bool) : Bool :=
  (!g.dirOnly || isDir) &&
  (if g.anchored then globMatch g.pat (joinSlash rel) else globMatch g.pat (rel.getLast?.getD []))

/-- the last matching pattern of one file decides: `some true` = re-included, `some false` = excluded -/
def lastMatch : List GPat → List Str → Bool → Option Bool
  | [], _, _ => none
  | g :: r, rel, isDir =>
    match lastMatch r rel isDir with
    | some v => some v
    | none => if g.matches rel isDir then some g.neg else none

/-- `last_matching_pattern`: the deepest `.gitignore` that has a matching line decides.  `stack` holds
    the contents for the root, `c₁`, `c₁/c₂`, …, the parent of the entry `comps`. -/
def verdict : List Str → List Str → Bool → Option Bool
  | [], _, _ => none
  | c :: deeper, comps, isDir =>
    match verdict deeper (comps.drop 1) isDir with
    | some v => some v
    | none => lastMatch (parseContent c) comps isDir

/-- git ignores `comps` iff the entry itself or one of its parent directories is excluded -/
def ignoredBy (stack : List Str) (comps : List Str) (isDir : Bool) : Bool :=
  (List.range comps.length).any (fun k =>
    verdict (stack.take (k + 1)) (comps.take (k + 1)) (isDir || decide (k + 1 < comps.length)) == some false)

/-- git's verdict for the entry `comps` of the workspace `t` (`git check-ignore`, `git add`) -/
def gitIgnored (t : Tree) (comps : List Str) (isDir : Bool) : Bool :=
  ignoredBy (contentsAlong t comps) comps isDir

end Ign.Git
