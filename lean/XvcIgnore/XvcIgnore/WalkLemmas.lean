import XvcIgnore.Lemmas
/-!
  Lemmas about the shape of walks: where emitted paths lie, `.xvc`/`.git`, ignored directories.
-/
namespace Ign

/-! ## paths -/

theorem under_childPath (here n : Str) : Under here (childPath here n) := by
  unfold Under childPath
  exact ⟨n, by simp⟩

theorem under_trans_child {here n p : Str} (h : Under (childPath here n) p) : Under here p := by
  unfold Under childPath at *
  refine List.IsPrefix.trans ?_ h
  exact ⟨n ++ ['/'], by simp⟩

theorem slash_prefix_eq : ∀ (n m : Str), '/' ∉ n → '/' ∉ m → (n ++ ['/']) <+: (m ++ ['/']) → n = m
  | [], [], _, _, _ => rfl
  | [], c :: m, _, hm, h => by
    obtain ⟨t, ht⟩ := h
    simp only [List.nil_append, List.cons_append, List.cons.injEq] at ht
    exact absurd (ht.1 ▸ (by simp : c ∈ c :: m)) hm
  | c :: n, [], hn, _, h => by
    obtain ⟨t, ht⟩ := h
    simp only [List.cons_append, List.nil_append, List.cons.injEq] at ht
    exact absurd (ht.1 ▸ (by simp : c ∈ c :: n)) hn
  | c :: n, d :: m, hn, hm, h => by
    obtain ⟨t, ht⟩ := h
    simp only [List.cons_append, List.cons.injEq] at ht
    have := slash_prefix_eq n m (fun h => hn (by simp [h])) (fun h => hm (by simp [h])) ⟨t, ht.2⟩
    rw [ht.1, this]

/-- two sibling directories that both contain `p` are the same directory -/
theorem under_sibling_eq {here n m p : Str} (hn : '/' ∉ n) (hm : '/' ∉ m)
    (h1 : Under (childPath here n) p) (h2 : Under (childPath here m) p) : n = m := by
  unfold Under childPath at h1 h2
  have e1 : here ++ '/' :: n ++ ['/'] = (here ++ ['/']) ++ (n ++ ['/']) := by simp
  have e2 : here ++ '/' :: m ++ ['/'] = (here ++ ['/']) ++ (m ++ ['/']) := by simp
  rw [e1] at h1; rw [e2] at h2
  rcases Nat.le_total ((here ++ ['/']) ++ (n ++ ['/'])).length ((here ++ ['/']) ++ (m ++ ['/'])).length with hl | hl
  · have := List.prefix_of_prefix_length_le h1 h2 hl
    rw [List.prefix_append_right_inj] at this
    exact slash_prefix_eq n m hn hm this
  · have := List.prefix_of_prefix_length_le h2 h1 hl
    rw [List.prefix_append_right_inj] at this
    exact (slash_prefix_eq m n hm hn this).symm

/-- an entry of `here` is not below a sub-directory of `here` -/
theorem not_under_sibling_entry {here n f : Str} (hf : '/' ∉ f) : ¬ Under (childPath here n) (childPath here f) := by
  unfold Under childPath
  intro h
  have e1 : here ++ '/' :: n ++ ['/'] = (here ++ ['/']) ++ (n ++ ['/']) := by simp
  have e2 : here ++ '/' :: f = (here ++ ['/']) ++ f := by simp
  rw [e1, e2, List.prefix_append_right_inj] at h
  obtain ⟨t, ht⟩ := h
  apply hf
  rw [← ht]; simp

/-! ## everything a walk emits lies below the directory it started in -/

mutual
theorem walkWith_under (extra : Str → List Pattern) (rules : List Pattern) (here : Str) :
    ∀ t, ∀ p ∈ walkWith extra rules here t, Under here p
  | .node content files dirs => by
    intro p hp
    simp only [walkWith, List.mem_append, List.mem_filter, List.mem_map] at hp
    rcases hp with ⟨⟨f, _, rfl⟩, _⟩ | hp
    · exact under_childPath here f
    · exact walkDirs_under extra _ here dirs p hp
theorem walkDirs_under (extra : Str → List Pattern) (rules : List Pattern) (here : Str) :
    ∀ ds, ∀ p ∈ walkDirs extra rules here ds, Under here p
  | [] => by simp [walkDirs]
  | (n, t) :: rest => by
    intro p hp
    simp only [walkDirs, List.mem_append] at hp
    rcases hp with hp | hp
    · split at hp
      · simp at hp
      · simp only [List.mem_cons] at hp
        rcases hp with rfl | hp
        · exact under_childPath here n
        · exact under_trans_child (walkWith_under extra rules (childPath here n) t p hp)
    · exact walkDirs_under extra rules here rest p hp
end

/-! ## an ignored directory hides everything beneath it -/

theorem walkDirs_hides (extra : Str → List Pattern) (rules : List Pattern) (here n : Str) (hn : '/' ∉ n)
    (hign : ignored (rules ++ extra (childPath here n)) (childPath here n) = true) :
    ∀ ds, (∀ d ∈ ds, '/' ∉ d.1) → ∀ p ∈ walkDirs extra rules here ds, ¬ Under (childPath here n) p
  | [], _ => by simp [walkDirs]
  | (m, t) :: rest, hds => by
    intro p hp
    simp only [walkDirs, List.mem_append] at hp
    have hm : '/' ∉ m := hds (m, t) (by simp)
    rcases hp with hp | hp
    · split at hp
      · simp at hp
      · rename_i hnot
        simp only [List.mem_cons] at hp
        rcases hp with rfl | hp
        · exact not_under_sibling_entry hm
        · intro hu
          have := under_sibling_eq hn hm hu (walkWith_under extra rules _ t p hp)
          subst this
          exact hnot hign
    · exact walkDirs_hides extra rules here n hn hign rest (fun d hd => hds d (by simp [hd])) p hp

/-! ## `.xvc` and `.git` -/

theorem afterSlash_append (k : Str → Bool) (name : Str) (hk : k name = true) :
    ∀ here : Str, afterSlash k (here ++ '/' :: name) = true
  | [] => by simp [afterSlash, hk]
  | c :: cs => by
    simp only [List.cons_append, afterSlash, afterSlash_append k name hk cs, Bool.or_true]

def dotXvc : Str := Gen.XVC_DIR.toList
def dotGit : Str := Gen.GIT_DIR.toList

/-- the two built-in patterns, computed from the generated `COMMON_IGNORE_PATTERNS` -/
theorem globalRules_eq :
    globalRules = [⟨"**/".toList ++ dotXvc, dotXvc, false, none, false⟩, ⟨"**/".toList ++ dotGit, dotGit, false, none, false⟩] := by
  decide

theorem xvc_glob_matches (here : Str) : globMatch ("**/".toList ++ dotXvc) (childPath here dotXvc) = true := by
  have ht : globToks ("**/".toList ++ dotXvc) = .gss :: dotXvc.map .lit := by decide
  unfold globMatch childPath
  rw [ht]
  simp only [matchToks, Bool.or_eq_true]
  right
  exact afterSlash_append _ _ (by decide) here

theorem git_glob_matches (here : Str) : globMatch ("**/".toList ++ dotGit) (childPath here dotGit) = true := by
  have ht : globToks ("**/".toList ++ dotGit) = .gss :: dotGit.map .lit := by decide
  unfold globMatch childPath
  rw [ht]
  simp only [matchToks, Bool.or_eq_true]
  right
  exact afterSlash_append _ _ (by decide) here

/-- a whitelist pattern that can never re-include a `.xvc` or `.git` entry -/
def SafeWhite (r : Pattern) : Prop :=
  r.white = true → ∀ here, r.m (childPath here dotXvc) = false ∧ r.m (childPath here dotGit) = false

theorem ignored_of_global (rules : List Pattern) (here n : Str) (hn : n = dotXvc ∨ n = dotGit)
    (hg : ∀ r ∈ globalRules, r ∈ rules) (hs : ∀ r ∈ rules, SafeWhite r) :
    ignored rules (childPath here n) = true := by
  unfold ignored check
  have h1 : rules.any (fun r => r.white && r.m (childPath here n)) = false := by
    simp only [List.any_eq_false, Bool.and_eq_true, not_and, Bool.not_eq_true]
    intro r hr hw
    rcases hn with rfl | rfl
    · exact (hs r hr hw here).1
    · exact (hs r hr hw here).2
  have h2 : rules.any (fun r => !r.white && r.m (childPath here n)) = true := by
    simp only [List.any_eq_true]
    rcases hn with rfl | rfl
    · refine ⟨⟨"**/".toList ++ dotXvc, dotXvc, false, none, false⟩, hg _ (by rw [globalRules_eq]; simp), ?_⟩
      have := xvc_glob_matches here
      simpa [Pattern.m] using this
    · refine ⟨⟨"**/".toList ++ dotGit, dotGit, false, none, false⟩, hg _ (by rw [globalRules_eq]; simp), ?_⟩
      have := git_glob_matches here
      simpa [Pattern.m] using this
  simp [h1, h2]

mutual
/-- every pattern of every ignore file of the tree, whether or not its directory is reached -/
def treePatterns (here : Str) : Tree → List Pattern
  | .node content _ dirs => rulesOf here content ++ dirsPatterns here dirs
def dirsPatterns (here : Str) : List (Str × Tree) → List Pattern
  | [] => []
  | (n, t) :: rest => treePatterns (childPath here n) t ++ dirsPatterns here rest
end

/-- the chain property: an emitted path is an entry not called `.xvc`/`.git` of the start directory
    or of a directory that was itself emitted -/
def ChainOk (here : Str) (out : List Str) (p : Str) : Prop :=
  ∃ d n, p = childPath d n ∧ n ≠ dotXvc ∧ n ≠ dotGit ∧ (d = here ∨ d ∈ out)

mutual
theorem walkWith_chain (extra : Str → List Pattern) (he : ∀ p, ∀ r ∈ extra p, SafeWhite r) :
    ∀ (t : Tree) (rules : List Pattern) (here : Str), (∀ r ∈ globalRules, r ∈ rules) → (∀ r ∈ rules, SafeWhite r) →
      (∀ r ∈ treePatterns here t, SafeWhite r) →
      ∀ p ∈ walkWith extra rules here t, ChainOk here (walkWith extra rules here t) p
  | .node content files dirs, rules, here, hg, hs, ht => by
    intro p hp
    have hs' : ∀ r ∈ rules ++ rulesOf here content, SafeWhite r := by
      intro r hr
      rcases List.mem_append.1 hr with h | h
      · exact hs r h
      · exact ht r (by simp [treePatterns, h])
    have hg' : ∀ r ∈ globalRules, r ∈ rules ++ rulesOf here content := fun r hr => List.mem_append_left _ (hg r hr)
    simp only [walkWith, List.mem_append, List.mem_filter, List.mem_map] at hp
    rcases hp with ⟨⟨f, _, rfl⟩, hni⟩ | hp
    · refine ⟨here, f, rfl, ?_, ?_, Or.inl rfl⟩
      · intro hf
        have := ignored_of_global (rules ++ rulesOf here content ++ extra (childPath here f)) here f (Or.inl hf)
          (fun r hr => List.mem_append_left _ (hg' r hr))
          (fun r hr => by rcases List.mem_append.1 hr with h | h; exact hs' r h; exact he _ r h)
        simp only [List.append_assoc] at this
        simp [this] at hni
      · intro hf
        have := ignored_of_global (rules ++ rulesOf here content ++ extra (childPath here f)) here f (Or.inr hf)
          (fun r hr => List.mem_append_left _ (hg' r hr))
          (fun r hr => by rcases List.mem_append.1 hr with h | h; exact hs' r h; exact he _ r h)
        simp only [List.append_assoc] at this
        simp [this] at hni
    · obtain ⟨d, n, hpe, h1, h2, h3⟩ := walkDirs_chain extra he dirs _ here hg' hs'
        (fun r hr => ht r (by simp [treePatterns, hr])) p hp
      refine ⟨d, n, hpe, h1, h2, ?_⟩
      rcases h3 with h | h
      · exact Or.inl h
      · right; simp only [walkWith, List.mem_append]; exact Or.inr h
theorem walkDirs_chain (extra : Str → List Pattern) (he : ∀ p, ∀ r ∈ extra p, SafeWhite r) :
    ∀ (ds : List (Str × Tree)) (rules : List Pattern) (here : Str), (∀ r ∈ globalRules, r ∈ rules) → (∀ r ∈ rules, SafeWhite r) →
      (∀ r ∈ dirsPatterns here ds, SafeWhite r) →
      ∀ p ∈ walkDirs extra rules here ds, ChainOk here (walkDirs extra rules here ds) p
  | [], _, _, _, _, _ => by simp [walkDirs]
  | (n, t) :: rest, rules, here, hg, hs, ht => by
    intro p hp
    simp only [walkDirs, List.mem_append] at hp
    rcases hp with hp | hp
    · split at hp
      · simp at hp
      · rename_i hnot
        simp only [List.mem_cons] at hp
        have hmem : ∀ q, q ∈ childPath here n :: walkWith extra rules (childPath here n) t →
            q ∈ walkDirs extra rules here ((n, t) :: rest) := by
          intro q hq
          simp only [walkDirs, List.mem_append]
          left; rw [if_neg hnot]; exact hq
        rcases hp with rfl | hp
        · refine ⟨here, n, rfl, ?_, ?_, Or.inl rfl⟩
          · intro hf
            exact hnot (ignored_of_global _ here n (Or.inl hf) (fun r hr => List.mem_append_left _ (hg r hr))
              (fun r hr => by rcases List.mem_append.1 hr with h | h; exact hs r h; exact he _ r h))
          · intro hf
            exact hnot (ignored_of_global _ here n (Or.inr hf) (fun r hr => List.mem_append_left _ (hg r hr))
              (fun r hr => by rcases List.mem_append.1 hr with h | h; exact hs r h; exact he _ r h))
        · obtain ⟨d, m, hpe, h1, h2, h3⟩ := walkWith_chain extra he t rules (childPath here n) hg hs
            (fun r hr => ht r (by simp [dirsPatterns, hr])) p hp
          refine ⟨d, m, hpe, h1, h2, Or.inr ?_⟩
          rcases h3 with h | h
          · exact hmem _ (by simp [h])
          · exact hmem _ (by simp [h])
    · obtain ⟨d, m, hpe, h1, h2, h3⟩ := walkDirs_chain extra he rest rules here hg hs
        (fun r hr => ht r (by simp [dirsPatterns, hr])) p hp
      refine ⟨d, m, hpe, h1, h2, ?_⟩
      rcases h3 with h | h
      · exact Or.inl h
      · right; simp only [walkDirs, List.mem_append]; exact Or.inr h
end

/-! ## the order in which `read_dir` lists a directory -/

/-- what one sub-directory entry contributes to the walk of its parent -/
def dirPart (extra : Str → List Pattern) (rules : List Pattern) (here : Str) (nt : Str × Tree) : List Str :=
  if ignored (rules ++ extra (childPath here nt.1)) (childPath here nt.1) then []
  else childPath here nt.1 :: walkWith extra rules (childPath here nt.1) nt.2

theorem walkDirs_eq_flatMap (extra : Str → List Pattern) (rules : List Pattern) (here : Str) :
    ∀ ds, walkDirs extra rules here ds = ds.flatMap (dirPart extra rules here)
  | [] => by simp [walkDirs]
  | (n, t) :: rest => by
    simp only [walkDirs, List.flatMap_cons, walkDirs_eq_flatMap extra rules here rest, dirPart]

theorem walkWith_perm_children (extra : Str → List Pattern) (rules : List Pattern) (here c : Str)
    (files files' : List Str) (dirs dirs' : List (Str × Tree)) (hf : files.Perm files') (hd : dirs.Perm dirs') :
    (walkWith extra rules here (.node c files dirs)).Perm (walkWith extra rules here (.node c files' dirs')) := by
  simp only [walkWith, walkDirs_eq_flatMap]
  exact List.Perm.append ((hf.map _).filter _) (List.Perm.flatMap_right _ hd)

/-- two lists of sub-directories with the same names whose subtrees walk to permutations of each other -/
inductive SameUpToOrder (extra : Str → List Pattern) : List (Str × Tree) → List (Str × Tree) → Prop
  | nil : SameUpToOrder extra [] []
  | cons (n : Str) (t t' : Tree) (l l' : List (Str × Tree)) :
      (∀ rules here, (walkWith extra rules here t).Perm (walkWith extra rules here t')) →
      SameUpToOrder extra l l' → SameUpToOrder extra ((n, t) :: l) ((n, t') :: l')

theorem walkWith_congr_subtrees (extra : Str → List Pattern) (rules : List Pattern) (here c : Str) (files : List Str)
    (dirs dirs' : List (Str × Tree)) (h : SameUpToOrder extra dirs dirs') :
    (walkWith extra rules here (.node c files dirs)).Perm (walkWith extra rules here (.node c files dirs')) := by
  simp only [walkWith, walkDirs_eq_flatMap]
  apply List.Perm.append (List.Perm.refl _)
  induction h with
  | nil => exact List.Perm.refl _
  | cons n t t' l l' h2 _ ih =>
    simp only [List.flatMap_cons]
    apply List.Perm.append _ ih
    simp only [dirPart]
    split
    · exact List.Perm.refl _
    · exact List.Perm.cons _ (h2 _ _)

end Ign
