import XvcIgnore.GitLemmas
import XvcIgnore.GitMono
import XvcIgnore.GitDir
import XvcIgnore.Gen.GitignoreWrites
import XvcIgnore.CacheDir
import XvcIgnore.Gen.HashAlgorithms
import XvcIgnore.IgnoreOps
import XvcIgnore.Gen.IgnoreSends
/-!
  # C16 — Tracked data files never enter Git

  Property theorems about the model of xvc's `.gitignore` maintenance and of git's reading of the
  files (GitIgnore.lean).  The model mirrors the code WITH patches/C09-F8.patch,
  patches/C16-newline.patch and patches/C16-move.patch.  All theorems are for every workspace tree, every
  pre-existing `.gitignore` content, every rule list and every batch of targets.
-/
namespace Ign.Git
open Ign

/-! ## xvc edits `.gitignore` files only by appending -/

/-- Reading of `Ext t t'`: every directory that has content `old` in `t` has content `old ++ suffix` in
    `t'`; nothing is deleted, nothing is rewritten, no directory appears. -/
theorem C16_ext_spelled (t t' : Tree) (h : Ext t t') (d : List Str) (old : Str) (hc : contentAt d t = some old) :
    ∃ suf, contentAt d t' = some (old ++ suf) := by
  have := h d; rw [hc] at this; exact this

/-- `update_file_gitignores`, for every rule list, date, batch of files and workspace -/
theorem C16_append_only_files (rules : List Pattern) (date : Str) (files : List Target) (t : Tree) :
    Ext t (updateFileGitignores rules date files t) := ext_writeGroups date _ _ t

/-- `update_dir_gitignores` -/
theorem C16_append_only_dirs (rules : List Pattern) (date : Str) (dirs : List Target) (t : Tree) :
    Ext t (updateDirGitignores rules date dirs t) := ext_writeGroups date _ _ t

/-- `xvc file track` -/
theorem C16_append_only_track (date : Str) (dirs files : List Target) (t : Tree) :
    Ext t (trackUpdate date dirs files t) :=
  Ext.trans (C16_append_only_dirs _ date dirs t) (C16_append_only_files _ date files _)

/-- the ignore handler of recheck / copy / move / carry-in / bring -/
theorem C16_append_only_handler (date : Str) (dirOps fileOps : List Target) (t : Tree) :
    Ext t (handlerUpdate date dirOps fileOps t) :=
  Ext.trans (C16_append_only_dirs _ date _ t) (C16_append_only_files _ date _ _)

/-- `xvc file move` of a renamed file -/
theorem C16_append_only_move (date : Str) (files : List Target) (t : Tree) :
    Ext t (moveUpdate date files t) := C16_append_only_files _ date files t

/-- any history of commands -/
inductive Cmd where
  | track (date : Str) (dirs files : List Target)
  | handler (date : Str) (dirOps fileOps : List Target)
  | move (date : Str) (files : List Target)

def Cmd.run : Cmd → Tree → Tree
  | .track date dirs files, t => trackUpdate date dirs files t
  | .handler date d f, t => handlerUpdate date d f t
  | .move date f, t => moveUpdate date f t

theorem C16_append_only : ∀ (cmds : List Cmd) (t : Tree), Ext t (cmds.foldl (fun t c => c.run t) t)
  | [], t => Ext.refl t
  | c :: cs, t => by
    simp only [List.foldl_cons]
    refine Ext.trans ?_ (C16_append_only cs _)
    cases c with
    | track date dirs files => exact C16_append_only_track date dirs files t
    | handler date d f => exact C16_append_only_handler date d f t
    | move date f => exact C16_append_only_move date f t

/-- lines: with the newline repair (patches/C16-newline.patch) the text xvc appends to a file that
    lacks a final newline starts with one, so the banner is never glued to the user's last pattern -/
theorem C16_appended_text_starts_fresh_line (old : Str) (lines : List Str) (date : Str)
    (h1 : old ≠ []) (h2 : old.getLast? ≠ some '\n') : ∃ r, appendText old lines date = '\n' :: r := by
  simp only [appendText, h1, h2, ne_eq, not_false_eq_true, and_self, if_true, List.append_assoc, List.cons_append,
    List.nil_append]
  exact ⟨_, rfl⟩

/-- line level: every `.gitignore` (whose last byte is not a lone carriage return) keeps its lines as
    its first lines — no line written by the user or by an earlier command is removed or altered -/
def LinesKept (t t' : Tree) : Prop :=
  ∀ d old, contentAt d t = some old → old.getLast? ≠ some '\r' →
    ∃ new, contentAt d t' = some new ∧ rustLines old <+: rustLines new ∧ new.getLast? ≠ some '\r'

theorem LinesKept.refl (t : Tree) : LinesKept t t := fun _ old hc hr => ⟨old, hc, List.prefix_refl _, hr⟩

theorem LinesKept.trans {a b c : Tree} (h1 : LinesKept a b) (h2 : LinesKept b c) : LinesKept a c := by
  intro d old hc hr
  obtain ⟨m, hm, hp, hr'⟩ := h1 d old hc hr
  obtain ⟨n, hn, hp', hr''⟩ := h2 d m hm hr'
  exact ⟨n, hn, List.IsPrefix.trans hp hp', hr''⟩

theorem C16_lines_kept_files (rules : List Pattern) (date : Str) (files : List Target) (t : Tree) :
    LinesKept t (updateFileGitignores rules date files t) :=
  fun d old hc hr => lines_prefix_writeGroups date _ _ t d old hc hr

theorem C16_lines_kept_dirs (rules : List Pattern) (date : Str) (dirs : List Target) (t : Tree) :
    LinesKept t (updateDirGitignores rules date dirs t) :=
  fun d old hc hr => lines_prefix_writeGroups date _ _ t d old hc hr

/-- for every history of track / recheck-copy-move-bring handler / move updates -/
theorem C16_lines_kept : ∀ (cmds : List Cmd) (t : Tree), LinesKept t (cmds.foldl (fun t c => c.run t) t)
  | [], t => LinesKept.refl t
  | c :: cs, t => by
    simp only [List.foldl_cons]
    refine LinesKept.trans ?_ (C16_lines_kept cs _)
    cases c with
    | track date dirs files =>
      exact LinesKept.trans (C16_lines_kept_dirs _ date dirs t) (C16_lines_kept_files _ date files _)
    | handler date d f =>
      exact LinesKept.trans (C16_lines_kept_dirs _ date _ t) (C16_lines_kept_files _ date _ _)
    | move date f => exact C16_lines_kept_files _ date f t

example :
    let t : Tree := .node "*.log".toList [] []
    contentAt [] (trackUpdate "D".toList [] [⟨[], "x.bin".toList⟩] t) =
      some "*.log\n### Following 1 lines are added by xvc on D\n/x.bin\n".toList := by decide

/-! ## after a command the written targets are ignored by git -/

/-- **Partial** (see the three counterexamples below).  `update_file_gitignores`: a target that xvc's
    matcher does not consider ignored or whitelisted (`check = NoMatch`), whose name is a literal
    pattern, is ignored by git afterwards — whatever the user's `.gitignore` files contain (including
    negations: the appended line is the last matching line of the deepest file), whatever else is in
    the batch. -/
theorem C16_ignored_after_update_partial (rules : List Pattern) (date : Str) (files : List Target) (t : Tree) (x : Target)
    (hx : x ∈ files) (hcheck : check rules x.pathStr = .noMatch) (hname : PlainName x.name)
    (hsane : ∀ y ∈ files, '\n' ∉ y.name) (hdir : (contentAt x.dir t).isSome = true) :
    gitIgnored (updateFileGitignores rules date files t) (x.dir ++ [x.name]) false = true := by
  unfold updateFileGitignores
  apply ignored_after_writeGroups date _ t x ?_ hname ?_ hdir
  · exact List.mem_filter.2 ⟨hx, by simp [hcheck]⟩
  · intro y hy; exact hsane y (List.mem_filter.1 hy).1

/-- the same for the whole tail of `xvc file track` (directory targets are written first, the rules
    are reloaded, then the files) and of `xvc file move` -/
theorem C16_ignored_after_track_partial (date : Str) (dirs files : List Target) (t : Tree) (x : Target)
    (hx : x ∈ files) (hname : PlainName x.name) (hsane : ∀ y ∈ files, '\n' ∉ y.name)
    (hdir : (contentAt x.dir t).isSome = true)
    (hcheck : check (gitRules (updateDirGitignores (gitRules t) date dirs t)) x.pathStr = .noMatch) :
    gitIgnored (trackUpdate date dirs files t) (x.dir ++ [x.name]) false = true := by
  unfold trackUpdate
  apply C16_ignored_after_update_partial _ date files _ x hx hcheck hname hsane
  have := C16_append_only_dirs (gitRules t) date dirs t x.dir
  obtain ⟨old, hold⟩ := Option.isSome_iff_exists.1 hdir
  rw [hold] at this
  obtain ⟨suf, hs⟩ := this
  rw [hs]; rfl

theorem C16_ignored_after_move_partial (date : Str) (files : List Target) (t : Tree) (x : Target)
    (hx : x ∈ files) (hname : PlainName x.name) (hsane : ∀ y ∈ files, '\n' ∉ y.name)
    (hdir : (contentAt x.dir t).isSome = true) (hcheck : check (gitRules t) x.pathStr = .noMatch) :
    gitIgnored (moveUpdate date files t) (x.dir ++ [x.name]) false = true :=
  C16_ignored_after_update_partial _ date files t x hx hcheck hname hsane hdir

/-- non-vacuity: a user file that whitelists by extension, no final newline; the target is not covered by xvc's reading -/
example :
    let t : Tree := .node "*.tmp\n!*.dat".toList [] [("a".toList, .node "!x.bin\n".toList [] [])]
    let x : Target := ⟨["a".toList], "y.bin".toList⟩
    check (gitRules t) x.pathStr = .noMatch ∧ PlainName x.name ∧ (contentAt x.dir t).isSome = true ∧
    gitIgnored t ["a".toList, "y.bin".toList] false = false ∧
    gitIgnored (trackUpdate "D".toList [] [x] t) ["a".toList, "y.bin".toList] false = true := by decide

/-- excluded region 1 (K6a): a user line whitelists the target — xvc prints an error and writes
    nothing; git does not ignore the tracked file -/
theorem C16_whitelisted_counterexample :
    let t : Tree := .node "*.bin\n!keep.bin\n".toList [] []
    let x : Target := ⟨[], "keep.bin".toList⟩
    check (gitRules t) x.pathStr = .whitelist ∧ allContents [] (trackUpdate "D".toList [] [x] t) = allContents [] t ∧
    gitIgnored (trackUpdate "D".toList [] [x] t) ["keep.bin".toList] false = false := by decide

/-- excluded region 2 (K6b): the name is not a literal pattern — `/a[1].bin` is a character class for
    git, `/sp .bin ` loses its trailing blank -/
theorem C16_special_name_counterexample :
    let t : Tree := .node [] [] []
    (¬ PlainName "a[1].bin".toList) ∧ (¬ PlainName "sp ".toList) ∧
    gitIgnored (trackUpdate "D".toList [] [⟨[], "a[1].bin".toList⟩] t) ["a[1].bin".toList] false = false ∧
    gitIgnored (trackUpdate "D".toList [] [⟨[], "sp ".toList⟩] t) ["sp ".toList] false = false := by decide

/-- excluded region 3 (K12): xvc believes the path is already ignored, git does not.  xvc's matcher
    reads the anchored line `/data.bin` (which xvc wrote itself when `data.bin` was tracked) as
    `/**/data.bin`; for git it is anchored at the root.  `sub/data.bin` is tracked and not ignored. -/
theorem C16_anchored_line_counterexample :
    let t0 : Tree := .node [] [] [("sub".toList, .node [] [] [])]
    let t1 := trackUpdate "D".toList [] [⟨[], "data.bin".toList⟩] t0
    let x : Target := ⟨["sub".toList], "data.bin".toList⟩
    gitIgnored t1 ["data.bin".toList] false = true ∧
    check (gitRules t1) x.pathStr = .ignore ∧ allContents [] (trackUpdate "E".toList [] [x] t1) = allContents [] t1 ∧
    gitIgnored (trackUpdate "E".toList [] [x] t1) ["sub".toList, "data.bin".toList] false = false := by decide

/-! ## what git ignored before, it ignores afterwards -/

/-- a command whose date text and target names contain no line break (always true of `to_rfc2822` and of
    file names xvc can track from a line-oriented command line) -/
def Cmd.sane : Cmd → Prop
  | .track date dirs files => '\n' ∉ date ∧ (∀ y ∈ dirs, '\n' ∉ y.name) ∧ (∀ y ∈ files, '\n' ∉ y.name)
  | .handler date dirOps fileOps => '\n' ∉ date ∧ (∀ y ∈ dirOps, '\n' ∉ y.name) ∧ (∀ y ∈ fileOps, '\n' ∉ y.name)
  | .move date files => '\n' ∉ date ∧ (∀ y ∈ files, '\n' ∉ y.name)

theorem files_more (rules : List Pattern) (date : Str) (files : List Target) (t : Tree) (hdate : '\n' ∉ date)
    (hn : ∀ y ∈ files, '\n' ∉ y.name) (ht : NoLoneCR t) :
    ReadsLikeMore t (updateFileGitignores rules date files t) ∧ NoLoneCR (updateFileGitignores rules date files t) := by
  unfold updateFileGitignores
  apply writeGroups_readsLikeMore date _ _ t hdate _ ht
  intro x hx
  exact ⟨x.name, rfl, hn x (List.mem_filter.1 hx).1⟩

theorem dirs_more (rules : List Pattern) (date : Str) (dirs : List Target) (t : Tree) (hdate : '\n' ∉ date)
    (hn : ∀ y ∈ dirs, '\n' ∉ y.name) (ht : NoLoneCR t) :
    ReadsLikeMore t (updateDirGitignores rules date dirs t) ∧ NoLoneCR (updateDirGitignores rules date dirs t) := by
  unfold updateDirGitignores
  apply writeGroups_readsLikeMore date _ _ t hdate _ ht
  intro x hx
  refine ⟨x.name ++ ['/'], rfl, ?_⟩
  intro h
  rcases List.mem_append.1 h with h | h
  · exact hn x (List.mem_filter.1 hx).1 h
  · simp at h

theorem cmd_more (c : Cmd) (hc : c.sane) (t : Tree) (ht : NoLoneCR t) : ReadsLikeMore t (c.run t) ∧ NoLoneCR (c.run t) := by
  cases c with
  | track date dirs files =>
    obtain ⟨hd, h1, h2⟩ := hc
    obtain ⟨a1, a2⟩ := dirs_more (gitRules t) date dirs t hd h1 ht
    obtain ⟨b1, b2⟩ := files_more (gitRules (updateDirGitignores (gitRules t) date dirs t)) date files _ hd h2 a2
    exact ⟨fun comps => StackExt.trans (a1 comps) (b1 comps), b2⟩
  | handler date dirOps fileOps =>
    obtain ⟨hd, h1, h2⟩ := hc
    simp only [Cmd.run, handlerUpdate]
    have hs1 : ∀ y ∈ ((dedup dirOps.reverse).reverse.filter (fun d => check (gitRules t) d.pathStr == .noMatch)), '\n' ∉ y.name := by
      intro y hy
      have := (List.mem_filter.1 hy).1
      rw [List.mem_reverse, mem_dedup, List.mem_reverse] at this
      exact h1 y this
    have hs2 : ∀ y ∈ ((dedup fileOps.reverse).reverse.filter (fun d => check (gitRules t) d.pathStr == .noMatch)), '\n' ∉ y.name := by
      intro y hy
      have := (List.mem_filter.1 hy).1
      rw [List.mem_reverse, mem_dedup, List.mem_reverse] at this
      exact h2 y this
    obtain ⟨a1, a2⟩ := dirs_more (gitRules t) date _ t hd hs1 ht
    obtain ⟨b1, b2⟩ := files_more (gitRules (updateDirGitignores (gitRules t) date
      ((dedup dirOps.reverse).reverse.filter (fun d => check (gitRules t) d.pathStr == .noMatch)) t)) date _ _ hd hs2 a2
    exact ⟨fun comps => StackExt.trans (a1 comps) (b1 comps), b2⟩
  | move date files =>
    obtain ⟨hd, h1⟩ := hc
    exact files_more (gitRules t) date files t hd h1 ht

/-- **Already ignored stays ignored**, for every history: an entry git ignores is still ignored after any
    sequence of track / recheck-copy-move-bring / move updates — xvc only ever appends non-negated
    patterns, on fresh lines.  Together with `C16_ignored_after_*_partial` this covers the case "xvc's
    matcher says `Ignore` and git agrees" (when git does not agree: K12). -/
theorem C16_still_ignored : ∀ (cmds : List Cmd) (t : Tree), (∀ c ∈ cmds, c.sane) → NoLoneCR t →
    ∀ comps d, gitIgnored t comps d = true → gitIgnored (cmds.foldl (fun t c => c.run t) t) comps d = true
  | [], _, _, _, _, _, h => h
  | c :: cs, t, hs, ht, comps, d, h => by
    simp only [List.foldl_cons]
    obtain ⟨h1, h2⟩ := cmd_more c (hs c (by simp)) t ht
    exact C16_still_ignored cs _ (fun c' hc' => hs c' (by simp [hc'])) h2 comps d
      (gitIgnored_of_readsLikeMore t _ h1 comps d h)

/-- a tracked path stays ignored through later commands: tracked now (by `C16_ignored_after_track_partial`),
    ignored after any further history -/
theorem C16_tracked_stays_ignored (date : Str) (dirs files : List Target) (t : Tree) (x : Target) (later : List Cmd)
    (hx : x ∈ files) (hname : PlainName x.name) (hsane : ∀ y ∈ files, '\n' ∉ y.name)
    (hdir : (contentAt x.dir t).isSome = true)
    (hcheck : check (gitRules (updateDirGitignores (gitRules t) date dirs t)) x.pathStr = .noMatch)
    (hd : '\n' ∉ date) (hdn : ∀ y ∈ dirs, '\n' ∉ y.name) (ht : NoLoneCR t) (hl : ∀ c ∈ later, c.sane) :
    gitIgnored (later.foldl (fun t c => c.run t) (trackUpdate date dirs files t)) (x.dir ++ [x.name]) false = true := by
  apply C16_still_ignored later _ hl
  · exact (cmd_more (.track date dirs files) ⟨hd, hdn, hsane⟩ t ht).2
  · exact C16_ignored_after_track_partial date dirs files t x hx hname hsane hdir hcheck

example :
    let t : Tree := .node "*.bin\n".toList [] []
    NoLoneCR t ∧ gitIgnored t ["x.bin".toList] false = true ∧
    (Cmd.track "D".toList [] [⟨[], "y.dat".toList⟩]).sane ∧
    gitIgnored ((Cmd.track "D".toList [] [⟨[], "y.dat".toList⟩]).run t) ["x.bin".toList] false = true := by
  refine ⟨?_, by decide, by simp only [Cmd.sane]; decide, by decide⟩
  intro d c hc
  match d with
  | [] => simp [contentAt] at hc; subst hc; decide
  | x :: r => simp [contentAt, contentAtDirs] at hc

/-! ## `xvc file track` re-establishes "tracked ⇒ ignored" whatever happened before

  Multi-step histories: between two commands the user deletes a `.gitignore` (or a whole directory, and
  regenerates its files), removes single lines, drops a whitelisting rule.  The ignore state and the
  store are then out of step: a path is recorded, its line is gone.  The state is `Repo` = (recorded
  paths, workspace); both components are universally quantified below. -/

/-- **Track re-establishes ignore.**  For every store content `r.recorded`, every workspace `r.tree` (any
    `.gitignore` contents, including none), every batch of directory and file targets and every set of
    carried files: after `xvc file track` every file target `x` is ignored by git — whether `x` was
    recorded before or not, whether its content changed or not, with or without `--no-commit`
    (`carried = []`).  The three known-finding regions are excluded by explicit decidable hypotheses:
    `hK6b` the name is a literal pattern; `hK6a` xvc's matcher does not find the target whitelisted;
    `hK12` when xvc's matcher believes the target already ignored, git agrees.  The remaining
    hypotheses are sanity conditions (the directory of the target exists, no line breaks in names and
    in the date text, no `.gitignore` ends in a lone carriage return). -/
theorem C16_track_reestablishes_ignore (r : Repo) (date : Str) (dirs files carried : List Target) (x : Target)
    (hx : x ∈ files) (hdir : (contentAt x.dir r.tree).isSome = true)
    (hd : '\n' ∉ date) (hdn : ∀ y ∈ dirs, '\n' ∉ y.name) (hsane : ∀ y ∈ files, '\n' ∉ y.name)
    (hcn : ∀ y ∈ carried, '\n' ∉ y.name) (ht : NoLoneCR r.tree)
    (hK6b : PlainName x.name)
    (hK6a : check (gitRules (updateDirGitignores (gitRules r.tree) date dirs r.tree)) x.pathStr ≠ .whitelist)
    (hK12 : check (gitRules (updateDirGitignores (gitRules r.tree) date dirs r.tree)) x.pathStr = .ignore →
      gitIgnored (updateDirGitignores (gitRules r.tree) date dirs r.tree) (x.dir ++ [x.name]) false = true) :
    gitIgnored (trackCmd date dirs files carried r).tree (x.dir ++ [x.name]) false = true := by
  have hmid : gitIgnored (trackUpdate date dirs files r.tree) (x.dir ++ [x.name]) false = true := by
    cases hc : check (gitRules (updateDirGitignores (gitRules r.tree) date dirs r.tree)) x.pathStr with
    | noMatch => exact C16_ignored_after_track_partial date dirs files r.tree x hx hK6b hsane hdir hc
    | ignore =>
      obtain ⟨_, a2⟩ := dirs_more (gitRules r.tree) date dirs r.tree hd hdn ht
      obtain ⟨b1, _⟩ := files_more (gitRules (updateDirGitignores (gitRules r.tree) date dirs r.tree)) date files _ hd hsane a2
      exact gitIgnored_of_readsLikeMore _ _ b1 _ _ (hK12 hc)
    | whitelist => exact absurd hc hK6a
  have hT := (cmd_more (.track date dirs files) ⟨hd, hdn, hsane⟩ r.tree ht).2
  obtain ⟨c1, _⟩ := cmd_more (.handler date [] carried) ⟨hd, by simp, hcn⟩ _ hT
  exact gitIgnored_of_readsLikeMore _ _ c1 _ _ hmid

/-- The `.gitignore` files after `xvc file track` do not depend on what the store held: the tail of
    `cmd_track` takes all file targets, not only the paths that are new to the store.  (The tie
    compares exactly this function with the binary on histories in which recorded paths lost their lines.) -/
theorem C16_track_ignores_independent_of_store (rec1 rec2 : List Target) (t : Tree) (date : Str)
    (dirs files carried : List Target) :
    (trackCmd date dirs files carried ⟨rec1, t⟩).tree = (trackCmd date dirs files carried ⟨rec2, t⟩).tree := rfl

/-- the same at the end of any history of user edits and commands: whatever the steps before did to the
    store and to the `.gitignore` files, a track command on `files` makes every `x ∈ files` ignored (the
    hypotheses speak about the state the history leads to) -/
theorem C16_history_track_reestablishes_ignore (hist : List Step) (r0 : Repo) (date : Str)
    (dirs files carried : List Target) (x : Target) (hx : x ∈ files)
    (hdir : (contentAt x.dir (hist.foldl (fun r s => s.run r) r0).tree).isSome = true)
    (hd : '\n' ∉ date) (hdn : ∀ y ∈ dirs, '\n' ∉ y.name) (hsane : ∀ y ∈ files, '\n' ∉ y.name)
    (hcn : ∀ y ∈ carried, '\n' ∉ y.name) (ht : NoLoneCR (hist.foldl (fun r s => s.run r) r0).tree)
    (hK6b : PlainName x.name)
    (hK6a : check (gitRules (updateDirGitignores (gitRules (hist.foldl (fun r s => s.run r) r0).tree) date dirs
      (hist.foldl (fun r s => s.run r) r0).tree)) x.pathStr ≠ .whitelist)
    (hK12 : check (gitRules (updateDirGitignores (gitRules (hist.foldl (fun r s => s.run r) r0).tree) date dirs
      (hist.foldl (fun r s => s.run r) r0).tree)) x.pathStr = .ignore →
      gitIgnored (updateDirGitignores (gitRules (hist.foldl (fun r s => s.run r) r0).tree) date dirs
        (hist.foldl (fun r s => s.run r) r0).tree) (x.dir ++ [x.name]) false = true) :
    gitIgnored ((hist ++ [Step.track date dirs files carried]).foldl (fun r s => s.run r) r0).tree
      (x.dir ++ [x.name]) false = true := by
  rw [List.foldl_append]
  exact C16_track_reestablishes_ignore _ date dirs files carried x hx hdir hd hdn hsane hcn ht hK6b hK6a hK12

/-- **Directory targets.**  `xvc file track out/` (again for every store and every prior ignore state): when
    xvc's matcher does not consider the directory covered, `/out/` is appended to the parent's
    `.gitignore`, and git then ignores the directory and every entry below it — also after the file
    part of the same command and the carry-in handler have run.  Excluded regions as for files: `hK6b`
    literal name, `hK6a` not whitelisted for xvc's matcher, `hK12` when xvc believes the directory
    already ignored, git agrees about the entry in question. -/
theorem C16_track_dir_reestablishes_ignore (r : Repo) (date : Str) (dirs files carried : List Target) (d : Target)
    (below : List Str) (isDir : Bool) (hb : below ≠ [] ∨ isDir = true)
    (hmem : d ∈ dirs) (hdir : (contentAt d.dir r.tree).isSome = true)
    (hd : '\n' ∉ date) (hdn : ∀ y ∈ dirs, '\n' ∉ y.name) (hsane : ∀ y ∈ files, '\n' ∉ y.name)
    (hcn : ∀ y ∈ carried, '\n' ∉ y.name) (ht : NoLoneCR r.tree)
    (hK6b : PlainName d.name)
    (hK6a : check (gitRules r.tree) d.pathStr ≠ .whitelist)
    (hK12 : check (gitRules r.tree) d.pathStr = .ignore → gitIgnored r.tree (d.dir ++ d.name :: below) isDir = true) :
    gitIgnored (trackCmd date dirs files carried r).tree (d.dir ++ d.name :: below) isDir = true := by
  obtain ⟨a1, a2⟩ := dirs_more (gitRules r.tree) date dirs r.tree hd hdn ht
  have h1 : gitIgnored (updateDirGitignores (gitRules r.tree) date dirs r.tree) (d.dir ++ d.name :: below) isDir = true := by
    cases hc : check (gitRules r.tree) d.pathStr with
    | noMatch =>
      unfold updateDirGitignores
      apply dir_ignored_after_writeGroups date _ r.tree d ?_ hK6b ?_ hdir below isDir hb
      · exact List.mem_filter.2 ⟨hmem, by simp [hc]⟩
      · intro y hy; exact hdn y (List.mem_filter.1 hy).1
    | ignore => exact gitIgnored_of_readsLikeMore _ _ a1 _ _ (hK12 hc)
    | whitelist => exact absurd hc hK6a
  obtain ⟨b1, _⟩ := files_more (gitRules (updateDirGitignores (gitRules r.tree) date dirs r.tree)) date files _ hd hsane a2
  have hT := (cmd_more (.track date dirs files) ⟨hd, hdn, hsane⟩ r.tree ht).2
  obtain ⟨c1, _⟩ := cmd_more (.handler date [] carried) ⟨hd, by simp, hcn⟩ _ hT
  exact gitIgnored_of_readsLikeMore _ _ c1 _ _ (gitIgnored_of_readsLikeMore _ _ b1 _ _ h1)

/-- non-vacuity: `out/` was tracked as a whole, the user deleted the line `/out/`; tracking the directory
    again ignores the directory and the recorded file below it -/
example :
    let d : Target := ⟨[], "out".toList⟩
    let r : Repo := ⟨[⟨["out".toList], "model.bin".toList⟩], .node "*.log\n".toList [] [("out".toList, .node [] [] [])]⟩
    check (gitRules r.tree) d.pathStr = .noMatch ∧ PlainName d.name ∧
    gitIgnored r.tree ["out".toList, "model.bin".toList] false = false ∧
    gitIgnored (trackCmd "D".toList [d] [⟨["out".toList], "model.bin".toList⟩] [] r).tree ["out".toList] true = true ∧
    gitIgnored (trackCmd "D".toList [d] [⟨["out".toList], "model.bin".toList⟩] [] r).tree ["out".toList, "model.bin".toList] false = true ∧
    contentAt [] (trackCmd "D".toList [d] [⟨["out".toList], "model.bin".toList⟩] [] r).tree =
      some "*.log\n### Following 1 lines are added by xvc on D\n/out/\n".toList := by decide

/-- non-vacuity, scenario 1 of the seeded defect C16-1: `out/model.bin` is recorded, `out/` was deleted
    together with `out/.gitignore` and regenerated with identical content (nothing is carried); the
    path is not ignored before and is ignored after the second `xvc file track out/model.bin`; the
    store is unchanged -/
example :
    let x : Target := ⟨["out".toList], "model.bin".toList⟩
    let r : Repo := ⟨[x], .node Gen.GITIGNORE_INITIAL_CONTENT.toList [] [("out".toList, .node [] [] [])]⟩
    x ∈ r.recorded ∧ gitIgnored r.tree ["out".toList, "model.bin".toList] false = false ∧
    PlainName x.name ∧ check (gitRules r.tree) x.pathStr = .noMatch ∧
    (trackCmd "D".toList [] [x] [] r).recorded = [x] ∧
    contentAt ["out".toList] (trackCmd "D".toList [] [x] [] r).tree =
      some "### Following 1 lines are added by xvc on D\n/model.bin\n".toList ∧
    gitIgnored (trackCmd "D".toList [] [x] [] r).tree ["out".toList, "model.bin".toList] false = true := by decide

/-- non-vacuity, scenario 2: the first track happened while a user rule whitelisted the file (K6a: nothing
    written, the path is recorded); the user removed the rule; the second track writes the line -/
example :
    let x : Target := ⟨[], "labels.csv".toList⟩
    let r1 := trackCmd "D".toList [] [x] [x] ⟨[], .node "*.csv\n!labels.csv\n".toList [] []⟩
    let r2 := (Step.user (fun _ => .node [] [] [])).run r1
    r1.recorded = [x] ∧ gitIgnored r1.tree ["labels.csv".toList] false = false ∧
    gitIgnored r2.tree ["labels.csv".toList] false = false ∧
    gitIgnored (trackCmd "E".toList [] [x] [] r2).tree ["labels.csv".toList] false = true := by decide

/-- what the theorem rules out — NOT the code: the variant of `cmd_track` that passes only the paths new
    to the store to `update_file_gitignores` ("they were written when they were recorded") leaves the
    regenerated, already recorded file un-ignored -/
example :
    let trackNewOnly (date : Str) (dirs files : List Target) (r : Repo) : Tree :=
      trackUpdate date dirs (files.filter (· ∉ r.recorded)) r.tree
    let x : Target := ⟨["out".toList], "model.bin".toList⟩
    let r : Repo := ⟨[x], .node [] [] [("out".toList, .node [] [] [])]⟩
    gitIgnored (trackNewOnly "D".toList [] [x] r) ["out".toList, "model.bin".toList] false = false ∧
    gitIgnored (trackCmd "D".toList [] [x] [] r).tree ["out".toList, "model.bin".toList] false = true := by decide

/-! ## materialisation: the file itself is always reported to the ignore handler

  recheck / copy / move / carry-in / bring put files into the workspace with `recheck_from_cache`, which tells
  the ignore handler what to ignore.  The handler may drop an `IgnoreDir` (it writes `/dir/` only when xvc's
  matcher answers `NoMatch` for the directory); the file is safe because an `IgnoreFile` for the file itself
  is sent as well, unconditionally.  The send sites are regenerated from the source (Gen/IgnoreSends.lean). -/

/-- the directories / files the handler works on after its pre-filter (`handlerUpdate` spelled in pieces) -/
def handlerDirs (dirOps : List Target) (t : Tree) : List Target :=
  (dedup dirOps.reverse).reverse.filter (fun d => check (gitRules t) d.pathStr == .noMatch)
def handlerFiles (fileOps : List Target) (t : Tree) : List Target :=
  (dedup fileOps.reverse).reverse.filter (fun f => check (gitRules t) f.pathStr == .noMatch)
/-- the workspace after the handler wrote the directory lines, before the file lines -/
def handlerMid (date : Str) (dirOps : List Target) (t : Tree) : Tree :=
  updateDirGitignores (gitRules t) date (handlerDirs dirOps t) t

theorem handlerUpdate_eq (date : Str) (dirOps fileOps : List Target) (t : Tree) :
    handlerUpdate date dirOps fileOps t =
      updateFileGitignores (gitRules (handlerMid date dirOps t)) date (handlerFiles fileOps t) (handlerMid date dirOps t) := rfl

/-- **Every materialised file is reported as a FILE operation, whether or not its parent directory had to be
    created and whatever was at its path before** — so that ignoring the file does not depend on what the handler
    decides about the directory, nor on an ignore line an earlier occupant of the path may or may not have had.
    Over the send sites regenerated from `recheck_from_cache`. -/
theorem C16_materialised_file_always_gets_file_op (created : Bool) (prior : PriorEntry) (x : Target) :
    IgnoreOp.file x ∈ emittedOps Gen.RECHECK_IGNORE_SENDS created prior x :=
  file_op_of_unconditional_site _ (by decide) created prior x

/-- **The handler ignores every file that was reported to it, whatever it does with the directory operations**
    (written, or dropped because xvc's matcher does not answer `NoMatch` for the directory).  Excluded regions
    as everywhere, for the FILE, at the two moments the handler consults xvc's matcher (before and after the
    directory lines are written): K6b literal name; K6a xvc's matcher does not find the file whitelisted; K12
    when xvc's matcher believes the file already ignored, git agrees. -/
theorem C16_handler_ignores_reported_file (date : Str) (dirOps fileOps : List Target) (t : Tree) (x : Target)
    (hx : x ∈ fileOps) (hdir : (contentAt x.dir t).isSome = true)
    (hd : '\n' ∉ date) (hdn : ∀ y ∈ dirOps, '\n' ∉ y.name) (hfn : ∀ y ∈ fileOps, '\n' ∉ y.name) (ht : NoLoneCR t)
    (hK6b : PlainName x.name)
    (hK6a0 : check (gitRules t) x.pathStr ≠ .whitelist)
    (hK12_0 : check (gitRules t) x.pathStr = .ignore → gitIgnored t (x.dir ++ [x.name]) false = true)
    (hK6a1 : check (gitRules (handlerMid date dirOps t)) x.pathStr ≠ .whitelist)
    (hK12_1 : check (gitRules (handlerMid date dirOps t)) x.pathStr = .ignore →
      gitIgnored (handlerMid date dirOps t) (x.dir ++ [x.name]) false = true) :
    gitIgnored (handlerUpdate date dirOps fileOps t) (x.dir ++ [x.name]) false = true := by
  rw [handlerUpdate_eq]
  have hs1 : ∀ y ∈ handlerDirs dirOps t, '\n' ∉ y.name := by
    intro y hy
    have := (List.mem_filter.1 hy).1
    rw [List.mem_reverse, mem_dedup, List.mem_reverse] at this
    exact hdn y this
  have hs2 : ∀ y ∈ handlerFiles fileOps t, '\n' ∉ y.name := by
    intro y hy
    have := (List.mem_filter.1 hy).1
    rw [List.mem_reverse, mem_dedup, List.mem_reverse] at this
    exact hfn y this
  obtain ⟨a1, a2⟩ := dirs_more (gitRules t) date (handlerDirs dirOps t) t hd hs1 ht
  obtain ⟨b1, _⟩ := files_more (gitRules (handlerMid date dirOps t)) date (handlerFiles fileOps t) (handlerMid date dirOps t) hd hs2 a2
  cases h0 : check (gitRules t) x.pathStr with
  | whitelist => exact absurd h0 hK6a0
  | ignore =>
    exact gitIgnored_of_readsLikeMore _ _ b1 _ _ (gitIgnored_of_readsLikeMore _ _ a1 _ _ (hK12_0 h0))
  | noMatch =>
    have hx' : x ∈ handlerFiles fileOps t := by
      unfold handlerFiles
      refine List.mem_filter.2 ⟨?_, by simp [h0]⟩
      rw [List.mem_reverse, mem_dedup, List.mem_reverse]; exact hx
    cases h1 : check (gitRules (handlerMid date dirOps t)) x.pathStr with
    | whitelist => exact absurd h1 hK6a1
    | ignore => exact gitIgnored_of_readsLikeMore _ _ b1 _ _ (hK12_1 h1)
    | noMatch =>
      apply C16_ignored_after_update_partial _ date _ _ x hx' h1 hK6b hs2
      have := C16_append_only_dirs (gitRules t) date (handlerDirs dirOps t) t x.dir
      obtain ⟨old, hold⟩ := Option.isSome_iff_exists.1 hdir
      rw [hold] at this
      obtain ⟨suf, hsuf⟩ := this
      show (contentAt x.dir (updateDirGitignores (gitRules t) date (handlerDirs dirOps t) t)).isSome = true
      rw [hsuf]; rfl

/-- both together: a file materialised by a command is ignored afterwards, parent directory created or not,
    directory line written or dropped -/
theorem C16_materialised_file_ignored (date : Str) (xs : List (Target × Bool × PriorEntry)) (t : Tree) (x : Target)
    (created : Bool) (prior : PriorEntry)
    (hx : (x, created, prior) ∈ xs) (hdir : (contentAt x.dir t).isSome = true)
    (hd : '\n' ∉ date)
    (hdn : ∀ y ∈ opDirs (materialiseOps Gen.RECHECK_IGNORE_SENDS xs), '\n' ∉ y.name)
    (hfn : ∀ y ∈ opFiles (materialiseOps Gen.RECHECK_IGNORE_SENDS xs), '\n' ∉ y.name) (ht : NoLoneCR t)
    (hK6b : PlainName x.name)
    (hK6a0 : check (gitRules t) x.pathStr ≠ .whitelist)
    (hK12_0 : check (gitRules t) x.pathStr = .ignore → gitIgnored t (x.dir ++ [x.name]) false = true)
    (hK6a1 : check (gitRules (handlerMid date (opDirs (materialiseOps Gen.RECHECK_IGNORE_SENDS xs)) t)) x.pathStr ≠ .whitelist)
    (hK12_1 : check (gitRules (handlerMid date (opDirs (materialiseOps Gen.RECHECK_IGNORE_SENDS xs)) t)) x.pathStr = .ignore →
      gitIgnored (handlerMid date (opDirs (materialiseOps Gen.RECHECK_IGNORE_SENDS xs)) t) (x.dir ++ [x.name]) false = true) :
    gitIgnored (materialiseUpdate Gen.RECHECK_IGNORE_SENDS date xs t) (x.dir ++ [x.name]) false = true := by
  unfold materialiseUpdate
  apply C16_handler_ignores_reported_file date _ _ t x ?_ hdir hd hdn hfn ht hK6b hK6a0 hK12_0 hK6a1 hK12_1
  rw [mem_opFiles]
  unfold materialiseOps
  rw [List.mem_flatMap]
  exact ⟨(x, created, prior), hx, C16_materialised_file_always_gets_file_op created prior x⟩

/-- non-vacuity, scenario s1 of seeded defect C16-4: the user's `.gitignore` re-includes `datasets` by name; a
    tracked file is copied into `datasets/`, which has just been created.  The handler drops the `IgnoreDir`
    (xvc's matcher answers `Whitelist` for the directory, nothing is written to the root file), the file line
    is written into `datasets/.gitignore`, git ignores the file.  With the send sites of the rejected variant
    (NOT the code: `IgnoreDir` for a created parent INSTEAD of `IgnoreFile`) nothing is written and git does not
    ignore the file. -/
example :
    let t : Tree := .node "*.tmp\n!/datasets\n".toList [] [("datasets".toList, .node [] [] [])]
    let x : Target := ⟨["datasets".toList], "train.bin".toList⟩
    let oneOp : List SendSite := [⟨.ignoreDir, .parentCreated⟩, ⟨.ignoreFile, .other⟩]
    emittedOps Gen.RECHECK_IGNORE_SENDS true .absent x = [.dir ⟨[], "datasets".toList⟩, .file x] ∧
    check (gitRules t) (Target.pathStr ⟨[], "datasets".toList⟩) = .whitelist ∧
    check (gitRules t) x.pathStr = .noMatch ∧
    contentAt [] (materialiseUpdate Gen.RECHECK_IGNORE_SENDS "D".toList [(x, true, .absent)] t) = some "*.tmp\n!/datasets\n".toList ∧
    contentAt ["datasets".toList] (materialiseUpdate Gen.RECHECK_IGNORE_SENDS "D".toList [(x, true, .absent)] t) =
      some "### Following 1 lines are added by xvc on D\n/train.bin\n".toList ∧
    gitIgnored (materialiseUpdate Gen.RECHECK_IGNORE_SENDS "D".toList [(x, true, .absent)] t) ["datasets".toList, "train.bin".toList] false = true ∧
    emittedOps oneOp true .absent x = [.dir ⟨[], "datasets".toList⟩] ∧
    gitIgnored (materialiseUpdate oneOp "D".toList [(x, true, .absent)] t) ["datasets".toList, "train.bin".toList] false = false := by decide

/-- non-vacuity, scenario s2: no user pattern; the tracked file `latest` gave the root the line `/latest`, which
    xvc's matcher applies at any depth (K12): the `IgnoreDir` for the new directory `runs/latest` is dropped, the
    file line saves the file -/
example :
    let t : Tree := .node "/latest\n".toList [] [("runs".toList, .node [] [] [("latest".toList, .node [] [] [])])]
    let x : Target := ⟨["runs".toList, "latest".toList], "weights.bin".toList⟩
    check (gitRules t) (Target.pathStr ⟨["runs".toList], "latest".toList⟩) = .ignore ∧
    gitIgnored t ["runs".toList, "latest".toList] true = false ∧
    gitIgnored (materialiseUpdate Gen.RECHECK_IGNORE_SENDS "D".toList [(x, true, .absent)] t)
      ["runs".toList, "latest".toList, "weights.bin".toList] false = true := by decide

/-! ## materialisation ONTO an existing workspace entry: the operation does not depend on what was there

  `recheck_from_cache` deletes whatever sits at the destination ("If the file already exists, we delete it") and
  puts the cached content there.  `xvc file copy --force` reaches it with a destination that exists: a file made
  by hand (never tracked, never ignored), a path that was tracked and then untracked or whose ignore line the
  user deleted, a symlink / hardlink of an earlier materialisation; a file destination or the path computed under
  a directory destination.  The path is a tracked data file from now on, so it needs its line NOW — "a replaced
  path got its rule when it was put there the first time" is wrong for every one of those.  (`recheck`/`carry_in`
  remove the target themselves first and arrive with `absent`.) -/

/-- the send sites of the unchanged code do not look at the destination -/
theorem recheck_sends_ignore_prior : ∀ s ∈ Gen.RECHECK_IGNORE_SENDS, s.guard ≠ .destAbsent := by decide

/-- **The ignore operations, and hence the `.gitignore` files afterwards, are the same for every prior state of
    the destination path (absent / a file / a live link / a dangling link), and the path is ignored by git
    afterwards in every one of them** — for every workspace `t` (so: whether or not the name is among the entries
    of its directory, whatever the `.gitignore` files say about it), parent directory created or not.  Excluded
    regions as everywhere (K6b literal name, K6a not whitelisted, K12 xvc's "already ignored" agrees with git). -/
theorem C16_ignore_op_independent_of_prior_entry (date : Str) (t : Tree) (x : Target) (created : Bool) (prior : PriorEntry)
    (hdir : (contentAt x.dir t).isSome = true)
    (hd : '\n' ∉ date) (hxn : '\n' ∉ x.name) (hpn : ∀ d ∈ (parentTarget x).toList, '\n' ∉ d.name) (ht : NoLoneCR t)
    (hK6b : PlainName x.name)
    (hK6a0 : check (gitRules t) x.pathStr ≠ .whitelist)
    (hK12_0 : check (gitRules t) x.pathStr = .ignore → gitIgnored t (x.dir ++ [x.name]) false = true)
    (hK6a1 : check (gitRules (handlerMid date (opDirs (emittedOps Gen.RECHECK_IGNORE_SENDS created .absent x)) t)) x.pathStr ≠ .whitelist)
    (hK12_1 : check (gitRules (handlerMid date (opDirs (emittedOps Gen.RECHECK_IGNORE_SENDS created .absent x)) t)) x.pathStr = .ignore →
      gitIgnored (handlerMid date (opDirs (emittedOps Gen.RECHECK_IGNORE_SENDS created .absent x)) t) (x.dir ++ [x.name]) false = true) :
    emittedOps Gen.RECHECK_IGNORE_SENDS created prior x = emittedOps Gen.RECHECK_IGNORE_SENDS created .absent x ∧
    materialiseUpdate Gen.RECHECK_IGNORE_SENDS date [(x, created, prior)] t =
      materialiseUpdate Gen.RECHECK_IGNORE_SENDS date [(x, created, .absent)] t ∧
    gitIgnored (materialiseUpdate Gen.RECHECK_IGNORE_SENDS date [(x, created, prior)] t) (x.dir ++ [x.name]) false = true := by
  have e : emittedOps Gen.RECHECK_IGNORE_SENDS created prior x = emittedOps Gen.RECHECK_IGNORE_SENDS created .absent x :=
    emittedOps_prior_irrelevant _ recheck_sends_ignore_prior created prior .absent x
  have m : materialiseOps Gen.RECHECK_IGNORE_SENDS [(x, created, prior)] = emittedOps Gen.RECHECK_IGNORE_SENDS created .absent x := by
    simp [materialiseOps, e]
  have m0 : materialiseOps Gen.RECHECK_IGNORE_SENDS [(x, created, PriorEntry.absent)] = emittedOps Gen.RECHECK_IGNORE_SENDS created .absent x := by
    simp [materialiseOps]
  refine ⟨e, by unfold materialiseUpdate; rw [m, m0], ?_⟩
  have hops : ∀ o ∈ emittedOps Gen.RECHECK_IGNORE_SENDS created .absent x,
      o = .file x ∨ ∃ d ∈ (parentTarget x).toList, o = .dir d := by
    intro o ho
    cases created <;> simp [emittedOps, Gen.RECHECK_IGNORE_SENDS] at ho
    · exact Or.inl ho
    · rcases ho with ⟨d, hd', rfl⟩ | rfl
      · exact Or.inr ⟨d, by simp [hd'], rfl⟩
      · exact Or.inl rfl
  apply C16_materialised_file_ignored date [(x, created, prior)] t x created prior (List.mem_singleton.2 rfl) hdir hd
  · intro y hy
    rw [m] at hy
    unfold opDirs at hy
    obtain ⟨o, ho, hoy⟩ := List.mem_filterMap.1 hy
    rcases hops o ho with rfl | ⟨d, hd', rfl⟩
    · simp at hoy
    · simp at hoy; subst hoy; exact hpn _ hd'
  · intro y hy
    rw [m] at hy
    rw [mem_opFiles] at hy
    rcases hops _ hy with h | ⟨d, _, h⟩
    · cases h; exact hxn
    · cases h
  · exact ht
  · exact hK6b
  · exact hK6a0
  · exact hK12_0
  · rw [m]; exact hK6a1
  · rw [m]; exact hK12_1

/-- the send sites of the rejected variant (NOT the code): the file is reported only when nothing was at the
    destination — "a replaced path got its rule when it was put there the first time" -/
def sendOnlyWhenAbsent : List SendSite := [⟨.ignoreDir, .parentCreated⟩, ⟨.ignoreFile, .destAbsent⟩]

/-- **Counterexample for the guard `if !replaced`**: `out/model-copy.bin` is a file the user made by hand, known
    neither to xvc nor to any `.gitignore`; `xvc file copy --force data/model.bin out/model-copy.bin` makes it a
    tracked data file.  With the guarded send nothing is emitted, nothing is written, git does not ignore the
    tracked file (same for a live link at the destination); the target is outside every excluded region (xvc's
    matcher: `NoMatch`, literal name).  With nothing at the destination the guarded variant behaves like the code. -/
theorem C16_send_only_when_absent_counterexample :
    let t : Tree := .node [] [] [("out".toList, .node [] ["model-copy.bin".toList] [])]
    let x : Target := ⟨["out".toList], "model-copy.bin".toList⟩
    check (gitRules t) x.pathStr = .noMatch ∧ PlainName x.name ∧ (contentAt x.dir t).isSome = true ∧
    emittedOps sendOnlyWhenAbsent false .file x = [] ∧
    allContents [] (materialiseUpdate sendOnlyWhenAbsent "D".toList [(x, false, .file)] t) = allContents [] t ∧
    gitIgnored (materialiseUpdate sendOnlyWhenAbsent "D".toList [(x, false, .file)] t) ["out".toList, "model-copy.bin".toList] false = false ∧
    gitIgnored (materialiseUpdate sendOnlyWhenAbsent "D".toList [(x, false, .link)] t) ["out".toList, "model-copy.bin".toList] false = false ∧
    gitIgnored (materialiseUpdate sendOnlyWhenAbsent "D".toList [(x, false, .absent)] t) ["out".toList, "model-copy.bin".toList] false = true := by decide

/-- non-vacuity of `C16_ignore_op_independent_of_prior_entry`, same input, the send sites of the code: for every
    prior state of the destination the file operation is emitted, `out/.gitignore` gets `/model-copy.bin`, git
    ignores the path; second scenario of the seeded change: directory destination `out/`, computed path
    `out/data/weights.bin` where a hand-made file sits -/
example :
    let t : Tree := .node [] [] [("out".toList, .node [] ["model-copy.bin".toList] [("data".toList, .node [] ["weights.bin".toList] [])])]
    let x : Target := ⟨["out".toList], "model-copy.bin".toList⟩
    let y : Target := ⟨["out".toList, "data".toList], "weights.bin".toList⟩
    gitIgnored t ["out".toList, "model-copy.bin".toList] false = false ∧
    (∀ prior ∈ PriorEntry.all,
      emittedOps Gen.RECHECK_IGNORE_SENDS false prior x = [.file x] ∧
      contentAt ["out".toList] (materialiseUpdate Gen.RECHECK_IGNORE_SENDS "D".toList [(x, false, prior)] t) =
        some "### Following 1 lines are added by xvc on D\n/model-copy.bin\n".toList ∧
      gitIgnored (materialiseUpdate Gen.RECHECK_IGNORE_SENDS "D".toList [(x, false, prior)] t) ["out".toList, "model-copy.bin".toList] false = true ∧
      gitIgnored (materialiseUpdate Gen.RECHECK_IGNORE_SENDS "D".toList [(y, false, prior)] t) ["out".toList, "data".toList, "weights.bin".toList] false = true) ∧
    gitIgnored (materialiseUpdate sendOnlyWhenAbsent "D".toList [(y, false, .file)] t) ["out".toList, "data".toList, "weights.bin".toList] false = false := by decide

/-! ## the batch of one command: a queued file is left without a line only inside an ignored directory

  One command queues SEVERAL operations (a glob copied to a directory, a directory rechecked or brought back after
  `rm -rf`): directories it had to create and the files it materialised, in created and in existing directories.
  After the directory lines are written the handler may leave out files - but only files that a written `/D/`
  line really covers, which is a statement about path COMPONENTS (`out/src/m.bin` is not inside `out/src/m`,
  `data2/x` is not inside `data`).  The code reads the rules again and checks every queued file against them
  (`Gen.HANDLER_FILE_FILTER = .reloadCheck`, regenerated from the body of `make_ignore_handler`). -/

/-- the filter between the two writes is the one the model's `handlerUpdate` has: the rules are reloaded and every
    queued file is checked against them (regenerated from the source; any other filter breaks this by name) -/
theorem C16_handler_filter_as_in_model : Gen.HANDLER_FILE_FILTER = .reloadCheck := by decide

theorem handlerUpdateWith_code : handlerUpdateWith Gen.HANDLER_FILE_FILTER = handlerUpdate := by
  rw [C16_handler_filter_as_in_model]; rfl

theorem handlerBatch_eq (drop : List Target → Target → Bool) (date : Str) (dirOps fileOps : List Target) (t : Tree) :
    handlerBatch drop date dirOps fileOps t =
      updateFileGitignores (gitRules t) date ((handlerFiles fileOps t).filter (fun f => !drop (handlerDirs dirOps t) f))
        (handlerMid date dirOps t) := rfl

/-- **For every batch of directory and file operations and every rule `drop` for leaving queued files out that is
    sound COMPONENT-WISE (`drop dirs f` only when `f` lies inside one of the queued directories `dirs`, as a list of
    path components): a queued file gets no line only if a directory line written by the same batch contains it, hence
    git ignores it anyway - after the batch every queued file is ignored.**  `handlerBatch` writes the remaining files
    against the rules read at the start; excluded regions for the file as everywhere (K6b literal name, xvc's matcher
    at the start says `NoMatch`: otherwise `C16_handler_ignores_reported_file`), K6b for the queued directories. -/
theorem C16_batch_file_rule_dropped_only_inside_ignored_dir (drop : List Target → Target → Bool)
    (hdrop : ∀ ds f, drop ds f = true → ∃ d ∈ ds, insideDir d f = true)
    (date : Str) (dirOps fileOps : List Target) (t : Tree) (x : Target)
    (hx : x ∈ fileOps) (hdir : (contentAt x.dir t).isSome = true)
    (hd : '\n' ∉ date) (hdn : ∀ y ∈ dirOps, '\n' ∉ y.name) (hfn : ∀ y ∈ fileOps, '\n' ∉ y.name) (ht : NoLoneCR t)
    (hK6b : PlainName x.name)
    (hK6bd : ∀ y ∈ dirOps, PlainName y.name) (hdd : ∀ y ∈ dirOps, (contentAt y.dir t).isSome = true)
    (h0 : check (gitRules t) x.pathStr = .noMatch) :
    (drop (handlerDirs dirOps t) x = true →
      ∃ d ∈ handlerDirs dirOps t, insideDir d x = true ∧ gitIgnored (handlerMid date dirOps t) (x.dir ++ [x.name]) false = true) ∧
    gitIgnored (handlerBatch drop date dirOps fileOps t) (x.dir ++ [x.name]) false = true := by
  have hmemd : ∀ y ∈ handlerDirs dirOps t, y ∈ dirOps := by
    intro y hy
    have := (List.mem_filter.1 hy).1
    rw [List.mem_reverse, mem_dedup, List.mem_reverse] at this
    exact this
  have hs1 : ∀ y ∈ handlerDirs dirOps t, '\n' ∉ y.name := fun y hy => hdn y (hmemd y hy)
  have hs2 : ∀ y ∈ (handlerFiles fileOps t).filter (fun f => !drop (handlerDirs dirOps t) f), '\n' ∉ y.name := by
    intro y hy
    have := (List.mem_filter.1 (List.mem_filter.1 hy).1).1
    rw [List.mem_reverse, mem_dedup, List.mem_reverse] at this
    exact hfn y this
  obtain ⟨_, a2⟩ := dirs_more (gitRules t) date (handlerDirs dirOps t) t hd hs1 ht
  obtain ⟨b1, _⟩ := files_more (gitRules t) date ((handlerFiles fileOps t).filter (fun f => !drop (handlerDirs dirOps t) f))
    (handlerMid date dirOps t) hd hs2 a2
  have hinside : drop (handlerDirs dirOps t) x = true →
      ∃ d ∈ handlerDirs dirOps t, insideDir d x = true ∧ gitIgnored (handlerMid date dirOps t) (x.dir ++ [x.name]) false = true := by
    intro hdr
    obtain ⟨d, hdm, hin⟩ := hdrop _ _ hdr
    refine ⟨d, hdm, hin, ?_⟩
    obtain ⟨rest, hrest⟩ := insideDir_spec d x hin
    have hkeep : d ∈ (handlerDirs dirOps t).filter (fun d => check (gitRules t) d.pathStr == .noMatch) :=
      List.mem_filter.2 ⟨hdm, (List.mem_filter.1 hdm).2⟩
    have := dir_ignored_after_writeGroups date _ t d hkeep (hK6bd d (hmemd d hdm))
      (fun y hy => hs1 y (List.mem_filter.1 hy).1) (hdd d (hmemd d hdm)) (rest ++ [x.name]) false (Or.inl (by simp))
    rw [hrest]
    simpa [handlerMid, updateDirGitignores] using this
  refine ⟨hinside, ?_⟩
  rw [handlerBatch_eq]
  cases hdr : drop (handlerDirs dirOps t) x with
  | true => exact gitIgnored_of_readsLikeMore _ _ b1 _ _ (hinside hdr).choose_spec.2.2
  | false =>
    have hx' : x ∈ (handlerFiles fileOps t).filter (fun f => !drop (handlerDirs dirOps t) f) := by
      refine List.mem_filter.2 ⟨?_, by simp [hdr]⟩
      unfold handlerFiles
      refine List.mem_filter.2 ⟨?_, by simp [h0]⟩
      rw [List.mem_reverse, mem_dedup, List.mem_reverse]; exact hx
    apply C16_ignored_after_update_partial _ date _ _ x hx' h0 hK6b hs2
    have := C16_append_only_dirs (gitRules t) date (handlerDirs dirOps t) t x.dir
    obtain ⟨old, hold⟩ := Option.isSome_iff_exists.1 hdir
    rw [hold] at this
    obtain ⟨suf, hsuf⟩ := this
    show (contentAt x.dir (updateDirGitignores (gitRules t) date (handlerDirs dirOps t) t)).isSome = true
    rw [hsuf]; rfl

/-- the component-wise filter (`XvcPath::starts_with`) and no filter at all are sound instances -/
theorem C16_component_filter_sound : ∀ (ds : List Target) (f : Target),
    (fun (ds : List Target) f => ds.any (insideDir · f)) ds f = true → ∃ d ∈ ds, insideDir d f = true := by
  intro ds f h
  obtain ⟨d, hd, hin⟩ := List.any_eq_true.1 h
  exact ⟨d, hd, hin⟩

/-- **the code**: with the filter regenerated from `make_ignore_handler` every queued file of a batch is ignored after
    the batch (by name over `Gen.HANDLER_FILE_FILTER`: a tree whose handler filters differently loses this theorem) -/
theorem C16_batch_every_queued_file_ignored (date : Str) (dirOps fileOps : List Target) (t : Tree) (x : Target)
    (hx : x ∈ fileOps) (hdir : (contentAt x.dir t).isSome = true)
    (hd : '\n' ∉ date) (hdn : ∀ y ∈ dirOps, '\n' ∉ y.name) (hfn : ∀ y ∈ fileOps, '\n' ∉ y.name) (ht : NoLoneCR t)
    (hK6b : PlainName x.name)
    (hK6a0 : check (gitRules t) x.pathStr ≠ .whitelist)
    (hK12_0 : check (gitRules t) x.pathStr = .ignore → gitIgnored t (x.dir ++ [x.name]) false = true)
    (hK6a1 : check (gitRules (handlerMid date dirOps t)) x.pathStr ≠ .whitelist)
    (hK12_1 : check (gitRules (handlerMid date dirOps t)) x.pathStr = .ignore →
      gitIgnored (handlerMid date dirOps t) (x.dir ++ [x.name]) false = true) :
    gitIgnored (handlerUpdateWith Gen.HANDLER_FILE_FILTER date dirOps fileOps t) (x.dir ++ [x.name]) false = true := by
  rw [handlerUpdateWith_code]
  exact C16_handler_ignores_reported_file date dirOps fileOps t x hx hdir hd hdn hfn ht hK6b hK6a0 hK12_0 hK6a1 hK12_1

/-- **Counterexample for containment tested on the path TEXT** (`XvcPath::starts_with_str`): one command creates
    `out/src/m` (queues the directory) and materialises `out/src/m/x.bin`, `out/src/m.bin`, `out/src/n.bin` into it and
    into the existing `out/src`.  `out/src/m.bin` "starts with" `out/src/m`, is dropped, gets no line, and git does not
    ignore the tracked file; it is outside every excluded region (xvc's matcher `NoMatch`, literal name).  The same with
    the directory `data` next to the existing directory `data2/`.  With the filter of the code, with the component-wise
    filter and with no filter all queued files are ignored; the string filter is NOT component-wise sound. -/
theorem C16_string_prefix_filter_counterexample :
    let t : Tree := .node [] [] [("out".toList, .node [] [] [("src".toList, .node [] ["keep.txt".toList] [("m".toList, .node [] [] [])])])]
    let d : Target := ⟨["out".toList, "src".toList], "m".toList⟩
    let x : Target := ⟨["out".toList, "src".toList, "m".toList], "x.bin".toList⟩
    let y : Target := ⟨["out".toList, "src".toList], "m.bin".toList⟩
    let z : Target := ⟨["out".toList, "src".toList], "n.bin".toList⟩
    let t2 : Tree := .node [] [] [("data".toList, .node [] [] []), ("data2".toList, .node [] ["keep.txt".toList] [])]
    let d2 : Target := ⟨[], "data".toList⟩
    let y2 : Target := ⟨["data2".toList], "x".toList⟩
    check (gitRules t) y.pathStr = .noMatch ∧ PlainName y.name ∧ (contentAt y.dir t).isSome = true ∧
    strInside d y = true ∧ insideDir d y = false ∧ insideDir d x = true ∧
    contentAt ["out".toList, "src".toList] (handlerUpdateWith .startsWithStr "D".toList [d] [x, y, z] t) =
      some "### Following 1 lines are added by xvc on D\n/m/\n### Following 1 lines are added by xvc on D\n/n.bin\n".toList ∧
    gitIgnored (handlerUpdateWith .startsWithStr "D".toList [d] [x, y, z] t) ["out".toList, "src".toList, "m.bin".toList] false = false ∧
    gitIgnored (handlerUpdateWith .startsWithStr "D".toList [d] [x, y, z] t) ["out".toList, "src".toList, "m".toList, "x.bin".toList] false = true ∧
    gitIgnored (handlerUpdateWith .startsWithStr "D".toList [d2] [y2] t2) ["data2".toList, "x".toList] false = false ∧
    (∀ filt ∈ [Gen.HANDLER_FILE_FILTER, .startsWithComponents, .none],
      gitIgnored (handlerUpdateWith filt "D".toList [d] [x, y, z] t) ["out".toList, "src".toList, "m.bin".toList] false = true ∧
      gitIgnored (handlerUpdateWith filt "D".toList [d] [x, y, z] t) ["out".toList, "src".toList, "m".toList, "x.bin".toList] false = true ∧
      gitIgnored (handlerUpdateWith filt "D".toList [d] [x, y, z] t) ["out".toList, "src".toList, "n.bin".toList] false = true ∧
      gitIgnored (handlerUpdateWith filt "D".toList [d2] [y2] t2) ["data2".toList, "x".toList] false = true) := by decide

/-- non-vacuity of `C16_batch_file_rule_dropped_only_inside_ignored_dir`: the same batch, component-wise filter: the file
    inside the new directory is dropped and ignored through `/m/`, the sibling `m.bin` is not dropped and gets its line -/
example :
    let t : Tree := .node [] [] [("out".toList, .node [] [] [("src".toList, .node [] ["keep.txt".toList] [("m".toList, .node [] [] [])])])]
    let d : Target := ⟨["out".toList, "src".toList], "m".toList⟩
    let x : Target := ⟨["out".toList, "src".toList, "m".toList], "x.bin".toList⟩
    let y : Target := ⟨["out".toList, "src".toList], "m.bin".toList⟩
    let drop := fun (ds : List Target) f => ds.any (insideDir · f)
    drop (handlerDirs [d] t) x = true ∧ drop (handlerDirs [d] t) y = false ∧
    check (gitRules t) x.pathStr = .noMatch ∧ check (gitRules t) y.pathStr = .noMatch ∧
    contentAt ["out".toList, "src".toList] (handlerBatch drop "D".toList [d] [x, y] t) =
      some "### Following 1 lines are added by xvc on D\n/m/\n### Following 1 lines are added by xvc on D\n/m.bin\n".toList ∧
    contentAt ["out".toList, "src".toList, "m".toList] (handlerBatch drop "D".toList [d] [x, y] t) = some [] := by decide

/-! ## the append primitive

  Everything above is about `writeGroups`, whose edit of one file is `old ++ appendText …`: the theorems
  `C16_append_only*`, `C16_lines_kept*` ASSUME that the code adds bytes at the end of the file and does
  nothing else to it.  That assumption is a fact about how the file is opened; it is pinned here to the
  table of write sites generated from the Rust source (Gen/GitignoreWrites.lean).  The binary-level
  fault stream of lib/c16.py (commands under `ulimit -f`, kill at the write) and the open flags observed
  with strace check the same thing on the implementation. -/

/-- every site in file/src/common/gitignore.rs and the `.gitignore` site of `xvc init` that can change a
    file opens it with `append(true)` and without `truncate(true)`; there is no `fs::write`,
    `File::create`, `remove_file`, `rename`, `copy`, `set_len` on an ignore file -/
theorem C16_gitignore_opened_append_only : ∀ s ∈ Gen.GITIGNORE_WRITE_SITES, s.kind.appendOnly = true := by decide

/-- hence, whatever the site wanted to write and **at whatever byte the write stopped** (I/O error such as
    ENOSPC / EDQUOT / EFBIG, or the process killed): the file is still there and its old content is a
    prefix of the new one — no line of the user or of an earlier command is removed or rewritten -/
theorem C16_faulted_write_keeps_old_bytes (s : WriteSite) (hs : s ∈ Gen.GITIGNORE_WRITE_SITES)
    (old payload : Str) (k : Nat) :
    ∃ new, s.kind.after old (payload.take k) = some new ∧ old <+: new := by
  rw [WriteKind.after_of_appendOnly s.kind (C16_gitignore_opened_append_only s hs)]
  exact ⟨_, rfl, List.prefix_append _ _⟩

/-- and a complete write through such a site is exactly the edit of the model (`writeGroups`) -/
theorem C16_complete_write_is_model_edit (s : WriteSite) (hs : s ∈ Gen.GITIGNORE_WRITE_SITES)
    (old : Str) (lines : List Str) (date : Str) :
    s.kind.after old (appendText old lines date) = some (old ++ appendText old lines date) :=
  WriteKind.after_of_appendOnly s.kind (C16_gitignore_opened_append_only s hs) _ _

/-- non-vacuity: the table is not empty and names a site in each of the two update functions -/
example : Gen.GITIGNORE_WRITE_SITES ≠ [] ∧
    (Gen.GITIGNORE_WRITE_SITES.any fun s => s.file == "file/src/common/gitignore.rs") = true := by decide

/-- what the theorem rules out — NOT the code: read the file, build the same text, write it back with
    `fs::write`.  A complete write gives the same bytes as the append; a write that stops after 5 bytes
    leaves a file that has lost the user's line and the line of an earlier command -/
example :
    let old := "*.log\n/first.bin\n".toList
    let payload := old ++ appendText old ["/second.bin".toList] "D".toList
    WriteKind.fsWrite.after old payload = (WriteKind.openOptions true true false false false).after old (appendText old ["/second.bin".toList] "D".toList) ∧
    WriteKind.fsWrite.after old (payload.take 5) = some "*.log".toList ∧
    ¬ (old <+: "*.log".toList) ∧
    WriteKind.fsWrite.after old (payload.take 0) = some [] := by decide

/-! ## the cache is never staged -/

/-- the patterns `xvc init` writes, as git parses them — computed from the generated `GITIGNORE_INITIAL_CONTENT` -/
theorem initial_patterns :
    parseContent Gen.GITIGNORE_INITIAL_CONTENT.toList =
      [⟨false, false, true, ".xvc/*".toList⟩, ⟨true, true, true, ".xvc/store".toList⟩,
       ⟨true, true, true, ".xvc/ec".toList⟩, ⟨true, false, true, ".xvc/config.toml".toList⟩] := by decide

/-- Every entry `.xvc/c/…` with `c` other than `store`, `ec`, `config.toml` — in particular the cache
    directories `b3`, `b2`, `s2`, `s3` and everything below them — is ignored by git, as long as the
    root `.gitignore` starts with the text `xvc init` wrote, what follows contains no negation (xvc
    itself appends only `/name` lines, see `parseLine_slash_nonneg`) and `.xvc` has no `.gitignore`
    of its own. -/
theorem C16_cache_never_staged (rest : Str) (c : Str) (more : List Str) (isDir : Bool) (deeper : List Str)
    (hc : '/' ∉ c) (hc1 : c ≠ "store".toList) (hc2 : c ≠ "ec".toList) (hc3 : c ≠ "config.toml".toList)
    (hrest : ∀ g ∈ parseContent rest, g.neg = false) :
    ignoredBy ((Gen.GITIGNORE_INITIAL_CONTENT.toList ++ rest) :: [] :: deeper) (".xvc".toList :: c :: more) isDir = true := by
  unfold ignoredBy
  rw [List.any_eq_true]
  refine ⟨1, by simp, ?_⟩
  simp only [List.take_succ_cons, List.take_zero, verdict, List.drop_succ_cons, List.drop_zero]
  have hnil : lastMatch (parseContent []) [c] (isDir || decide (1 + 1 < (".xvc".toList :: c :: more).length)) = none := by
    simp [parseContent, rustLines, rustLinesAux, lastMatch]
  rw [hnil]
  simp only []
  -- the root file: initial lines, then `rest`
  have hsplit : Gen.GITIGNORE_INITIAL_CONTENT.toList ++ rest =
      Gen.GITIGNORE_INITIAL_CONTENT.toList.dropLast ++ '\n' :: rest := by
    have : Gen.GITIGNORE_INITIAL_CONTENT.toList = Gen.GITIGNORE_INITIAL_CONTENT.toList.dropLast ++ ['\n'] := by decide
    conv => lhs; rw [this]
    simp
  have hinit : parseContent (Gen.GITIGNORE_INITIAL_CONTENT.toList.dropLast ++ ['\n']) =
      parseContent Gen.GITIGNORE_INITIAL_CONTENT.toList := by
    have : Gen.GITIGNORE_INITIAL_CONTENT.toList.dropLast ++ ['\n'] = Gen.GITIGNORE_INITIAL_CONTENT.toList := by decide
    rw [this]
  rw [hsplit, parseContent_append_nl, hinit, lastMatch_append]
  generalize hd : (isDir || decide (1 + 1 < (".xvc".toList :: c :: more).length)) = d
  have hrel : joinSlash [".xvc".toList, c] = ".xvc/".toList ++ c := by
    have e : ".xvc/".toList = ".xvc".toList ++ ['/'] := by decide
    rw [e]
    cases c <;> simp only [joinSlash, List.append_assoc, List.cons_append, List.nil_append]
  have hA : lastMatch (parseContent Gen.GITIGNORE_INITIAL_CONTENT.toList) [".xvc".toList, c] d = some false := by
    rw [initial_patterns]
    have m1 : GPat.matches ⟨false, false, true, ".xvc/*".toList⟩ [".xvc".toList, c] d = true := by
      simp only [GPat.matches, Bool.not_false, Bool.true_or, Bool.true_and, if_true, hrel]
      exact xvcStar_matches c hc
    have nm : ∀ (dn : Bool) (lit : Str), (∀ ch ∈ lit, plainChar ch = true) → ".xvc/".toList ++ c ≠ lit →
        GPat.matches ⟨true, dn, true, lit⟩ [".xvc".toList, c] d = false := by
      intro dn lit hp hne
      simp only [GPat.matches, if_true, hrel]
      cases hg : globMatch lit (".xvc/".toList ++ c) with
      | false => simp
      | true => exact absurd (globMatch_plain_eq lit _ hp hg) hne
    have n1 := nm true ".xvc/store".toList (by decide) (by
      intro h; apply hc1; have := List.append_cancel_left (as := ".xvc/".toList) (bs := c) (cs := "store".toList) (by rw [h]; decide); exact this)
    have n2 := nm true ".xvc/ec".toList (by decide) (by
      intro h; apply hc2; exact List.append_cancel_left (as := ".xvc/".toList) (by rw [h]; decide))
    have n3 := nm false ".xvc/config.toml".toList (by decide) (by
      intro h; apply hc3; exact List.append_cancel_left (as := ".xvc/".toList) (by rw [h]; decide))
    simp only [lastMatch, m1, n1, n2, n3, if_true, Bool.false_eq_true, if_false]
  rw [hA]
  -- whatever `rest` says, it cannot re-include
  cases hB : lastMatch (parseContent rest) [".xvc".toList, c] d with
  | none => simp
  | some v =>
    have : v = false := lastMatch_val_of_nonneg _ d _ hrest v hB
    simp [this]

/-! ### for every cache algorithm

  The cache directory is a function of the configured `cache.algorithm` (CacheDir.lean); the table of
  variants is regenerated from core/src/types/hashalgorithm.rs. -/

/-- the model's `HashAlgorithm` has exactly the variants of the Rust enum, with the same cache directory
    names and configuration values (generated table) -/
theorem C16_hash_algorithms_as_in_source :
    HashAlgorithm.all.map (fun a => (a.variant, a.cachePrefix, a.configValue)) = Gen.HASH_ALGORITHMS := by decide

/-- **The init block hides the cache of EVERY algorithm**: whatever `cache.algorithm` is, every entry at or below
    `.xvc/<cache directory of the algorithm>` is ignored by git — under the same conditions as
    `C16_cache_never_staged` (the root `.gitignore` starts with the regenerated text of `xvc init`, the rest
    has no negation, `.xvc` has no `.gitignore` of its own). -/
theorem C16_cache_ignored_for_every_algorithm (alg : HashAlgorithm) (rest : Str) (more : List Str) (isDir : Bool)
    (deeper : List Str) (hrest : ∀ g ∈ parseContent rest, g.neg = false) :
    ignoredBy ((Gen.GITIGNORE_INITIAL_CONTENT.toList ++ rest) :: [] :: deeper)
      (".xvc".toList :: alg.cachePrefix.toList :: more) isDir = true := by
  apply C16_cache_never_staged rest alg.cachePrefix.toList more isDir deeper _ _ _ _ hrest <;> cases alg <;> decide

/-- in particular every cached file `XvcCachePath::new` can produce -/
theorem C16_cache_file_ignored_for_every_algorithm (alg : HashAlgorithm) (hex ext rest : Str) (deeper : List Str)
    (hrest : ∀ g ∈ parseContent rest, g.neg = false) :
    ignoredBy ((Gen.GITIGNORE_INITIAL_CONTENT.toList ++ rest) :: [] :: deeper) (cachePathComps alg hex ext) false = true :=
  C16_cache_ignored_for_every_algorithm alg rest _ false deeper hrest

/-- the local configuration `.xvc/config.local.toml` (written by `xvc init`, "This file is .gitignored") and
    any other file xvc may put directly under `.xvc/` is ignored as well -/
theorem C16_local_config_ignored (rest : Str) (deeper : List Str) (hrest : ∀ g ∈ parseContent rest, g.neg = false) :
    ignoredBy ((Gen.GITIGNORE_INITIAL_CONTENT.toList ++ rest) :: [] :: deeper)
      [".xvc".toList, "config.local.toml".toList] false = true :=
  C16_cache_never_staged rest "config.local.toml".toList [] false deeper (by decide) (by decide) (by decide) (by decide) hrest

/-- the directory of temporary files `.xvc/tmp` (workspace copies are written there and renamed, repair F29) and
    everything below it is ignored as well: a temporary copy of tracked data is never staged -/
theorem C16_tmp_dir_ignored (rest : Str) (more : List Str) (isDir : Bool) (deeper : List Str)
    (hrest : ∀ g ∈ parseContent rest, g.neg = false) :
    ignoredBy ((Gen.GITIGNORE_INITIAL_CONTENT.toList ++ rest) :: [] :: deeper)
      (".xvc".toList :: "tmp".toList :: more) isDir = true :=
  C16_cache_never_staged rest "tmp".toList more isDir deeper (by decide) (by decide) (by decide) (by decide) hrest

/-- non-vacuity, computed on a workspace right after `xvc init` + two tracked files: a cached file of every
    algorithm is ignored, the store / entity counter / project configuration are not -/
example : ∀ alg ∈ HashAlgorithm.all,
    let root := Gen.GITIGNORE_INITIAL_CONTENT.toList ++ "\n### Following 2 lines are added by xvc on D\n/data.bin\n/a/\n".toList
    let t : Tree := .node root [] [(".xvc".toList, .node [] [] [])]
    gitIgnored t (cachePathComps alg "0123456789abcdef".toList "bin".toList) false = true ∧
    gitIgnored t [".xvc".toList, "config.local.toml".toList] false = true ∧
    gitIgnored t [".xvc".toList, "store".toList, "xvc-path-store".toList, "1.json".toList] false = false := by decide

/-- non-vacuity: a real cache path below the text written by `xvc init` and two lines added by `xvc file track` -/
example :
    let root := Gen.GITIGNORE_INITIAL_CONTENT.toList ++ "\n### Following 2 lines are added by xvc on D\n/data.bin\n/a/\n".toList
    let t : Tree := .node root [] [(".xvc".toList, .node [] [] [("b3".toList, .node [] [] [])])]
    gitIgnored t [".xvc".toList, "b3".toList, "abc".toList, "def".toList, "0.bin".toList] false = true ∧
    gitIgnored t [".xvc".toList, "store".toList, "xvc-path-store".toList, "1.json".toList] false = false ∧
    gitIgnored t [".xvc".toList, "config.toml".toList] false = false := by decide

end Ign.Git

open Ign.Git in
#print axioms C16_append_only
open Ign.Git in
#print axioms C16_append_only_files
open Ign.Git in
#print axioms C16_append_only_dirs
open Ign.Git in
#print axioms C16_append_only_track
open Ign.Git in
#print axioms C16_append_only_handler
open Ign.Git in
#print axioms C16_append_only_move
open Ign.Git in
#print axioms C16_ext_spelled
open Ign.Git in
#print axioms C16_appended_text_starts_fresh_line
open Ign.Git in
#print axioms C16_lines_kept_files
open Ign.Git in
#print axioms C16_lines_kept_dirs
open Ign.Git in
#print axioms C16_lines_kept
open Ign.Git in
#print axioms C16_ignored_after_update_partial
open Ign.Git in
#print axioms C16_ignored_after_track_partial
open Ign.Git in
#print axioms C16_ignored_after_move_partial
open Ign.Git in
#print axioms C16_still_ignored
open Ign.Git in
#print axioms C16_tracked_stays_ignored
open Ign.Git in
#print axioms C16_track_reestablishes_ignore
open Ign.Git in
#print axioms C16_track_dir_reestablishes_ignore
open Ign.Git in
#print axioms C16_track_ignores_independent_of_store
open Ign.Git in
#print axioms C16_history_track_reestablishes_ignore
open Ign.Git in
#print axioms C16_gitignore_opened_append_only
open Ign.Git in
#print axioms C16_faulted_write_keeps_old_bytes
open Ign.Git in
#print axioms C16_complete_write_is_model_edit
open Ign.Git in
#print axioms C16_materialised_file_always_gets_file_op
open Ign.Git in
#print axioms C16_handler_ignores_reported_file
open Ign.Git in
#print axioms C16_materialised_file_ignored
open Ign.Git in
#print axioms C16_ignore_op_independent_of_prior_entry
open Ign.Git in
#print axioms C16_send_only_when_absent_counterexample
open Ign.Git in
#print axioms C16_handler_filter_as_in_model
open Ign.Git in
#print axioms C16_batch_file_rule_dropped_only_inside_ignored_dir
open Ign.Git in
#print axioms C16_component_filter_sound
open Ign.Git in
#print axioms C16_batch_every_queued_file_ignored
open Ign.Git in
#print axioms C16_string_prefix_filter_counterexample
open Ign.Git in
#print axioms C16_whitelisted_counterexample
open Ign.Git in
#print axioms C16_special_name_counterexample
open Ign.Git in
#print axioms C16_anchored_line_counterexample
open Ign.Git in
#print axioms C16_cache_never_staged
open Ign.Git in
#print axioms C16_hash_algorithms_as_in_source
open Ign.Git in
#print axioms C16_cache_ignored_for_every_algorithm
open Ign.Git in
#print axioms C16_cache_file_ignored_for_every_algorithm
open Ign.Git in
#print axioms C16_local_config_ignored
open Ign.Git in
#print axioms C16_tmp_dir_ignored
