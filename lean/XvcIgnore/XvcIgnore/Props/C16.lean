import XvcIgnore.GitLemmas
namespace Ign.Git
end Ign.Git
