import XvcIgnore.WalkLemmas
import XvcIgnore.PStep
/-!
  # C09 — Ignore rules pick the same files on every run and act only below their directory

  Property theorems about the model of xvc-walker (Glob.lean, Pattern.lean, Walk.lean), which mirrors
  the code **with the F8 repair** (patches/C09-F8.patch).  Everything is for all trees, all ignore
  file contents, all rule lists and all interference `extra` — no bound.
-/
namespace Ign

/-! ## `check` depends only on the *set* of rules: appends of racing threads commute -/

/-- `IgnoreRules::check` gives the same verdict for two rule lists with the same members — in
    particular for every permutation and every duplication of the list -/
theorem C09_check_order_indep (l1 l2 : List Pattern) (p : Str) (h : ∀ r, r ∈ l1 ↔ r ∈ l2) :
    check l1 p = check l2 p :=
  check_congr_mem l1 l2 p h

theorem C09_check_perm (l1 l2 : List Pattern) (p : Str) (h : l1.Perm l2) : check l1 p = check l2 p :=
  check_congr_mem l1 l2 p (fun _ => h.mem_iff)

/-- loading an ignore file twice, or appending in another order, changes nothing -/
theorem C09_check_dup_swap (a b : List Pattern) (p : Str) :
    check (a ++ b ++ a) p = check (b ++ a) p :=
  check_congr_mem _ _ p (fun r => by
    simp only [List.mem_append]
    constructor
    · rintro ((h | h) | h) <;> simp [h]
    · rintro (h | h) <;> simp [h])

example : check ([Pattern.new .global "!a".toList] ++ [Pattern.new .global "*".toList]) "/a".toList = .whitelist ∧
    check ([Pattern.new .global "*".toList] ++ [Pattern.new .global "!a".toList]) "/a".toList = .whitelist := by decide

/-! ## the verdict is a function of the rule list alone — whatever its length, however it is chunked -/

/-- **Whitelist wins, at every size.**  For a rule list of any length the verdict is: `whitelist` iff some
    whitelist pattern matches; otherwise `ignore` iff some ignore pattern matches; otherwise `noMatch`.
    No clause depends on the number of patterns or on how a search over them is split up. -/
theorem C09_check_cases (rules : List Pattern) (p : Str) :
    (check rules p = .whitelist ↔ ∃ r ∈ rules, r.white = true ∧ r.m p = true) ∧
    (check rules p = .ignore ↔ (¬ ∃ r ∈ rules, r.white = true ∧ r.m p = true) ∧ ∃ r ∈ rules, r.white = false ∧ r.m p = true) ∧
    (check rules p = .noMatch ↔ ¬ ∃ r ∈ rules, r.m p = true) := by
  unfold check
  by_cases hw : rules.any (fun r => r.white && r.m p) = true
  · have hw' : ∃ r ∈ rules, r.white = true ∧ r.m p = true := by
      rw [List.any_eq_true] at hw; obtain ⟨r, hr, h⟩ := hw; exact ⟨r, hr, by simpa using h⟩
    simp only [hw, if_true, true_iff, reduceCtorEq, false_iff, not_and]
    exact ⟨hw', fun h => absurd hw' h, fun h => by obtain ⟨r, hr, _, hm⟩ := hw'; exact h ⟨r, hr, hm⟩⟩
  · have hw' : ¬ ∃ r ∈ rules, r.white = true ∧ r.m p = true := by
      rintro ⟨r, hr, h1, h2⟩; exact hw (List.any_eq_true.2 ⟨r, hr, by simp [h1, h2]⟩)
    simp only [hw, Bool.false_eq_true, if_false]
    by_cases hi : rules.any (fun r => !r.white && r.m p) = true
    · have hi' : ∃ r ∈ rules, r.white = false ∧ r.m p = true := by
        rw [List.any_eq_true] at hi; obtain ⟨r, hr, h⟩ := hi; exact ⟨r, hr, by simpa using h⟩
      simp only [hi, if_true, reduceCtorEq, false_iff, true_iff]
      exact ⟨hw', ⟨hw', hi'⟩, fun h => by obtain ⟨r, hr, _, hm⟩ := hi'; exact h ⟨r, hr, hm⟩⟩
    · have hi' : ¬ ∃ r ∈ rules, r.white = false ∧ r.m p = true := by
        rintro ⟨r, hr, h1, h2⟩; exact hi (List.any_eq_true.2 ⟨r, hr, by simp [h1, h2]⟩)
      simp only [hi, Bool.false_eq_true, if_false, reduceCtorEq, false_iff, true_iff]
      refine ⟨hw', fun h => hi' h.2, ?_⟩
      rintro ⟨r, hr, hm⟩
      cases hwh : r.white
      · exact hi' ⟨r, hr, hwh, hm⟩
      · exact hw' ⟨r, hr, hwh, hm⟩

theorem C09_whitelist_wins (rules : List Pattern) (p : Str) (r : Pattern) (hr : r ∈ rules) (hw : r.white = true)
    (hm : r.m p = true) : check rules p = .whitelist :=
  (C09_check_cases rules p).1.2 ⟨r, hr, hw, hm⟩

/-- how two partial verdicts combine: a whitelist verdict of either part wins, then an ignore verdict -/
def mergeVerdict : MatchResult → MatchResult → MatchResult
  | .whitelist, _ => .whitelist
  | _, .whitelist => .whitelist
  | .ignore, _ => .ignore
  | _, .ignore => .ignore
  | .noMatch, .noMatch => .noMatch

/-- **Chunking independence.**  Searching two parts of the rule list separately (in any manner: sequentially, in
    parallel, by work stealing) and combining the partial verdicts with `mergeVerdict` gives the verdict of the whole
    list; hence for any split into any number of chunks of any sizes (`C09_check_chunks`).  A search that lets *any*
    match win instead (e.g. one `find_any` over whitelist and ignore patterns together) is not this function. -/
theorem C09_check_chunked (l1 l2 : List Pattern) (p : Str) :
    check (l1 ++ l2) p = mergeVerdict (check l1 p) (check l2 p) := by
  unfold check
  simp only [List.any_append]
  cases l1.any (fun r => r.white && r.m p) <;> cases l2.any (fun r => r.white && r.m p) <;>
    cases l1.any (fun r => !r.white && r.m p) <;> cases l2.any (fun r => !r.white && r.m p) <;> rfl

theorem C09_check_chunks : ∀ (chunks : List (List Pattern)) (p : Str),
    check chunks.flatten p = (chunks.map (fun c => check c p)).foldr mergeVerdict .noMatch
  | [], p => by simp [check]
  | c :: cs, p => by
    simp only [List.flatten_cons, List.map_cons, List.foldr_cons]
    rw [C09_check_chunked, C09_check_chunks cs p]

/-- a rule set of 40 patterns (`*.dat`, 23 unrelated lines, 16 `!keep-N.dat`): the whitelisted file is kept, the
    other one ignored, a third not matched — the verdict does not change at 32 patterns or anywhere else -/
def exLarge : List Pattern :=
  (["*.dat"] ++ (List.range 23).map (fun i => "*.scratch" ++ toString i) ++
    (List.range 16).map (fun i => "!keep-" ++ toString (i + 1) ++ ".dat")).map
    (fun l => Pattern.new (.file "data".toList) l.toList)

example : exLarge.length = 40 ∧ check exLarge "/data/keep-7.dat".toList = .whitelist ∧
    check exLarge "/data/drop-7.dat".toList = .ignore ∧ check exLarge "/data/notes.md".toList = .noMatch ∧
    check (exLarge.take 31) "/data/keep-7.dat".toList = .whitelist ∧ check exLarge.reverse "/data/keep-16.dat".toList = .whitelist := by
  decide

/-! ## a glob with a literal prefix matches only paths with that prefix -/

/-- `LiteralPrefix`: the glob is `d ++ r` with `d` free of `* ? [ \` -/
theorem C09_literal_prefix (d r p : Str) (hd : ∀ c ∈ d, plainChar c = true)
    (h : globMatch (d ++ r) p = true) : d <+: p :=
  globMatch_plain_prefix d r p hd h

/-- a glob `"/D/**/…"` matches only paths under `D` -/
theorem C09_confined_local (d rest p : Str) (hd : ∀ c ∈ d, plainChar c = true)
    (h : globMatch (d ++ "/**/".toList ++ rest) p = true) : Under d p := by
  have e : d ++ "/**/".toList ++ rest = (d ++ ['/']) ++ ("**/".toList ++ rest) := by
    have : "/**/".toList = '/' :: "**/".toList := by decide
    rw [this]; simp
  rw [e] at h
  refine globMatch_plain_prefix _ _ p ?_ h
  intro c hc
  rcases List.mem_append.1 hc with h | h
  · exact hd c h
  · simp only [List.mem_singleton] at h; subst h; decide

example : globMatch "/a/**/x.bak".toList "/a/s/x.bak".toList = true ∧ globMatch "/a/**/x.bak".toList "/ab/x.bak".toList = false ∧
    globMatch "/a/**/x.bak".toList "/b/x.bak".toList = false := by decide

/-- **F8 repaired**: every pattern `Pattern::new` builds for an ignore file in a (plainly named)
    sub-directory is confined to that directory, whatever the line says -/
theorem C09_new_confined (src : Source) (line : Str) (hd : PlainDir (currentDir src)) :
    Confined (currentDir src) (Pattern.new src line) :=
  new_confined src line hd

example : PlainDir (currentDir (.file "a/b".toList)) ∧ currentDir (.file "a/b".toList) = "/a/b".toList ∧
    (Pattern.new (.file "a/b".toList) "*.bak".toList).glob = "/a/b/**/*.bak".toList ∧
    (Pattern.new (.file "a/b".toList) "!tmp/".toList).glob = "/a/b/**/tmp/**".toList ∧
    (Pattern.new (.file "".toList) "*.bak".toList).glob = "**/*.bak".toList := by decide

/-- the globs `Pattern::new` produces start with `*` or `/`, never with `!` (fast_glob's negation of a
    whole glob is never triggered) -/
theorem C09_glob_not_negated (src : Source) (line : Str) :
    ∃ c rest, (Pattern.new src line).glob = c :: rest ∧ (c = '*' ∨ c = '/') :=
  new_glob_head src line

/-! ## a pattern acts only below the directory of its ignore file -/

/-- Scoping: whatever the ignore file of the (plainly named, non-root) directory `D` contains, it has
    no influence on the verdict for a path that is not under `D`. -/
theorem C09_scoped (rules : List Pattern) (parent content1 content2 p : Str)
    (hd : PlainDir (currentDir (.file parent))) (hp : ¬ Under (currentDir (.file parent)) p) :
    check (rules ++ contentToPatterns (.file parent) content1) p =
    check (rules ++ contentToPatterns (.file parent) content2) p := by
  have key : ∀ c, ∀ r ∈ contentToPatterns (.file parent) c, r.m p = false := by
    intro c r hr
    unfold contentToPatterns at hr
    obtain ⟨l, _, rfl⟩ := List.mem_map.1 hr
    cases hm : (Pattern.new (Source.file parent) _).m p with
    | false => rfl
    | true => exact absurd (new_confined _ _ hd p hm) hp
  rw [check_append_nomatch _ _ _ (key content1), check_append_nomatch _ _ _ (key content2)]

example : PlainDir (currentDir (.file "a".toList)) ∧ ¬ Under (currentDir (.file "a".toList)) "/b/x.bak".toList ∧
    Under (currentDir (.file "a".toList)) "/a/s/x.bak".toList := by decide

/-! ## every schedule gives the same result -/

/-- Whatever the interleaving of the `MAX_THREADS_PARALLEL_WALK` walker threads (and whatever the
    order in which `read_dir` lists entries, which decides the visiting order of `walk_serial`), the
    rules in force when a child `p` of a directory is checked are: the globals and the ignore files of
    all ancestors-or-self of that directory (loaded before, in program order) plus patterns of *other*
    directories that some thread happened to load earlier — `extra p`.  If every such additional
    pattern is confined to a directory that `p` is not under, the walk emits exactly `walkSpec t`. -/
theorem C09_parallel_deterministic_of_confined (extra : Str → List Pattern) (ha : Admissible extra) (t : Tree) :
    walkWith extra globalRules [] t = walkSpec t :=
  walkWith_extra extra ha globalRules [] t

/-- patterns that come from ignore files (with arbitrary content) of plainly named directories that
    the checked path is not under -/
def FromOtherDirs (extra : Str → List Pattern) : Prop :=
  ∀ p, ∀ r ∈ extra p, ∃ parent line, r = Pattern.new (.file parent) line ∧
    PlainDir (currentDir (.file parent)) ∧ ¬ Under (currentDir (.file parent)) p

theorem fromOtherDirs_admissible (extra : Str → List Pattern) (h : FromOtherDirs extra) : Admissible extra := by
  intro p r hr
  obtain ⟨parent, line, rfl, hd, hu⟩ := h p r hr
  exact ⟨_, new_confined _ _ hd, hu⟩

/-- **Unconditional after the F8 repair**: for every tree and every interference by patterns that
    `Pattern::new` built from ignore files of other directories, the walk equals the schedule-free
    `walkSpec`.  (`PlainDir` = a non-root directory; its name may contain any character: `Pattern::new`
    escapes the directory it prefixes, repair F32.) -/
theorem C09_parallel_deterministic (extra : Str → List Pattern) (h : FromOtherDirs extra) (t : Tree) :
    walkWith extra globalRules [] t = walkSpec t :=
  walkWith_extra extra (fromOtherDirs_admissible extra h) globalRules [] t

/-- the same for the rule collection behind `xvc check-ignore` / `build_ignore_patterns` -/
theorem C09_collect_deterministic (extra : Str → List Pattern) (h : FromOtherDirs extra) (t : Tree) :
    globalRules ++ collectRules extra globalRules [] t = allRules t := by
  unfold allRules
  rw [collectRules_extra extra (fromOtherDirs_admissible extra h)]

/-- **Directory enumeration order.**  Listing the entries of a directory in another order (any
    permutation of its files and of its sub-directories — `read_dir` promises no order) permutes the
    output and changes nothing else.  Quantified over every node, rule list and interference, so it
    applies at every depth; `C09_subtrees_congr` carries permutations inside sub-directories upwards. -/
theorem C09_enum_order_indep (extra : Str → List Pattern) (rules : List Pattern) (here c : Str)
    (files files' : List Str) (dirs dirs' : List (Str × Tree)) (hf : files.Perm files') (hd : dirs.Perm dirs') :
    (walkWith extra rules here (.node c files dirs)).Perm (walkWith extra rules here (.node c files' dirs')) :=
  walkWith_perm_children extra rules here c files files' dirs dirs' hf hd

theorem C09_subtrees_congr (extra : Str → List Pattern) (rules : List Pattern) (here c : Str) (files : List Str)
    (dirs dirs' : List (Str × Tree)) (h : SameUpToOrder extra dirs dirs') :
    (walkWith extra rules here (.node c files dirs)).Perm (walkWith extra rules here (.node c files dirs')) :=
  walkWith_congr_subtrees extra rules here c files dirs dirs' h

example : (walkSpec (.node "*.log\n".toList ["f.txt".toList, ".xvcignore".toList, "r.log".toList]
      [("b".toList, .node [] ["n.txt".toList, "x.bak".toList] []), ("a".toList, .node [] ["y".toList] [])])).Perm
    (walkSpec (.node "*.log\n".toList [".xvcignore".toList, "r.log".toList, "f.txt".toList]
      [("a".toList, .node [] ["y".toList] []), ("b".toList, .node [] ["x.bak".toList, "n.txt".toList] [])])) := by
  decide

def exTiny : Tree := .node "g\n".toList ["f".toList, "g".toList] []

def exTree' : Tree :=
  .node "*.log\n".toList [".xvcignore".toList, "f.txt".toList, "r.log".toList]
    [("a".toList, .node "x.bak\n".toList [".xvcignore".toList, "x.bak".toList, "y".toList] []),
     ("b".toList, .node [] ["x.bak".toList, "n.txt".toList] [("c".toList, .node [] ["x.bak".toList] [])])]

/-! ## every schedule of the walker transition system -/

/-- **Every interleaving.**  `PStep` (PStep.lean) lets any thread start any queued directory and check
    any unchecked child of any started directory at any time, each check seeing whatever has been
    loaded by then.  For every well-formed tree (`TreeOk`: names are non-empty and contain no `/` — any other
    character is allowed since the F32 repair —, entries of one directory have distinct names) every state reachable from the initial
    one has emitted only paths of `walkSpec`, and every *complete* run has emitted exactly `walkSpec`:
    `walk_parallel` under all schedules of its threads and `walk_serial` under all `read_dir` orders
    pick the same set of paths.  No assumption about `extra` is left: it is discharged by the invariant
    of the transition system (`verdict_eq`). -/
theorem C09_every_schedule (t : Tree) (ht : TreeOk t) (s : PState) (hr : PReach t s) :
    (∀ p ∈ s.emitted, p ∈ walkSpec t) ∧ (s.final → ∀ p, p ∈ s.emitted ↔ p ∈ walkSpec t) := by
  refine ⟨fun p hp => (owes_reach t ht s hr p).1 (Or.inl hp), ?_⟩
  rintro ⟨h1, h2⟩ p
  rw [← owes_reach t ht s hr p]
  simp [Owes, h1, h2]

/-- two complete runs of one tree — whatever their schedules — emit the same set -/
theorem C09_two_runs_agree (t : Tree) (ht : TreeOk t) (s1 s2 : PState) (h1 : PReach t s1) (h2 : PReach t s2)
    (f1 : s1.final) (f2 : s2.final) : ∀ p, p ∈ s1.emitted ↔ p ∈ s2.emitted := fun p => by
  rw [(C09_every_schedule t ht s1 h1).2 f1 p, (C09_every_schedule t ht s2 h2).2 f2 p]

/-- non-vacuity: the example tree is well formed, and a complete run of a small tree exists -/
example : TreeOk exTree' ∧ ∃ s, PReach exTiny s ∧ s.final ∧ s.emitted = ["/f".toList] := by
  refine ⟨by simp only [exTree', TreeOk, DirsOk]; decide, ?_⟩
  let s0 := PState.init exTiny
  have r0 : PReach exTiny s0 := .init
  have r1 := PReach.step _ _ r0 (PStep.start s0 [] [] ⟨[], exTiny, globalRules⟩ "g\n".toList ["f".toList, "g".toList] [] rfl rfl)
  have r2 := PReach.step _ _ r1 (PStep.file _ [] [] _ [] ["g".toList] "f".toList rfl rfl)
  have r3 := PReach.step _ _ r2 (PStep.file _ [] [] _ [] [] "g".toList rfl rfl)
  have r4 := PReach.step _ _ r3 (PStep.done _ [] [] _ rfl rfl rfl)
  exact ⟨_, r4, ⟨rfl, rfl⟩, by decide⟩

/-! ## confinement on path components; directory names are literals -/

/-- `escape_glob` round-trips (F32): the escaped directory part of a glob matches exactly the literal directory,
    whatever characters its name contains (`[ ] { } * ? ! \\` included) -/
theorem C09_escape_literal (d p : Str) : globMatch (escapeGlob d) p = true ↔ p = d :=
  globMatch_escaped_iff d p

/-- **Confinement on components.**  A pattern of the ignore file of the directory with components `D` (non-root,
    names non-empty and without `/` — nothing else is assumed about them) can only match an entry whose parent
    directory `A` has `D` as a component-wise prefix: `D` is the parent or a proper ancestor of the entry.  A sibling
    whose *name extends* `D`'s last name (`data2/`, `data-old/`, `data.tmp` next to `data/`) is never decided by
    `D`'s ignore file, nor is a directory whose name the un-escaped directory would match as a glob (`d1/` next to
    `d[1]/`). -/
theorem C09_confined_components (D A : List Str) (name content : Str) (hne : D ≠ []) (hD : ∀ d ∈ D, NameOk d)
    (hA : ∀ a ∈ A, NameOk a) (hn : NameOk name) (r : Pattern) (hr : r ∈ rulesOf (pathOf D) content)
    (hm : r.m (pathOf (A ++ [name])) = true) : D <+: A :=
  prefix_of_under D A name hD hA hn (rulesOf_confined D hne hD content r hr _ hm)

example :
    (Pattern.new (.file "data".toList) "*.tmp".toList).m "/data/sub/y.tmp".toList = true ∧
    (Pattern.new (.file "data".toList) "*.tmp".toList).m "/data2/x.tmp".toList = false ∧
    (Pattern.new (.file "data".toList) "*.tmp".toList).m "/data.tmp".toList = false ∧
    (Pattern.new (.file "a/b".toList) "!x.tmp".toList).m "/a/b2/x.tmp".toList = false ∧
    (Pattern.new (.file "d[1]".toList) "*.tmp".toList).glob = "/d\\[1\\]/**/*.tmp".toList ∧
    (Pattern.new (.file "d[1]".toList) "*.tmp".toList).m "/d[1]/x.tmp".toList = true ∧
    (Pattern.new (.file "d[1]".toList) "*.tmp".toList).m "/d1/x.tmp".toList = false ∧
    (Pattern.new (.file "{a}/q?".toList) "sub/x".toList).m "/{a}/q?/sub/x".toList = true ∧
    (Pattern.new (.file "{a}/q?".toList) "sub/x".toList).m "/{a}/q1/sub/x".toList = false ∧
    (Pattern.new (.file "st*r".toList) "x/".toList).m "/star/x/f".toList = false ∧
    (Pattern.new (.file "st*r".toList) "x/".toList).m "/st*r/x/f".toList = true := by decide

/-- NOT the code — the variant of seeded change C09-4: the scope of an ignore file taken as a *string* prefix
    (`path.strip_prefix(directory)` without asking for a separator) -/
def matchesStringPrefix (directory glob path : Str) : Bool :=
  directory.isPrefixOf path && globMatch glob (path.drop directory.length)

/-- why the scope has to be a component prefix: with a string prefix `*.tmp` of `data/.xvcignore` decides
    `data2/x.tmp` and the root-level `data.tmp`, although `["data"]` is not a prefix of their parents' components;
    the model (and the code with F8/F32) does not match them -/
theorem C09_string_prefix_counterexample :
    matchesStringPrefix "/data".toList "**/*.tmp".toList "/data2/x.tmp".toList = true ∧
    matchesStringPrefix "/data".toList "**/*.tmp".toList "/data.tmp".toList = true ∧
    ¬ (["data".toList] <+: ["data2".toList]) ∧ ¬ (["data".toList] <+: ([] : List Str)) ∧
    (Pattern.new (.file "data".toList) "*.tmp".toList).m "/data2/x.tmp".toList = false ∧
    (Pattern.new (.file "data".toList) "*.tmp".toList).m "/data.tmp".toList = false := by decide

/-! ## the rules of a directory depend only on the bytes its ignore-file name resolves to -/

/-- the one loader: whatever the shape of the entry, the patterns are those of the resolved bytes -/
theorem C09_rules_of_resolved_bytes (here : Str) (e1 e2 : IgnoreEntry) (h : e1.resolve = e2.resolve) :
    rulesOf here (e1.resolve.getD []) = rulesOf here (e2.resolve.getD []) := by rw [h]

/-- a regular file, a hard link and a symbolic link (any chain, any target location) to the same bytes load the
    same rules; a dangling link and a link to a directory load nothing, like an absent file -/
theorem C09_link_shapes (here b : Str) :
    rulesOf here ((IgnoreEntry.symlink (some b)).resolve.getD []) = rulesOf here ((IgnoreEntry.regular b).resolve.getD []) ∧
    rulesOf here ((IgnoreEntry.hardLink b).resolve.getD []) = rulesOf here ((IgnoreEntry.regular b).resolve.getD []) ∧
    rulesOf here ((IgnoreEntry.symlink none).resolve.getD []) = [] ∧
    rulesOf here (IgnoreEntry.symlinkToDir.resolve.getD []) = [] ∧ rulesOf here (IgnoreEntry.absent.resolve.getD []) = [] := by
  refine ⟨rfl, rfl, ?_, ?_, ?_⟩ <;> simp [IgnoreEntry.resolve, rulesOf, contentToPatterns, rustLines, rustLinesAux]

/-- **Shape independence.**  Two workspaces that differ only in the shapes of their ignore files (same resolved
    bytes everywhere) are the same workspace for every walker: the same `walkSpec`, the same rule collection of
    `check-ignore`, and — through `C09_every_schedule` — the same emitted set for every schedule of the parallel
    walker and every enumeration order of the serial one. -/
theorem C09_shape_independent (s1 s2 : ShapedTree) (h : s1.resolved = s2.resolved) :
    walkSpec s1.resolved = walkSpec s2.resolved ∧ allRules s1.resolved = allRules s2.resolved ∧
    ∀ (st1 st2 : PState), TreeOk s1.resolved → PReach s1.resolved st1 → PReach s2.resolved st2 → st1.final → st2.final →
      ∀ p, p ∈ st1.emitted ↔ p ∈ st2.emitted := by
  refine ⟨by rw [h], by rw [h], ?_⟩
  intro st1 st2 hok r1 r2 f1 f2 p
  have hok2 : TreeOk s2.resolved := by rw [← h]; exact hok
  rw [(C09_every_schedule _ hok st1 r1).2 f1 p, (C09_every_schedule _ hok2 st2 r2).2 f2 p, h]

/-- the seeded scenario C09-3 in both shapes: `data/.xvcignore` a regular file or a link to a shared rule file -/
example :
    let sub (ig : IgnoreEntry) : ShapedTree := .node .absent ["a.tmp".toList]
      [("data".toList, .node ig [".xvcignore".toList, "a.tmp".toList, "b.dat".toList] [("sub".toList, .node .absent ["c.tmp".toList, "d.dat".toList] [])]),
       ("other".toList, .node .absent ["o.tmp".toList] [])]
    (sub (.symlink (some "*.tmp\n".toList))).resolved = (sub (.regular "*.tmp\n".toList)).resolved ∧
    walkSpec (sub (.symlink (some "*.tmp\n".toList))).resolved =
      ["/a.tmp", "/data", "/data/.xvcignore", "/data/b.dat", "/data/sub", "/data/sub/d.dat", "/other", "/other/o.tmp"].map String.toList ∧
    walkSpec (sub (.symlink none)).resolved = walkSpec (sub .absent).resolved := by
  refine ⟨rfl, by decide, rfl⟩

/-- a concrete interference: everything checked outside `/a` also sees the patterns of `a/.xvcignore` -/
def exExtra (p : Str) : List Pattern :=
  if Under "/a".toList p then [] else [Pattern.new (.file "a".toList) "x.bak".toList, Pattern.new (.file "a".toList) "!*.txt".toList]

def exTree : Tree :=
  .node "*.log\n".toList [".xvcignore".toList, "f.txt".toList, "r.log".toList]
    [("a".toList, .node "x.bak\n".toList [".xvcignore".toList, "x.bak".toList, "y".toList] []),
     ("b".toList, .node [] ["x.bak".toList, "n.txt".toList] [("c".toList, .node [] ["x.bak".toList] [])])]

example : FromOtherDirs exExtra := by
  intro p r hr
  unfold exExtra at hr
  split at hr
  · simp at hr
  · rename_i hu
    simp only [List.mem_cons, List.not_mem_nil, or_false] at hr
    rcases hr with rfl | rfl
    · exact ⟨"a".toList, _, rfl, by decide, hu⟩
    · exact ⟨"a".toList, _, rfl, by decide, hu⟩

example : walkSpec exTree = ["/.xvcignore", "/f.txt", "/a", "/a/.xvcignore", "/a/y", "/b", "/b/x.bak", "/b/n.txt", "/b/c", "/b/c/x.bak"].map String.toList := by
  decide

/-- Why confinement is needed (the F8 defect): `Pattern::new` used to give the line `x.bak` of
    `a/.xvcignore` the glob `**/x.bak`.  A check of `/b/x.bak` that sees this pattern (thread on `a`
    was faster) hides the file, a check that does not see it (thread on `b` was faster) keeps it: two
    schedules, two results. -/
theorem C09_F8_old_glob_counterexample :
    let old : Pattern := ⟨"**/x.bak".toList, "x.bak".toList, false, none, false⟩
    walkWith (fun _ => [old]) globalRules [] exTree ≠ walkWith (fun _ => []) globalRules [] exTree ∧
    "/b/x.bak".toList ∈ walkWith (fun _ => []) globalRules [] exTree ∧
    "/b/x.bak".toList ∉ walkWith (fun _ => [old]) globalRules [] exTree := by
  decide

/-! ## an ignored directory hides everything beneath it -/

/-- If the directory `here/n` is judged ignored, nothing beneath it is emitted — not even entries a
    whitelist pattern would match (it is never entered).  Names are file names (no `/`). -/
theorem C09_ignored_dir_hides (extra : Str → List Pattern) (rules : List Pattern) (here content : Str)
    (files : List Str) (dirs : List (Str × Tree)) (n : Str) (sub : Tree)
    (hfiles : ∀ f ∈ files, '/' ∉ f) (hdirs : ∀ d ∈ dirs, '/' ∉ d.1) (hmem : (n, sub) ∈ dirs)
    (hign : ignored (rules ++ rulesOf here content ++ extra (childPath here n)) (childPath here n) = true) :
    ∀ p ∈ walkWith extra rules here (.node content files dirs), ¬ Under (childPath here n) p := by
  intro p hp
  simp only [walkWith, List.mem_append, List.mem_filter, List.mem_map] at hp
  rcases hp with ⟨⟨f, hf, rfl⟩, _⟩ | hp
  · exact not_under_sibling_entry (hfiles f hf)
  · exact walkDirs_hides extra _ here n (hdirs _ hmem) hign dirs hdirs p hp

/-- everything a (sub-)walk emits lies below its start directory: paths below an ignored directory
    could only come from the walk of that directory, which never happens -/
theorem C09_emitted_below_start (extra : Str → List Pattern) (rules : List Pattern) (here : Str) (t : Tree) :
    ∀ p ∈ walkWith extra rules here t, Under here p :=
  walkWith_under extra rules here t

example :
    let t : Tree := .node "build\n!keep.txt\n".toList [".xvcignore".toList]
      [("build".toList, .node [] ["keep.txt".toList, "o.bin".toList] [("sub".toList, .node [] ["keep.txt".toList] [])])]
    walkSpec t = ["/.xvcignore"].map String.toList := by decide

/-- Transcribed behaviour worth knowing: a *directory* line `build/` becomes the glob `**/build/**`, which
    does not match the directory path `/build` itself.  The directory is therefore listed and entered,
    its content is hidden entry by entry — and a whitelist line can re-include entries (unlike git). -/
example :
    let t : Tree := .node "build/\n!keep.txt\n".toList [".xvcignore".toList]
      [("build".toList, .node [] ["keep.txt".toList, "o.bin".toList] [])]
    walkSpec t = ["/.xvcignore", "/build", "/build/keep.txt"].map String.toList := by decide

/-! ## `.xvc` and `.git` are never traversed -/

/-- Every emitted path is an entry, not called `.xvc` or `.git`, of the root or of a directory that was
    itself emitted — so (by induction along the chain) no component of an emitted path is `.xvc` or
    `.git`: these directories are neither listed nor entered, under every schedule.
    Hypothesis `SafeWhite`: no whitelist line re-includes an entry called `.xvc`/`.git` (see
    `C09_whitelist_escape_counterexample` for what happens otherwise). -/
theorem C09_never_enters_xvc_git (extra : Str → List Pattern) (t : Tree)
    (ht : ∀ r ∈ treePatterns [] t, SafeWhite r) (he : ∀ p, ∀ r ∈ extra p, SafeWhite r) :
    ∀ p ∈ walkWith extra globalRules [] t,
      ∃ d n, p = childPath d n ∧ n ≠ dotXvc ∧ n ≠ dotGit ∧ (d = [] ∨ d ∈ walkWith extra globalRules [] t) :=
  walkWith_chain extra he t globalRules [] (fun _ h => h)
    (fun r hr => by intro hw; rw [globalRules_eq] at hr; simp at hr; rcases hr with rfl | rfl <;> simp at hw) ht

/-- the built-in rules themselves: an entry called `.xvc` or `.git` is ignored at every depth -/
theorem C09_xvc_git_ignored (here : Str) :
    ignored globalRules (childPath here dotXvc) = true ∧ ignored globalRules (childPath here dotGit) = true :=
  ⟨ignored_of_global _ here _ (Or.inl rfl) (fun _ h => h)
      (fun r hr => by intro hw; rw [globalRules_eq] at hr; simp at hr; rcases hr with rfl | rfl <;> simp at hw),
   ignored_of_global _ here _ (Or.inr rfl) (fun _ h => h)
      (fun r hr => by intro hw; rw [globalRules_eq] at hr; simp at hr; rcases hr with rfl | rfl <;> simp at hw)⟩

/-- The excluded region is real: a whitelist line that matches `.git` (here `!.git`; `!.*` or `!*` do
    the same) beats the built-in ignore pattern because `check` asks the whitelist first — the walk
    enters `.git`. -/
theorem C09_whitelist_escape_counterexample :
    let t : Tree := .node "!.git\n".toList [".xvcignore".toList] [(".git".toList, .node [] ["config".toList] [])]
    "/.git/config".toList ∈ walkSpec t ∧ ¬ SafeWhite (Pattern.new (.file []) "!.git".toList) := by
  refine ⟨by decide, ?_⟩
  intro h
  have := (h (by decide) []).2
  revert this
  decide

def exTree2 : Tree :=
  .node ".DS_Store\n".toList [".xvcignore".toList, "d.txt".toList]
    [(".xvc".toList, .node [] ["config.toml".toList] []), (".git".toList, .node [] ["HEAD".toList] []),
     ("s".toList, .node [] ["e".toList] [(".git".toList, .node [] ["HEAD".toList] [])])]

example : (∀ r ∈ treePatterns [] exTree2, SafeWhite r) ∧
    walkSpec exTree2 = ["/.xvcignore", "/d.txt", "/s", "/s/e"].map String.toList := by
  refine ⟨?_, by decide⟩
  have e : treePatterns [] exTree2 = [Pattern.new (.file []) ".DS_Store".toList] := by decide
  intro r hr hw
  rw [e] at hr
  simp only [List.mem_singleton] at hr
  subst hr
  exact absurd hw (by decide)

end Ign

open Ign in
#print axioms C09_check_order_indep
open Ign in
#print axioms C09_check_perm
open Ign in
#print axioms C09_check_dup_swap
open Ign in
#print axioms C09_check_cases
open Ign in
#print axioms C09_whitelist_wins
open Ign in
#print axioms C09_check_chunked
open Ign in
#print axioms C09_check_chunks
open Ign in
#print axioms C09_literal_prefix
open Ign in
#print axioms C09_confined_local
open Ign in
#print axioms C09_new_confined
open Ign in
#print axioms C09_glob_not_negated
open Ign in
#print axioms C09_scoped
open Ign in
#print axioms C09_parallel_deterministic_of_confined
open Ign in
#print axioms C09_parallel_deterministic
open Ign in
#print axioms C09_every_schedule
open Ign in
#print axioms C09_two_runs_agree
open Ign in
#print axioms C09_escape_literal
open Ign in
#print axioms C09_confined_components
open Ign in
#print axioms C09_string_prefix_counterexample
open Ign in
#print axioms C09_rules_of_resolved_bytes
open Ign in
#print axioms C09_link_shapes
open Ign in
#print axioms C09_shape_independent
open Ign in
#print axioms C09_collect_deterministic
open Ign in
#print axioms C09_enum_order_indep
open Ign in
#print axioms C09_subtrees_congr
open Ign in
#print axioms C09_F8_old_glob_counterexample
open Ign in
#print axioms C09_ignored_dir_hides
open Ign in
#print axioms C09_emitted_below_start
open Ign in
#print axioms C09_never_enters_xvc_git
open Ign in
#print axioms C09_xvc_git_ignored
open Ign in
#print axioms C09_whitelist_escape_counterexample
