import XvcIgnore.GitIgnore
import XvcIgnore.Lemmas
/-!
  Lemmas for the C16 property theorems: editing the tree, reading it back, git's verdicts.
-/
namespace Ign.Git
open Ign

/-! ## `editAt` / `contentAt` -/

mutual
theorem contentAt_editAt_same (f : Str → Str) :
    ∀ (t : Tree) (d : List Str), contentAt d (editAt f d t) = (contentAt d t).map f
  | .node c files dirs, [] => by simp [editAt, contentAt]
  | .node c files dirs, c1 :: rest => by
    simp only [editAt, contentAt]
    exact contentAtDirs_editAtDirs_same f dirs c1 rest
theorem contentAtDirs_editAtDirs_same (f : Str → Str) :
    ∀ (ds : List (Str × Tree)) (c1 : Str) (rest : List Str),
      contentAtDirs c1 rest (editAtDirs f c1 rest ds) = (contentAtDirs c1 rest ds).map f
  | [], _, _ => by simp [contentAtDirs, editAtDirs]
  | (n, t) :: ds, c1, rest => by
    simp only [editAtDirs]
    by_cases hn : n = c1
    · simp only [hn, if_true, contentAtDirs]
      exact contentAt_editAt_same f t rest
    · simp only [hn, if_false, contentAtDirs]
      exact contentAtDirs_editAtDirs_same f ds c1 rest
end

mutual
theorem contentAt_editAt_other (f : Str → Str) :
    ∀ (t : Tree) (p d : List Str), p ≠ d → contentAt d (editAt f p t) = contentAt d t
  | .node c files dirs, [], [], h => absurd rfl h
  | .node c files dirs, [], d1 :: drest, _ => by simp [editAt, contentAt]
  | .node c files dirs, c1 :: rest, [], _ => by simp [editAt, contentAt]
  | .node c files dirs, c1 :: rest, d1 :: drest, h => by
    simp only [editAt, contentAt]
    exact contentAtDirs_editAtDirs_other f dirs c1 rest d1 drest h
theorem contentAtDirs_editAtDirs_other (f : Str → Str) :
    ∀ (ds : List (Str × Tree)) (c1 : Str) (rest : List Str) (d1 : Str) (drest : List Str), c1 :: rest ≠ d1 :: drest →
      contentAtDirs d1 drest (editAtDirs f c1 rest ds) = contentAtDirs d1 drest ds
  | [], _, _, _, _, _ => by simp [editAtDirs]
  | (n, t) :: ds, c1, rest, d1, drest, h => by
    simp only [editAtDirs]
    by_cases hn : n = c1
    · simp only [hn, if_true]
      simp only [contentAtDirs]
      by_cases hd : c1 = d1
      · subst hn; subst hd
        simp only [if_true]
        exact contentAt_editAt_other f t rest drest (fun e => h (by rw [e]))
      · subst hn; simp only [hd, if_false]
    · simp only [hn, if_false]
      simp only [contentAtDirs]
      by_cases hd : n = d1
      · simp only [hd, if_true]
      · simp only [hd, if_false]
        exact contentAtDirs_editAtDirs_other f ds c1 rest d1 drest h
end

theorem contentAt_editAt (f : Str → Str) (t : Tree) (p d : List Str) :
    contentAt d (editAt f p t) = if p = d then (contentAt d t).map f else contentAt d t := by
  by_cases h : p = d
  · subst h; simp only [if_true]; exact contentAt_editAt_same f t p
  · simp only [h, if_false]; exact contentAt_editAt_other f t p d h

/-! ## append-only -/

/-- every `.gitignore` of `t` is still there in `t'` and has its old bytes as a prefix; no directory
    appears or disappears -/
def Ext (t t' : Tree) : Prop :=
  ∀ d, match contentAt d t with
    | some old => ∃ suf, contentAt d t' = some (old ++ suf)
    | none => contentAt d t' = none

theorem Ext.refl (t : Tree) : Ext t t := by
  intro d; cases h : contentAt d t with
  | some old => exact ⟨[], by simp⟩
  | none => rfl

theorem Ext.trans {a b c : Tree} (h1 : Ext a b) (h2 : Ext b c) : Ext a c := by
  intro d
  have e1 := h1 d; have e2 := h2 d
  cases ha : contentAt d a with
  | some old =>
    rw [ha] at e1; obtain ⟨s1, hs1⟩ := e1
    rw [hs1] at e2; obtain ⟨s2, hs2⟩ := e2
    exact ⟨s1 ++ s2, by rw [hs2, List.append_assoc]⟩
  | none =>
    rw [ha] at e1; rw [e1] at e2; exact e2

/-- an edit function that only appends -/
def Appends (f : Str → Str) : Prop := ∀ c, ∃ s, f c = c ++ s

theorem ext_editAt (f : Str → Str) (hf : Appends f) (p : List Str) (t : Tree) : Ext t (editAt f p t) := by
  intro d
  rw [contentAt_editAt]
  cases h : contentAt d t with
  | some old =>
    by_cases hp : p = d
    · obtain ⟨s, hs⟩ := hf old
      exact ⟨s, by simp [hp, hs]⟩
    · exact ⟨[], by simp [hp]⟩
  | none => by_cases hp : p = d <;> simp [hp]

theorem ext_foldl {α} (g : α → Str → Str) (dir : α → List Str) (hg : ∀ a, Appends (g a)) :
    ∀ (l : List α) (t : Tree), Ext t (l.foldl (fun t a => editAt (g a) (dir a) t) t)
  | [], t => Ext.refl t
  | a :: l, t => by
    simp only [List.foldl_cons]
    exact Ext.trans (ext_editAt (g a) (hg a) (dir a) t) (ext_foldl g dir hg l _)

theorem ext_writeGroups (date : Str) (keep : List Target) (line : Target → Str) (t : Tree) :
    Ext t (writeGroups date keep line t) := by
  unfold writeGroups
  exact ext_foldl (fun d old => old ++ appendText old ((keep.filter (·.dir = d)).map line) date) id
    (fun d c => ⟨_, rfl⟩) _ t

/-! ## reading the tree back -/

theorem mem_dedup {α} [DecidableEq α] (x : α) : ∀ l : List α, x ∈ dedup l ↔ x ∈ l
  | [] => by simp [dedup]
  | y :: ys => by
    unfold dedup
    by_cases h : y ∈ ys
    · simp only [h, if_true, mem_dedup x ys, List.mem_cons]
      constructor
      · exact Or.inr
      · rintro (rfl | h') <;> assumption
    · simp only [h, if_false, List.mem_cons, mem_dedup x ys]

theorem nodup_dedup {α} [DecidableEq α] : ∀ l : List α, (dedup l).Nodup
  | [] => by simp [dedup]
  | y :: ys => by
    unfold dedup
    by_cases h : y ∈ ys
    · simp only [h, if_true]; exact nodup_dedup ys
    · simp only [h, if_false, List.nodup_cons]
      exact ⟨fun hm => h ((mem_dedup y ys).1 hm), nodup_dedup ys⟩

theorem contentAt_foldl (g : List Str → Str → Str) (D : List Str) :
    ∀ (l : List (List Str)) (t : Tree), l.Nodup →
      contentAt D (l.foldl (fun t d => editAt (g d) d t) t) =
        if D ∈ l then (contentAt D t).map (g D) else contentAt D t
  | [], t, _ => by simp
  | a :: l, t, hn => by
    simp only [List.foldl_cons]
    rw [contentAt_foldl g D l _ (List.nodup_cons.1 hn).2, contentAt_editAt]
    by_cases ha : a = D
    · subst ha
      have : a ∉ l := (List.nodup_cons.1 hn).1
      simp [this]
    · have : ¬ D = a := fun e => ha e.symm
      simp only [ha, if_false, List.mem_cons, this, false_or]

mutual
theorem contentsAlong_length : ∀ (t : Tree) (comps : List Str), (contentsAlong t comps).length = comps.length
  | _, [] => by simp [contentsAlong]
  | .node c _ _, [_] => by simp [contentsAlong]
  | .node c _ dirs, c1 :: c2 :: rest => by
    simp only [contentsAlong, List.length_cons]
    rw [contentsAlongDirs_length dirs c1 (c2 :: rest)]
    simp
theorem contentsAlongDirs_length : ∀ (ds : List (Str × Tree)) (c1 : Str) (rest : List Str),
    (contentsAlongDirs ds c1 rest).length = rest.length
  | [], _, _ => by simp [contentsAlongDirs]
  | (n, t) :: ds, c1, rest => by
    simp only [contentsAlongDirs]
    split
    · exact contentsAlong_length t rest
    · exact contentsAlongDirs_length ds c1 rest
end

mutual
/-- the deepest `.gitignore` on the way to `D/name` is the one of `D` -/
theorem contentsAlong_last : ∀ (t : Tree) (D : List Str) (name : Str) (c : Str), contentAt D t = some c →
    ∃ init, contentsAlong t (D ++ [name]) = init ++ [c] ∧ init.length = D.length
  | .node c0 _ _, [], name, c, h => by
    simp only [contentAt, Option.some.injEq] at h; subst h
    exact ⟨[], by simp [contentsAlong]⟩
  | .node c0 _ dirs, c1 :: rest, name, c, h => by
    simp only [contentAt] at h
    obtain ⟨init, hi, hl⟩ := contentsAlongDirs_last dirs c1 rest name c h
    refine ⟨c0 :: init, ?_, by simp [hl]⟩
    cases rest with
    | nil => simp only [List.nil_append] at hi; simp only [List.cons_append, List.nil_append, contentsAlong, hi]
    | cons r1 r => simp only [List.cons_append] at hi; simp only [List.cons_append, contentsAlong, hi]
theorem contentsAlongDirs_last : ∀ (ds : List (Str × Tree)) (c1 : Str) (rest : List Str) (name : Str) (c : Str),
    contentAtDirs c1 rest ds = some c →
    ∃ init, contentsAlongDirs ds c1 (rest ++ [name]) = init ++ [c] ∧ init.length = rest.length
  | [], _, _, _, _, h => by simp [contentAtDirs] at h
  | (n, t) :: ds, c1, rest, name, c, h => by
    simp only [contentAtDirs] at h
    simp only [contentsAlongDirs]
    by_cases hn : n = c1
    · simp only [hn, if_true] at h ⊢
      exact contentsAlong_last t rest name c h
    · simp only [hn, if_false] at h ⊢
      exact contentsAlongDirs_last ds c1 rest name c h
end

/-! ## git's verdict -/

theorem lastMatch_append (A B : List GPat) (rel : List Str) (d : Bool) :
    lastMatch (A ++ B) rel d = match lastMatch B rel d with | some v => some v | none => lastMatch A rel d := by
  induction A with
  | nil => simp only [List.nil_append, lastMatch]; cases lastMatch B rel d <;> rfl
  | cons g A ih =>
    simp only [List.cons_append, lastMatch, ih]
    cases lastMatch B rel d <;> rfl

theorem lastMatch_nonneg (B : List GPat) (rel : List Str) (d : Bool) (hn : ∀ g ∈ B, g.neg = false)
    (g0 : GPat) (h0 : g0 ∈ B) (hm : g0.matches rel d = true) : lastMatch B rel d = some false := by
  induction B with
  | nil => simp at h0
  | cons g B ih =>
    simp only [lastMatch]
    rcases List.mem_cons.1 h0 with rfl | h
    · cases hl : lastMatch B rel d with
      | some v =>
        -- a later line matched: it is not a negation either
        have : ∀ (B : List GPat), (∀ g ∈ B, g.neg = false) → ∀ v, lastMatch B rel d = some v → v = false := by
          intro B
          induction B with
          | nil => intro _ v h; simp [lastMatch] at h
          | cons g B ih =>
            intro hn v h
            simp only [lastMatch] at h
            cases hl : lastMatch B rel d with
            | some w => rw [hl] at h; simp only [Option.some.injEq] at h; subst h; exact ih (fun g hg => hn g (by simp [hg])) w hl
            | none =>
              rw [hl] at h
              by_cases hg : g.matches rel d = true
              · simp only [hg, if_true, Option.some.injEq] at h; rw [← h]; exact hn g (by simp)
              · simp [hg] at h
        rw [this B (fun g hg => hn g (by simp [hg])) v hl]
      | none => simp [hm, hn g0 (by simp)]
    · rw [ih (fun g hg => hn g (by simp [hg])) h]

theorem lastMatch_val_of_nonneg (rel : List Str) (d : Bool) :
    ∀ (B : List GPat), (∀ g ∈ B, g.neg = false) → ∀ v, lastMatch B rel d = some v → v = false := by
  intro B
  induction B with
  | nil => intro _ v h; simp [lastMatch] at h
  | cons g B ih =>
    intro hn v h
    simp only [lastMatch] at h
    cases hl : lastMatch B rel d with
    | some w => rw [hl] at h; simp only [Option.some.injEq] at h; subst h; exact ih (fun g hg => hn g (by simp [hg])) w hl
    | none =>
      rw [hl] at h
      by_cases hg : g.matches rel d = true
      · simp only [hg, if_true, Option.some.injEq] at h; rw [← h]; exact hn g (by simp)
      · simp [hg] at h

theorem verdict_last (last : Str) (name : Str) (d : Bool) (h : lastMatch (parseContent last) [name] d = some false) :
    ∀ (init : List Str) (pre : List Str), init.length = pre.length →
      verdict (init ++ [last]) (pre ++ [name]) d = some false
  | [], [], _ => by simp [verdict, h]
  | [], _ :: _, hl => by simp at hl
  | _ :: _, [], hl => by simp at hl
  | c :: init, p :: pre, hl => by
    simp only [List.cons_append, verdict, List.drop_succ_cons, List.drop_zero]
    rw [verdict_last last name d h init pre (by simpa using hl)]

theorem ignoredBy_of_verdict (stack : List Str) (comps : List Str) (d : Bool) (hne : comps ≠ [])
    (hl : stack.length = comps.length) (h : verdict stack comps d = some false) : ignoredBy stack comps d = true := by
  unfold ignoredBy
  rw [List.any_eq_true]
  refine ⟨comps.length - 1, ?_, ?_⟩
  · simp only [List.mem_range]
    cases comps with
    | nil => exact absurd rfl hne
    | cons c cs => simp
  · have hpos : 0 < comps.length := by cases comps with | nil => exact absurd rfl hne | cons c cs => simp
    have e : comps.length - 1 + 1 = comps.length := by omega
    rw [e, List.take_of_length_le (by omega), List.take_of_length_le (by omega)]
    simp [h]

/-! ## lines -/

theorem rustLinesAux_split (b : Str) : ∀ (a acc : Str),
    rustLinesAux acc (a ++ '\n' :: b) = rustLinesAux acc (a ++ ['\n']) ++ rustLinesAux [] b
  | [], acc => by simp [rustLinesAux]
  | c :: a, acc => by
    simp only [List.cons_append, rustLinesAux]
    by_cases hc : c = '\n'
    · simp only [hc, if_true, List.cons_append]; rw [rustLinesAux_split b a []]
    · simp only [hc, if_false]; exact rustLinesAux_split b a (c :: acc)

theorem rustLinesAux_line : ∀ (l acc : Str), '\n' ∉ l → rustLinesAux acc (l ++ ['\n']) = [lineOfAcc (l.reverse ++ acc)]
  | [], acc, _ => by simp [rustLinesAux]
  | c :: l, acc, h => by
    have hc : c ≠ '\n' := fun e => h (by simp [e])
    simp only [List.cons_append, rustLinesAux, hc, if_false]
    rw [rustLinesAux_line l (c :: acc) (fun hm => h (by simp [hm]))]
    simp

theorem rustLines_joinWith : ∀ (lines : List Str), lines ≠ [] → (∀ l ∈ lines, '\n' ∉ l) →
    rustLines (appendText.joinWith lines ++ ['\n']) = lines.map (fun l => lineOfAcc l.reverse)
  | [], h, _ => absurd rfl h
  | [l], _, hl => by
    simp only [appendText.joinWith, rustLines, List.map_cons, List.map_nil]
    rw [rustLinesAux_line l [] (hl l (by simp))]; simp
  | l :: l2 :: r, _, hl => by
    have e : appendText.joinWith (l :: l2 :: r) ++ ['\n'] = l ++ '\n' :: (appendText.joinWith (l2 :: r) ++ ['\n']) := by
      simp [appendText.joinWith]
    rw [e]
    unfold rustLines
    rw [rustLinesAux_split, rustLinesAux_line l [] (hl l (by simp))]
    have ih := rustLines_joinWith (l2 :: r) (by simp) (fun x hx => hl x (by simp [hx]))
    unfold rustLines at ih
    rw [ih]; simp

/-! ## parsing the lines xvc writes -/


theorem tts_cons_plain (c : Char) (r : Str) (hc : c ≠ '\\') :
    trimTrailingSpaces (c :: r) = if c = ' ' ∧ trimTrailingSpaces r = [] then [] else c :: trimTrailingSpaces r := by
  conv => lhs; unfold trimTrailingSpaces
  split <;> simp_all

theorem tts_id : ∀ s : Str, '\\' ∉ s → s.getLast? ≠ some ' ' → trimTrailingSpaces s = s
  | [], _, _ => by simp [trimTrailingSpaces]
  | c :: r, hb, hl => by
    have h1 : c ≠ '\\' := fun e => hb (by simp [e])
    rw [tts_cons_plain c r h1]
    cases r with
    | nil =>
      have h2 : c ≠ ' ' := fun e => hl (by simp [e])
      simp [trimTrailingSpaces, h2]
    | cons c2 r =>
      have ih := tts_id (c2 :: r) (fun h => hb (by simp [h])) (by simpa [List.getLast?_cons_cons] using hl)
      rw [ih]; simp

theorem mkPat2_neg (neg d : Bool) (l : Str) (g : GPat) (h : mkPat2 neg d l = some g) : g.neg = neg := by
  unfold mkPat2 at h
  split at h
  · cases h
  · simp only [Option.some.injEq] at h; rw [← h]

theorem mkPat_neg (neg : Bool) (l : Str) (g : GPat) (h : mkPat neg l = some g) : g.neg = neg := by
  unfold mkPat at h
  split at h <;> exact mkPat2_neg _ _ _ _ h

theorem parseLine_slash_nonneg (s : Str) (g : GPat) (h : parseLine ('/' :: s) = some g) : g.neg = false := by
  have hr : trimTrailingSpaces ('/' :: s) = '/' :: trimTrailingSpaces s := by
    rw [tts_cons_plain _ _ (by decide)]; simp
  unfold parseLine at h
  simp only [hr, List.cons_ne_nil, List.head?_cons, Option.some.injEq, false_or,
    show ¬ ('/' = '#') by decide, show ¬ ('/' = '!') by decide, if_false] at h
  exact mkPat_neg _ _ _ h

/-- a name that, written as `/name`, is a literal pattern for git: no glob metacharacter, no
    separator, no line break, no trailing blank -/
def PlainName (n : Str) : Prop :=
  n ≠ [] ∧ (∀ c ∈ n, plainChar c = true ∧ c ≠ '/' ∧ c ≠ '\n' ∧ c ≠ '\r') ∧ n.getLast? ≠ some ' '

instance (n : Str) : Decidable (PlainName n) := by unfold PlainName; infer_instance

theorem parseLine_plain (n : Str) (hn : PlainName n) : parseLine ('/' :: n) = some ⟨false, false, true, n⟩ := by
  obtain ⟨hne, hall, hlast⟩ := hn
  have hb : '\\' ∉ ('/' :: n) := by
    intro h; rcases List.mem_cons.1 h with h | h
    · exact absurd h (by decide)
    · have := (hall _ h).1; simp [plainChar] at this
  have hl : ('/' :: n).getLast? = n.getLast? := by
    cases n with | nil => exact absurd rfl hne | cons c r => simp [List.getLast?_cons_cons]
  have hr : trimTrailingSpaces ('/' :: n) = '/' :: n := tts_id _ hb (by rw [hl]; exact hlast)
  have hns : n.getLast? ≠ some '/' := by
    intro h
    have : '/' ∈ n := List.mem_of_getLast? h
    exact (hall _ this).2.1 rfl
  unfold parseLine
  simp only [hr, List.cons_ne_nil, List.head?_cons, Option.some.injEq, false_or,
    show ¬ ('/' = '#') by decide, show ¬ ('/' = '!') by decide, if_false]
  unfold mkPat mkPat2
  simp [hl, hns]

/-! ## a literal pattern matches itself -/

theorem matchToks_lits_self : ∀ n : Str, matchToks (n.map .lit) n = true
  | [] => by simp [matchToks]
  | c :: n => by simp [matchToks, matchToks_lits_self n]

theorem globMatch_plain_self (n : Str) (hn : ∀ c ∈ n, plainChar c = true) : globMatch n n = true := by
  unfold globMatch globToks
  have h1 := unescape_plain_append n [] hn
  simp only [List.append_nil, unescape] at h1
  rw [h1]
  obtain ⟨s', hs⟩ := tokenize_plain_append true n [] hn
  simp only [List.append_nil] at hs
  rw [hs]
  have : tokenize s' CMode.normal [] = [] := by cases s' <;> simp [tokenize]
  rw [this, List.append_nil]
  exact matchToks_lits_self n

theorem lineOfAcc_slash (s : Str) : ∃ r, lineOfAcc (('/' :: s).reverse) = '/' :: r := by
  simp only [List.reverse_cons]
  unfold lineOfAcc
  split
  · rename_i a heq
    -- s.reverse ++ ['/'] = '\r' :: a
    cases hs : s.reverse with
    | nil => rw [hs] at heq; simp at heq
    | cons c r =>
      rw [hs] at heq
      simp only [List.cons_append, List.cons.injEq] at heq
      refine ⟨r.reverse, ?_⟩
      rw [← heq.2]; simp
  · exact ⟨s, by simp⟩

theorem lineOfAcc_plain (n : Str) (hn : PlainName n) : lineOfAcc (('/' :: n).reverse) = '/' :: n := by
  obtain ⟨hne, hall, _⟩ := hn
  simp only [List.reverse_cons]
  unfold lineOfAcc
  split
  · rename_i a heq
    cases hs : n.reverse with
    | nil => simp at hs; exact absurd hs hne
    | cons c r =>
      rw [hs] at heq
      simp only [List.cons_append, List.cons.injEq] at heq
      have : c ∈ n := by rw [← List.mem_reverse, hs]; simp
      exact absurd heq.1 (hall c this).2.2.2
  · simp

/-! ## after an update the written target is ignored by git -/

/-- the content of a `.gitignore` after xvc appended the lines `lines`: whatever was there, the last
    matching pattern for `name` is one of the appended, non-negated ones -/
theorem lastMatch_appended (old date : Str) (names : List Str) (name : Str) (hmem : name ∈ names)
    (hname : PlainName name) (hsane : ∀ y ∈ names, '\n' ∉ y) (d : Bool) :
    lastMatch (parseContent (old ++ appendText old (names.map (fun y => '/' :: y)) date)) [name] d = some false := by
  have hne : names.map (fun y => '/' :: y) ≠ [] := by
    intro h; rw [List.map_eq_nil_iff] at h; rw [h] at hmem; simp at hmem
  have hl : ∀ l ∈ names.map (fun y => '/' :: y), '\n' ∉ l := by
    intro l hl
    obtain ⟨y, hy, rfl⟩ := List.mem_map.1 hl
    intro h; rcases List.mem_cons.1 h with h | h
    · exact absurd h (by decide)
    · exact hsane y hy h
  -- shape: X ++ '\n' :: (joinWith lines ++ ['\n'])
  obtain ⟨X, hX⟩ : ∃ X, old ++ appendText old (names.map (fun y => '/' :: y)) date =
      X ++ '\n' :: (appendText.joinWith (names.map (fun y => '/' :: y)) ++ ['\n']) :=
    ⟨old ++ ((if old ≠ [] ∧ old.getLast? ≠ some '\n' then ['\n'] else []) ++ "### Following ".toList ++
        natStr (names.map (fun y => '/' :: y)).length ++ " lines are added by xvc on ".toList ++ date), by
      simp [appendText, List.append_assoc]⟩
  rw [hX]
  unfold parseContent rustLines
  rw [rustLinesAux_split, List.filterMap_append, lastMatch_append]
  have hj := rustLines_joinWith _ hne hl
  unfold rustLines at hj
  rw [hj]
  have key : lastMatch (List.filterMap parseLine
      ((names.map (fun y => '/' :: y)).map (fun l => lineOfAcc l.reverse))) [name] d = some false := by
    apply lastMatch_nonneg _ _ _ ?_ ⟨false, false, true, name⟩
    · rw [List.mem_filterMap]
      refine ⟨'/' :: name, ?_, parseLine_plain name hname⟩
      rw [List.mem_map]
      exact ⟨'/' :: name, List.mem_map.2 ⟨name, hmem, rfl⟩, lineOfAcc_plain name hname⟩
    · simp only [GPat.matches, Bool.not_false, Bool.true_or, Bool.true_and, if_true]
      exact globMatch_plain_self name (fun c hc => (hname.2.1 c hc).1)
    · intro g hg
      rw [List.mem_filterMap] at hg
      obtain ⟨l, hl', hp⟩ := hg
      obtain ⟨l0, hl0, rfl⟩ := List.mem_map.1 hl'
      obtain ⟨y, _, rfl⟩ := List.mem_map.1 hl0
      obtain ⟨r, hr⟩ := lineOfAcc_slash y
      rw [hr] at hp
      exact parseLine_slash_nonneg r g hp
  rw [key]

theorem ignored_after_writeGroups (date : Str) (keep : List Target) (t : Tree) (x : Target) (hx : x ∈ keep)
    (hname : PlainName x.name) (hsane : ∀ y ∈ keep, '\n' ∉ y.name) (hD : (contentAt x.dir t).isSome = true) :
    gitIgnored (writeGroups date keep (fun f => '/' :: f.name) t) (x.dir ++ [x.name]) false = true := by
  obtain ⟨old, hold⟩ := Option.isSome_iff_exists.1 hD
  have hc : contentAt x.dir (writeGroups date keep (fun f => '/' :: f.name) t) =
      some (old ++ appendText old (((keep.filter (·.dir = x.dir)).map (·.name)).map (fun y => '/' :: y)) date) := by
    unfold writeGroups
    rw [contentAt_foldl (fun d old => old ++ appendText old ((keep.filter (·.dir = d)).map (fun f => '/' :: f.name)) date)
      x.dir _ t (nodup_dedup _)]
    have : x.dir ∈ dedup (keep.map (·.dir)) := (mem_dedup _ _).2 (List.mem_map.2 ⟨x, hx, rfl⟩)
    simp only [this, if_true, hold, Option.map_some, List.map_map]
    rfl
  obtain ⟨init, hi, hlen⟩ := contentsAlong_last _ x.dir x.name _ hc
  unfold gitIgnored
  apply ignoredBy_of_verdict _ _ _ (by simp)
  · rw [contentsAlong_length]
  · rw [hi]
    apply verdict_last _ _ _ _ init x.dir hlen
    apply lastMatch_appended old date _ x.name _ hname
    · intro y hy
      obtain ⟨z, hz, rfl⟩ := List.mem_map.1 hy
      exact hsane z (List.mem_filter.1 hz).1
    · exact List.mem_map.2 ⟨x, List.mem_filter.2 ⟨hx, by simp⟩, rfl⟩

/-! ## the cache -/

/-- lines of a text whose first part ends with a newline -/
theorem rustLines_append_nl (a b : Str) : rustLines (a ++ '\n' :: b) = rustLines (a ++ ['\n']) ++ rustLines b := by
  unfold rustLines; exact rustLinesAux_split b a []

theorem parseContent_append_nl (a b : Str) :
    parseContent (a ++ '\n' :: b) = parseContent (a ++ ['\n']) ++ parseContent b := by
  unfold parseContent; rw [rustLines_append_nl, List.filterMap_append]

/-- a literal glob matches only itself -/
theorem globMatch_plain_eq (n p : Str) (hn : ∀ c ∈ n, plainChar c = true) (h : globMatch n p = true) : p = n := by
  unfold globMatch globToks at h
  have h1 := unescape_plain_append n [] hn
  simp only [List.append_nil, unescape] at h1
  rw [h1] at h
  obtain ⟨s', hs⟩ := tokenize_plain_append true n [] hn
  simp only [List.append_nil] at hs
  rw [hs] at h
  have : tokenize s' CMode.normal [] = [] := by cases s' <;> simp [tokenize]
  rw [this] at h
  obtain ⟨q, hq, hm⟩ := matchToks_lits n [] p h
  cases q with
  | nil => simpa using hq
  | cons c q => simp [matchToks] at hm

theorem starLoop_noslash (k : Str → Bool) (hk : k [] = true) : ∀ c : Str, '/' ∉ c → starLoop k c = true
  | [], _ => by simp [starLoop, hk]
  | x :: xs, h => by
    have hx : x ≠ '/' := fun e => h (by simp [e])
    have ih := starLoop_noslash k hk xs (fun hm => h (by simp [hm]))
    simp only [starLoop, ih, Bool.and_true, Bool.or_eq_true, bne_iff_ne, ne_eq]
    exact Or.inr hx

/-- `.xvc/*` matches every entry directly inside `.xvc` -/
theorem xvcStar_matches (c : Str) (hc : '/' ∉ c) : globMatch ".xvc/*".toList (".xvc/".toList ++ c) = true := by
  have ht : globToks ".xvc/*".toList = ".xvc/".toList.map .lit ++ [.star] := by decide
  unfold globMatch
  rw [ht]
  have : ∀ (d : Str) (p : Str), matchToks (d.map .lit ++ [.star]) (d ++ p) = starLoop (matchToks []) p := by
    intro d
    induction d with
    | nil => intro p; simp [matchToks]
    | cons x d ih => intro p; simp [matchToks, ih]
  rw [this]
  exact starLoop_noslash _ (by simp [matchToks]) c hc

/-! ## the lines that were there stay the first lines -/

theorem rustLinesAux_complete : ∀ (a acc : Str), a ≠ [] → a.getLast? ≠ some '\n' → a.getLast? ≠ some '\r' →
    rustLinesAux acc (a ++ ['\n']) = rustLinesAux acc a
  | [], _, h, _, _ => absurd rfl h
  | [c], acc, _, h1, h2 => by
    have c1 : c ≠ '\n' := fun e => h1 (by simp [e])
    have c2 : c ≠ '\r' := fun e => h2 (by simp [e])
    simp only [List.cons_append, List.nil_append, rustLinesAux, c1, if_false, if_true, List.isEmpty_cons, Bool.false_eq_true]
    unfold lineOfAcc
    split
    · rename_i a heq; simp only [List.cons.injEq] at heq; exact absurd heq.1 c2
    · rfl
  | c :: c2 :: r, acc, _, h1, h2 => by
    have ih := fun acc' => rustLinesAux_complete (c2 :: r) acc' (by simp) (by simpa [List.getLast?_cons_cons] using h1)
      (by simpa [List.getLast?_cons_cons] using h2)
    simp only [List.cons_append] at ih ⊢
    conv => lhs; unfold rustLinesAux
    conv => rhs; unfold rustLinesAux
    by_cases hc : c = '\n'
    · simp only [hc, if_true]; rw [ih []]
    · simp only [hc, if_false]
      exact ih (c :: acc)

theorem appendText_fresh (old : Str) (lines : List Str) (date : Str)
    (h1 : old ≠ []) (h2 : old.getLast? ≠ some '\n') : ∃ r, appendText old lines date = '\n' :: r := by
  simp only [appendText, h1, h2, ne_eq, not_false_eq_true, and_self, if_true, List.append_assoc, List.cons_append,
    List.nil_append]
  exact ⟨_, rfl⟩

theorem lines_prefix_appendText (old : Str) (lines : List Str) (date : Str) (hr : old.getLast? ≠ some '\r') :
    rustLines old <+: rustLines (old ++ appendText old lines date) := by
  by_cases h1 : old = []
  · subst h1; simp [rustLines, rustLinesAux]
  · by_cases h2 : old.getLast? = some '\n'
    · obtain ⟨a, rfl⟩ := List.getLast?_eq_some_iff.1 h2
      have e : rustLines (a ++ ['\n'] ++ appendText (a ++ ['\n']) lines date) =
          rustLines (a ++ ['\n']) ++ rustLines (appendText (a ++ ['\n']) lines date) := by
        rw [List.append_assoc, List.singleton_append]; exact rustLines_append_nl _ _
      rw [e]
      exact List.prefix_append _ _
    · obtain ⟨r, hr'⟩ := appendText_fresh old lines date h1 h2
      rw [hr', rustLines_append_nl]
      have : rustLines (old ++ ['\n']) = rustLines old := by
        unfold rustLines; exact rustLinesAux_complete old [] h1 h2 hr
      rw [this]
      exact List.prefix_append _ _

/-- one batch of groups: every `.gitignore` keeps its lines as the first lines -/
theorem lines_prefix_writeGroups (date : Str) (keep : List Target) (line : Target → Str) (t : Tree)
    (d : List Str) (old : Str) (hc : contentAt d t = some old) (hr : old.getLast? ≠ some '\r') :
    ∃ new, contentAt d (writeGroups date keep line t) = some new ∧ rustLines old <+: rustLines new ∧
      new.getLast? ≠ some '\r' := by
  unfold writeGroups
  rw [contentAt_foldl (fun d old => old ++ appendText old ((keep.filter (·.dir = d)).map line) date) d _ t (nodup_dedup _)]
  by_cases hm : d ∈ dedup (keep.map (·.dir))
  · simp only [hm, if_true, hc, Option.map_some]
    refine ⟨_, rfl, lines_prefix_appendText old _ date hr, ?_⟩
    -- the appended text ends with a newline
    obtain ⟨x, hx⟩ : ∃ x, appendText old ((keep.filter (·.dir = d)).map line) date = x ++ ['\n'] := ⟨_, rfl⟩
    rw [hx, ← List.append_assoc, List.getLast?_append]
    simp
  · simp only [hm, if_false]
    exact ⟨old, hc, List.prefix_refl _, hr⟩

end Ign.Git
