import XvcIgnore.GitIgnore
import XvcIgnore.Lemmas
namespace Ign.Git
end Ign.Git
