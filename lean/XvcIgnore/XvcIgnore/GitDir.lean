import XvcIgnore.GitLemmas
import XvcIgnore.GitMono
/-!
  # Directory targets (`/name/` lines of `update_dir_gitignores`) — helper lemmas for Props/C16.lean

  After xvc appended `/name/` to the `.gitignore` of `D`, git excludes the directory `D/name` and with it
  every entry below ("it is not possible to re-include a file if a parent directory of that file is
  excluded").
-/
namespace Ign.Git
open Ign

theorem getLast?_cons_append_single (c e : Char) (n : Str) : (c :: (n ++ [e])).getLast? = some e := by
  rw [show c :: (n ++ [e]) = (c :: n) ++ [e] by simp, List.getLast?_append]
  simp

theorem parseLine_plain_dir (n : Str) (hn : PlainName n) :
    parseLine ('/' :: (n ++ ['/'])) = some ⟨false, true, true, n⟩ := by
  obtain ⟨hne, hall, _⟩ := hn
  have hb : '\\' ∉ ('/' :: (n ++ ['/'])) := by
    intro h
    rcases List.mem_cons.1 h with h | h
    · exact absurd h (by decide)
    · rcases List.mem_append.1 h with h | h
      · have := (hall _ h).1; simp [plainChar] at this
      · simp at h
  have hl : ('/' :: (n ++ ['/'])).getLast? = some '/' := getLast?_cons_append_single _ _ _
  have hr : trimTrailingSpaces ('/' :: (n ++ ['/'])) = '/' :: (n ++ ['/']) := tts_id _ hb (by rw [hl]; decide)
  have hd : ('/' :: (n ++ ['/'])).dropLast = '/' :: n := by
    rw [show '/' :: (n ++ ['/']) = ('/' :: n) ++ ['/'] by simp, List.dropLast_concat]
  unfold parseLine
  simp only [hr, List.cons_ne_nil, List.head?_cons, Option.some.injEq, false_or,
    show ¬ ('/' = '#') by decide, show ¬ ('/' = '!') by decide, if_false]
  unfold mkPat
  rw [hl, hd]
  unfold mkPat2
  simp

theorem lineOfAcc_plain_dir (n : Str) : lineOfAcc (('/' :: (n ++ ['/'])).reverse) = '/' :: (n ++ ['/']) := by
  have : ('/' :: (n ++ ['/'])).reverse = '/' :: (n.reverse ++ ['/']) := by simp
  rw [this]
  unfold lineOfAcc
  split
  · rename_i a heq
    simp only [List.cons.injEq] at heq
    exact absurd heq.1 (by decide)
  · simp

/-- the content of a `.gitignore` after xvc appended the directory lines `/y/`: whatever was there, the
    last matching pattern for the directory `name` is one of the appended, non-negated ones -/
theorem lastMatch_appended_dir (old date : Str) (names : List Str) (name : Str) (hmem : name ∈ names)
    (hname : PlainName name) (hsane : ∀ y ∈ names, '\n' ∉ y) :
    lastMatch (parseContent (old ++ appendText old (names.map (fun y => '/' :: (y ++ ['/']))) date)) [name] true = some false := by
  have hne : names.map (fun y => '/' :: (y ++ ['/'])) ≠ [] := by
    intro h; rw [List.map_eq_nil_iff] at h; rw [h] at hmem; simp at hmem
  have hl : ∀ l ∈ names.map (fun y => '/' :: (y ++ ['/'])), '\n' ∉ l := by
    intro l hl
    obtain ⟨y, hy, rfl⟩ := List.mem_map.1 hl
    intro h; rcases List.mem_cons.1 h with h | h
    · exact absurd h (by decide)
    · rcases List.mem_append.1 h with h | h
      · exact hsane y hy h
      · simp at h
  obtain ⟨X, hX⟩ : ∃ X, old ++ appendText old (names.map (fun y => '/' :: (y ++ ['/']))) date =
      X ++ '\n' :: (appendText.joinWith (names.map (fun y => '/' :: (y ++ ['/']))) ++ ['\n']) :=
    ⟨old ++ ((if old ≠ [] ∧ old.getLast? ≠ some '\n' then ['\n'] else []) ++ "### Following ".toList ++
        natStr (names.map (fun y => '/' :: (y ++ ['/']))).length ++ " lines are added by xvc on ".toList ++ date), by
      simp [appendText, List.append_assoc]⟩
  rw [hX]
  unfold parseContent rustLines
  rw [rustLinesAux_split, List.filterMap_append, lastMatch_append]
  have hj := rustLines_joinWith _ hne hl
  unfold rustLines at hj
  rw [hj]
  have key : lastMatch (List.filterMap parseLine
      ((names.map (fun y => '/' :: (y ++ ['/']))).map (fun l => lineOfAcc l.reverse))) [name] true = some false := by
    apply lastMatch_nonneg _ _ _ ?_ ⟨false, true, true, name⟩
    · rw [List.mem_filterMap]
      refine ⟨'/' :: (name ++ ['/']), ?_, parseLine_plain_dir name hname⟩
      rw [List.mem_map]
      exact ⟨'/' :: (name ++ ['/']), List.mem_map.2 ⟨name, hmem, rfl⟩, lineOfAcc_plain_dir name⟩
    · simp only [GPat.matches, Bool.not_true, Bool.false_or, Bool.true_and, if_true, joinSlash]
      exact globMatch_plain_self name (fun c hc => (hname.2.1 c hc).1)
    · intro g hg
      rw [List.mem_filterMap] at hg
      obtain ⟨l, hl', hp⟩ := hg
      obtain ⟨l0, hl0, rfl⟩ := List.mem_map.1 hl'
      obtain ⟨y, _, rfl⟩ := List.mem_map.1 hl0
      obtain ⟨r, hr⟩ := lineOfAcc_slash (y ++ ['/'])
      rw [hr] at hp
      exact parseLine_slash_nonneg r g hp
  rw [key]

mutual
/-- the `.gitignore` files on the way to a prefix of a path are a prefix of those on the way to the path -/
theorem contentsAlong_take : ∀ (t : Tree) (P rest : List Str),
    (contentsAlong t (P ++ rest)).take P.length = contentsAlong t P
  | _, [], rest => by simp [contentsAlong]
  | .node c _ _, [a], [] => by simp [contentsAlong]
  | .node c _ dirs, [a], r :: rs => by simp [contentsAlong]
  | .node c _ dirs, a :: b :: P', rest => by
    simp only [List.cons_append, contentsAlong, List.length_cons, List.take_succ_cons]
    have := contentsAlongDirs_take dirs a (b :: P') rest
    simp only [List.cons_append, List.length_cons] at this
    rw [this]
theorem contentsAlongDirs_take : ∀ (ds : List (Str × Tree)) (c1 : Str) (R rest : List Str),
    (contentsAlongDirs ds c1 (R ++ rest)).take R.length = contentsAlongDirs ds c1 R
  | [], _, R, rest => by simp [contentsAlongDirs]
  | (n, t) :: ds, c1, R, rest => by
    simp only [contentsAlongDirs]
    split
    · exact contentsAlong_take t R rest
    · exact contentsAlongDirs_take ds c1 R rest
end

/-- an excluded directory excludes everything below it -/
theorem ignoredBy_below (t : Tree) (P below : List Str) (isDir : Bool) (hP : P ≠ [])
    (h : verdict (contentsAlong t P) P true = some false) (hb : below ≠ [] ∨ isDir = true) :
    gitIgnored t (P ++ below) isDir = true := by
  unfold gitIgnored ignoredBy
  rw [List.any_eq_true]
  have hpos : 0 < P.length := by cases P with | nil => exact absurd rfl hP | cons c cs => simp
  refine ⟨P.length - 1, ?_, ?_⟩
  · simp only [List.mem_range, List.length_append]; omega
  · have e : P.length - 1 + 1 = P.length := by omega
    rw [e, contentsAlong_take, List.take_left']
    · have hflag : (isDir || decide (P.length < (P ++ below).length)) = true := by
        rcases hb with hb | hb
        · have : 0 < below.length := by cases below with | nil => exact absurd rfl hb | cons c cs => simp
          simp only [List.length_append, Bool.or_eq_true, decide_eq_true_eq]; right; omega
        · simp [hb]
      rw [hflag, h]; rfl
    · rfl

theorem dir_ignored_after_writeGroups (date : Str) (keep : List Target) (t : Tree) (x : Target) (hx : x ∈ keep)
    (hname : PlainName x.name) (hsane : ∀ y ∈ keep, '\n' ∉ y.name) (hD : (contentAt x.dir t).isSome = true)
    (below : List Str) (isDir : Bool) (hb : below ≠ [] ∨ isDir = true) :
    gitIgnored (writeGroups date keep (fun d => '/' :: d.name ++ ['/']) t) (x.dir ++ x.name :: below) isDir = true := by
  obtain ⟨old, hold⟩ := Option.isSome_iff_exists.1 hD
  have hc : contentAt x.dir (writeGroups date keep (fun d => '/' :: d.name ++ ['/']) t) =
      some (old ++ appendText old (((keep.filter (·.dir = x.dir)).map (·.name)).map (fun y => '/' :: (y ++ ['/']))) date) := by
    unfold writeGroups
    rw [contentAt_foldl (fun d old => old ++ appendText old ((keep.filter (·.dir = d)).map (fun d => '/' :: d.name ++ ['/'])) date)
      x.dir _ t (nodup_dedup _)]
    have : x.dir ∈ dedup (keep.map (·.dir)) := (mem_dedup _ _).2 (List.mem_map.2 ⟨x, hx, rfl⟩)
    simp only [this, if_true, hold, Option.map_some, List.map_map]
    rfl
  obtain ⟨init, hi, hlen⟩ := contentsAlong_last _ x.dir x.name _ hc
  have := ignoredBy_below (writeGroups date keep (fun d => '/' :: d.name ++ ['/']) t) (x.dir ++ [x.name]) below isDir (by simp) ?_ hb
  · simpa using this
  · rw [hi]
    apply verdict_last _ _ _ _ init x.dir hlen
    apply lastMatch_appended_dir old date _ x.name _ hname
    · intro y hy
      obtain ⟨z, hz, rfl⟩ := List.mem_map.1 hy
      exact hsane z (List.mem_filter.1 hz).1
    · exact List.mem_map.2 ⟨x, List.mem_filter.2 ⟨hx, by simp⟩, rfl⟩

end Ign.Git
