import XvcIgnore.GitIgnore
/-!
  # Where the cache lives (C16: "the cache is never staged")

  The cache directory is not a constant: `XvcCachePath::new` (core/src/types/xvcpath.rs) puts a cached
  file at `.xvc/<XvcDigest::cache_dir>/0.<ext>` and `XvcDigest::cache_dir` (core/src/types/xvcdigest/mod.rs)
  starts with `directory_prefix() = format!("{}", self.algorithm)`, the strum `to_string` of the
  `HashAlgorithm` the digest was computed with — the configured `cache.algorithm` (project
  configuration, `-c cache.algorithm=…`, `XVC_cache.algorithm`).  An ignore template that names one
  cache directory covers one algorithm only.
-/
namespace Ign.Git
open Ign

/-- `HashAlgorithm` (core/src/types/hashalgorithm.rs), all variants.  `asIs` cannot be configured
    (the documented values are blake3, blake2, sha2, sha3; digesting a file with `asis` panics) but is a
    variant of the type, so it is a constructor here. -/
inductive HashAlgorithm where
  | asIs | blake3 | blake2s | sha2_256 | sha3_256
  deriving DecidableEq, Repr

def HashAlgorithm.all : List HashAlgorithm := [.asIs, .blake3, .blake2s, .sha2_256, .sha3_256]

/-- the Rust name of the variant -/
def HashAlgorithm.variant : HashAlgorithm → String
  | .asIs => "AsIs" | .blake3 => "Blake3" | .blake2s => "Blake2s" | .sha2_256 => "SHA2_256" | .sha3_256 => "SHA3_256"

/-- strum `to_string` = `Display` = `XvcDigest::directory_prefix`: the first component of the cache
    path below `.xvc/` -/
def HashAlgorithm.cachePrefix : HashAlgorithm → String
  | .asIs => "a0" | .blake3 => "b3" | .blake2s => "b2" | .sha2_256 => "s2" | .sha3_256 => "s3"

/-- strum `serialize`: the value of `cache.algorithm` in the configuration -/
def HashAlgorithm.configValue : HashAlgorithm → String
  | .asIs => "asis" | .blake3 => "blake3" | .blake2s => "blake2" | .sha2_256 => "sha2" | .sha3_256 => "sha3"

/-- `XvcCachePath::new` + `XvcDigest::cache_dir`, from the repository root: `.xvc/<prefix>/<3 hex>/<3 hex>/<rest>/0.<ext>` -/
def cachePathComps (alg : HashAlgorithm) (hex ext : Str) : List Str :=
  [".xvc".toList, alg.cachePrefix.toList, hex.take 3, (hex.drop 3).take 3, hex.drop 6, "0.".toList ++ ext]

theorem HashAlgorithm.mem_all (a : HashAlgorithm) : a ∈ HashAlgorithm.all := by cases a <;> decide

end Ign.Git
