import XvcIgnore.GitLemmas
/-!
  Monotonicity of git's verdict under xvc's updates: what git ignores before an update it ignores
  afterwards (the appended lines are never negations and start on a fresh line).
-/
namespace Ign.Git
open Ign

/-- `new` reads (for git) as `old` followed by patterns none of which is a negation -/
def GoodExt (old new : Str) : Prop := ∃ B, parseContent new = parseContent old ++ B ∧ ∀ g ∈ B, g.neg = false

theorem GoodExt.refl (c : Str) : GoodExt c c := ⟨[], by simp, by simp⟩

theorem GoodExt.trans {a b c : Str} (h1 : GoodExt a b) (h2 : GoodExt b c) : GoodExt a c := by
  obtain ⟨B1, e1, n1⟩ := h1
  obtain ⟨B2, e2, n2⟩ := h2
  refine ⟨B1 ++ B2, by rw [e2, e1, List.append_assoc], ?_⟩
  intro g hg
  rcases List.mem_append.1 hg with h | h
  · exact n1 g h
  · exact n2 g h

theorem natStr_no_newline (n : Nat) : '\n' ∉ natStr n := by
  intro h
  have : natStr n = Nat.toDigits 10 n := by simp [natStr, Nat.repr, toString]
  rw [this] at h
  have := Nat.isDigit_of_mem_toDigits (by decide) (by decide) h
  revert this; decide

/-- the block xvc appends (without the optional completing newline): a comment line and `/…` lines -/
def block (n : Nat) (lines : List Str) (date : Str) : Str :=
  "### Following ".toList ++ natStr n ++ " lines are added by xvc on ".toList ++ date ++ ['\n'] ++
  appendText.joinWith lines ++ ['\n']

theorem appendText_eq (old : Str) (lines : List Str) (date : Str) :
    appendText old lines date =
      (if old ≠ [] ∧ old.getLast? ≠ some '\n' then ['\n'] else []) ++ block lines.length lines date := by
  unfold appendText block
  simp only [List.append_assoc]

theorem lineOfAcc_head (c1 c2 : Char) (s : Str) : (lineOfAcc ((c1 :: c2 :: s).reverse)).head? = some c1 := by
  unfold lineOfAcc
  split
  · rename_i a heq
    have h2 : a.reverse = (c1 :: c2 :: s).dropLast := by
      have := congrArg List.reverse heq
      simp only [List.reverse_cons] at this
      have := congrArg List.dropLast this
      simpa using this.symm
    rw [h2]; simp [List.dropLast]
  · simp

theorem parseLine_comment (L : Str) (h : L.head? = some '#') : parseLine L = none := by
  unfold parseLine; simp [h]

theorem parse_block_nonneg (n : Nat) (lines : List Str) (date : Str) (hdate : '\n' ∉ date)
    (hlines : ∀ l ∈ lines, ∃ y, l = '/' :: y ∧ '\n' ∉ y) : ∀ g ∈ parseContent (block n lines date), g.neg = false := by
  -- the banner is one comment line
  have hp1 : '\n' ∉ "### Following ".toList := by decide
  have hp2 : '\n' ∉ " lines are added by xvc on ".toList := by decide
  have hsh : "### Following ".toList = '#' :: '#' :: "# Following ".toList := by decide
  generalize hB1 : "### Following ".toList = B1 at hp1 hsh
  generalize hB2 : " lines are added by xvc on ".toList = B2 at hp2
  have hb : '\n' ∉ B1 ++ natStr n ++ B2 ++ date := by
    intro h
    simp only [List.mem_append] at h
    rcases h with ((h | h) | h) | h
    · exact hp1 h
    · exact natStr_no_newline n h
    · exact hp2 h
    · exact hdate h
  have e : block n lines date = (B1 ++ natStr n ++ B2 ++ date) ++ '\n' :: (appendText.joinWith lines ++ ['\n']) := by
    unfold block; rw [hB1, hB2]; simp only [List.append_assoc, List.cons_append, List.nil_append]
  rw [e, parseContent_append_nl]
  have h1 : parseContent ((B1 ++ natStr n ++ B2 ++ date) ++ ['\n']) = [] := by
    unfold parseContent rustLines
    rw [rustLinesAux_line _ [] hb]
    simp only [List.append_nil, List.filterMap_cons, List.filterMap_nil]
    have hhead : (lineOfAcc (B1 ++ natStr n ++ B2 ++ date).reverse).head? = some '#' := by
      rw [hsh]; simp only [List.cons_append]; exact lineOfAcc_head _ _ _
    rw [parseLine_comment _ hhead]
  rw [h1, List.nil_append]
  intro g hg
  by_cases hne : lines = []
  · subst hne
    have : parseContent (appendText.joinWith [] ++ ['\n']) = [] := by decide
    rw [this] at hg; simp at hg
  · have hl : ∀ l ∈ lines, '\n' ∉ l := by
      intro l hl h
      obtain ⟨y, rfl, hy⟩ := hlines l hl
      rcases List.mem_cons.1 h with h | h
      · exact absurd h (by decide)
      · exact hy h
    unfold parseContent at hg
    rw [rustLines_joinWith lines hne hl, List.mem_filterMap] at hg
    obtain ⟨l, hl', hp⟩ := hg
    obtain ⟨l0, hl0, rfl⟩ := List.mem_map.1 hl'
    obtain ⟨y, rfl, _⟩ := hlines l0 hl0
    obtain ⟨r, hr⟩ := lineOfAcc_slash y
    rw [hr] at hp
    exact parseLine_slash_nonneg r g hp

/-- appending xvc's block is a good extension of every file that does not end in a lone CR -/
theorem goodExt_appendText (old : Str) (lines : List Str) (date : Str) (hcr : old.getLast? ≠ some '\r')
    (hdate : '\n' ∉ date) (hlines : ∀ l ∈ lines, ∃ y, l = '/' :: y ∧ '\n' ∉ y) :
    GoodExt old (old ++ appendText old lines date) := by
  refine ⟨parseContent (block lines.length lines date), ?_, parse_block_nonneg _ lines date hdate hlines⟩
  rw [appendText_eq]
  by_cases h1 : old = []
  · subst h1; simp [parseContent, rustLines, rustLinesAux]
  · by_cases h2 : old.getLast? = some '\n'
    · obtain ⟨a, rfl⟩ := List.getLast?_eq_some_iff.1 h2
      simp only [h2, ne_eq, not_true_eq_false, and_false, if_false, List.nil_append]
      rw [List.append_assoc, List.singleton_append, parseContent_append_nl]
    · simp only [h1, h2, ne_eq, not_false_eq_true, and_self, if_true]
      rw [List.singleton_append, parseContent_append_nl]
      have : parseContent (old ++ ['\n']) = parseContent old := by
        unfold parseContent rustLines; rw [rustLinesAux_complete old [] h1 h2 hcr]
      rw [this]

/-! ## stacks -/

/-- element-wise good extension of the `.gitignore` contents on the way to an entry -/
def StackExt : List Str → List Str → Prop
  | [], [] => True
  | a :: s, a' :: s' => GoodExt a a' ∧ StackExt s s'
  | _, _ => False

theorem StackExt.refl : ∀ s : List Str, StackExt s s
  | [] => trivial
  | a :: s => ⟨GoodExt.refl a, StackExt.refl s⟩

theorem StackExt.trans : ∀ {a b c : List Str}, StackExt a b → StackExt b c → StackExt a c
  | [], [], [], _, _ => trivial
  | x :: a, y :: b, z :: c, h1, h2 => ⟨GoodExt.trans h1.1 h2.1, StackExt.trans h1.2 h2.2⟩
  | [], [], _ :: _, _, h2 => by simp [StackExt] at h2
  | [], _ :: _, _, h1, _ => by simp [StackExt] at h1
  | _ :: _, [], _, h1, _ => by simp [StackExt] at h1
  | _ :: _, _ :: _, [], _, h2 => by simp [StackExt] at h2

theorem StackExt.take : ∀ (n : Nat) {a b : List Str}, StackExt a b → StackExt (a.take n) (b.take n)
  | 0, _, _, _ => by simp [StackExt]
  | n + 1, [], [], _ => by simp [StackExt]
  | n + 1, x :: a, y :: b, h => ⟨h.1, StackExt.take n h.2⟩
  | n + 1, [], _ :: _, h => by simp [StackExt] at h
  | n + 1, _ :: _, [], h => by simp [StackExt] at h

theorem lastMatch_ext (A B : List GPat) (rel : List Str) (d : Bool) (hB : ∀ g ∈ B, g.neg = false) :
    (lastMatch A rel d = some false → lastMatch (A ++ B) rel d = some false) ∧
    (lastMatch A rel d = none → lastMatch (A ++ B) rel d = none ∨ lastMatch (A ++ B) rel d = some false) := by
  rw [lastMatch_append]
  cases hb : lastMatch B rel d with
  | none => exact ⟨fun h => h, fun h => Or.inl h⟩
  | some v =>
    have : v = false := lastMatch_val_of_nonneg rel d B hB v hb
    subst this
    exact ⟨fun _ => rfl, fun _ => Or.inr rfl⟩

theorem verdict_ext : ∀ (s s' : List Str) (comps : List Str) (d : Bool), StackExt s s' →
    (verdict s comps d = some false → verdict s' comps d = some false) ∧
    (verdict s comps d = none → verdict s' comps d = none ∨ verdict s' comps d = some false)
  | [], [], _, _, _ => by simp [verdict]
  | [], _ :: _, _, _, h => by simp [StackExt] at h
  | _ :: _, [], _, _, h => by simp [StackExt] at h
  | a :: s, a' :: s', comps, d, h => by
    obtain ⟨⟨B, hB, hn⟩, hs⟩ := h
    have ih := verdict_ext s s' (comps.drop 1) d hs
    have hl := lastMatch_ext (parseContent a) B comps d hn
    simp only [verdict, hB]
    cases hv : verdict s (comps.drop 1) d with
    | some v =>
      constructor
      · intro h
        simp only [Option.some.injEq] at h; subst h
        rw [ih.1 hv]
      · intro h; cases h
    | none =>
      rcases ih.2 hv with h' | h'
      · rw [h']; exact hl
      · rw [h']; exact ⟨fun _ => rfl, fun _ => Or.inr rfl⟩

theorem ignoredBy_ext (s s' : List Str) (comps : List Str) (d : Bool) (h : StackExt s s')
    (hi : ignoredBy s comps d = true) : ignoredBy s' comps d = true := by
  unfold ignoredBy at hi ⊢
  rw [List.any_eq_true] at hi ⊢
  obtain ⟨k, hk, hv⟩ := hi
  refine ⟨k, hk, ?_⟩
  simp only [beq_iff_eq] at hv ⊢
  exact (verdict_ext _ _ _ _ (StackExt.take (k + 1) h)).1 hv

/-! ## editing one directory -/

mutual
theorem contentsAlong_editAt (f : Str → Str) :
    ∀ (t : Tree) (D : List Str), (∀ c, contentAt D t = some c → GoodExt c (f c)) →
      ∀ comps, StackExt (contentsAlong t comps) (contentsAlong (editAt f D t) comps)
  | .node c files dirs, [], hf, comps => by
    have hg := hf c (by simp [contentAt])
    match comps with
    | [] => simp [contentsAlong, editAt, StackExt]
    | [_] => simp only [editAt, contentsAlong]; exact ⟨hg, trivial⟩
    | c1 :: c2 :: rest => simp only [editAt, contentsAlong]; exact ⟨hg, StackExt.refl _⟩
  | .node c files dirs, d1 :: drest, hf, comps => by
    match comps with
    | [] => simp [contentsAlong, editAt, StackExt]
    | [_] => simp only [editAt, contentsAlong]; exact ⟨GoodExt.refl c, trivial⟩
    | c1 :: c2 :: rest =>
      simp only [editAt, contentsAlong]
      refine ⟨GoodExt.refl c, ?_⟩
      exact contentsAlongDirs_editAtDirs f dirs d1 drest (fun c hc => hf c (by simpa [contentAt] using hc)) c1 (c2 :: rest)
theorem contentsAlongDirs_editAtDirs (f : Str → Str) :
    ∀ (ds : List (Str × Tree)) (d1 : Str) (drest : List Str), (∀ c, contentAtDirs d1 drest ds = some c → GoodExt c (f c)) →
      ∀ (c1 : Str) (rest : List Str),
        StackExt (contentsAlongDirs ds c1 rest) (contentsAlongDirs (editAtDirs f d1 drest ds) c1 rest)
  | [], _, _, _, _, rest => by simp only [editAtDirs, contentsAlongDirs]; exact StackExt.refl _
  | (n, t) :: ds, d1, drest, hf, c1, rest => by
    simp only [editAtDirs]
    by_cases hn : n = d1
    · simp only [hn, if_true, contentsAlongDirs]
      by_cases hc : d1 = c1
      · simp only [hc, if_true]
        exact contentsAlong_editAt f t drest (fun c h => hf c (by simp only [contentAtDirs, hn, if_true]; exact h)) rest
      · simp only [hc, if_false]; exact StackExt.refl _
    · simp only [hn, if_false, contentsAlongDirs]
      by_cases hc : n = c1
      · simp only [hc, if_true]; exact StackExt.refl _
      · simp only [hc, if_false]
        exact contentsAlongDirs_editAtDirs f ds d1 drest
          (fun c h => hf c (by simp only [contentAtDirs, hn, if_false]; exact h)) c1 rest
end

/-! ## whole updates -/

/-- no `.gitignore` of the workspace ends in a carriage return that is not followed by a line feed -/
def NoLoneCR (t : Tree) : Prop := ∀ d c, contentAt d t = some c → c.getLast? ≠ some '\r'

/-- `t'` reads, for git, like `t` plus non-negated patterns at the end of some files -/
def ReadsLikeMore (t t' : Tree) : Prop := ∀ comps, StackExt (contentsAlong t comps) (contentsAlong t' comps)

theorem foldl_readsLikeMore (g : List Str → Str → Str)
    (hg : ∀ d c, c.getLast? ≠ some '\r' → GoodExt c (g d c) ∧ (g d c).getLast? ≠ some '\r') :
    ∀ (l : List (List Str)) (t : Tree), NoLoneCR t →
      ReadsLikeMore t (l.foldl (fun t d => editAt (g d) d t) t) ∧ NoLoneCR (l.foldl (fun t d => editAt (g d) d t) t)
  | [], t, h => ⟨fun _ => StackExt.refl _, h⟩
  | a :: l, t, h => by
    simp only [List.foldl_cons]
    have h1 : ReadsLikeMore t (editAt (g a) a t) := fun comps =>
      contentsAlong_editAt (g a) t a (fun c hc => (hg a c (h a c hc)).1) comps
    have h2 : NoLoneCR (editAt (g a) a t) := by
      intro d c hc
      rw [contentAt_editAt] at hc
      by_cases hd : a = d
      · subst hd
        simp only [if_true] at hc
        cases ho : contentAt a t with
        | none => rw [ho] at hc; cases hc
        | some old =>
          rw [ho] at hc; simp only [Option.map_some, Option.some.injEq] at hc
          rw [← hc]; exact (hg a old (h a old ho)).2
      · simp only [hd, if_false] at hc; exact h d c hc
    obtain ⟨h3, h4⟩ := foldl_readsLikeMore g hg l _ h2
    exact ⟨fun comps => StackExt.trans (h1 comps) (h3 comps), h4⟩

theorem writeGroups_readsLikeMore (date : Str) (keep : List Target) (line : Target → Str) (t : Tree)
    (hdate : '\n' ∉ date) (hline : ∀ x ∈ keep, ∃ y, line x = '/' :: y ∧ '\n' ∉ y) (ht : NoLoneCR t) :
    ReadsLikeMore t (writeGroups date keep line t) ∧ NoLoneCR (writeGroups date keep line t) := by
  unfold writeGroups
  apply foldl_readsLikeMore (fun d old => old ++ appendText old ((keep.filter (·.dir = d)).map line) date) _ _ t ht
  intro d c hc
  refine ⟨goodExt_appendText c _ date hc hdate ?_, ?_⟩
  · intro l hl
    obtain ⟨x, hx, rfl⟩ := List.mem_map.1 hl
    exact hline x (List.mem_filter.1 hx).1
  · obtain ⟨x, hx⟩ : ∃ x, appendText c ((keep.filter (·.dir = d)).map line) date = x ++ ['\n'] := ⟨_, rfl⟩
    rw [hx, ← List.append_assoc, List.getLast?_append]
    simp

theorem gitIgnored_of_readsLikeMore (t t' : Tree) (h : ReadsLikeMore t t') (comps : List Str) (d : Bool)
    (hi : gitIgnored t comps d = true) : gitIgnored t' comps d = true :=
  ignoredBy_ext _ _ comps d (h comps) hi

end Ign.Git
