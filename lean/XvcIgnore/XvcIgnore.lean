import XvcIgnore.Gen.Consts
import XvcIgnore.Glob
import XvcIgnore.Pattern
import XvcIgnore.Walk
