import XvcIgnore.Walk
import XvcIgnore.GitIgnore
/-!
  Line-protocol driver of the ignore model (C09, C16): one request per line on stdin, one canonical
  answer per line on stdout.  `harness/src/bin/walker_harness.rs` answers the same requests with the
  real xvc-walker code; lib/c09.py and lib/c16.py diff the two streams.

  Fields are separated by TAB; every string argument is hex encoded (two lower-case hex digits per
  byte; the generators are ASCII only).
-/
open Ign

def hexVal (c : Char) : Nat :=
  if '0' ≤ c ∧ c ≤ '9' then c.toNat - '0'.toNat
  else if 'a' ≤ c ∧ c ≤ 'f' then c.toNat - 'a'.toNat + 10 else 0

def unhexL : List Char → Str
  | a :: b :: r => Char.ofNat (hexVal a * 16 + hexVal b) :: unhexL r
  | _ => []

def unhex (s : String) : Str := unhexL s.toList

def hexDigit (n : Nat) : Char := if n < 10 then Char.ofNat (48 + n) else Char.ofNat (87 + n)

def hex (s : Str) : String := String.ofList (s.flatMap (fun c => [hexDigit (c.toNat / 16 % 16), hexDigit (c.toNat % 16)]))

def b01 (b : Bool) : String := if b then "1" else "0"

def parseSrc (s : String) : Source :=
  match s.toList with
  | 'F' :: r => .file (unhexL r)
  | _ => .global

def showResult : MatchResult → String
  | .noMatch => "nomatch" | .ignore => "ignore" | .whitelist => "whitelist"

def showPattern (p : Pattern) : String :=
  s!"glob={hex p.glob} white={b01 p.white} rel={match p.relDir with | none => "none" | some d => "some:" ++ hex d} dir={b01 p.dirOnly}"

/-- (source, line) pairs of a `check` request -/
def pairs : List String → List (Source × Str)
  | s :: l :: r => (parseSrc s, unhex l) :: pairs r
  | _ => []

/-- one entry of an encoded tree: kind, path components, content -/
structure Entry where
  kind : Char
  comps : List Str
  content : Str

def splitOnSlash (s : Str) : List Str :=
  (String.ofList s).splitOn "/" |>.map (·.toList) |>.filter (· ≠ [])

def parseEntry (s : String) : Option Entry :=
  match s.toList with
  | 'I' :: r =>
    match (String.ofList r).splitOn ":" with
    | [d, c] => some ⟨'I', splitOnSlash (unhex d), unhex c⟩
    | _ => none
  | k :: r => some ⟨k, splitOnSlash (unhexL r), []⟩
  | [] => none

def parseTreeEntries (s : String) : List Entry := (s.splitOn ";").filterMap parseEntry

/-- build the model tree from flat entries (fuel bounds the depth) -/
def buildTree : Nat → List Entry → Tree
  | 0, _ => .node [] [] []
  | fuel + 1, es =>
    let content := (es.find? (fun e => e.kind == 'I' && e.comps.isEmpty)).map (·.content) |>.getD []
    let files := es.filterMap (fun e => match e.kind, e.comps with
      | 'F', [n] => some n | 'L', [n] => some n | _, _ => none)
    let dnames := es.filterMap (fun e => match e.kind, e.comps with | 'D', [n] => some n | _, _ => none)
    let sub (n : Str) : List Entry := es.filterMap (fun e => match e.comps with
      | c :: r => if c == n && (e.kind == 'I' || !r.isEmpty) then some { e with comps := r } else none
      | [] => none)
    .node content files (dnames.map (fun n => (n, buildTree fuel (sub n))))

def showPaths (l : List Str) : String := " ".intercalate (l.map hex)

def parseTargets (s : String) : List Git.Target :=
  (s.splitOn ",").filterMap (fun h =>
    match (splitOnSlash (unhex h)).reverse with
    | [] => none
    | n :: d => some ⟨d.reverse, n⟩)

def showContents (t : Tree) : String :=
  " ".intercalate (((Git.allContents [] t).filter (fun dc => dc.2 ≠ [])).map (fun dc => hex dc.1 ++ ":" ++ hex dc.2))

def step (line : String) : String :=
  match line.splitOn "\t" with
  | ["glob", g, p] => b01 (globMatch (unhex g) (unhex p))
  | ["pat", src, l] => showPattern (Pattern.new (parseSrc src) (unhex l))
  | ["content", src, c] =>
    " ".intercalate ((contentToPatterns (parseSrc src) (unhex c)).map (fun p => hex p.glob ++ ":" ++ b01 p.white))
  | "check" :: p :: rest =>
    showResult (check ((pairs rest).map (fun sl => Pattern.new sl.1 sl.2)) (unhex p))
  | "checkm" :: p :: rest =>
    showResult (check ((pairs rest).map (fun sl => Pattern.new sl.1 sl.2)) (unhex p))
  | ["walk", t] => showPaths (walkSpec (buildTree 8 (parseTreeEntries t)))
  | ["checkignore", t, p] => showResult (check (allRules (buildTree 8 (parseTreeEntries t))) (unhex p))
  | ["gcheckignore", t, p] => showResult (check (Git.gitRules (buildTree 8 (parseTreeEntries t))) (unhex p))
  | ["gitignored", t, p, d] =>
    b01 (Git.gitIgnored (buildTree 8 (parseTreeEntries t)) (splitOnSlash (unhex p)) (d == "1"))
  | ["gtrack", t, date, dirs, files] =>
    showContents (Git.trackUpdate (unhex date) (parseTargets dirs) (parseTargets files) (buildTree 8 (parseTreeEntries t)))
  | ["gmove", t, date, _, files] =>
    showContents (Git.moveUpdate (unhex date) (parseTargets files) (buildTree 8 (parseTreeEntries t)))
  | ["ghandler", t, date, dirs, files] =>
    showContents (Git.handlerUpdate (unhex date) (parseTargets dirs) (parseTargets files) (buildTree 8 (parseTreeEntries t)))
  | ["gtrackcmd", t, date, dirs, files, carried, recorded] =>
    let r := Git.trackCmd (unhex date) (parseTargets dirs) (parseTargets files) (parseTargets carried)
      ⟨parseTargets recorded, buildTree 8 (parseTreeEntries t)⟩
    showContents r.tree ++ "|" ++ ",".intercalate (r.recorded.map (fun x => hex (Git.joinSlash (x.dir ++ [x.name]))))
  | ["const", "common"] => hex Gen.COMMON_IGNORE_PATTERNS.toList
  | ["const", "xvcignore"] => hex Gen.XVCIGNORE_INITIAL_CONTENT.toList
  | ["const", "gitignore"] => hex Gen.GITIGNORE_INITIAL_CONTENT.toList
  | ["const", "threads"] => toString Gen.MAX_THREADS_PARALLEL_WALK
  | [""] => ""
  | _ => "bad-op"

partial def loop (h : IO.FS.Stream) (out : IO.FS.Stream) : IO Unit := do
  let line ← h.getLine
  if line.isEmpty then return
  let l := if line.endsWith "\n" then (line.dropEnd 1).toString else line
  out.putStrLn (step l)
  loop h out

def main : IO Unit := do
  let stdin ← IO.getStdin
  let stdout ← IO.getStdout
  loop stdin stdout
