import XvcTargets.Model
import XvcTargets.Lemmas
import XvcTargets.Props
