import XvcTargets.Model
/-!
  Helper lemmas for the C18 theorems: joining path components, the literal-prefix behaviour of the
  glob matcher, splitting and re-joining a path.
-/
set_option linter.unusedSimpArgs false
namespace Targets

/-! ## joining components -/

theorem joinComps_cons (c : Str) (cs : List Str) (h : cs ≠ []) :
    joinComps (c :: cs) = c ++ '/' :: joinComps cs := by
  cases cs with
  | nil => exact absurd rfl h
  | cons d ds => rfl

/-- the "corresponding root-relative target": the target appended to the components of the
    current directory -/
def rootTarget (cwd : List Str) (t : Str) : Str := joinComps (cwd ++ [t])

theorem rootTarget_nil (t : Str) : rootTarget [] t = t := rfl

theorem rootTarget_eq (cwd : List Str) (t : Str) (h : cwd ≠ []) :
    rootTarget cwd t = cwdStr cwd ++ '/' :: t := by
  unfold rootTarget cwdStr
  induction cwd with
  | nil => exact absurd rfl h
  | cons c cs ih =>
    cases cs with
    | nil => rfl
    | cons d ds =>
      have : (c :: d :: ds) ++ [t] = c :: ((d :: ds) ++ [t]) := rfl
      rw [this, joinComps_cons c _ (by simp), ih (by simp), joinComps_cons c (d :: ds) (by simp)]
      simp [List.append_assoc]

theorem joinComps_append (a b : List Str) (hb : b ≠ []) :
    joinComps (a ++ b) = joinComps (a ++ [joinComps b]) := by
  induction a with
  | nil => simp [joinComps]
  | cons c cs ih =>
    have h1 : (c :: cs) ++ b = c :: (cs ++ b) := rfl
    have h2 : (c :: cs) ++ [joinComps b] = c :: (cs ++ [joinComps b]) := rfl
    rw [h1, h2, joinComps_cons c _ (by simp [hb]), joinComps_cons c _ (by simp), ih]

/-! ## lying below a directory, component-wise -/

/-- the independent specification of "the path `p` lies below the directory `cwd`": the COMPONENTS
    of `cwd` are a proper prefix of the components of `p`.  Component-wise, not character-wise:
    `data` is an ancestor of `data/a.txt` and of `data/raw/r.txt`, not of `data2/b.txt`,
    `data-old/c.txt`, `data.bak/d.dat`, `datafile.txt` nor of `data` itself. -/
def properAncestor (cwd : List Str) (p : Str) : Bool :=
  cwd.isPrefixOf (splitSlash p) && decide (cwd.length < (splitSlash p).length)

/-- NOT the code: the tempting shortcut for "no targets, not at the root" that tests the recorded
    path STRINGS (`p.starts_with(cwd) && p != cwd`) instead of going through the glob `cwd/**`.
    Kept only to state (`C18_string_prefix_selection_differs`) that it is a different function on
    sibling names that extend the name of the current directory. -/
def strPrefixSelect (cwd : List Str) (paths : List Str) : List Str :=
  paths.filter (fun p => (cwdStr cwd).isPrefixOf p && p != cwdStr cwd)

/-- NOT the code: the guard path computed against the CURRENT DIRECTORY instead of the repository
    root (`dest_path.to_absolute_path(current_dir)`): the root-relative destination is appended to
    `root/cwd`.  At the root it is `guardPath`; kept only for `C18_copy_guard_against_cwd_differs`. -/
def guardPathFromCwd (root cwd : List Str) (dest : Str) (src : List Str) : List Str :=
  root ++ cwd ++ copyDest cwd dest src

/-- NOT the code: the head of `filter_targets_from_store` that KEEPS a typed target which already
    begins with `cwd/` as it is (taking it for a root-relative path, e.g. one offered by a completer)
    and prefixes only the others.  At the root and for targets that do not begin with `cwd/` it is
    `prefixStore`; kept only for `C18_keep_prefixed_target_counterexample` and
    `C18_keep_prefixed_target_agrees_iff`. -/
def prefixStoreKeep (cwd : List Str) (targets : Option (List Str)) : Option (List Str) :=
  if cwd = [] then targets
  else match targets with
    | some ts => some (ts.map (fun t =>
        if (cwdStr cwd ++ ['/']).isPrefixOf t then t else cwdStr cwd ++ '/' :: t))
    | none => some [cwdStr cwd]

/-- NOT the code: the selection with `prefixStoreKeep` as its head -/
def selectStoreKeep (gm : Str → Str → Bool) (isDir : Str → Bool) (cwd : List Str)
    (targets : Option (List Str)) (paths : List Str) : List Str :=
  selectStoreRoot gm isDir paths (prefixStoreKeep cwd targets)

/-! ## spelling a root-relative path from inside a directory -/

/-- the component `..` -/
def dotdot : Str := ['.', '.']

/-- number of leading components two paths share -/
def commonLen : List Str → List Str → Nat
  | a :: as, b :: bs => if a = b then commonLen as bs + 1 else 0
  | _, _ => 0

/-- the climbing spelling of the root-relative path `D` for somebody standing in `cwd`: one `..`
    for every component of `cwd` that `D` does not share, then the rest of `D`
    (`other/a.txt` from `data/raw` is `../../other/a.txt`, `data/clean/b.txt` is `../clean/b.txt`) -/
def relTo (cwd D : List Str) : List Str :=
  List.replicate (cwd.length - commonLen cwd D) dotdot ++ D.drop (commonLen cwd D)

/-- NOT the code: `XvcPath::new` as a plain join of the root-relative current directory and the
    given path, dropping only empty and `.` components (what `RelativePathBuf::from_path` does) and
    keeping `..`.  Kept only for `C18_plain_join_destination_differs`. -/
def xvcPathJoin (cwd : List Str) (p : Str) : List Str :=
  (cwd ++ splitSlash p).filter (fun c => !(c = [] || c = ['.']))

/-- a destination argument without its directory marker -/
def stripSlash (d : Str) : Str := if endsWithSlash d then d.dropLast else d

/-! ## characters of a joined path -/

/-- a well-formed current directory: non-empty components without `/` -/
def WfCwd (cwd : List Str) : Prop := ∀ c ∈ cwd, c ≠ [] ∧ '/' ∉ c

theorem getLast?_append_ne_nil (a b : Str) (hb : b ≠ []) : (a ++ b).getLast? = b.getLast? := by
  induction a with
  | nil => rfl
  | cons x xs ih =>
    have : (x :: xs) ++ b = x :: (xs ++ b) := rfl
    rw [this]
    have hne : xs ++ b ≠ [] := by simp [hb]
    cases hxb : xs ++ b with
    | nil => exact absurd hxb hne
    | cons y ys =>
      rw [List.getLast?_cons_cons, ← hxb, ih]

theorem joinComps_ne_nil (cwd : List Str) (h : cwd ≠ []) (hw : WfCwd cwd) : joinComps cwd ≠ [] := by
  cases cwd with
  | nil => exact absurd rfl h
  | cons c cs =>
    have hc := (hw c (List.mem_cons_self ..)).1
    cases cs with
    | nil => exact hc
    | cons d ds =>
      show c ++ '/' :: joinComps (d :: ds) ≠ []
      simp

theorem getLast?_joinComps (cwd : List Str) (h : cwd ≠ []) (hw : WfCwd cwd) :
    ∃ c ∈ cwd, (joinComps cwd).getLast? = c.getLast? := by
  induction cwd with
  | nil => exact absurd rfl h
  | cons c cs ih =>
    cases cs with
    | nil => exact ⟨c, List.mem_cons_self .., rfl⟩
    | cons d ds =>
      have hw' : WfCwd (d :: ds) := fun x hx => hw x (List.mem_cons_of_mem _ hx)
      obtain ⟨x, hx, hl⟩ := ih (by simp) hw'
      refine ⟨x, List.mem_cons_of_mem _ hx, ?_⟩
      show (c ++ '/' :: joinComps (d :: ds)).getLast? = _
      have hne : joinComps (d :: ds) ≠ [] := joinComps_ne_nil _ (by simp) hw'
      have : c ++ '/' :: joinComps (d :: ds) = (c ++ ['/']) ++ joinComps (d :: ds) := by simp
      rw [this, getLast?_append_ne_nil _ _ hne, hl]

theorem getLast?_mem (s : Str) (x : Char) (h : s.getLast? = some x) : x ∈ s := by
  induction s with
  | nil => simp at h
  | cons a as ih =>
    cases as with
    | nil => simp at h; simp [h]
    | cons b bs =>
      rw [List.getLast?_cons_cons] at h
      exact List.mem_cons_of_mem _ (ih h)

theorem not_endsWithSlash_cwdStr (cwd : List Str) (h : cwd ≠ []) (hw : WfCwd cwd) :
    endsWithSlash (cwdStr cwd) = false := by
  obtain ⟨c, hc, hl⟩ := getLast?_joinComps cwd h hw
  unfold endsWithSlash cwdStr
  rw [hl]
  cases hg : c.getLast? with
  | none => rfl
  | some x =>
    have hx : x ∈ c := getLast?_mem c x hg
    have : x ≠ '/' := fun e => (hw c hc).2 (e ▸ hx)
    simp [this]

theorem endsWithSlash_append_slash (s : Str) : endsWithSlash (s ++ ['/']) = true := by
  unfold endsWithSlash
  rw [getLast?_append_ne_nil s ['/'] (by simp)]
  rfl

theorem mem_joinComps (cwd : List Str) (x : Char) (hx : x ∈ joinComps cwd) :
    x = '/' ∨ ∃ c ∈ cwd, x ∈ c := by
  induction cwd with
  | nil => simp [joinComps] at hx
  | cons c cs ih =>
    cases cs with
    | nil => exact Or.inr ⟨c, List.mem_cons_self .., hx⟩
    | cons d ds =>
      have hx' : x ∈ c ++ '/' :: joinComps (d :: ds) := hx
      rcases List.mem_append.mp hx' with h | h
      · exact Or.inr ⟨c, List.mem_cons_self .., h⟩
      · rcases List.mem_cons.mp h with h | h
        · exact Or.inl h
        · rcases ih h with h | ⟨y, hy, hxy⟩
          · exact Or.inl h
          · exact Or.inr ⟨y, List.mem_cons_of_mem _ hy, hxy⟩

/-- no component contains a glob metacharacter -/
def Literal (cwd : List Str) : Prop := ∀ c ∈ cwd, '*' ∉ c ∧ '?' ∉ c

theorem literal_cwdStr (cwd : List Str) (hl : Literal cwd) :
    ∀ x ∈ cwdStr cwd, x ≠ '*' ∧ x ≠ '?' := by
  intro x hx
  rcases mem_joinComps cwd x hx with h | ⟨c, hc, hxc⟩
  · subst h; exact ⟨by decide, by decide⟩
  · exact ⟨fun e => (hl c hc).1 (e ▸ hxc), fun e => (hl c hc).2 (e ▸ hxc)⟩

theorem not_hasStar_of_literal (s : Str) (h : ∀ x ∈ s, x ≠ '*' ∧ x ≠ '?') : hasStar s = false := by
  unfold hasStar
  cases hc : s.contains '*' with
  | false => rfl
  | true =>
    have : '*' ∈ s := by simpa using hc
    exact absurd rfl (h '*' this).1

/-! ## the glob matcher on `literal/**` -/

theorem gmFuel_dir (d : Str) (hlit : ∀ x ∈ d, x ≠ '*' ∧ x ≠ '?') (n : Nat) (hn : d.length + 2 ≤ n)
    (s : Str) : gmFuel n (d ++ ['/', '*', '*']) s = (d ++ ['/']).isPrefixOf s := by
  induction d generalizing n s with
  | nil =>
    match n, hn with
    | m + 2, _ =>
      cases s with
      | nil => simp [gmFuel]
      | cons c cs =>
        simp only [List.nil_append, gmFuel]
        simp [gmFuel, List.isPrefixOf]
  | cons x d ih =>
    have hx := hlit x (List.mem_cons_self ..)
    match n, hn with
    | m + 1, hm =>
      have hm' : d.length + 2 ≤ m := by simp at hm; omega
      cases s with
      | nil => simp [gmFuel, hx.1, List.isPrefixOf]
      | cons c cs =>
        have ih' := ih (fun y hy => hlit y (List.mem_cons_of_mem _ hy)) m hm' cs
        simp only [List.cons_append, gmFuel, hx.1, hx.2, if_false, ih']
        simp [List.isPrefixOf]

theorem globMatch_dir (d : Str) (hlit : ∀ x ∈ d, x ≠ '*' ∧ x ≠ '?') (s : Str) :
    globMatch (d ++ ['/', '*', '*']) s = (d ++ ['/']).isPrefixOf s := by
  unfold globMatch
  apply gmFuel_dir d hlit
  simp
  omega

/-! ## the glob matcher on a literal pattern -/

theorem gmFuel_literal (d : Str) (hlit : ∀ x ∈ d, x ≠ '*' ∧ x ≠ '?') (n : Nat) (hn : d.length + 1 ≤ n)
    (s : Str) : gmFuel n d s = (d == s) := by
  induction d generalizing n s with
  | nil =>
    match n, hn with
    | m + 1, _ => cases s <;> simp [gmFuel]
  | cons x d ih =>
    have hx := hlit x (List.mem_cons_self ..)
    match n, hn with
    | m + 1, hm =>
      have hm' : d.length + 1 ≤ m := by simp at hm; omega
      cases s with
      | nil => simp [gmFuel, hx.1]
      | cons c cs =>
        have ih' := ih (fun y hy => hlit y (List.mem_cons_of_mem _ hy)) m hm' cs
        simp only [gmFuel, hx.1, hx.2, if_false, ih']
        simp

/-- a pattern without metacharacters matches exactly itself -/
theorem globMatch_literal (d : Str) (hlit : ∀ x ∈ d, x ≠ '*' ∧ x ≠ '?') (s : Str) :
    globMatch d s = (d == s) := by
  unfold globMatch
  apply gmFuel_literal d hlit
  omega

end Targets
