/-
  Executable model of how `xvc file` commands turn the targets given on the command line into sets
  of repository paths: `/repo/file/src/common/mod.rs` (`filter_targets_from_store`,
  `filter_paths_by_globs`, `build_glob_matcher`, `targets_from_disk`) and `XvcPath::new`
  (`/repo/core/src/types/xvcpath.rs`), with the current directory coming from `-C` / the process
  (`config/src/lib.rs`, `lib/src/cli/mod.rs`).

  The transcription follows the code AFTER `patches/C18-F3.patch`; the code before it is kept as
  `prefixStoreOld` for the counterexample in the property file.

  Strings are `List Char` so that every definition reduces in the kernel (`decide`).
  Import-free (core only) so that the driver links as a `lean_exe`.
-/
namespace Targets

abbrev Str := List Char

/-- `s.ends_with('/')` -/
def endsWithSlash (s : Str) : Bool := s.getLast? == some '/'

/-- `s.contains('*')` -/
def hasStar (s : Str) : Bool := s.contains '*'

/-- components joined with `/` (`Path::to_str` of a relative path): `["a","b"]` ↦ `a/b`, `[]` ↦ `` -/
def joinComps : List Str → Str
  | [] => []
  | [c] => c
  | c :: d :: cs => c ++ '/' :: joinComps (d :: cs)

/-- `current_dir.strip_prefix(xvc_root)` as a string; the current directory is given by its
    components below the repository root (`[]` = the root itself) -/
def cwdStr (cwd : List Str) : Str := joinComps cwd

/-! ## the recursion heads: prefixing the targets with the current directory -/

/-- head of `filter_targets_from_store` (after C18-F3.patch): at the root the targets are used as
    they are; elsewhere every target becomes `format!("{cwd}/{t}")`, and no targets become `[cwd]`. -/
def prefixStore (cwd : List Str) (targets : Option (List Str)) : Option (List Str) :=
  if cwd = [] then targets
  else match targets with
    | some ts => some (ts.map (fun t => cwdStr cwd ++ '/' :: t))
    | none => some [cwdStr cwd]

/-- the same BEFORE C18-F3.patch: `format!("{cwd}{t}")` — no separator -/
def prefixStoreOld (cwd : List Str) (targets : Option (List Str)) : Option (List Str) :=
  if cwd = [] then targets
  else match targets with
    | some ts => some (ts.map (fun t => cwdStr cwd ++ t))
    | none => some [cwdStr cwd]

/-- head of `targets_from_disk`: `cwd` gets a trailing `/` unless it has one -/
def prefixDisk (cwd : List Str) (targets : Option (List Str)) : Option (List Str) :=
  if cwd = [] then targets
  else
    let c := if endsWithSlash (cwdStr cwd) then cwdStr cwd else cwdStr cwd ++ ['/']
    match targets with
    | some ts => some (ts.map (fun t => c ++ t))
    | none => some [c]

/-! ## selection at the root -/

/-- the directory-slash rule of `filter_paths_by_globs`: a target without `/` at the end and
    without `*` gets a `/` appended when some recorded path starts with `target/` -/
def slashRule (paths : List Str) (g : Str) : Str :=
  if !endsWithSlash g && !hasStar g then
    if paths.any (fun p => (g ++ ['/']).isPrefixOf p) then g ++ ['/'] else g
  else g

/-- `build_glob_matcher`: the patterns that are added to the matcher.  `isDir t` is
    `xvc_root.join(t).is_dir()`. -/
def buildGlobs (isDir : Str → Bool) (globs : List Str) : List Str :=
  globs.map (fun t =>
    if endsWithSlash t then t ++ ['*', '*']
    else if !hasStar t then (if isDir t then t ++ ['/', '*', '*'] else t)
    else t)

/-- `filter_paths_by_globs` (`gm pattern path` is the glob matcher) -/
def filterPathsByGlobs (gm : Str → Str → Bool) (isDir : Str → Bool) (paths : List Str)
    (globs : List Str) : List Str :=
  if globs = [] then paths
  else
    let gs := buildGlobs isDir (globs.map (slashRule paths))
    paths.filter (fun p => gs.any (fun g => gm g p))

/-- `filter_targets_from_store` once the current directory is the root -/
def selectStoreRoot (gm : Str → Str → Bool) (isDir : Str → Bool) (paths : List Str) :
    Option (List Str) → List Str
  | some ts => filterPathsByGlobs gm isDir paths ts
  | none => paths

/-- `filter_targets_from_store`: the recorded paths selected by `targets` given in `cwd` -/
def selectStore (gm : Str → Str → Bool) (isDir : Str → Bool) (cwd : List Str)
    (targets : Option (List Str)) (paths : List Str) : List Str :=
  selectStoreRoot gm isDir paths (prefixStore cwd targets)

/-- the same with the head before C18-F3.patch -/
def selectStoreOld (gm : Str → Str → Bool) (isDir : Str → Bool) (cwd : List Str)
    (targets : Option (List Str)) (paths : List Str) : List Str :=
  selectStoreRoot gm isDir paths (prefixStoreOld cwd targets)

/-- `targets_from_disk` once the current directory is the root.  `disk` is what the walk of the
    work tree returns (`all_paths_and_metadata`: files and directories not excluded by ignore
    rules); `gitTracked` is `git ls-files`, consulted when `filter_git_paths` is set.  The shortcut
    that stats plain file-name targets instead of walking returns the same set and is not modelled
    separately. -/
def selectDiskRoot (gm : Str → Str → Bool) (isDir : Str → Bool) (gitTracked : Str → Bool)
    (filterGit : Bool) (disk : List Str) : Option (List Str) → List Str
  | none => disk.filter (fun p => !(filterGit && gitTracked p))
  | some [] => []
  | some (t :: ts) =>
    (disk.filter (fun p => !(filterGit && gitTracked p))).filter
      (fun p => (buildGlobs isDir (t :: ts)).any (fun g => gm g p))

/-- `targets_from_disk` -/
def selectDisk (gm : Str → Str → Bool) (isDir : Str → Bool) (gitTracked : Str → Bool)
    (filterGit : Bool) (cwd : List Str) (targets : Option (List Str)) (disk : List Str) : List Str :=
  selectDiskRoot gm isDir gitTracked filterGit disk (prefixDisk cwd targets)

/-! ## `XvcPath::new` -/

/-- split at `/` -/
def splitSlash : Str → List Str
  | [] => [[]]
  | c :: cs =>
    if c = '/' then [] :: splitSlash cs
    else match splitSlash cs with
      | [] => [[c]]
      | w :: ws => (c :: w) :: ws

/-- `absolutize_from`: resolve `.`/empty components and `..` against what is already there
    (`acc` is reversed) -/
def normalize : List Str → List Str → List Str
  | acc, [] => acc.reverse
  | acc, c :: cs =>
    if c = [] || c = ['.'] then normalize acc cs
    else if c = ['.', '.'] then normalize acc.tail cs
    else normalize (c :: acc) cs

/-- `XvcPath::new(root, current_dir, path)` for a relative `path`: the repository-relative path,
    as components -/
def xvcPathNew (cwd : List Str) (p : Str) : List Str := normalize cwd.reverse (splitSlash p)

/-- destination of `xvc file copy` / `xvc file move` (after C18-K9b.patch): a file destination and
    a directory destination (trailing `/`, stripped before the call) are both
    `XvcPath::new(root, current_dir, destination)` -/
def destPath (cwd : List Str) (dest : Str) : List Str :=
  xvcPathNew cwd (if endsWithSlash dest then dest.dropLast else dest)

/-- the same BEFORE C18-K9b.patch: a directory destination was resolved against the ROOT -/
def destPathOld (cwd : List Str) (dest : Str) : List Str :=
  if endsWithSlash dest then xvcPathNew [] dest.dropLast else xvcPathNew cwd dest

/-! ## the destination guard of `xvc file copy` / `xvc file move` -/

/-- the root-relative path one source is copied / moved to (`get_copy_source_dest_store` in
    `file/src/copy/mod.rs`, `get_move_source_dest_store` in `file/src/mv/mod.rs`, without
    `--name-only`): a destination ending in `/` is a directory, the destination path is
    `dir_path.join(source_path)` with the FULL root-relative source path `src`; otherwise it is the
    file `XvcPath::new(xvc_root, current_dir, destination)`. -/
def copyDest (cwd : List Str) (dest : Str) (src : List Str) : List Str :=
  if endsWithSlash dest then destPath cwd dest ++ src else destPath cwd dest

/-- `dest_path.to_absolute_path(xvc_root)`: the absolute path (as components; `root` = the
    components of the repository root) whose existence the guard "the destination may be a file Xvc
    doesn't know about, don't overwrite it" tests with `symlink_metadata().is_ok()` -/
def guardPath (root cwd : List Str) (dest : Str) (src : List Str) : List Str :=
  root ++ copyDest cwd dest src

/-- the guard of both functions for one source: a destination that is recorded is refused unless
    `--force` (`entities_for(&dest_path)` is `Some`); a destination that is not recorded is refused
    unless `--force` when something exists at `guardPath` (`onDisk` = `symlink_metadata().is_ok()`
    on an absolute path).  `xvc file move` has no `--force`: `force = false`. -/
def copyRefused (force : Bool) (recorded : List Str) (onDisk : List Str → Bool) (root cwd : List Str)
    (dest : Str) (src : List Str) : Bool :=
  if recorded.contains (joinComps (copyDest cwd dest src)) then !force
  else !force && onDisk (guardPath root cwd dest src)

/-! ## a small glob matcher (`fast_glob` on the pattern shapes xvc builds and the harness generates) -/

/-- the rest of a path after its first `/` -/
def dropComp : Str → Option Str
  | [] => none
  | c :: cs => if c = '/' then some cs else dropComp cs

/-- `*` stays inside a component, `?` is one character of a component, a trailing `**` matches any
    rest, `**/` matches zero or more whole components -/
def gmFuel : Nat → Str → Str → Bool
  | 0, _, _ => false
  | _ + 1, [], s => s.isEmpty
  | n + 1, p :: ps, s =>
    if p = '*' then
      if ps = ['*'] then true
      else if ps.take 2 = ['*', '/'] then
        gmFuel n (ps.drop 2) s ||
          (match dropComp s with
           | some r => gmFuel n (p :: ps) r
           | none => false)
      else
        gmFuel n ps s ||
          (match s with
           | c :: cs => c != '/' && gmFuel n (p :: ps) cs
           | [] => false)
    else
      match s with
      | [] => false
      | c :: cs => (if p = '?' then c != '/' else p == c) && gmFuel n ps cs

def globMatch (p s : Str) : Bool := gmFuel (2 * (p.length + s.length) + 2) p s

end Targets
