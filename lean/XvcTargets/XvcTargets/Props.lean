import XvcTargets.Model
import XvcTargets.Lemmas
/-!
  # C18 — Commands mean the same from any directory inside the repository

  Property theorems only (helper lemmas are in `Lemmas.lean`).  The current directory is any list of
  components (any depth), the targets any list of strings (files, directories, globs), the recorded
  paths / paths on disk any lists; the glob matcher and the directory test are arbitrary parameters
  except where the statement is about the concrete matcher `globMatch`.

  The model (`Model.lean`) mirrors `file/src/common/mod.rs` AFTER `patches/C18-F3.patch`; the head
  before the patch is `prefixStoreOld`, for which `C18_store_counterexample_before_fix` is proved.
-/
set_option linter.unusedSimpArgs false
namespace Targets

theorem map_rootTarget_nil (ts : List Str) : ts.map (rootTarget []) = ts := by
  induction ts with
  | nil => rfl
  | cons t ts ih => simp [rootTarget_nil, ih]

/-! ## the heads compute the corresponding root-relative targets -/

/-- `filter_targets_from_store` called in `cwd` with `ts` continues at the root with exactly the
    root-relative targets, at every depth and for every target list. -/
theorem C18_prefix_store (cwd : List Str) (ts : List Str) :
    prefixStore cwd (some ts) = some (ts.map (rootTarget cwd)) := by
  unfold prefixStore
  by_cases h : cwd = []
  · subst h; simp [map_rootTarget_nil]
  · simp only [h, if_false]
    congr 1
    apply List.map_congr_left
    intro t _
    rw [rootTarget_eq cwd t h]

/-- the same for `targets_from_disk` -/
theorem C18_prefix_disk (cwd : List Str) (hw : WfCwd cwd) (ts : List Str) :
    prefixDisk cwd (some ts) = some (ts.map (rootTarget cwd)) := by
  unfold prefixDisk
  by_cases h : cwd = []
  · subst h; simp [map_rootTarget_nil]
  · simp only [h, if_false, not_endsWithSlash_cwdStr cwd h hw]
    congr 1
    apply List.map_congr_left
    intro t _
    rw [rootTarget_eq cwd t h]
    simp [List.append_assoc]

/-- **C18, recorded paths.**  For every matcher, directory test, depth, target list and path store:
    a command run in `cwd` with targets `ts` selects exactly the recorded paths that the same
    command selects at the root with the root-relative targets.  (carry-in, recheck, list, send,
    bring, remove, untrack, copy, move) -/
theorem C18_store_equiv (gm : Str → Str → Bool) (isDir : Str → Bool) (cwd : List Str) (ts : List Str)
    (paths : List Str) :
    selectStore gm isDir cwd (some ts) paths =
    selectStore gm isDir [] (some (ts.map (rootTarget cwd))) paths := by
  unfold selectStore
  rw [C18_prefix_store cwd ts]
  rfl

/-- **C18, paths on disk.**  The same for `targets_from_disk` (track, list). -/
theorem C18_disk_equiv (gm : Str → Str → Bool) (isDir gitTracked : Str → Bool) (filterGit : Bool)
    (cwd : List Str) (hw : WfCwd cwd) (ts : List Str) (disk : List Str) :
    selectDisk gm isDir gitTracked filterGit cwd (some ts) disk =
    selectDisk gm isDir gitTracked filterGit [] (some (ts.map (rootTarget cwd))) disk := by
  unfold selectDisk
  rw [C18_prefix_disk cwd hw ts]
  rfl

/-- joining is associative: standing in `c1/c2`, target `t` is target `c2/t` of `c1` -/
theorem C18_join_assoc (c1 c2 : List Str) (t : Str) :
    rootTarget (c1 ++ c2) t = rootTarget c1 (rootTarget c2 t) := by
  unfold rootTarget
  rw [List.append_assoc, joinComps_append c1 (c2 ++ [t]) (by simp)]

/-- hence any two directories on one branch agree, not only a directory and the root -/
theorem C18_store_equiv_nested (gm : Str → Str → Bool) (isDir : Str → Bool) (c1 c2 : List Str)
    (ts : List Str) (paths : List Str) :
    selectStore gm isDir (c1 ++ c2) (some ts) paths =
    selectStore gm isDir c1 (some (ts.map (rootTarget c2))) paths := by
  rw [C18_store_equiv, C18_store_equiv gm isDir c1]
  congr 2
  rw [List.map_map]
  apply List.map_congr_left
  intro t _
  exact C18_join_assoc c1 c2 t

/-! ## no targets -/

/-- without targets a command run in `cwd` is the command run at the root with the directory
    itself as the only target (every matcher) -/
theorem C18_no_targets_equiv (gm : Str → Str → Bool) (isDir gitTracked : Str → Bool) (filterGit : Bool)
    (cwd : List Str) (h : cwd ≠ []) (hw : WfCwd cwd) (paths disk : List Str) :
    selectStore gm isDir cwd none paths = selectStore gm isDir [] (some [cwdStr cwd]) paths ∧
    selectDisk gm isDir gitTracked filterGit cwd none disk =
      selectDisk gm isDir gitTracked filterGit [] (some [cwdStr cwd ++ ['/']]) disk := by
  constructor
  · simp [selectStore, prefixStore, h]
  · simp [selectDisk, prefixDisk, h, not_endsWithSlash_cwdStr cwd h hw]

/-- **C18, no targets.**  With the concrete matcher: without targets a command applies to exactly
    the recorded paths, and exactly the paths on disk, that lie below the current directory. -/
theorem C18_no_targets_means_cwd (isDir gitTracked : Str → Bool) (filterGit : Bool) (cwd : List Str)
    (h : cwd ≠ []) (hw : WfCwd cwd) (hl : Literal cwd) (hdir : isDir (cwdStr cwd) = true)
    (paths disk : List Str) :
    selectStore globMatch isDir cwd none paths =
      paths.filter (fun p => (cwdStr cwd ++ ['/']).isPrefixOf p) ∧
    selectDisk globMatch isDir gitTracked filterGit cwd none disk =
      (disk.filter (fun p => !(filterGit && gitTracked p))).filter
        (fun p => (cwdStr cwd ++ ['/']).isPrefixOf p) := by
  have hlit := literal_cwdStr cwd hl
  have hns := not_endsWithSlash_cwdStr cwd h hw
  have hst := not_hasStar_of_literal (cwdStr cwd) hlit
  have hes := endsWithSlash_append_slash (cwdStr cwd)
  have hgm : ∀ p, globMatch (cwdStr cwd ++ ['/', '*', '*']) p = (cwdStr cwd ++ ['/']).isPrefixOf p :=
    globMatch_dir (cwdStr cwd) hlit
  constructor
  · simp only [selectStore, prefixStore, h, if_false, selectStoreRoot, filterPathsByGlobs,
      List.map_cons, List.map_nil]
    have hne : ¬ ([cwdStr cwd] = ([] : List Str)) := by simp
    simp only [hne, if_false]
    by_cases hany : paths.any (fun p => (cwdStr cwd ++ ['/']).isPrefixOf p) = true
    · have : slashRule paths (cwdStr cwd) = cwdStr cwd ++ ['/'] := by
        simp [slashRule, hns, hst, hany]
      rw [this]
      simp only [buildGlobs, List.map_cons, List.map_nil, hes, if_true, List.any_cons, List.any_nil,
        Bool.or_false]
      apply List.filter_congr
      intro p _
      rw [← hgm p]
      simp [List.append_assoc]
    · have : slashRule paths (cwdStr cwd) = cwdStr cwd := by
        simp [slashRule, hns, hst, hany]
      rw [this]
      simp only [buildGlobs, List.map_cons, List.map_nil, hns, hst, hdir, List.any_cons, List.any_nil,
        Bool.or_false]
      apply List.filter_congr
      intro p _
      simp [hgm p]
  · have hpd : prefixDisk cwd none = some [cwdStr cwd ++ ['/']] := by
      simp [prefixDisk, h, hns]
    simp only [selectDisk, hpd, selectDiskRoot]
    apply List.filter_congr
    intro p _
    simp only [buildGlobs, List.map_cons, List.map_nil, List.any_cons, List.any_nil, Bool.or_false]
    rw [if_pos hes, ← hgm p]
    simp [List.append_assoc]

/-! ## a file target denotes the path `XvcPath::new` resolves -/

theorem splitSlash_ne_nil (t : Str) : splitSlash t ≠ [] := by
  cases t with
  | nil => simp [splitSlash]
  | cons c cs =>
    unfold splitSlash
    by_cases hc : c = '/'
    · simp [hc]
    · simp only [hc, if_false]
      cases splitSlash cs <;> simp

theorem joinComps_cons_char (c : Char) (w : Str) (ws : List Str) :
    joinComps ((c :: w) :: ws) = c :: joinComps (w :: ws) := by
  cases ws <;> rfl

theorem joinComps_splitSlash (t : Str) : joinComps (splitSlash t) = t := by
  induction t with
  | nil => rfl
  | cons c cs ih =>
    unfold splitSlash
    by_cases hc : c = '/'
    · simp only [hc, if_true]
      rw [joinComps_cons [] _ (splitSlash_ne_nil cs), ih]
      rfl
    · simp only [hc, if_false]
      cases hs : splitSlash cs with
      | nil => exact absurd hs (splitSlash_ne_nil cs)
      | cons w ws =>
        simp only
        rw [joinComps_cons_char, ← hs, ih]

/-- components that `absolutize_from` keeps as they are -/
def PlainComp (c : Str) : Prop := c ≠ [] ∧ c ≠ ['.'] ∧ c ≠ ['.', '.']

theorem normalize_plain (acc comps : List Str) (h : ∀ c ∈ comps, PlainComp c) :
    normalize acc comps = acc.reverse ++ comps := by
  induction comps generalizing acc with
  | nil => simp [normalize]
  | cons c cs ih =>
    obtain ⟨h1, h2, h3⟩ := h c (List.mem_cons_self ..)
    unfold normalize
    simp only [h1, h2, h3, decide_false, Bool.or_false, Bool.false_eq_true, if_false]
    rw [ih _ (fun x hx => h x (List.mem_cons_of_mem _ hx))]
    simp

/-- **C18, file targets.**  For a relative target without `.`/`..`/empty components, the
    root-relative target string that the heads compute is exactly the repository path that
    `XvcPath::new(root, cwd, target)` resolves — the path under which the file is recorded. -/
theorem C18_target_is_xvcpath (cwd : List Str) (t : Str) (ht : ∀ c ∈ splitSlash t, PlainComp c) :
    joinComps (xvcPathNew cwd t) = rootTarget cwd t := by
  unfold xvcPathNew
  rw [normalize_plain _ _ ht, List.reverse_reverse,
    joinComps_append cwd (splitSlash t) (splitSlash_ne_nil t), joinComps_splitSlash]
  rfl

/-! ## destinations of copy and move -/

theorem splitSlash_noslash (c : Str) (hc : '/' ∉ c) : splitSlash c = [c] := by
  induction c with
  | nil => rfl
  | cons x xs ih =>
    have hx : x ≠ '/' := fun e => hc (e ▸ List.mem_cons_self ..)
    have hxs : '/' ∉ xs := fun h => hc (List.mem_cons_of_mem _ h)
    unfold splitSlash
    simp [hx, ih hxs]

theorem splitSlash_append_slash (c : Str) (hc : '/' ∉ c) (rest : Str) :
    splitSlash (c ++ '/' :: rest) = c :: splitSlash rest := by
  induction c with
  | nil => simp [splitSlash]
  | cons x xs ih =>
    have hx : x ≠ '/' := fun e => hc (e ▸ List.mem_cons_self ..)
    have hxs : '/' ∉ xs := fun h => hc (List.mem_cons_of_mem _ h)
    have : (x :: xs) ++ '/' :: rest = x :: (xs ++ '/' :: rest) := rfl
    rw [this]
    have e : splitSlash (x :: (xs ++ '/' :: rest)) =
        (match splitSlash (xs ++ '/' :: rest) with
         | [] => [[x]]
         | w :: ws => (x :: w) :: ws) := by
      conv => lhs; unfold splitSlash
      simp only [hx, if_false]
      rfl
    rw [e, ih hxs]

theorem splitSlash_rootTarget (cwd : List Str) (hw : WfCwd cwd) (t : Str) :
    splitSlash (rootTarget cwd t) = cwd ++ splitSlash t := by
  unfold rootTarget
  induction cwd with
  | nil => rfl
  | cons c cs ih =>
    have hc := (hw c (List.mem_cons_self ..)).2
    have hw' : WfCwd cs := fun x hx => hw x (List.mem_cons_of_mem _ hx)
    have : (c :: cs) ++ [t] = c :: (cs ++ [t]) := rfl
    rw [this, joinComps_cons c _ (by simp), splitSlash_append_slash c hc, ih hw']
    rfl

/-- **C18, destinations.**  The repository path `XvcPath::new` resolves for a destination given in
    `cwd` is the path it resolves at the root for the root-relative destination (copy, move; file
    destinations, and — after C18-K9b.patch — directory destinations). -/
theorem C18_destination_equiv (cwd : List Str) (hw : WfCwd cwd) (hp : ∀ c ∈ cwd, PlainComp c) (d : Str)
    (hd : ∀ c ∈ splitSlash d, PlainComp c) :
    xvcPathNew cwd d = xvcPathNew [] (rootTarget cwd d) := by
  unfold xvcPathNew
  rw [normalize_plain _ _ hd, splitSlash_rootTarget cwd hw d, List.reverse_reverse, List.reverse_nil]
  rw [normalize_plain [] (cwd ++ splitSlash d)
    (fun c hc => by
      rcases List.mem_append.mp hc with h | h
      · exact hp c h
      · exact hd c h)]
  rfl

/-- **K9b, before C18-K9b.patch**: from `a/b`, the directory destination `dst/` was `dst` at the
    root of the repository, the file destination `dst/x.txt` was `a/b/dst/x.txt`. -/
theorem C18_destination_counterexample_before_fix :
    destPathOld ["a".toList, "b".toList] "dst/".toList = ["dst".toList] ∧
    destPathOld ["a".toList, "b".toList] "dst/x.txt".toList = ["a".toList, "b".toList, "dst".toList, "x.txt".toList] ∧
    destPath ["a".toList, "b".toList] "dst/".toList = ["a".toList, "b".toList, "dst".toList] ∧
    destPath [] "a/b/dst/".toList = ["a".toList, "b".toList, "dst".toList] := by decide

/-! ## the destination guard of copy and move is evaluated at the same path from every directory -/

theorem destPath_eq_xvcPathNew (cwd : List Str) (d : Str) : destPath cwd d = xvcPathNew cwd (stripSlash d) := rfl

/-- prefixing with the current directory keeps the directory marker and commutes with removing it -/
theorem stripSlash_rootTarget (cwd : List Str) (d : Str) (hd : d ≠ []) :
    endsWithSlash (rootTarget cwd d) = endsWithSlash d ∧
    stripSlash (rootTarget cwd d) = if endsWithSlash d then rootTarget cwd d.dropLast else rootTarget cwd d := by
  by_cases h : cwd = []
  · subst h
    exact ⟨rfl, rfl⟩
  · have e : rootTarget cwd d = (cwdStr cwd ++ ['/']) ++ d := by rw [rootTarget_eq cwd d h]; simp
    have hs : endsWithSlash (rootTarget cwd d) = endsWithSlash d := by
      unfold endsWithSlash
      rw [e, getLast?_append_ne_nil _ _ hd]
    refine ⟨hs, ?_⟩
    unfold stripSlash
    rw [hs]
    cases endsWithSlash d with
    | false => rfl
    | true =>
      simp only [if_true]
      rw [e, List.dropLast_append_of_ne_nil hd, rootTarget_eq cwd _ h]
      simp

/-- **C18, destinations of copy and move, file and directory.**  For every current directory and
    every destination argument (file, or directory `dir/`) without `.`/`..`/empty components: the
    root-relative destination path, the ABSOLUTE path at which the guard looks for a file Xvc does
    not know about, and the decision of the guard are the ones the same command gets at the root
    with the root-relative destination; the guard path is `root / resolve(cwd, arg)`, never
    `root / cwd / resolve(cwd, arg)`. -/
theorem C18_copy_destination_same_from_any_cwd (root cwd : List Str) (hw : WfCwd cwd)
    (hp : ∀ c ∈ cwd, PlainComp c) (arg : Str) (ha : ∀ c ∈ splitSlash (stripSlash arg), PlainComp c)
    (src : List Str) (force : Bool) (recorded : List Str) (onDisk : List Str → Bool) :
    copyDest cwd arg src = copyDest [] (rootTarget cwd arg) src ∧
    guardPath root cwd arg src = root ++ copyDest [] (rootTarget cwd arg) src ∧
    guardPath root cwd arg src = guardPath root [] (rootTarget cwd arg) src ∧
    copyRefused force recorded onDisk root cwd arg src =
      copyRefused force recorded onDisk root [] (rootTarget cwd arg) src := by
  have hne : arg ≠ [] := by
    intro e
    subst e
    have := (ha [] (by decide)).1
    exact this rfl
  obtain ⟨hs, hst⟩ := stripSlash_rootTarget cwd arg hne
  have hdp : destPath cwd arg = destPath [] (rootTarget cwd arg) := by
    rw [destPath_eq_xvcPathNew, destPath_eq_xvcPathNew, hst, C18_destination_equiv cwd hw hp _ ha]
    unfold stripSlash
    cases endsWithSlash arg <;> rfl
  have hcd : copyDest cwd arg src = copyDest [] (rootTarget cwd arg) src := by
    unfold copyDest
    rw [hs, hdp]
  refine ⟨hcd, ?_, ?_, ?_⟩
  · unfold guardPath; rw [hcd]
  · unfold guardPath; rw [hcd]
  · unfold copyRefused guardPath; rw [hcd]

/-- for a file destination the guard path is the root, the components of the current directory, the
    components of the argument — the current directory occurs exactly once -/
theorem C18_copy_guard_path_file (root cwd : List Str) (arg : Str) (hs : endsWithSlash arg = false)
    (ha : ∀ c ∈ splitSlash arg, PlainComp c) (src : List Str) :
    guardPath root cwd arg src = root ++ (cwd ++ splitSlash arg) := by
  unfold guardPath copyDest destPath xvcPathNew
  simp only [hs, Bool.false_eq_true, if_false]
  rw [normalize_plain _ _ ha, List.reverse_reverse]

/-- evaluating the guard against the current directory instead of the root is a different function
    everywhere but at the root: in `data`, `xvc file copy a.txt b.txt` must look at `<root>/data/b.txt`
    (an untracked `data/b.txt` refuses the copy, from `data` exactly as from the root); looking at
    `<root>/data/data/b.txt` does not see it.  Replayed on the real binary by `lib/c18.py`. -/
theorem C18_copy_guard_against_cwd_differs :
    guardPath ["R".toList] ["data".toList] "b.txt".toList ["data".toList, "a.txt".toList]
      = ["R".toList, "data".toList, "b.txt".toList] ∧
    guardPath ["R".toList] [] "data/b.txt".toList ["data".toList, "a.txt".toList]
      = ["R".toList, "data".toList, "b.txt".toList] ∧
    guardPathFromCwd ["R".toList] ["data".toList] "b.txt".toList ["data".toList, "a.txt".toList]
      = ["R".toList, "data".toList, "data".toList, "b.txt".toList] ∧
    guardPath ["R".toList] ["data".toList] "backup/".toList ["data".toList, "a.txt".toList]
      = ["R".toList, "data".toList, "backup".toList, "data".toList, "a.txt".toList] ∧
    copyRefused false ["data/a.txt".toList] (fun p => p == ["R".toList, "data".toList, "b.txt".toList])
      ["R".toList] ["data".toList] "b.txt".toList ["data".toList, "a.txt".toList] = true ∧
    copyRefused true ["data/a.txt".toList] (fun p => p == ["R".toList, "data".toList, "b.txt".toList])
      ["R".toList] ["data".toList] "b.txt".toList ["data".toList, "a.txt".toList] = false ∧
    copyRefused false ["data/a.txt".toList] (fun p => p == ["R".toList, "data".toList, "b.txt".toList])
      ["R".toList] ["data".toList] "c.txt".toList ["data".toList, "a.txt".toList] = false := by decide

/-! ## destinations spelled with `..`, `.`, detours: `XvcPath::new` normalises -/

/-- `k` leading `..` remove the last `k` components that are already there -/
theorem normalize_dotdot (acc rest : List Str) :
    normalize acc (dotdot :: rest) = normalize acc.tail rest := by
  conv => lhs; unfold normalize
  simp [dotdot]

theorem normalize_climb (acc : List Str) (k : Nat) (tail : List Str) (ht : ∀ c ∈ tail, PlainComp c) :
    normalize acc (List.replicate k dotdot ++ tail) = (acc.drop k).reverse ++ tail := by
  induction k generalizing acc with
  | zero => simpa using normalize_plain acc tail ht
  | succ k ih =>
    have e : List.replicate (k + 1) dotdot ++ tail = dotdot :: (List.replicate k dotdot ++ tail) := rfl
    rw [e, normalize_dotdot, ih acc.tail]
    congr 2
    cases acc with
    | nil => simp
    | cons a as => simp

theorem commonLen_le (a b : List Str) : commonLen a b ≤ a.length := by
  induction a generalizing b with
  | nil => simp [commonLen]
  | cons x xs ih =>
    cases b with
    | nil => simp [commonLen]
    | cons y ys =>
      unfold commonLen
      by_cases h : x = y
      · simp only [h, if_true, List.length_cons]; have := ih ys; omega
      · simp [h]

theorem take_commonLen (a b : List Str) : a.take (commonLen a b) = b.take (commonLen a b) := by
  induction a generalizing b with
  | nil => simp [commonLen]
  | cons x xs ih =>
    cases b with
    | nil => simp [commonLen]
    | cons y ys =>
      unfold commonLen
      by_cases h : x = y
      · simp only [h, if_true, List.take_succ_cons, ih ys]
      · simp [h]

/-- **C18, destinations that climb.**  Components: for every current directory (any depth) and
    every root-relative destination `D` (plain components), `XvcPath::new` resolves the climbing
    spelling of `D` given in `cwd` to `D` itself. -/
theorem C18_climbing_destination_resolves (cwd D : List Str) (hD : ∀ c ∈ D, PlainComp c) :
    normalize cwd.reverse (relTo cwd D) = D := by
  unfold relTo
  rw [normalize_climb _ _ _ (fun c hc => hD c (List.mem_of_mem_drop hc)), List.drop_reverse,
    List.reverse_reverse]
  have hle := commonLen_le cwd D
  have e : cwd.length - (cwd.length - commonLen cwd D) = commonLen cwd D := by omega
  rw [e, take_commonLen cwd D, List.take_append_drop]

theorem splitSlash_joinComps (cs : List Str) (hne : cs ≠ []) (hw : WfCwd cs) :
    splitSlash (joinComps cs) = cs := by
  have e : cs = cs.dropLast ++ [cs.getLast hne] := (List.dropLast_concat_getLast hne).symm
  have hwi : WfCwd cs.dropLast := fun c hc => hw c (by rw [e]; exact List.mem_append_left _ hc)
  have hl := (hw (cs.getLast hne) (List.getLast_mem hne)).2
  have : joinComps cs = rootTarget cs.dropLast (cs.getLast hne) := by
    unfold rootTarget; rw [← e]
  rw [this, splitSlash_rootTarget _ hwi, splitSlash_noslash _ hl, ← e]

/-- a path spelled by plain components or `..`: no empty component, no `/` inside a component -/
theorem wf_relTo (cwd D : List Str) (hw : WfCwd D) : WfCwd (relTo cwd D) := by
  intro c hc
  unfold relTo at hc
  rcases List.mem_append.mp hc with h | h
  · have := List.eq_of_mem_replicate h
    subst this
    exact ⟨by simp [dotdot], by simp [dotdot]⟩
  · exact hw c (List.mem_of_mem_drop h)

/-- **C18, destinations that climb, as typed.**  For every current directory and every
    root-relative destination `D`: the path recorded for the climbing spelling typed in `cwd`
    (`XvcPath::new(root, cwd, "../../other/a.txt")`) is `D`, which is also what the root-relative
    spelling typed at the root records; the destination of `xvc file copy` / `move` is `D` for the
    file form and `D/<source path>` for the directory form `…/`. -/
theorem C18_destination_climbing_same_as_root (cwd D src : List Str) (hD : ∀ c ∈ D, PlainComp c)
    (hw : WfCwd D) (hne : relTo cwd D ≠ []) (hD0 : D ≠ []) :
    xvcPathNew cwd (joinComps (relTo cwd D)) = D ∧
    xvcPathNew [] (joinComps D) = D ∧
    copyDest cwd (joinComps (relTo cwd D)) src = D ∧
    copyDest cwd (joinComps (relTo cwd D) ++ ['/']) src = D ++ src := by
  have hwr := wf_relTo cwd D hw
  have h1 : xvcPathNew cwd (joinComps (relTo cwd D)) = D := by
    unfold xvcPathNew
    rw [splitSlash_joinComps _ hne hwr, C18_climbing_destination_resolves cwd D hD]
  have h2 : xvcPathNew [] (joinComps D) = D := by
    unfold xvcPathNew
    rw [splitSlash_joinComps _ hD0 hw, normalize_plain _ _ hD]
    rfl
  have hns : endsWithSlash (joinComps (relTo cwd D)) = false := not_endsWithSlash_cwdStr _ hne hwr
  refine ⟨h1, h2, ?_, ?_⟩
  · unfold copyDest destPath
    simp only [hns, Bool.false_eq_true, if_false]
    exact h1
  · unfold copyDest destPath
    simp only [endsWithSlash_append_slash, if_true, List.dropLast_concat]
    rw [h1]

/-- `.` and empty components are dropped, a detour `x/..` is undone (`./c2.txt`, `tmp/../c2.txt`,
    `new//dest.txt`), wherever they stand first in the rest of the path -/
theorem C18_destination_dot_and_detour (acc : List Str) (x : Str) (hx : PlainComp x) (t : List Str) :
    normalize acc (['.'] :: t) = normalize acc t ∧ normalize acc ([] :: t) = normalize acc t ∧
    normalize acc (x :: dotdot :: t) = normalize acc t := by
  obtain ⟨h1, h2, h3⟩ := hx
  refine ⟨?_, ?_, ?_⟩
  · conv => lhs; unfold normalize
    simp
  · conv => lhs; unfold normalize
    simp
  · conv => lhs; unfold normalize
    simp only [h1, h2, h3, decide_false, Bool.or_false, Bool.false_eq_true, if_false]
    conv => lhs; unfold normalize
    simp [dotdot]

/-- `XvcPath::new` as a plain join is a different function exactly on spellings with `..`: from
    `data/raw`, `../../other/a.txt` must be recorded as `other/a.txt` (and `../clean/b.txt` as
    `data/clean/b.txt`, `../raw/c2.txt` as `data/raw/c2.txt`); the join records
    `data/raw/../../other/a.txt`.  At the root and for `./c2.txt` the two agree.  Replayed on the
    real binary by `lib/c18.py` (corpus). -/
theorem C18_plain_join_destination_differs :
    relTo ["data".toList, "raw".toList] ["other".toList, "a.txt".toList]
      = ["..".toList, "..".toList, "other".toList, "a.txt".toList] ∧
    relTo ["data".toList, "raw".toList] ["data".toList, "clean".toList, "b.txt".toList]
      = ["..".toList, "clean".toList, "b.txt".toList] ∧
    xvcPathNew ["data".toList, "raw".toList] "../../other/a.txt".toList = ["other".toList, "a.txt".toList] ∧
    xvcPathJoin ["data".toList, "raw".toList] "../../other/a.txt".toList
      = ["data".toList, "raw".toList, "..".toList, "..".toList, "other".toList, "a.txt".toList] ∧
    xvcPathNew ["data".toList, "raw".toList] "../raw/c2.txt".toList
      = ["data".toList, "raw".toList, "c2.txt".toList] ∧
    xvcPathJoin ["data".toList, "raw".toList] "../raw/c2.txt".toList
      = ["data".toList, "raw".toList, "..".toList, "raw".toList, "c2.txt".toList] ∧
    xvcPathJoin [] "other/a.txt".toList = xvcPathNew [] "other/a.txt".toList ∧
    xvcPathJoin ["data".toList, "raw".toList] "./c2.txt".toList
      = xvcPathNew ["data".toList, "raw".toList] "./c2.txt".toList ∧
    copyDest ["data".toList, "raw".toList] "../../other/".toList ["data".toList, "raw".toList, "a.txt".toList]
      = ["other".toList, "data".toList, "raw".toList, "a.txt".toList] := by decide

/-! ## no targets: exactly the descendants of the current directory, component-wise -/

/-- what `properAncestor` says: the components of `p` are the components of `cwd` followed by at
    least one more component -/
theorem C18_properAncestor_spec (cwd : List Str) (p : Str) :
    properAncestor cwd p = true ↔ ∃ rest, rest ≠ [] ∧ splitSlash p = cwd ++ rest := by
  unfold properAncestor
  simp only [Bool.and_eq_true, decide_eq_true_eq, List.isPrefixOf_iff_prefix]
  constructor
  · rintro ⟨⟨rest, hr⟩, hlen⟩
    refine ⟨rest, ?_, hr.symm⟩
    intro e
    subst e
    rw [← hr] at hlen
    simp at hlen
  · rintro ⟨rest, hne, hr⟩
    refine ⟨⟨rest, hr.symm⟩, ?_⟩
    rw [hr, List.length_append]
    have : 0 < rest.length := List.length_pos_iff.mpr hne
    omega

/-- the character-level test the glob `cwd/**` performs (`cwd/` is a string prefix of `p`) IS the
    component-level relation, for every well-formed `cwd` and EVERY string `p` -/
theorem isPrefixOf_slash_eq_properAncestor (cwd : List Str) (h : cwd ≠ []) (hw : WfCwd cwd) (p : Str) :
    (cwdStr cwd ++ ['/']).isPrefixOf p = properAncestor cwd p := by
  rw [Bool.eq_iff_iff, C18_properAncestor_spec, List.isPrefixOf_iff_prefix]
  constructor
  · rintro ⟨r, rfl⟩
    have e : cwdStr cwd ++ ['/'] ++ r = rootTarget cwd r := by
      rw [rootTarget_eq cwd r h]; simp
    rw [e, splitSlash_rootTarget cwd hw r]
    exact ⟨splitSlash r, splitSlash_ne_nil r, rfl⟩
  · rintro ⟨rest, hne, hr⟩
    have hp : p = rootTarget cwd (joinComps rest) := by
      rw [← joinComps_splitSlash p, hr, joinComps_append cwd rest hne]
      rfl
    rw [hp, rootTarget_eq cwd _ h]
    exact ⟨joinComps rest, by simp⟩

/-- **C18, no targets, for ALL names.**  A command run without targets in `cwd` selects a recorded
    path `p` (a path on disk `p`) if and only if `cwd` is a proper component-wise ancestor of `p`
    — whatever the names are: a sibling whose name merely extends the name of the current directory
    (`data2/`, `data-old/`, `data.bak/`, `datafile.txt` next to `data/`), the directory itself, and
    a directory whose name is a prefix of it (`da/`) are never selected. -/
theorem C18_no_targets_selects_exactly_descendants (isDir gitTracked : Str → Bool) (filterGit : Bool)
    (cwd : List Str) (h : cwd ≠ []) (hw : WfCwd cwd) (hl : Literal cwd)
    (hdir : isDir (cwdStr cwd) = true) (paths disk : List Str) (p : Str) :
    (p ∈ selectStore globMatch isDir cwd none paths ↔ p ∈ paths ∧ properAncestor cwd p = true) ∧
    (p ∈ selectDisk globMatch isDir gitTracked filterGit cwd none disk ↔
      (p ∈ disk ∧ (filterGit && gitTracked p) = false) ∧ properAncestor cwd p = true) := by
  obtain ⟨hs, hd⟩ := C18_no_targets_means_cwd isDir gitTracked filterGit cwd h hw hl hdir paths disk
  rw [hs, hd]
  constructor
  · simp only [List.mem_filter, isPrefixOf_slash_eq_properAncestor cwd h hw]
  · simp only [List.mem_filter, isPrefixOf_slash_eq_properAncestor cwd h hw, Bool.not_eq_true']

/-- the same as one equation: the selection is the path store filtered by the component-wise test -/
theorem C18_no_targets_filter_descendants (isDir : Str → Bool) (cwd : List Str) (h : cwd ≠ [])
    (hw : WfCwd cwd) (hl : Literal cwd) (hdir : isDir (cwdStr cwd) = true) (paths : List Str) :
    selectStore globMatch isDir cwd none paths = paths.filter (properAncestor cwd) := by
  rw [(C18_no_targets_means_cwd isDir (fun _ => false) false cwd h hw hl hdir paths []).1]
  apply List.filter_congr
  intro p _
  exact isPrefixOf_slash_eq_properAncestor cwd h hw p

/-- **C18, no targets, siblings.**  Standing in `parent/c`: a path below `parent` whose next
    component is not exactly `c` — a sibling directory `c'` with anything below it, or a sibling
    file — is not selected, even when `c` is a string prefix of `c'`. -/
theorem C18_no_targets_excludes_siblings (isDir : Str → Bool) (parent : List Str) (c u : Str)
    (hw : WfCwd (parent ++ [c])) (hl : Literal (parent ++ [c]))
    (hdir : isDir (cwdStr (parent ++ [c])) = true) (hu : (splitSlash u).head? ≠ some c)
    (paths : List Str) :
    rootTarget parent u ∉ selectStore globMatch isDir (parent ++ [c]) none paths := by
  intro hm
  have hwp : WfCwd parent := fun x hx => hw x (List.mem_append_left _ hx)
  have hpa := ((C18_no_targets_selects_exactly_descendants isDir (fun _ => false) false
    (parent ++ [c]) (by simp) hw hl hdir paths [] (rootTarget parent u)).1.mp hm).2
  obtain ⟨rest, _, hr⟩ := (C18_properAncestor_spec _ _).mp hpa
  rw [splitSlash_rootTarget parent hwp u, List.append_assoc] at hr
  have hr' := List.append_cancel_left hr
  rw [hr'] at hu
  simp at hu

/-- the string-prefix shortcut is a different function: in `data` (and, nested, in `proj/train`)
    it also takes the recorded paths of the siblings `data2/`, `data-old/`, `data.bak/`,
    `datafile.txt` (`proj/train_aug/`, `proj/train.csv`); the model of the code takes none of them.
    Replayed on the real binary by `lib/c18.py` (corpus, layout `prefix`). -/
theorem C18_string_prefix_selection_differs :
    selectStore globMatch (fun d => d == "data".toList) ["data".toList] none
      ["data/a.txt".toList, "data/raw/r.txt".toList, "data2/b.txt".toList, "data-old/c.txt".toList,
       "data.bak/d.dat".toList, "datafile.txt".toList, "data".toList, "da/x.txt".toList]
      = ["data/a.txt".toList, "data/raw/r.txt".toList] ∧
    strPrefixSelect ["data".toList]
      ["data/a.txt".toList, "data/raw/r.txt".toList, "data2/b.txt".toList, "data-old/c.txt".toList,
       "data.bak/d.dat".toList, "datafile.txt".toList, "data".toList, "da/x.txt".toList]
      = ["data/a.txt".toList, "data/raw/r.txt".toList, "data2/b.txt".toList, "data-old/c.txt".toList,
         "data.bak/d.dat".toList, "datafile.txt".toList] ∧
    selectStore globMatch (fun d => d == "proj/train".toList) ["proj".toList, "train".toList] none
      ["proj/train/t.txt".toList, "proj/train_aug/u.txt".toList, "proj/train.csv".toList,
       "proj/tr/v.txt".toList]
      = ["proj/train/t.txt".toList] ∧
    strPrefixSelect ["proj".toList, "train".toList]
      ["proj/train/t.txt".toList, "proj/train_aug/u.txt".toList, "proj/train.csv".toList,
       "proj/tr/v.txt".toList]
      = ["proj/train/t.txt".toList, "proj/train_aug/u.txt".toList, "proj/train.csv".toList] := by
  decide

/-! ## a typed target is never reinterpreted: names that repeat along a path -/

theorem slash_cons_ne_self (a t : Str) : a ++ '/' :: t ≠ t := by
  intro h
  have := congrArg List.length h
  simp at this
  omega

/-- **C18, a typed target is never reinterpreted.**  In every current directory other than the
    root, for EVERY target list — whatever the targets begin with — the head of
    `filter_targets_from_store` resolves each typed target `t` to the plain join `cwd/t`
    (`= rootTarget cwd t`); the resolved target is never the typed one; in particular a target that
    itself begins with `cwd/` (`t = cwd/u`) is resolved to `cwd/cwd/u`, the current directory
    occurring TWICE.  (`C18_target_resolution_is_join` adds that this is the normalised path
    `XvcPath::new` records.) -/
theorem C18_target_never_reinterpreted (cwd : List Str) (h : cwd ≠ []) (ts : List Str) :
    prefixStore cwd (some ts) = some (ts.map (fun t => cwdStr cwd ++ '/' :: t)) ∧
    (∀ t, cwdStr cwd ++ '/' :: t = rootTarget cwd t ∧ cwdStr cwd ++ '/' :: t ≠ t) ∧
    (∀ u, prefixStore cwd (some [cwdStr cwd ++ '/' :: u]) = some [rootTarget (cwd ++ cwd) u]) := by
  refine ⟨by simp [prefixStore, h], fun t => ⟨(rootTarget_eq cwd t h).symm, slash_cons_ne_self _ _⟩, ?_⟩
  intro u
  rw [C18_prefix_store, ← rootTarget_eq cwd u h, C18_join_assoc]
  rfl

/-- the resolution is the NORMALISED join: for plain components (no `.`, `..`, empty) the resolved
    target splits into the components of the current directory followed by the components of the
    typed target, and that is the path `XvcPath::new` resolves from `cwd` for `t` and from the
    root for the resolved target — also when `t` begins with `cwd` again. -/
theorem C18_target_resolution_is_join (cwd : List Str) (h : cwd ≠ []) (hw : WfCwd cwd)
    (hp : ∀ c ∈ cwd, PlainComp c) (t : Str) (ht : ∀ c ∈ splitSlash t, PlainComp c) :
    splitSlash (cwdStr cwd ++ '/' :: t) = cwd ++ splitSlash t ∧
    xvcPathNew cwd t = cwd ++ splitSlash t ∧
    xvcPathNew [] (cwdStr cwd ++ '/' :: t) = cwd ++ splitSlash t := by
  rw [← rootTarget_eq cwd t h]
  have e1 := splitSlash_rootTarget cwd hw t
  have e2 : xvcPathNew cwd t = cwd ++ splitSlash t := by
    unfold xvcPathNew
    rw [normalize_plain _ _ ht, List.reverse_reverse]
  exact ⟨e1, e2, by rw [← C18_destination_equiv cwd hw hp t ht, e2]⟩

/-- **C18, a file target names the joined path and nothing else.**  With the concrete matcher: a
    target `t` typed in `cwd` whose resolution `cwd/t` is literal, is not a directory and has no
    recorded path below it selects exactly the recorded path `cwd/t` — for every path store, in
    particular one that ALSO records the path spelled `t` from the root. -/
theorem C18_file_target_selects_joined_path (isDir : Str → Bool) (cwd : List Str) (t : Str)
    (paths : List Str)
    (hlit : ∀ x ∈ rootTarget cwd t, x ≠ '*' ∧ x ≠ '?')
    (hns : endsWithSlash (rootTarget cwd t) = false)
    (hnd : isDir (rootTarget cwd t) = false)
    (hnp : paths.any (fun p => (rootTarget cwd t ++ ['/']).isPrefixOf p) = false) :
    selectStore globMatch isDir cwd (some [t]) paths =
      paths.filter (fun p => rootTarget cwd t == p) := by
  have hst := not_hasStar_of_literal _ hlit
  rw [C18_store_equiv]
  simp only [selectStore, prefixStore, if_true, selectStoreRoot, filterPathsByGlobs, List.map_cons,
    List.map_nil]
  have hne : ¬ ([rootTarget cwd t] = ([] : List Str)) := by simp
  simp only [hne, if_false]
  have hsr : slashRule paths (rootTarget cwd t) = rootTarget cwd t := by
    simp [slashRule, hns, hst, hnp]
  rw [hsr]
  simp only [buildGlobs, List.map_cons, List.map_nil, hns, hst, hnd, List.any_cons, List.any_nil,
    Bool.or_false]
  apply List.filter_congr
  intro p _
  simp [globMatch_literal _ hlit p]

/-- **from the inner directory `data/x.bin` names `data/data/x.bin`.**  General form: standing in
    `cwd`, the target `cwd/u` selects what the root selects for `cwd/cwd/u` (every matcher, every
    store); and under the hypotheses of the file-target theorem it does NOT select the outer path
    `cwd/u`, even when that path is recorded. -/
theorem C18_inner_directory_target (gm : Str → Str → Bool) (isDir : Str → Bool) (cwd : List Str)
    (u : Str) (paths : List Str) :
    selectStore gm isDir cwd (some [rootTarget cwd u]) paths =
      selectStore gm isDir [] (some [rootTarget (cwd ++ cwd) u]) paths ∧
    (cwd ≠ [] →
      (∀ x ∈ rootTarget (cwd ++ cwd) u, x ≠ '*' ∧ x ≠ '?') →
      endsWithSlash (rootTarget (cwd ++ cwd) u) = false →
      isDir (rootTarget (cwd ++ cwd) u) = false →
      paths.any (fun p => (rootTarget (cwd ++ cwd) u ++ ['/']).isPrefixOf p) = false →
      rootTarget cwd u ∉ selectStore globMatch isDir cwd (some [rootTarget cwd u]) paths) := by
  constructor
  · rw [C18_store_equiv]
    simp [C18_join_assoc]
  · intro h hlit hns hnd hnp hmem
    have e : rootTarget cwd (rootTarget cwd u) = rootTarget (cwd ++ cwd) u := (C18_join_assoc cwd cwd u).symm
    rw [C18_file_target_selects_joined_path isDir cwd (rootTarget cwd u) paths
      (by rw [e]; exact hlit) (by rw [e]; exact hns) (by rw [e]; exact hnd) (by rw [e]; exact hnp)] at hmem
    have hm := (List.mem_filter.mp hmem).2
    have heq : rootTarget cwd (rootTarget cwd u) = rootTarget cwd u := by simpa using hm
    rw [rootTarget_eq cwd (rootTarget cwd u) h] at heq
    exact slash_cons_ne_self _ _ heq

/-- the head that keeps targets beginning with `cwd/` as typed agrees with the code on a target
    list exactly when NO target begins with `cwd/`: the region in which the two differ is the
    region of names that repeat along a path. -/
theorem C18_keep_prefixed_target_agrees_iff (cwd : List Str) (h : cwd ≠ []) (ts : List Str) :
    prefixStoreKeep cwd (some ts) = prefixStore cwd (some ts) ↔
      ∀ t ∈ ts, (cwdStr cwd ++ ['/']).isPrefixOf t = false := by
  simp only [prefixStoreKeep, prefixStore, h, if_false, Option.some.injEq]
  rw [List.map_inj_left]
  constructor
  · intro hall t ht
    have := hall t ht
    cases hp : (cwdStr cwd ++ ['/']).isPrefixOf t with
    | false => rfl
    | true =>
      rw [if_pos hp] at this
      exact absurd this.symm (slash_cons_ne_self _ _)
  · intro hall t ht
    simp [hall t ht]

/-- **keeping a target that begins with the current directory as typed is a different function**
    (seeded/C18-6).  Two recorded paths `data/x.bin` and `data/data/x.bin` (and `data/y.bin`),
    current directory `data`: the code resolves the typed `data/x.bin` to `data/data/x.bin` and
    selects the INNER file, exactly what the root selects for `data/data/x.bin`; the keeping head
    leaves `data/x.bin` and selects the OUTER file.  The same for the directory target `data/`
    (inner directory vs everything in `data`), the glob `data/*.bin`, and at depth 2 (`a/b` inside
    `a/b`).  Targets that do not begin with `data/` (`x.bin`, `data`) are resolved alike.
    Replayed on the real binary by `lib/c18.py` (corpus, layout `repeat`). -/
theorem C18_keep_prefixed_target_counterexample :
    let paths := ["data/x.bin".toList, "data/data/x.bin".toList, "data/y.bin".toList]
    let isDir : Str → Bool := fun d => d == "data".toList || d == "data/data".toList
    prefixStore ["data".toList] (some ["data/x.bin".toList]) = some ["data/data/x.bin".toList] ∧
    prefixStoreKeep ["data".toList] (some ["data/x.bin".toList]) = some ["data/x.bin".toList] ∧
    selectStore globMatch isDir ["data".toList] (some ["data/x.bin".toList]) paths
      = ["data/data/x.bin".toList] ∧
    selectStore globMatch isDir [] (some ["data/data/x.bin".toList]) paths
      = ["data/data/x.bin".toList] ∧
    selectStoreKeep globMatch isDir ["data".toList] (some ["data/x.bin".toList]) paths
      = ["data/x.bin".toList] ∧
    selectStore globMatch isDir ["data".toList] (some ["data/".toList]) paths
      = ["data/data/x.bin".toList] ∧
    selectStoreKeep globMatch isDir ["data".toList] (some ["data/".toList]) paths = paths ∧
    selectStore globMatch isDir ["data".toList] (some ["data/*.bin".toList]) paths
      = ["data/data/x.bin".toList] ∧
    selectStoreKeep globMatch isDir ["data".toList] (some ["data/*.bin".toList]) paths
      = ["data/x.bin".toList, "data/y.bin".toList] ∧
    selectStore globMatch (fun _ => false) ["a".toList, "b".toList] (some ["a/b/f.txt".toList])
      ["a/b/f.txt".toList, "a/b/a/b/f.txt".toList] = ["a/b/a/b/f.txt".toList] ∧
    selectStoreKeep globMatch (fun _ => false) ["a".toList, "b".toList] (some ["a/b/f.txt".toList])
      ["a/b/f.txt".toList, "a/b/a/b/f.txt".toList] = ["a/b/f.txt".toList] ∧
    selectStoreKeep globMatch isDir ["data".toList] (some ["x.bin".toList, "data".toList]) paths
      = selectStore globMatch isDir ["data".toList] (some ["x.bin".toList, "data".toList]) paths := by
  decide

/-! ## non-vacuity -/

/-- the hypotheses of `C18_file_target_selects_joined_path` / `C18_inner_directory_target` hold for
    `cwd = data`, `u = x.bin` with the store `data/x.bin`, `data/data/x.bin`, `data/y.bin`, and the
    selection is the inner file; those of `C18_target_resolution_is_join` hold for `t = data/x.bin`;
    `C18_keep_prefixed_target_agrees_iff`: `data/x.bin` begins with `data/`, `x.bin` does not -/
example : rootTarget (["data".toList] ++ ["data".toList]) "x.bin".toList = "data/data/x.bin".toList ∧
    (∀ x ∈ rootTarget (["data".toList] ++ ["data".toList]) "x.bin".toList, x ≠ '*' ∧ x ≠ '?') ∧
    endsWithSlash (rootTarget (["data".toList] ++ ["data".toList]) "x.bin".toList) = false ∧
    (["data/x.bin".toList, "data/data/x.bin".toList, "data/y.bin".toList].any
      (fun p => (rootTarget (["data".toList] ++ ["data".toList]) "x.bin".toList ++ ['/']).isPrefixOf p)) = false ∧
    selectStore globMatch (fun d => d == "data".toList || d == "data/data".toList) ["data".toList]
      (some [rootTarget ["data".toList] "x.bin".toList])
      ["data/x.bin".toList, "data/data/x.bin".toList, "data/y.bin".toList] = ["data/data/x.bin".toList] := by
  decide
example : (∀ c ∈ ["data".toList], PlainComp c) ∧ (∀ c ∈ splitSlash "data/x.bin".toList, PlainComp c) ∧
    xvcPathNew ["data".toList] "data/x.bin".toList = ["data".toList, "data".toList, "x.bin".toList] := by
  have h : splitSlash "data/x.bin".toList = ["data".toList, "x.bin".toList] := by decide
  rw [h]
  refine ⟨?_, ?_, by decide⟩
  · intro c hc; simp at hc; subst hc; exact ⟨by decide, by decide, by decide⟩
  · intro c hc; simp at hc; rcases hc with rfl | rfl <;> exact ⟨by decide, by decide, by decide⟩
example : (cwdStr ["data".toList] ++ ['/']).isPrefixOf "data/x.bin".toList = true ∧
    (cwdStr ["data".toList] ++ ['/']).isPrefixOf "x.bin".toList = false ∧
    (cwdStr ["data".toList] ++ ['/']).isPrefixOf "data".toList = false := by decide


/-- the hypotheses of `C18_destination_climbing_same_as_root` hold for `cwd = data/raw`,
    `D = other/a.txt` -/
example : (∀ c ∈ ["other".toList, "a.txt".toList], PlainComp c) ∧ WfCwd ["other".toList, "a.txt".toList] ∧
    relTo ["data".toList, "raw".toList] ["other".toList, "a.txt".toList] ≠ [] := by
  refine ⟨?_, ?_, by decide⟩
  · intro c hc; simp at hc; rcases hc with rfl | rfl <;> exact ⟨by decide, by decide, by decide⟩
  · intro c hc; simp at hc; rcases hc with rfl | rfl <;> decide

/-- the hypotheses of `C18_copy_destination_same_from_any_cwd` hold for `cwd = data`, `arg = b.txt`
    and for the directory destination `backup/` -/
example : (∀ c ∈ ["data".toList], PlainComp c) ∧
    (∀ c ∈ splitSlash (stripSlash "b.txt".toList), PlainComp c) ∧
    (∀ c ∈ splitSlash (stripSlash "backup/".toList), PlainComp c) := by
  have h1 : splitSlash (stripSlash "b.txt".toList) = ["b.txt".toList] := by decide
  have h2 : splitSlash (stripSlash "backup/".toList) = ["backup".toList] := by decide
  rw [h1, h2]
  refine ⟨?_, ?_, ?_⟩ <;> (intro c hc; simp at hc; subst hc; exact ⟨by decide, by decide, by decide⟩)
example : copyDest ["data".toList] "b.txt".toList ["data".toList, "a.txt".toList] = ["data".toList, "b.txt".toList] ∧
    copyDest [] (rootTarget ["data".toList] "b.txt".toList) ["data".toList, "a.txt".toList]
      = ["data".toList, "b.txt".toList] := by decide

/-- a string-prefix sibling is NOT selected: `data2/b.txt` with the current directory `data` -/
example : "data2/b.txt".toList ∉
    selectStore globMatch (fun _ => true) ["data".toList] none
      ["data/a.txt".toList, "data2/b.txt".toList] := by decide
example : properAncestor ["data".toList] "data2/b.txt".toList = false ∧
    properAncestor ["data".toList] "data/raw/r.txt".toList = true ∧
    properAncestor ["data".toList] "data".toList = false ∧
    properAncestor ["proj".toList, "train".toList] "proj/train_aug/u.txt".toList = false := by decide
/-- the hypotheses of `C18_no_targets_excludes_siblings` hold for `data` / `data2/b.txt` and,
    nested, for `proj/train` / `train_aug/u.txt` -/
example : WfCwd ([] ++ ["data".toList]) ∧ Literal ([] ++ ["data".toList]) ∧
    (splitSlash "data2/b.txt".toList).head? ≠ some "data".toList := by
  refine ⟨?_, ?_, by decide⟩ <;> (intro c hc; simp at hc; subst hc; decide)
example : WfCwd (["proj".toList] ++ ["train".toList]) ∧ Literal (["proj".toList] ++ ["train".toList]) ∧
    (splitSlash "train_aug/u.txt".toList).head? ≠ some "train".toList := by
  refine ⟨?_, ?_, by decide⟩ <;> (intro c hc; simp at hc; rcases hc with rfl | rfl <;> decide)

example : WfCwd ["a".toList, "b".toList, "c".toList] := by
  intro c hc; simp at hc; rcases hc with rfl | rfl | rfl <;> decide
example : Literal ["a".toList, "b".toList, "c".toList] := by
  intro c hc; simp at hc; rcases hc with rfl | rfl | rfl <;> decide
example : ∀ c ∈ splitSlash "deep/c.txt".toList, PlainComp c := by
  intro c hc
  have : splitSlash "deep/c.txt".toList = ["deep".toList, "c.txt".toList] := by decide
  rw [this] at hc; simp at hc
  rcases hc with rfl | rfl <;> exact ⟨by decide, by decide, by decide⟩
/-- depth 3, file + directory + glob targets: the selection is not empty and is what one expects -/
example :
    selectStore globMatch (fun d => d == "a/b/c/d".toList) ["a".toList, "b".toList]
      (some ["g1.txt".toList, "c".toList, "**/*.dat".toList])
      ["a/b/g1.txt".toList, "a/b/g2.dat".toList, "a/b/c/h1.txt".toList, "a/b/c/h2.dat".toList,
       "a/f1.txt".toList, "z/y2.dat".toList]
    = ["a/b/g1.txt".toList, "a/b/g2.dat".toList, "a/b/c/h1.txt".toList, "a/b/c/h2.dat".toList] := by decide
example :
    selectStore globMatch (fun _ => true) ["a".toList, "b".toList] none
      ["a/b/g1.txt".toList, "a/b/c/h1.txt".toList, "a/f1.txt".toList, "a/bb/x".toList, "a/b".toList]
    = ["a/b/g1.txt".toList, "a/b/c/h1.txt".toList] := by decide
example : xvcPathNew ["a".toList, "b".toList] "c/h1.txt".toList = ["a".toList, "b".toList, "c".toList, "h1.txt".toList] := by
  decide

/-! ## the code before C18-F3.patch, and a region the property does not reach -/

/-- **F3, before the patch**: from `sub/`, target `a.txt` becomes `suba.txt`; the tracked file
    `sub/a.txt` is not selected (recheck does nothing, list shows it as untracked).  The patched
    head selects it.  Replayed on the real binary by `lib/c18.py` (corpus). -/
theorem C18_store_counterexample_before_fix :
    prefixStoreOld ["sub".toList] (some ["a.txt".toList]) = some ["suba.txt".toList] ∧
    selectStoreOld globMatch (fun _ => false) ["sub".toList] (some ["a.txt".toList])
      ["sub/a.txt".toList, "r.txt".toList] = [] ∧
    selectStore globMatch (fun _ => false) ["sub".toList] (some ["a.txt".toList])
      ["sub/a.txt".toList, "r.txt".toList] = ["sub/a.txt".toList] := by decide

/-- **Known finding (parent-relative targets)**: targets are globs, not paths; `../f1.txt` given in
    `a/b` denotes `a/f1.txt` for `XvcPath::new`, but the prefixed glob `a/b/../f1.txt` is never
    normalised and selects nothing. -/
theorem C18_dotdot_counterexample :
    xvcPathNew ["a".toList, "b".toList] "../f1.txt".toList = ["a".toList, "f1.txt".toList] ∧
    rootTarget ["a".toList, "b".toList] "../f1.txt".toList = "a/b/../f1.txt".toList ∧
    selectStore globMatch (fun _ => false) ["a".toList, "b".toList] (some ["../f1.txt".toList])
      ["a/f1.txt".toList] = [] ∧
    selectStore globMatch (fun _ => false) [] (some ["a/f1.txt".toList]) ["a/f1.txt".toList]
      = ["a/f1.txt".toList] := by decide

end Targets

open Targets in
#print axioms C18_prefix_store
open Targets in
#print axioms C18_prefix_disk
open Targets in
#print axioms C18_store_equiv
open Targets in
#print axioms C18_disk_equiv
open Targets in
#print axioms C18_join_assoc
open Targets in
#print axioms C18_store_equiv_nested
open Targets in
#print axioms C18_no_targets_equiv
open Targets in
#print axioms C18_no_targets_means_cwd
open Targets in
#print axioms C18_target_is_xvcpath
open Targets in
#print axioms C18_destination_equiv
open Targets in
#print axioms C18_destination_counterexample_before_fix
open Targets in
#print axioms C18_store_counterexample_before_fix
open Targets in
#print axioms C18_dotdot_counterexample
open Targets in
#print axioms C18_properAncestor_spec
open Targets in
#print axioms C18_no_targets_selects_exactly_descendants
open Targets in
#print axioms C18_no_targets_filter_descendants
open Targets in
#print axioms C18_no_targets_excludes_siblings
open Targets in
#print axioms C18_string_prefix_selection_differs
open Targets in
#print axioms C18_copy_destination_same_from_any_cwd
open Targets in
#print axioms C18_copy_guard_path_file
open Targets in
#print axioms C18_copy_guard_against_cwd_differs
open Targets in
#print axioms C18_climbing_destination_resolves
open Targets in
#print axioms C18_destination_climbing_same_as_root
open Targets in
#print axioms C18_destination_dot_and_detour
open Targets in
#print axioms C18_plain_join_destination_differs
open Targets in
#print axioms C18_target_never_reinterpreted
open Targets in
#print axioms C18_target_resolution_is_join
open Targets in
#print axioms C18_file_target_selects_joined_path
open Targets in
#print axioms C18_inner_directory_target
open Targets in
#print axioms C18_keep_prefixed_target_agrees_iff
open Targets in
#print axioms C18_keep_prefixed_target_counterexample
