import XvcTargets.Model
import XvcTargets.Lemmas
/-!
  Line-protocol driver for the targets model.  `lib/c18.py` sends the current directory, the
  recorded paths, the paths on disk (with the directories marked), the targets, and asks which
  recorded paths / paths on disk the model selects (`sel store`, `sel disk`), and which of them lie
  below the current directory according to the specification `properAncestor` (`sel below`).
-/
open Targets

structure DState where
  cwd : List Str := []
  store : List Str := []
  disk : List Str := []
  dirs : List Str := []
  targets : Option (List Str) := some []
  old : Bool := false

def comps (s : String) : List Str :=
  if s == "." || s == "" then [] else (s.splitOn "/").map String.toList

def showSel (l : List Str) : String := ",".intercalate (l.map String.ofList)

def step (st : DState) (line : String) : DState × String :=
  match line.trimAscii.toString.splitOn " " with
  | ["cwd", c] => ({ st with cwd := comps c }, "ok")
  | ["store", p] => ({ st with store := st.store ++ [p.toList] }, "ok")
  | ["disk", p] => ({ st with disk := st.disk ++ [p.toList] }, "ok")
  | ["dir", p] => ({ st with dirs := st.dirs ++ [p.toList], disk := st.disk ++ [p.toList] }, "ok")
  | ["target", t] => ({ st with targets := some ((st.targets.getD []) ++ [t.toList]) }, "ok")
  | ["notargets"] => ({ st with targets := none }, "ok")
  | ["old", b] => ({ st with old := b == "1" }, "ok")
  | ["sel", "store"] =>
    let isDir := fun d => st.dirs.contains d
    let r := if st.old then selectStoreOld globMatch isDir st.cwd st.targets st.store
             else selectStore globMatch isDir st.cwd st.targets st.store
    (st, showSel r)
  | ["sel", "disk"] =>
    let isDir := fun d => st.dirs.contains d
    (st, showSel (selectDisk globMatch isDir (fun _ => false) false st.cwd st.targets st.disk))
  | ["sel", "below"] =>
    -- the specification `properAncestor` (Lemmas.lean) on the recorded paths and on the paths on disk
    (st, showSel (st.store.filter (properAncestor st.cwd)) ++ ";" ++ showSel (st.disk.filter (properAncestor st.cwd)))
  | ["refused", f, dest, src] =>
    -- destination guard of copy / move for one source (root-relative path `src`): the destination path and the
    -- decision; the repository root is the symbolic component `R`, "on disk" = among the `disk` paths below `R`
    let onDisk : List Str → Bool := fun p =>
      match p with
      | r :: rest => r == "R".toList && st.disk.contains (joinComps rest)
      | [] => false
    let srcC := comps src
    let d := joinComps (copyDest st.cwd dest.toList srcC)
    (st, String.ofList d ++ ";" ++
      (if copyRefused (f == "1") st.store onDisk ["R".toList] st.cwd dest.toList srcC then "1" else "0"))
  | ["xvcpath", p] => (st, "/".intercalate ((xvcPathNew st.cwd p.toList).map String.ofList))
  | [""] => (st, "")
  | _ => (st, "bad-op")

partial def loop (h : IO.FS.Stream) (out : IO.FS.Stream) (st : DState) : IO Unit := do
  let line ← h.getLine
  if line.isEmpty then return ()
  if line.trimAscii.toString == "reset" then
    out.putStrLn "ok"
    loop h out {}
  else
    let (st', o) := step st line
    out.putStrLn o
    loop h out st'

def main : IO Unit := do
  loop (← IO.getStdin) (← IO.getStdout) {}
