import XvcPipeData.Schema
import XvcPipeData.SchemaLemmas
import XvcPipeData.Props.C14
