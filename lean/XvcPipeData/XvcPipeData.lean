import XvcPipeData.Schema
import XvcPipeData.SchemaLemmas
import XvcPipeData.SchemaReach
import XvcPipeData.Props.C14
import XvcPipeData.Invalidate
import XvcPipeData.InvalidateLemmas
import XvcPipeData.Props.C12
