import XvcPipeData.SchemaLemmas
import XvcPipeData.SchemaReach
import XvcPipeData.ReaderLemmas
import XvcPipeData.ExportFile
import XvcPipeData.Gen.ExportOrder
/-!
  # C14 — Pipeline export and import are inverse

  Property theorems about the model in `Schema.lean` (a transcription of
  `pipeline/src/pipeline/api/{export,import}.rs`).  All statements are for **every** repository
  state satisfying the two stated invariants, every schema, every pair of names, both values of
  `--overwrite`, and every `HashMap` iteration order (`Shuf`) in each of the processes involved.

  * `GenFresh st`   — all entities in use lie below the entity counter (C08_gen_unique);
  * `UniqueNames st` — no two pipelines share a name (`cmd_new`, `cmd_import` preserve it:
    `C14_reachable_invariants`).

  The serde encoders (JSON / YAML text) are outside the model; they are exercised differentially by
  `lib/c14.py`.  The boundary is explicit: everything xvc itself does to the document text before the
  parser sees it (`cmd_import`: `fs::read_to_string` for `--file`, the `input.lines()` loop for stdin)
  is modelled in `Reader.lean` and covered by the `C14_reader_…` theorems at the end of this file; what
  stays trusted is `serde_json::from_str ∘ serde_json::to_string_pretty` and
  `serde_yaml::from_str ∘ serde_yaml::to_string` on one and the same string.
-/
namespace PipeData

variable {D O : Type} [TotalOrd D] [TotalOrd O]

/-! ## export does not depend on `HashMap` iteration order, and is sorted -/

/-- The sorts in `cmd_export` make its result independent of the iteration order of every `HStore`
    it walks. -/
theorem C14_export_deterministic (sh₁ sh₂ : Shuf) (st : Repo D O) (n : String) :
    exportSchema sh₁ st n = exportSchema sh₂ st n := by
  rw [exportSchema_eq_C, exportSchema_eq_C]

/-- `sort_idem`: sorting a sorted dependency/output list changes nothing. -/
theorem C14_sort_idem {α : Type} [TotalOrd α] (l : List α) : sortVals (sortVals l) = sortVals l :=
  sortVals_idem l

/-- Every exported schema is in normal form (version 1, the requested name, sorted dependency and
    output lists). -/
theorem C14_export_normal (sh : Shuf) (st : Repo D O) (n : String) (sch : PipelineSchema D O)
    (h : exportSchema sh st n = some sch) : sch.version = 1 ∧ sch.name = n ∧ sch.normalize = sch := by
  rw [exportSchema_eq_C] at h
  unfold exportSchemaC at h
  cases hf : findPipeline st n with
  | none => simp [hf] at h
  | some pe =>
    cases hs : exportStepsC st pe with
    | none => simp [hf, hs] at h
    | some steps =>
      simp only [hf, hs, Option.some.injEq] at h
      subst h
      refine ⟨rfl, rfl, ?_⟩
      simp [PipelineSchema.normalize, exportStepsC_normal st pe steps hs]

omit [TotalOrd D] [TotalOrd O] in
/-- `sorted_by_fresh_entities`: the steps come out in entity order whatever order the `HStore`
    yields them in. -/
theorem C14_steps_in_entity_order (sh : Shuf) (st : Repo D O) (pe : Ent) :
    sortByEnt (childrenOf sh st.gen st.stepPipe st.steps pe) =
      enumChildren st.gen st.stepPipe st.steps pe ∧
    (enumChildren st.gen st.stepPipe st.steps pe).Pairwise (fun a b => a.1 < b.1) :=
  ⟨sortByEnt_of_perm (enum_sorted _ _ _ _) (sh.perm _), enum_sorted _ _ _ _⟩

/-! ## import followed by export -/

/-- The repository that `importFresh` starts from has no pipeline called `n'`. -/
private theorem importSchema_ok_form (st : Repo D O) (sch : PipelineSchema D O) (n' : String) (ow : Bool)
    (hf : GenFresh st) (hu : UniqueNames st) (hv : sch.version = 1)
    (hok : ow = true ∨ findPipeline st n' = none) :
    ∃ st0 : Repo D O, (importSchema st sch n' ow) = { repo := importFresh st0 sch n', ok := true } ∧
      GenFresh st0 ∧ st0.gen = st.gen ∧ (∀ e, e < st0.gen → st0.pipelines e ≠ some n') ∧
      (∀ e, st0.pipelines e = st.pipelines e ∨ (st0.pipelines e = none ∧ st.pipelines e = some n')) ∧
      st0.rundir = st.rundir ∧ (∀ p, exportStepsC st0 p = exportStepsC st p) := by
  unfold importSchema
  simp only [hv, ne_eq, not_true_eq_false, if_false]
  cases hfp : findPipeline st n' with
  | none =>
    refine ⟨st, rfl, hf, rfl, (findPipeline_none_iff st n').mp hfp, fun e => Or.inl rfl, rfl, fun _ => rfl⟩
  | some pe =>
    have how : ow = true := by
      rcases hok with h | h
      · exact h
      · rw [hfp] at h; cases h
    obtain ⟨hpe, hpn⟩ := findPipeline_some st n' pe hfp
    subst how
    simp only [if_true]
    refine ⟨{ st with pipelines := upd st.pipelines pe none }, rfl, ?_, rfl, ?_, ?_, rfl, fun _ => rfl⟩
    · exact hf.removePipeline pe
    · intro e _ hc
      by_cases hep : e = pe
      · subst hep; simp at hc
      · simp only [upd_other _ _ _ _ hep] at hc
        exact hep (hu e pe n' hc hpn)
    · intro e
      by_cases hep : e = pe
      · subst hep; right; simp [hpn]
      · left; simp [upd_other _ _ _ _ hep]

/-- **Import then export.**  Importing *any* version-1 schema under the name `n'` (allowed: the name
    is free, or `--overwrite`) and exporting `n'` gives the schema back, renamed and with every
    dependency/output list sorted. -/
theorem C14_import_export (sh : Shuf) (st : Repo D O) (sch : PipelineSchema D O) (n' : String) (ow : Bool)
    (hf : GenFresh st) (hu : UniqueNames st) (hv : sch.version = 1)
    (hok : ow = true ∨ findPipeline st n' = none) :
    (importSchema st sch n' ow).ok = true ∧
    exportSchema sh (importSchema st sch n' ow).repo n' = some (sch.rename n').normalize := by
  obtain ⟨st0, hform, hf0, hg0, hno, _, _, _⟩ := importSchema_ok_form st sch n' ow hf hu hv hok
  rw [hform]
  refine ⟨rfl, ?_⟩
  simp only
  obtain ⟨_, gl, pp, rr, es, _⟩ := importFresh_effect st0 sch n' hf0
  rw [exportSchema_eq_C]
  unfold exportSchemaC
  have hfind : findPipeline (importFresh st0 sch n') n' = some st0.gen := by
    unfold findPipeline
    apply find_range_first _ _ _ gl
    · rw [pp]; simp
    · intro j hj
      rw [pp, upd_other _ _ _ _ (by omega)]
      simpa using hno j hj
  simp only [hfind, es, rr, upd_same, Option.getD_some]
  cases sch
  simp [PipelineSchema.rename, PipelineSchema.normalize] at hv ⊢
  exact hv.symm

/-- **C14, sentence 1.**  Export `n`, import the result as `n'` (a free name, or with `--overwrite`,
    including `n' = n`), export `n'`: the two exports are identical except for the name — for every
    repository state, and whatever the `HashMap` orders in the three processes were. -/
theorem C14_roundtrip (sh₁ sh₂ : Shuf) (st : Repo D O) (n n' : String) (ow : Bool)
    (sch : PipelineSchema D O)
    (hf : GenFresh st) (hu : UniqueNames st)
    (hex : exportSchema sh₁ st n = some sch)
    (hok : ow = true ∨ findPipeline st n' = none) :
    (importSchema st sch n' ow).ok = true ∧
    exportSchema sh₂ (importSchema st sch n' ow).repo n' = some (sch.rename n') := by
  obtain ⟨hv, _, hn⟩ := C14_export_normal sh₁ st n sch hex
  obtain ⟨h1, h2⟩ := C14_import_export sh₂ st sch n' ow hf hu hv hok
  refine ⟨h1, ?_⟩
  rw [h2]
  congr 1
  have : (sch.rename n').normalize = (sch.normalize).rename n' := rfl
  rw [this, hn]

/-- **C14, sentence 2 (first half).**  Whatever is imported under `n'` — accepted, refused or with
    `--overwrite` — the export of every pipeline with another name is unchanged. -/
theorem C14_others_untouched (sh : Shuf) (st : Repo D O) (sch : PipelineSchema D O) (n' m : String)
    (ow : Bool) (hf : GenFresh st) (hm : m ≠ n') :
    exportSchema sh (importSchema st sch n' ow).repo m = exportSchema sh st m := by
  -- the repository is either unchanged or `importFresh st0` for an `st0` that differs from `st` at most
  -- by the removed pipeline entity of name `n'`
  have key : ∀ st0 : Repo D O, GenFresh st0 → st0.gen = st.gen →
      (∀ e, st0.pipelines e = st.pipelines e ∨ (st0.pipelines e = none ∧ st.pipelines e = some n')) →
      st0.rundir = st.rundir → (∀ p, exportStepsC st0 p = exportStepsC st p) →
      exportSchema sh (importFresh st0 sch n') m = exportSchema sh st m := by
    intro st0 hf0 hg0 hp0 hr0 hx0
    obtain ⟨_, gl, pp, rr, _, eo⟩ := importFresh_effect st0 sch n' hf0
    rw [exportSchema_eq_C, exportSchema_eq_C]
    unfold exportSchemaC
    have hfind : findPipeline (importFresh st0 sch n') m = findPipeline st m := by
      unfold findPipeline
      obtain ⟨k, hk⟩ := Nat.exists_eq_add_of_le (Nat.le_of_lt gl)
      rw [hk, hg0]
      apply find_range_extend
      · intro e he
        rw [pp, upd_other _ _ _ _ (by omega)]
        rcases hp0 e with h | ⟨h1, h2⟩
        · rw [h]
        · rw [h1, h2]
          have : ¬ (n' = m) := fun h => hm h.symm
          simp [this]
      · intro e he _
        rw [pp]
        by_cases heg : e = st0.gen
        · subst heg
          have : ¬ (n' = m) := fun h => hm h.symm
          simp [this]
        · rw [upd_other _ _ _ _ heg, hf0.pipelines e (by omega)]
          simp
    rw [hfind]
    cases hfm : findPipeline st m with
    | none => rfl
    | some pm =>
      have hpm := (findPipeline_some st m pm hfm).1
      have hne : pm ≠ st0.gen := by omega
      simp only
      rw [eo pm hne, hx0 pm, rr, upd_other _ _ _ _ hne, hr0]
  unfold importSchema
  by_cases hv : sch.version = 1
  · simp only [hv, ne_eq, not_true_eq_false, if_false]
    cases hfp : findPipeline st n' with
    | none => exact key st hf rfl (fun e => Or.inl rfl) rfl (fun _ => rfl)
    | some pe =>
      cases ow with
      | false => rfl
      | true =>
        simp only [if_true]
        obtain ⟨_, hpn⟩ := findPipeline_some st n' pe hfp
        refine key { st with pipelines := upd st.pipelines pe none } (hf.removePipeline pe) rfl ?_ rfl
          (fun _ => rfl)
        intro e
        by_cases hep : e = pe
        · subst hep; right; simp [hpn]
        · left; simp [upd_other _ _ _ _ hep]
  · simp [hv]

omit [TotalOrd D] [TotalOrd O] in
/-- **C14, sentence 2 (second half).**  Importing over an existing name without `--overwrite` is
    refused and nothing at all is written. -/
theorem C14_refuses_existing (st : Repo D O) (sch : PipelineSchema D O) (n' : String)
    (hex : nameExists st n' = true) :
    (importSchema st sch n' false).ok = false ∧ (importSchema st sch n' false).repo = st := by
  unfold nameExists at hex
  unfold importSchema
  cases hfp : findPipeline st n' with
  | none => rw [hfp] at hex; cases hex
  | some pe => by_cases hv : sch.version = 1 <;> simp [hv]

omit [TotalOrd D] [TotalOrd O] in
/-- … and conversely an import is refused *only* for an existing name or a wrong schema version. -/
theorem C14_accepts_otherwise (st : Repo D O) (sch : PipelineSchema D O) (n' : String) (ow : Bool)
    (hv : sch.version = 1) (hok : ow = true ∨ nameExists st n' = false) :
    (importSchema st sch n' ow).ok = true := by
  unfold nameExists at hok
  unfold importSchema
  simp only [hv, ne_eq, not_true_eq_false, if_false]
  cases hfp : findPipeline st n' with
  | none => rfl
  | some pe =>
    rcases hok with h | h
    · simp [h]
    · rw [hfp] at h; cases h

/-! ## the hypotheses are invariants of the commands -/

/-- An accepted import keeps both hypotheses, so round trips can be iterated. -/
theorem C14_import_preserves (st : Repo D O) (sch : PipelineSchema D O) (n' : String) (ow : Bool)
    (hf : GenFresh st) (hu : UniqueNames st) :
    GenFresh (importSchema st sch n' ow).repo ∧ UniqueNames (importSchema st sch n' ow).repo := by
  by_cases hv : sch.version = 1
  · by_cases hok : ow = true ∨ findPipeline st n' = none
    · obtain ⟨st0, hform, hf0, hg0, hno, hp0, _, _⟩ := importSchema_ok_form st sch n' ow hf hu hv hok
      rw [hform]
      obtain ⟨f, _, pp, _, _, _⟩ := importFresh_effect st0 sch n' hf0
      refine ⟨f, ?_⟩
      simp only
      intro e₁ e₂ n h1 h2
      rw [pp] at h1 h2
      have old : ∀ e, e ≠ st0.gen → st0.pipelines e = some n → e < st0.gen ∧ st.pipelines e = some n := by
        intro e _ h
        refine ⟨?_, ?_⟩
        · apply Nat.lt_of_not_le
          intro hle
          rw [hf0.pipelines e hle] at h; cases h
        · rcases hp0 e with h' | ⟨h', _⟩
          · rw [← h']; exact h
          · rw [h'] at h; cases h
      by_cases he1 : e₁ = st0.gen <;> by_cases he2 : e₂ = st0.gen
      · rw [he1, he2]
      · subst he1
        rw [upd_same] at h1
        rw [upd_other _ _ _ _ he2] at h2
        obtain ⟨hlt, _⟩ := old e₂ he2 h2
        have hn : n' = n := by simpa using h1
        subst hn
        exact absurd h2 (hno e₂ hlt)
      · subst he2
        rw [upd_same] at h2
        rw [upd_other _ _ _ _ he1] at h1
        obtain ⟨hlt, _⟩ := old e₁ he1 h1
        have hn : n' = n := by simpa using h2
        subst hn
        exact absurd h1 (hno e₁ hlt)
      · rw [upd_other _ _ _ _ he1] at h1
        rw [upd_other _ _ _ _ he2] at h2
        exact hu e₁ e₂ n (old e₁ he1 h1).2 (old e₂ he2 h2).2
    · -- refused
      have : importSchema st sch n' ow = { repo := st, ok := false } := by
        unfold importSchema
        simp only [hv, ne_eq, not_true_eq_false, if_false]
        cases hfp : findPipeline st n' with
        | none => exact absurd (Or.inr hfp) hok
        | some pe =>
          cases ow with
          | true => exact absurd (Or.inl rfl) hok
          | false => rfl
      rw [this]; exact ⟨hf, hu⟩
  · have : importSchema st sch n' ow = { repo := st, ok := false } := by
      unfold importSchema; simp [hv]
    rw [this]; exact ⟨hf, hu⟩

/-- Both hypotheses hold in **every** repository reachable from `xvc init` by the modelled commands
    (`pipeline new/delete/import`, `step new/update/dependency/output/remove`), so the theorems above
    apply to "every pipeline that can be built with the step, dependency and output commands". -/
theorem C14_reachable_invariants (cs : List (Cmd D O)) :
    GenFresh (runCmds (Repo.init : Repo D O) cs) ∧ UniqueNames (runCmds (Repo.init : Repo D O) cs) := by
  suffices h : ∀ (cs : List (Cmd D O)) (st : Repo D O), GenFresh st → UniqueNames st →
      GenFresh (runCmds st cs) ∧ UniqueNames (runCmds st cs) from h cs _ init_fresh init_unique
  intro cs
  induction cs with
  | nil => intro st hf hu; exact ⟨hf, hu⟩
  | cons c cs ih =>
    intro st hf hu
    have step : GenFresh (Cmd.run st c) ∧ UniqueNames (Cmd.run st c) := by
      cases c with
      | pipelineNew n w => exact pipelineNew_preserves st n w hf hu
      | pipelineDelete n => exact pipelineDelete_preserves st n hf hu
      | stepNew p s c i => exact stepNew_preserves st p s c i hf hu
      | stepUpdate p s c i => exact stepUpdate_preserves st p s c i hf hu
      | stepDependency p s ds => exact stepDependency_preserves st p s ds hf hu
      | stepOutput p s os => exact stepOutput_preserves st p s os hf hu
      | stepRemove p s r => exact stepRemove_preserves st p s r hf hu
      | importSchema sch n ow => exact C14_import_preserves st sch n ow hf hu
    exact ih (Cmd.run st c) step.1 step.2

/-! ## the order of the exported dependency / output lists is a function of the SET of values

  `Gen.dependenciesOrder`, `Gen.outputsOrder`, `Gen.stepsOrder` are regenerated from `export.rs` on
  every run (`Gen/ExportOrder.lean`).  `deps[e].values()` arrives in the iteration order of a
  `HashMap` whose hasher is seeded per process: two exports of one pipeline, and the export of an
  imported copy (other entities), see two *permutations* of the same collection. -/

/-- **The exported dependency list is determined by the collection of dependencies, not by the order
    in which the `HStore` yields them**: for any two permutations of the stored dependencies the list
    `cmd_export` writes is the same.  (A sort by the derived total order is permutation invariant;
    with `.sorted_by_cached_key(|d| d.to_string())` this statement is false:
    `C14_sort_by_display_counterexample`.) -/
theorem C14_export_dependency_order_canonical {κ : Type} [TotalOrd κ] (display : D → κ) {l l' : List D}
    (hp : l.Perm l') :
    orderVals Gen.dependenciesOrder display l = orderVals Gen.dependenciesOrder display l' := by
  show orderVals FieldOrder.derivedOrd display l = orderVals FieldOrder.derivedOrd display l'
  exact sortVals_perm hp

/-- The same for the outputs of a step. -/
theorem C14_export_output_order_canonical {κ : Type} [TotalOrd κ] (display : O → κ) {l l' : List O}
    (hp : l.Perm l') :
    orderVals Gen.outputsOrder display l = orderVals Gen.outputsOrder display l' := by
  show orderVals FieldOrder.derivedOrd display l = orderVals FieldOrder.derivedOrd display l'
  exact sortVals_perm hp

/-- The model (`stepSchema?`, `exportSteps` in `Schema.lean`) orders the three collections the way the
    source does: the table extracted from `export.rs` says `derivedOrd` for steps, dependencies and
    outputs, and the lists of every exported step are `orderVals` of that table.  This is the
    obligation that ties `C14_export_deterministic` / `C14_roundtrip` to the orderings in the code. -/
theorem C14_export_order_as_modelled {κ : Type} [TotalOrd κ] (dd : D → κ) (od : O → κ) (sh : Shuf)
    (st : Repo D O) (es : Ent × String) (s : StepSchema D O) (h : stepSchema? sh st es = some s) :
    s.dependencies = orderVals Gen.dependenciesOrder dd ((childrenOf sh st.gen st.depStep st.deps es.1).map (·.2)) ∧
    s.outputs = orderVals Gen.outputsOrder od ((childrenOf sh st.gen st.outStep st.outs es.1).map (·.2)) ∧
    Gen.stepsOrder = FieldOrder.derivedOrd := by
  unfold stepSchema? at h
  cases hc : st.commands es.1 with
  | none => simp [hc] at h
  | some c =>
    simp only [hc, Option.some.injEq] at h
    subst h
    exact ⟨rfl, rfl, rfl⟩

omit [TotalOrd D] [TotalOrd O] in
/-- A sort that compares only a key is canonical when the key is injective on the collection … -/
theorem C14_sort_by_injective_key_canonical {κ : Type} [TotalOrd κ] (key : D → κ) {l l' : List D}
    (hinj : ∀ a, a ∈ l → ∀ b, b ∈ l → key a = key b → a = b) (hp : l.Perm l') :
    sortByKey key l = sortByKey key l' :=
  sortByKey_perm_of_injOn key hinj hp

omit [TotalOrd D] [TotalOrd O] in
/-- … and ONLY then: two different values with the same key (two `--regex-items` dependencies on one
    file, a dependency before and after a run recorded its state, …) come out in the order they went
    in, for every key function and every order on the keys. -/
theorem C14_sort_by_noninjective_key_not_canonical {κ : Type} [TotalOrd κ] (key : D → κ) (a b : D)
    (hne : a ≠ b) (hk : key a = key b) :
    [a, b].Perm [b, a] ∧ sortByKey key [a, b] = [a, b] ∧ sortByKey key [b, a] = [b, a] ∧
    sortByKey key [a, b] ≠ sortByKey key [b, a] := by
  have h1 := sortByKey_pair_of_key_eq key a b hk
  have h2 := sortByKey_pair_of_key_eq key b a hk.symm
  refine ⟨List.Perm.swap b a [], h1, h2, ?_⟩
  rw [h1, h2]
  intro h
  exact hne (List.cons.inj h).1

/-- **Counterexample for ordering by the `Display` string** (what `export.rs` must not do): two
    `regex-items` dependencies on the same file (`requirements.txt:/^numpy`, `requirements.txt:/^torch`)
    have the same `Display` string `regex-items(requirements.txt)`; ordered by it, the two iteration
    orders of the `HStore` give two different exported lists, whereas the derived order gives one. -/
theorem C14_sort_by_display_counterexample :
    let a : RegexItems := ⟨0, 1⟩
    let b : RegexItems := ⟨0, 2⟩
    a ≠ b ∧ a.display = b.display ∧ [a, b].Perm [b, a] ∧
    orderVals .byDisplay RegexItems.display [a, b] = [a, b] ∧
    orderVals .byDisplay RegexItems.display [b, a] = [b, a] ∧
    orderVals .derivedOrd RegexItems.display [a, b] = [a, b] ∧
    orderVals .derivedOrd RegexItems.display [b, a] = [a, b] := by
  intro a b
  have hs : sortVals [a, b] = [a, b] := sortVals_of_sorted (by decide)
  refine ⟨by decide, rfl, List.Perm.swap b a [], sortByKey_pair_of_key_eq _ a b rfl,
    sortByKey_pair_of_key_eq _ b a rfl, hs, ?_⟩
  show sortVals [b, a] = [a, b]
  rw [sortVals_perm (List.Perm.swap a b []), hs]

/-! ## Non-vacuity: concrete states satisfying the hypotheses -/

section examples

/-- `HashMap` orders used in the examples. -/
def idShuf : Shuf := ⟨fun l => l, fun l => List.Perm.refl l⟩
def revShuf : Shuf := ⟨fun l => l.reverse, fun l => List.reverse_perm l⟩

/-- two steps, unsorted dependency list, all three invalidation modes but one -/
def exSchema : PipelineSchema Nat Nat :=
  { version := 1, name := "x", workdir := "wd"
    steps := [ { name := "a", command := "echo 'é'\n", invalidate := .always, dependencies := [3, 1, 2], outputs := [7] },
               { name := "b", command := "true", invalidate := .never, dependencies := [5, 5], outputs := [] } ] }

/-- a reachable repository: `xvc init`, `pipeline new q`, a step with dependencies, then an import as `p` -/
def exCmds : List (Cmd Nat Nat) :=
  [ .pipelineNew "q" none, .stepNew "q" "s" "cmd" none, .stepDependency "q" "s" [9, 4], .stepOutput "q" "s" [1],
    .importSchema exSchema "p" false ]

def exRepo : Repo Nat Nat := runCmds Repo.init exCmds

/-- the hypotheses of `C14_roundtrip` hold for `exRepo`, `n = "p"`, `n' = "r"`, and the exported
    schema is the non-trivial one (two steps, sorted dependencies `[1,2,3]`) -/
example : GenFresh exRepo ∧ UniqueNames exRepo ∧
    exportSchema revShuf exRepo "p" = some (exSchema.rename "p").normalize ∧
    (false = true ∨ findPipeline exRepo "r" = none) := by
  obtain ⟨hf, hu⟩ := C14_reachable_invariants exCmds
  refine ⟨hf, hu, ?_, Or.inr (by decide)⟩
  -- `exRepo` is an import into the repository built by the first four commands
  obtain ⟨hf4, hu4⟩ := C14_reachable_invariants (exCmds.take 4)
  exact (C14_import_export revShuf (runCmds Repo.init (exCmds.take 4)) exSchema "p" false hf4 hu4 rfl
    (Or.inr (by decide))).2

/-- … and that schema really is non-trivial: -/
example : ((exSchema.rename "p").normalize).steps.map (fun s => (s.name, s.dependencies.length, s.outputs.length))
    = [("a", 3, 1), ("b", 2, 0)] := by
  simp [exSchema, PipelineSchema.rename, PipelineSchema.normalize, StepSchema.normalize, sortVals]

/-- hypothesis of `C14_refuses_existing`: the name `p` exists in `exRepo` -/
example : nameExists exRepo "p" = true := by decide

/-- hypotheses of `C14_others_untouched` with a pipeline that has content: `q` exists and `q ≠ p` -/
example : nameExists exRepo "q" = true ∧ "q" ≠ "p" := by decide

/-- the overwrite case of `C14_roundtrip` is inhabited as well (`n' = n = "p"`, `ow = true`) -/
example : (true = true ∨ findPipeline exRepo "p" = none) ∧ nameExists exRepo "p" = true :=
  ⟨Or.inl rfl, by decide⟩

/-- hypotheses of `C14_export_dependency_order_canonical` / `…_output_…`: a non-trivial permutation,
    and the common value of both sides is the sorted list -/
example : ([2, 0, 1] : List Nat).Perm [1, 2, 0] ∧
    orderVals Gen.dependenciesOrder (fun n : Nat => n) [2, 0, 1] = [0, 1, 2] ∧
    orderVals Gen.outputsOrder (fun n : Nat => n) [1, 2, 0] = [0, 1, 2] := by
  have hs : sortVals ([0, 1, 2] : List Nat) = [0, 1, 2] := sortVals_of_sorted (by decide)
  have p1 : ([2, 0, 1] : List Nat).Perm [0, 1, 2] := by decide
  have p2 : ([1, 2, 0] : List Nat).Perm [0, 1, 2] := by decide
  refine ⟨p1.trans p2.symm, ?_, ?_⟩
  · show sortVals [2, 0, 1] = [0, 1, 2]
    rw [sortVals_perm p1, hs]
  · show sortVals [1, 2, 0] = [0, 1, 2]
    rw [sortVals_perm p2, hs]

/-- hypothesis of `C14_export_order_as_modelled`: a step of `exRepo` that is exported, with two
    dependencies -/
example : ∃ s, stepSchema? revShuf exRepo (3, "s") = some s ∧ s.dependencies.length = 2 := by
  refine ⟨_, rfl, ?_⟩
  simp only [sortVals, List.length_mergeSort, List.length_map]
  decide

/-- hypotheses of `C14_sort_by_injective_key_canonical` (the identity key) and of
    `C14_sort_by_noninjective_key_not_canonical` (path and regex as a pair, keyed by the path) -/
example : (∀ a, a ∈ [3, 1, 2] → ∀ b, b ∈ [3, 1, 2] → (fun n : Nat => n) a = (fun n : Nat => n) b → a = b) ∧
    ([3, 1, 2] : List Nat).Perm [1, 2, 3] ∧
    ((0, 1) : Nat × Nat) ≠ (0, 2) ∧ (fun p : Nat × Nat => p.1) (0, 1) = (fun p : Nat × Nat => p.1) (0, 2) :=
  ⟨fun _ _ _ _ h => h, by decide, by decide, rfl⟩

/-- `UniqueNames` is needed: with two pipelines of one name (reachable only through
    `xvc pipeline update --rename`, which does not check) an `--overwrite` import removes the first and
    the next export finds the second, old one. -/
def dupRepo : Repo Nat Nat :=
  { (Repo.init : Repo Nat Nat) with gen := 4, pipelines := upd (upd (upd (fun _ => none) 1 (some "default")) 2 (some "d")) 3 (some "d") }

theorem C14_roundtrip_needs_unique_names :
    ¬ UniqueNames dupRepo ∧
    findPipeline (importSchema dupRepo exSchema "d" true).repo "d" = some 3 := by
  constructor
  · intro h
    have := h 2 3 "d" (by decide) (by decide)
    omega
  · decide

end examples

/-! ## The text layer: what `cmd_import` hands to the parser

  `s : List Char` is a document text (valid UTF-8); `embed s` the same text as an input stream; a
  general `List Sym` stream may contain bytes that are not valid UTF-8 (`Sym.bad`). -/

namespace Reader

/-- `--file`: the parser receives the file verbatim, for every text. -/
theorem C14_reader_file_verbatim (s : List Char) : readFile (embed s) = some s := decode_embed s

/-- `--file`: the import is abandoned (nothing parsed, nothing written) exactly when the file is not
    valid UTF-8. -/
theorem C14_reader_file_rejects_iff (inp : List Sym) : readFile inp = none ↔ Sym.bad ∈ inp :=
  decode_none_iff inp

/-- stdin read with `read_to_string` (the proposed repair `patches/C14-import-stdin-verbatim.patch`; the
    translator selects this reader when import.rs contains it): verbatim, and an error exactly for
    input that is not valid UTF-8 — the same function as `--file`. -/
theorem C14_reader_stdin_verbatim (s : List Char) (inp : List Sym) :
    readStdinVerbatim (embed s) = some s ∧ (readStdinVerbatim inp = none ↔ Sym.bad ∈ inp) ∧
    readStdinVerbatim inp = readFile inp :=
  ⟨decode_embed s, decode_none_iff inp, rfl⟩

/-- **stdin, exact characterisation for every text**: the parser receives the text with every `'\r'`
    that immediately precedes a `'\n'` removed and with a final `'\n'` appended if the (non-empty) text
    lacks one.  Nothing else: no line is dropped, merged, trimmed or reordered. -/
theorem C14_reader_stdin_exact (s : List Char) : readStdin (embed s) = ensureNl (dropCrLf s) := by
  have h := stdinLoop_embed (s.length + 1) s [] (by omega)
  simpa [readStdin, embed, spec] using h

/-- What `ensureNl` does, in closed form. -/
theorem C14_reader_final_newline (s : List Char) :
    (s = [] ∨ s.getLast? = some LF → ensureNl s = s) ∧
    (s ≠ [] → s.getLast? ≠ some LF → ensureNl s = s ++ [LF]) := by
  refine ⟨?_, ensureNl_of_getLast_ne s⟩
  rintro (h | h)
  · subst h; rfl
  · exact ensureNl_of_getLast s h

/-- **C14, text layer.**  For every document text without `"\r\n"` (every text `xvc pipeline export`
    writes: both encoders escape `'\r'`): through `--file` the parser receives exactly the document;
    through stdin it receives exactly the document if that ends with a newline (every YAML export), and
    the document plus one final `'\n'` otherwise (every JSON export written with `--file`; trailing white
    space for a JSON parser).  In particular every line — every blank line of a block scalar, every
    trailing blank line of a `|+` scalar at the end of the document — reaches the parser. -/
theorem C14_reader_preserves_document (s : List Char) (h : NoCrLf s) :
    readFile (embed s) = some s ∧
    readStdin (embed s) = ensureNl s ∧
    (s = [] ∨ s.getLast? = some LF → readStdin (embed s) = s) ∧
    (s ≠ [] → s.getLast? ≠ some LF → readStdin (embed s) = s ++ [LF]) := by
  have e : readStdin (embed s) = ensureNl s := by
    rw [C14_reader_stdin_exact, show dropCrLf s = s from h]
  refine ⟨C14_reader_file_verbatim s, e, ?_, ?_⟩
  · intro hs; rw [e]; exact (C14_reader_final_newline s).1 hs
  · intro h1 h2; rw [e]; exact (C14_reader_final_newline s).2 h1 h2

/-- The appended newline does not change the sequence of lines: the lines of the string handed to the
    parser are the lines of the document, in order, blank ones included. -/
theorem C14_reader_lines_preserved (s : List Char) (h : NoCrLf s) :
    lineList (readStdin (embed s)) = lineList s := by
  rw [(C14_reader_preserves_document s h).2.1]
  by_cases hn : s = []
  · subst hn; rfl
  · by_cases hl : s.getLast? = some LF
    · rw [ensureNl_of_getLast s hl]
    · rw [ensureNl_of_getLast_ne s hn hl]
      have h1 : (splitLF s).getLast? ≠ some [] := by
        intro e
        rcases splitLF_getLast s e with e' | e'
        · exact hn e'
        · exact hl e'
      unfold lineList
      rw [splitLF_append_LF]
      simp [h1]

/-- stdin, arbitrary streams (1/3): the empty stream gives the empty string. -/
theorem C14_reader_stdin_nil : readStdin [] = [] := rfl

/-- stdin, arbitrary streams (2/3): a newline-terminated first line `l` contributes its text without
    one trailing `'\r'` — or **nothing, if it is not valid UTF-8** (`unwrap_or_else(|e| … "".to_string())`)
    — followed by `'\n'`; the rest of the stream is read independently of it. -/
theorem C14_reader_stdin_line (l post : List Sym) (h : Sym.ch LF ∉ l) :
    readStdin (l ++ Sym.ch LF :: post) = ((decode l).map stripCr).getD [] ++ [LF] ++ readStdin post := by
  have hne : (l ++ [Sym.ch LF]).isEmpty = false := by cases l <;> rfl
  conv => lhs; unfold readStdin
  simp only [stdinLoop, linesNext, readUntilNl_general l post h, hne, Bool.false_eq_true, if_false,
    List.nil_append]
  rw [stdinLoop_readStdin _ post _ (by simp only [List.length_append, List.length_cons]; omega)]
  rw [decode_append_LF]
  cases decode l with
  | none => simp
  | some b => simp [stripEol_terminated]

/-- stdin, arbitrary streams (3/3): a final line without newline is kept as it is (no `'\r'`
    stripping) and gets a `'\n'`. -/
theorem C14_reader_stdin_last_line (l : List Sym) (hl : l ≠ []) (h : Sym.ch LF ∉ l) :
    readStdin l = (decode l).getD [] ++ [LF] := by
  have hne : l.isEmpty = false := by cases l with
    | nil => exact absurd rfl hl
    | cons a b => rfl
  have hno : ∀ b : List Char, decode l = some b → stripEol b = b := by
    intro b hb
    apply stripEol_noLF
    intro hm
    apply h
    clear hl hne
    induction l generalizing b with
    | nil => simp [decode] at hb; subst hb; simp at hm
    | cons a t ih =>
      cases a with
      | bad => simp [decode] at hb
      | ch c =>
        simp only [decode, Option.map_eq_some_iff] at hb
        obtain ⟨b', hb', rfl⟩ := hb
        simp only [List.mem_cons] at hm ⊢
        simp only [List.mem_cons, not_or] at h
        rcases hm with e | e
        · left; rw [e]
        · right; exact ih h.2 b' hb' e
  have hpos : 0 < l.length := List.length_pos_iff.mpr hl
  conv => lhs; unfold readStdin
  simp only [stdinLoop, linesNext, readUntilNl_general_noLF l h, hne, Bool.false_eq_true, if_false,
    List.nil_append]
  rw [stdinLoop_readStdin _ [] _ (by simpa using hpos)]
  cases hd : decode l with
  | none => simp [C14_reader_stdin_nil]
  | some b => simp [hno b hd, C14_reader_stdin_nil]

/-- Consequence: a line that is not valid UTF-8 is replaced by an empty line; the lines before and
    after it are unaffected (the same bytes given with `--file` make the import fail:
    `C14_reader_file_rejects_iff`). -/
theorem C14_reader_stdin_unreadable_line (l post : List Sym) (h : Sym.ch LF ∉ l) (hb : Sym.bad ∈ l) :
    readStdin (l ++ Sym.ch LF :: post) = LF :: readStdin post := by
  rw [C14_reader_stdin_line l post h, (decode_none_iff l).mpr hb]
  rfl

/-! ### what the stdin loop of the present code does lose (inputs no export produces)

  Replayed on the binary by `lib/c14.py` (stream `reader`, corpus `reader_corpus`). -/

/-- A `'\r'`-terminated line followed by an empty `"\r\n"`-terminated line (`"a\r\r\nb\n"`, two YAML
    line breaks after `a`): the parser receives `"a\r\nb\n"`, one line break — a blank line is lost on
    stdin and kept with `--file`. -/
theorem C14_reader_stdin_crcrlf_counterexample :
    readStdin (embed ['a', CR, CR, LF, 'b', LF]) = ['a', CR, LF, 'b', LF] ∧
    readFile (embed ['a', CR, CR, LF, 'b', LF]) = some ['a', CR, CR, LF, 'b', LF] := by decide

/-- A document whose last line has no newline (`"|\n a"`, a clipped block scalar at the very end):
    stdin hands `"|\n a\n"` to the parser (value `"a\n"`), `--file` hands `"|\n a"` (value `"a"`). -/
theorem C14_reader_stdin_final_newline_counterexample :
    readStdin (embed ['|', LF, ' ', 'a']) = ['|', LF, ' ', 'a', LF] ∧
    readFile (embed ['|', LF, ' ', 'a']) = some ['|', LF, ' ', 'a'] := by decide

/-- A line that is not valid UTF-8: silently an empty line on stdin, an error with `--file`. -/
theorem C14_reader_stdin_unreadable_counterexample :
    readStdin [.ch 'a', .ch LF, .ch '#', .bad, .ch LF, .ch 'b', .ch LF] = ['a', LF, LF, 'b', LF] ∧
    readFile [.ch 'a', .ch LF, .ch '#', .bad, .ch LF, .ch 'b', .ch LF] = none := by decide

/-! ### non-vacuity -/

/-- the text of a YAML export with a literal block scalar that contains a blank line and ends with
    two (`command: |+\n  a\n\n  b\n\n`): hypothesis `NoCrLf` holds, the text ends with a newline, it has
    two blank lines -/
def exYaml : List Char :=
  ['c', ':', ' ', '|', '+', LF, ' ', ' ', 'a', LF, LF, ' ', ' ', 'b', LF, LF]

example : NoCrLf exYaml ∧ exYaml.getLast? = some LF ∧ (lineList exYaml).count [] = 2 := by decide

/-- … hence stdin hands exactly this text to the parser -/
example : readStdin (embed exYaml) = exYaml :=
  (C14_reader_preserves_document exYaml (by decide)).2.2.1 (Or.inr (by decide))

/-- the text of a JSON export (no final newline): hypotheses of the last clause -/
example : NoCrLf ['{', LF, '}'] ∧ ['{', LF, '}'] ≠ [] ∧ ['{', LF, '}'].getLast? ≠ some LF := by decide

/-- hypotheses of `C14_reader_stdin_line` / `…_unreadable_line` with a non-trivial rest -/
example : Sym.ch LF ∉ [Sym.ch '#', Sym.bad] ∧ Sym.bad ∈ [Sym.ch '#', Sym.bad] ∧
    readStdin ([Sym.ch '#', Sym.bad] ++ Sym.ch LF :: embed ['b']) = [LF, 'b', LF] := by decide

/-- hypotheses of `C14_reader_stdin_last_line` -/
example : [Sym.ch 'a', Sym.ch CR] ≠ [] ∧ Sym.ch LF ∉ [Sym.ch 'a', Sym.ch CR] ∧
    readStdin [Sym.ch 'a', Sym.ch CR] = ['a', CR, LF] := by decide

end Reader

/-! ## The file written by `export --file`

  `C14_roundtrip` and the reader theorems speak about the *document* (the string the encoder produced)
  and about how `import` reads a file; what connects them for `export --file p` followed by
  `import --file p` is that the file **is** the document, whatever `p` held before. -/

namespace ExportFile

variable {α σ : Type}

/-- **The export file is a function of the pipeline alone.**  After `fs::write(path, export_output)`
    the file holds exactly the document — for every previous state of the path (absent, empty, shorter,
    equally long, longer, any content). -/
theorem C14_export_file_is_the_document (old : Option (List α)) (doc : List α) :
    openWrite fsWrite old doc = some doc ∧ writeFile old doc = doc := by
  cases old <;> simp [writeFile, openWrite, fsWrite, overwrite]

/-- … hence two exports of the same document to paths with different histories give the same file. -/
theorem C14_export_file_independent_of_old (old₁ old₂ : Option (List α)) (doc : List α) :
    writeFile old₁ doc = writeFile old₂ doc := by
  rw [(C14_export_file_is_the_document old₁ doc).2, (C14_export_file_is_the_document old₂ doc).2]

/-- `export --file p` then `import --file p`: the parser receives exactly the document
    (`writeFile` composed with `C14_reader_file_verbatim`); with `C14_roundtrip` on the parsed value
    this is the file-channel round trip. -/
theorem C14_export_file_then_import_file (old : Option (List Char)) (doc : List Char) :
    Reader.readFile (Reader.embed (writeFile old doc)) = some doc := by
  rw [(C14_export_file_is_the_document old doc).2]
  exact Reader.C14_reader_file_verbatim doc

/-- Exactly when truncation matters: over an existing file the result is the document iff the file is
    truncated or was not longer than the document. -/
theorem C14_export_file_iff_truncate (o : OpenOpts) (c doc : List α) :
    openWrite o (some c) doc = some doc ↔ (o.truncate = true ∨ c.length ≤ doc.length) := by
  cases ht : o.truncate
  · simp only [openWrite, overwrite, ht, Bool.false_eq_true, if_false, Option.some.injEq, false_or]
    constructor
    · intro h
      have h2 : (doc ++ List.drop doc.length c).length = doc.length := by rw [h]
      simp only [List.length_append, List.length_drop] at h2
      omega
    · intro h
      rw [List.drop_eq_nil_of_le h, List.append_nil]
  · simp [openWrite, overwrite, ht]

/-- NOT the code (seeded change C14-4): without `truncate(true)`, exporting a document that is a prefix
    of what the file holds — the same pipeline after its last step was removed, in serde_yaml's layout
    `header ++ one block per step` — leaves the file byte-identical to the OLD export: it still
    describes the removed step, and `import` (by `C14_import_export` on the old schema) recreates it. -/
theorem C14_export_file_no_truncate_keeps_removed_step (header : List α) (encStep : σ → List α)
    (steps : List σ) (t : σ) :
    openWrite noTruncate (some (encSteps header encStep (steps ++ [t]))) (encSteps header encStep steps)
      = some (encSteps header encStep (steps ++ [t])) := by
  simp [openWrite, noTruncate, overwrite, encSteps, List.flatMap_append, ← List.append_assoc]

/-- … a concrete witness: the file holds `"s:\n- a\n- b\n"`, the new document is `"s:\n- a\n"`; without
    truncation the file is unchanged (≠ the document), with `fs::write` it is the document. -/
theorem C14_export_file_no_truncate_counterexample :
    openWrite noTruncate (some ['s', ':', '\n', '-', ' ', 'a', '\n', '-', ' ', 'b', '\n']) ['s', ':', '\n', '-', ' ', 'a', '\n']
      = some ['s', ':', '\n', '-', ' ', 'a', '\n', '-', ' ', 'b', '\n'] ∧
    openWrite noTruncate (some ['s', ':', '\n', '-', ' ', 'a', '\n', '-', ' ', 'b', '\n']) ['s', ':', '\n', '-', ' ', 'a', '\n']
      ≠ some ['s', ':', '\n', '-', ' ', 'a', '\n'] ∧
    writeFile (some ['s', ':', '\n', '-', ' ', 'a', '\n', '-', ' ', 'b', '\n']) ['s', ':', '\n', '-', ' ', 'a', '\n']
      = ['s', ':', '\n', '-', ' ', 'a', '\n'] := by decide

/-- JSON shape of the same defect: a leftover tail after the closing brace (`{}` over `{"a":1}` gives
    `{}a":1}`), which no JSON parser accepts ("trailing characters"). -/
theorem C14_export_file_no_truncate_json_counterexample :
    openWrite noTruncate (some ['{', '"', 'a', '"', ':', '1', '}']) ['{', '}'] = some ['{', '}', 'a', '"', ':', '1', '}'] := by
  decide

/-- non-vacuity of `C14_export_file_iff_truncate`: a longer old file and both option sets -/
example : ([1, 2, 3] : List Nat).length > [7].length ∧ fsWrite.truncate = true ∧ noTruncate.truncate = false ∧
    openWrite fsWrite (some [1, 2, 3]) [7] = some [7] ∧ openWrite noTruncate (some [1, 2, 3]) [7] = some [7, 2, 3] := by decide

/-- nothing at the path: created with the document (both option sets have `create`) -/
example : openWrite fsWrite (none : Option (List Nat)) [7] = some [7] ∧ writeFile (none : Option (List Nat)) [7] = [7] := by decide

end ExportFile

/-! ## Axiom audit -/

#print axioms C14_export_deterministic
#print axioms C14_sort_idem
#print axioms C14_export_normal
#print axioms C14_steps_in_entity_order
#print axioms C14_import_export
#print axioms C14_roundtrip
#print axioms C14_others_untouched
#print axioms C14_refuses_existing
#print axioms C14_accepts_otherwise
#print axioms C14_import_preserves
#print axioms C14_reachable_invariants
#print axioms C14_roundtrip_needs_unique_names
#print axioms C14_export_dependency_order_canonical
#print axioms C14_export_output_order_canonical
#print axioms C14_export_order_as_modelled
#print axioms C14_sort_by_injective_key_canonical
#print axioms C14_sort_by_noninjective_key_not_canonical
#print axioms C14_sort_by_display_counterexample
#print axioms Reader.C14_reader_file_verbatim
#print axioms Reader.C14_reader_file_rejects_iff
#print axioms Reader.C14_reader_stdin_verbatim
#print axioms Reader.C14_reader_stdin_exact
#print axioms Reader.C14_reader_final_newline
#print axioms Reader.C14_reader_preserves_document
#print axioms Reader.C14_reader_lines_preserved
#print axioms Reader.C14_reader_stdin_nil
#print axioms Reader.C14_reader_stdin_line
#print axioms Reader.C14_reader_stdin_last_line
#print axioms Reader.C14_reader_stdin_unreadable_line
#print axioms Reader.C14_reader_stdin_crcrlf_counterexample
#print axioms Reader.C14_reader_stdin_final_newline_counterexample
#print axioms Reader.C14_reader_stdin_unreadable_counterexample
#print axioms ExportFile.C14_export_file_is_the_document
#print axioms ExportFile.C14_export_file_independent_of_old
#print axioms ExportFile.C14_export_file_then_import_file
#print axioms ExportFile.C14_export_file_iff_truncate
#print axioms ExportFile.C14_export_file_no_truncate_keeps_removed_step
#print axioms ExportFile.C14_export_file_no_truncate_counterexample
#print axioms ExportFile.C14_export_file_no_truncate_json_counterexample

end PipeData
