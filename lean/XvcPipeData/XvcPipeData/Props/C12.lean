import XvcPipeData.InvalidateStore
/-!
  # C12 — Steps re-run exactly when something they depend on changed

  Property theorems about the model in `Invalidate.lean`, which transcribes the run decision of
  `pipeline/src/pipeline/mod.rs` **after `/verif/patches/C12-F7.patch`** (own dependencies only in the
  thorough pass; dependency steps consulted when the thorough pass found no change).  All statements are
  for every well-formed pipeline (any number of steps, any dependency graph, any mix of invalidation
  modes and dependency kinds), every world / every history of edits and runs, and every outcome oracle
  (`fails`: which commands exit non-zero, `missing`: which outputs are absent).

  What does **not** hold in the code, with proved counterexamples:
  * `C12_literal_counterexample` (F7c, by design): a `by_dependencies` step below an always-step runs
    on every run; sentence 1 of the property holds only up to the downstream closure of the
    always / dependency-less steps (`C12_quiescent`).
  * `C12_glob_touch_counterexample`: a `--glob` (digest) dependency is invalidated by a touched member
    (`GlobDep::diff_thorough` compares the metadata digest, and `PathCollectionDigest` mixes it into
    the "paths" digest); `C12_unrelated_untouched` carries the excluding hypothesis.
  * `C12_remove_missing_loses_dependency_counterexample`: applying `update_with_actual(…, remove_missing = true)`
    to the `ActualMissing` diff of an absent watched file removes the dependency from its step; the current
    tree never saves such a diff (`C12_run_keeps_dependency_set`): the step is `Broken` and the run is not saved.
  * `C12_unpatched_a_counterexample`, `C12_unpatched_b_counterexample`: the decision function of the
    tree without the patch violates `unrelated_untouched` / `change_propagates`.
-/
namespace Inval

/-! ## invariants of all histories -/

/-- Along every history of edits and runs from a freshly defined pipeline: clock values are fresh and
    a recorded/actual content difference shows in the metadata (the modelled form of "an edit changes
    size or mtime"). -/
theorem C12_history_invariants (p : Pipe) (h : List Ev) :
    Fresh (applyHistory p World.init h) ∧ EditsVisible (applyHistory p World.init h) := by
  suffices H : ∀ (h : List Ev) (w : World), Fresh w → EditsVisible w →
      Fresh (applyHistory p w h) ∧ EditsVisible (applyHistory p w h) from
    H h _ fresh_init editsVisible_init
  intro h
  induction h with
  | nil => intro w hf hv; exact ⟨hf, hv⟩
  | cons e h ih =>
    intro w hf hv
    exact ih (applyEv p w e) (fresh_applyEv p w e hf) (editsVisible_applyEv p w e hf hv)

/-! ## never -/

/-- **Steps marked `never` never execute** — in any run, from any world. -/
theorem C12_never_never (p : Pipe) (w : World) (fails missing : Nat → Bool) (hwf : p.WF) (i : Nat)
    (hi : i < p.n) (h : (p.step i).mode = .never) : (runPipeline p w fails missing).ran i = false := by
  rw [(run_fix p w fails missing hwf i hi).2]
  exact never_not_ran p w fails missing _ i h

/-! ## quiescence -/

/-- The always-steps, the dependency-less steps, and everything below them. -/
inductive AlwaysClosure (p : Pipe) : Nat → Prop where
  | base (i : Nat) : (p.step i).alwaysLike = true → AlwaysClosure p i
  | down (u i : Nat) : AlwaysClosure p u → u ∈ (p.step i).upstream → AlwaysClosure p i

/-- One step of the quiescence argument: after a fully successful run and no edit, a step that is
    started is always-like or has a dependency step that was started. -/
theorem C12_quiescent_step (p : Pipe) (w : World) (f₁ m₁ f₂ m₂ : Nat → Bool) (hwf : p.WF)
    (hok : (runPipeline p w f₁ m₁).allDone = true) (i : Nat) (hi : i < p.n)
    (hran : (runPipeline p (runPipeline p w f₁ m₁).world f₂ m₂).ran i = true) :
    (p.step i).alwaysLike = true ∨
      ∃ u, u ∈ (p.step i).upstream ∧ (runPipeline p (runPipeline p w f₁ m₁).world f₂ m₂).ran u = true := by
  rw [(run_fix p _ f₂ m₂ hwf i hi).2] at hran
  obtain ⟨hn, h | h | h⟩ := ran_inv p _ f₂ m₂ _ i hran
  · -- no own dependency is `changed()` right after `update_with_actual`
    unfold thoroughChanged at h
    rw [Bool.or_eq_true] at h
    rcases h with h | h
    · left
      unfold Step.alwaysLike
      cases hm : (p.step i).mode with
      | never => exact absurd hm hn
      | always => simp
      | byDeps => simpa using h
    · rw [List.any_eq_true] at h
      obtain ⟨d, hd, hf⟩ := h
      rw [run_world_ok p w f₁ m₁ hok, updated_not_changed p w d (compared_of_mem p i d hi hn hd)] at hf
      cases hf
  · exact Or.inl h
  · right
    unfold upstreamRan at h
    rw [List.any_eq_true] at h
    obtain ⟨u, hu, hs⟩ := h
    refine ⟨u, hu, ?_⟩
    have hun : u < p.n := by have := hwf i hi u hu; omega
    have hs' : (runPipeline p (runPipeline p w f₁ m₁).world f₂ m₂).st u = .doneRun := by simpa using hs
    rw [(run_fix p _ f₂ m₂ hwf u hun).1] at hs'
    rw [(run_fix p _ f₂ m₂ hwf u hun).2]
    exact ((stepOutcome_doneRun_iff p _ f₂ m₂ _ u).mp hs').1

/-- **C12, sentence 1 (what holds).**  After a fully successful run, a second run on the unchanged
    workspace starts only steps in the downstream closure of the always / dependency-less steps — for
    every pipeline, every starting world, and whatever happens to those steps' commands. -/
theorem C12_quiescent (p : Pipe) (w : World) (f₁ m₁ f₂ m₂ : Nat → Bool) (hwf : p.WF)
    (hok : (runPipeline p w f₁ m₁).allDone = true) :
    ∀ i, i < p.n → (runPipeline p (runPipeline p w f₁ m₁).world f₂ m₂).ran i = true →
      AlwaysClosure p i ∧ (p.step i).mode ≠ .never := by
  intro i
  induction i using Nat.strongRecOn with
  | _ i ih =>
    intro hi hran
    have hn : (p.step i).mode ≠ .never := by
      intro hm
      rw [C12_never_never p _ f₂ m₂ hwf i hi hm] at hran
      cases hran
    refine ⟨?_, hn⟩
    rcases C12_quiescent_step p w f₁ m₁ f₂ m₂ hwf hok i hi hran with h | ⟨u, hu, hr⟩
    · exact .base i h
    · have hlt := hwf i hi u hu
      exact .down u i (ih u hlt (by omega) hr).1 hu

/-- … in particular a pipeline without always / dependency-less steps executes **nothing**. -/
theorem C12_quiescent_nothing (p : Pipe) (w : World) (f₁ m₁ f₂ m₂ : Nat → Bool) (hwf : p.WF)
    (hok : (runPipeline p w f₁ m₁).allDone = true)
    (hno : ∀ i, i < p.n → (p.step i).alwaysLike = false) :
    (runPipeline p (runPipeline p w f₁ m₁).world f₂ m₂).executed p = [] := by
  unfold Result.executed
  rw [List.filter_eq_nil_iff]
  intro i hi
  have hi' := List.mem_range.mp hi
  intro hran
  have hcl := (C12_quiescent p w f₁ m₁ f₂ m₂ hwf hok i hi' hran).1
  have : ∀ j, AlwaysClosure p j → j < p.n → False := by
    intro j hj
    induction hj with
    | base j h => intro hjn; rw [hno j hjn] at h; cases h
    | down u j _ hu ih => intro hjn; exact ih (by have := hwf j hjn u hu; omega)
  exact this i hcl hi'

/-- The always / dependency-less steps do run whenever their dependency steps are done. -/
theorem C12_always_runs (p : Pipe) (w : World) (fails missing : Nat → Bool) (hwf : p.WF) (i : Nat)
    (hi : i < p.n) (hn : (p.step i).mode ≠ .never) (ha : (p.step i).alwaysLike = true)
    (hp : ownAbsent w (p.step i) = false)
    (hd : upstreamDone (runPipeline p w fails missing).st (p.step i) = true) :
    (runPipeline p w fails missing).ran i = true := by
  rw [(run_fix p w fails missing hwf i hi).2]
  exact ran_intro p w fails missing _ i hn hd hp (Or.inr (Or.inl ha))

/-! ## a change propagates -/

/-- The recorded content of `d` is not what is on disk (or nothing was recorded yet). -/
def ReallyChanged (w : World) (d : Nat) : Prop :=
  w.recorded d = none ∨ ∃ r, w.recorded d = some r ∧ r.2 ≠ (w.actual d).2

/-- **C12, sentence 2, direct dependents.**  A step that is not `never`, owns a really changed
    dependency, whose watched resources are all on disk, and whose dependency steps are all done, is
    executed. -/
theorem C12_change_propagates (p : Pipe) (w : World) (fails missing : Nat → Bool) (hwf : p.WF)
    (hv : EditsVisible w) (i : Nat) (hi : i < p.n) (hn : (p.step i).mode ≠ .never)
    (d : Nat) (hd : d ∈ (p.step i).deps) (hc : ReallyChanged w d)
    (hp : ownAbsent w (p.step i) = false)
    (hup : upstreamDone (runPipeline p w fails missing).st (p.step i) = true) :
    (runPipeline p w fails missing).ran i = true := by
  rw [(run_fix p w fails missing hwf i hi).2]
  apply ran_intro p w fails missing _ i hn hup hp
  left
  unfold thoroughChanged
  rw [Bool.or_eq_true]
  right
  rw [List.any_eq_true]
  refine ⟨d, hd, ?_⟩
  unfold Dep.finalChanged Dep.supChanged Dep.thChanged depOf
  rcases hc with hc | ⟨r, hr, hne⟩
  · simp [hc]
  · have hm := hv d r hr hne
    simp [hr, hne, hm]

/-- **C12, sentence 2, one edge down.**  A step that is not `never` and has a dependency step that was
    executed successfully (explicit `--step` edge or through an output file) is executed, provided its
    dependency steps are all done.  (This is what needs patch (b).) -/
theorem C12_downstream_runs (p : Pipe) (w : World) (fails missing : Nat → Bool) (hwf : p.WF)
    (i : Nat) (hi : i < p.n) (hn : (p.step i).mode ≠ .never) (u : Nat) (hu : u ∈ (p.step i).upstream)
    (hr : (runPipeline p w fails missing).st u = .doneRun)
    (hp : ownAbsent w (p.step i) = false)
    (hup : upstreamDone (runPipeline p w fails missing).st (p.step i) = true) :
    (runPipeline p w fails missing).ran i = true := by
  rw [(run_fix p w fails missing hwf i hi).2]
  apply ran_intro p w fails missing _ i hn hup hp
  right; right
  unfold upstreamRan
  rw [List.any_eq_true]
  exact ⟨u, hu, by simp [hr]⟩

/-- Paths through step-dependency / output-file edges whose nodes are not `never`, watch no absent
    resource, and have all their dependency steps done ("as far as the steps before it succeed"). -/
inductive Chain (p : Pipe) (w : World) (σ : Nat → St) : Nat → Nat → Prop where
  | refl (a : Nat) : Chain p w σ a a
  | step (a u b : Nat) : Chain p w σ a u → u ∈ (p.step b).upstream → b < p.n → (p.step b).mode ≠ .never →
      ownAbsent w (p.step b) = false → upstreamDone σ (p.step b) = true → Chain p w σ a b

/-- **C12, sentence 2, transitively.**  Everything reachable from an executed step along such a path is
    executed. -/
theorem C12_change_propagates_transitively (p : Pipe) (w : World) (fails missing : Nat → Bool) (hwf : p.WF)
    (a b : Nat) (_ha : a < p.n) (hra : (runPipeline p w fails missing).ran a = true)
    (hc : Chain p w (runPipeline p w fails missing).st a b) :
    (runPipeline p w fails missing).ran b = true := by
  induction hc with
  | refl => exact hra
  | step u b _ hu hb hn hp hup ih =>
    -- `u` ran (induction) and is done (it is a dependency step of `b`, all of which are done)
    have hun : u < p.n := by have := hwf b hb u hu; omega
    have hdone : ((runPipeline p w fails missing).st u).done = true := by
      unfold upstreamDone at hup
      rw [List.all_eq_true] at hup
      exact hup u hu
    have hst : (runPipeline p w fails missing).st u = .doneRun := by
      rw [(run_fix p w fails missing hwf u hun).1]
      rw [stepOutcome_doneRun_iff]
      rw [← (run_fix p w fails missing hwf u hun).1, ← (run_fix p w fails missing hwf u hun).2]
      exact ⟨ih, hdone⟩
    exact C12_downstream_runs p w fails missing hwf b hb hn u hu hst hp hup

/-! ## unrelated steps stay untouched -/

/-- **C12, sentence 2, "steps unrelated to the change are not".**  A `by_dependencies` step with
    dependencies, none of which really changed (touched files included, except for the glob-digest
    kind whose metadata must be unchanged too), and none of whose dependency steps was executed, is not
    executed — whatever changed elsewhere in the pipeline.  (This is what needs patch (a).) -/
theorem C12_unrelated_untouched (p : Pipe) (w : World) (fails missing : Nat → Bool) (hwf : p.WF)
    (i : Nat) (hi : i < p.n) (ha : (p.step i).alwaysLike = false)
    (hdeps : ∀ d, d ∈ (p.step i).deps → Settled w d ∧
      (p.metaCounts d = true → ∃ r, w.recorded d = some r ∧ r.1 = (w.actual d).1))
    (hup : ∀ u, u ∈ (p.step i).upstream → (runPipeline p w fails missing).st u ≠ .doneRun) :
    (runPipeline p w fails missing).ran i = false := by
  by_cases hnv : (p.step i).mode = .never
  · exact C12_never_never p w fails missing hwf i hi hnv
  rw [(run_fix p w fails missing hwf i hi).2]
  apply not_ran_intro p w fails missing _ i _ ha
  · unfold upstreamRan
    rw [List.any_eq_false]
    intro u hu
    simpa using hup u hu
  · unfold thoroughChanged
    have hh : (p.step i).hasDeps = true := by
      unfold Step.alwaysLike at ha
      cases hm : (p.step i).mode with
      | always => simp [hm] at ha
      | never => exact absurd hm hnv
      | byDeps => simpa [hm] using ha
    rw [hh]
    simp only [Bool.not_true, Bool.false_or]
    rw [List.any_eq_false]
    intro d hd
    rw [finalChanged_false_of_settled p w d (hdeps d hd).1 (hdeps d hd).2]
    simp

/-! ## a failed run does not record -/

/-- **C12, sentence 3.**  If some step ends broken, the recorded store is left exactly as it was, so
    the next run compares against the same records and sees the same changes. -/
theorem C12_failed_run_keeps_diffs (p : Pipe) (w : World) (fails missing : Nat → Bool)
    (h : (runPipeline p w fails missing).allDone = false) :
    (runPipeline p w fails missing).world = w ∧
    ∀ d, ReallyChanged w d → ReallyChanged (runPipeline p w fails missing).world d := by
  have := run_world_failed p w fails missing h
  exact ⟨this, fun d hd => by rw [this]; exact hd⟩

/-- … hence the change is still acted on next time: same premises as `C12_change_propagates`, one
    failed run later. -/
theorem C12_change_survives_failed_run (p : Pipe) (w : World) (f₁ m₁ f₂ m₂ : Nat → Bool) (hwf : p.WF)
    (hv : EditsVisible w) (hfail : (runPipeline p w f₁ m₁).allDone = false)
    (i : Nat) (hi : i < p.n) (hn : (p.step i).mode ≠ .never)
    (d : Nat) (hd : d ∈ (p.step i).deps) (hc : ReallyChanged w d)
    (hp : ownAbsent w (p.step i) = false)
    (hup : upstreamDone (runPipeline p (runPipeline p w f₁ m₁).world f₂ m₂).st (p.step i) = true) :
    (runPipeline p (runPipeline p w f₁ m₁).world f₂ m₂).ran i = true := by
  rw [run_world_failed p w f₁ m₁ hfail] at hup ⊢
  exact C12_change_propagates p w f₂ m₂ hwf hv i hi hn d hd hc hp hup

/-! ## the same along histories -/

/-- events that change the selected content of dependency `d` -/
def Ev.editsDep (e : Ev) (d : Nat) : Bool :=
  match e with
  | .edit x => x == d
  | .addGlobMember x => x == d
  | .rmGlobMember x => x == d
  | .setParam x => x == d
  | _ => false

def Ev.touchesDep (e : Ev) (d : Nat) : Bool :=
  match e with
  | .touch x => x == d
  | _ => false

def Ev.isRun : Ev → Bool
  | .run _ _ => true
  | _ => false

/-- **An edit is acted on, for every history.**  After any history whatsoever, edit the content of
    `d`; in the next run every step that owns `d`, is not `never`, and whose dependency steps end done,
    is executed. -/
theorem C12_edit_is_acted_on (p : Pipe) (h : List Ev) (fails missing : Nat → Bool) (hwf : p.WF)
    (i : Nat) (hi : i < p.n) (hn : (p.step i).mode ≠ .never) (d : Nat) (hd : d ∈ (p.step i).deps)
    (hp : ownAbsent (applyHistory p World.init (h ++ [.edit d])) (p.step i) = false)
    (hup : upstreamDone (runPipeline p (applyHistory p World.init (h ++ [.edit d])) fails missing).st (p.step i) = true) :
    (runPipeline p (applyHistory p World.init (h ++ [.edit d])) fails missing).ran i = true := by
  obtain ⟨hf, _⟩ := C12_history_invariants p h
  obtain ⟨_, hv'⟩ := C12_history_invariants p (h ++ [.edit d])
  apply C12_change_propagates p _ fails missing hwf hv' i hi hn d hd _ hp hup
  unfold applyHistory
  rw [List.foldl_append]
  simp only [List.foldl_cons, List.foldl_nil, applyEv, bumpBoth]
  unfold ReallyChanged
  simp only [upd_same]
  cases hr : (List.foldl (applyEv p) World.init h).recorded d with
  | none => exact Or.inl rfl
  | some r =>
    right
    refine ⟨r, rfl, ?_⟩
    have := hf.recorded d r hr
    unfold applyHistory at this
    omega

theorem settled_preserved (p : Pipe) (w : World) (e : Ev) (d : Nat) (hs : Settled w d)
    (hr : e.isRun = false) (he : e.editsDep d = false) : Settled (applyEv p w e) d := by
  obtain ⟨r, hrec, hc⟩ := hs
  have hb : ∀ x, x ≠ d → Settled (bumpBoth w x) d := by
    intro x hx
    refine ⟨r, hrec, ?_⟩
    simp only [bumpBoth]
    rw [upd_other _ _ _ _ (Ne.symm hx)]
    exact hc
  cases e with
  | edit x => exact hb x (by simpa [Ev.editsDep] using he)
  | addGlobMember x => exact hb x (by simpa [Ev.editsDep] using he)
  | rmGlobMember x => exact hb x (by simpa [Ev.editsDep] using he)
  | setParam x => exact hb x (by simpa [Ev.editsDep] using he)
  | touch x =>
    refine ⟨r, hrec, ?_⟩
    simp only [applyEv, bumpMeta]
    by_cases hx : d = x
    · subst hx; simp [hc]
    · rw [upd_other _ _ _ _ hx]; exact hc
  | vanish x => exact ⟨r, hrec, hc⟩
  | comeBack x => exact ⟨r, hrec, hc⟩
  | run f m => simp [Ev.isRun] at hr

theorem metaEq_preserved (p : Pipe) (w : World) (e : Ev) (d : Nat)
    (hs : ∃ r, w.recorded d = some r ∧ r.1 = (w.actual d).1)
    (hr : e.isRun = false) (he : e.editsDep d = false) (ht : e.touchesDep d = false) :
    ∃ r, (applyEv p w e).recorded d = some r ∧ r.1 = ((applyEv p w e).actual d).1 := by
  obtain ⟨r, hrec, hc⟩ := hs
  have hb : ∀ x, x ≠ d → ∃ r, (bumpBoth w x).recorded d = some r ∧ r.1 = ((bumpBoth w x).actual d).1 := by
    intro x hx
    refine ⟨r, hrec, ?_⟩
    simp only [bumpBoth]
    rw [upd_other _ _ _ _ (Ne.symm hx)]
    exact hc
  cases e with
  | edit x => exact hb x (by simpa [Ev.editsDep] using he)
  | addGlobMember x => exact hb x (by simpa [Ev.editsDep] using he)
  | rmGlobMember x => exact hb x (by simpa [Ev.editsDep] using he)
  | setParam x => exact hb x (by simpa [Ev.editsDep] using he)
  | touch x =>
    refine ⟨r, hrec, ?_⟩
    simp only [applyEv, bumpMeta]
    have hx : d ≠ x := by
      intro h; subst h; simp [Ev.touchesDep] at ht
    rw [upd_other _ _ _ _ hx]; exact hc
  | vanish x => exact ⟨r, hrec, hc⟩
  | comeBack x => exact ⟨r, hrec, hc⟩
  | run f m => simp [Ev.isRun] at hr

/-- **Unrelated steps stay untouched, for every history.**  Take any history, then a fully successful
    run, then any edits that leave the content of step `i`'s dependencies alone (touching them is
    allowed, except for glob-digest dependencies) — whatever they do to the rest of the pipeline.  In
    the next run step `i` (`by_dependencies`, with dependencies) is executed only if one of its
    dependency steps was. -/
theorem C12_unrelated_untouched_history (p : Pipe) (h es : List Ev) (f₁ m₁ f₂ m₂ : Nat → Bool) (hwf : p.WF)
    (hok : (runPipeline p (applyHistory p World.init h) f₁ m₁).allDone = true)
    (i : Nat) (hi : i < p.n) (ha : (p.step i).alwaysLike = false) (hn : (p.step i).mode ≠ .never)
    (hes : ∀ e, e ∈ es → e.isRun = false ∧ ∀ d, d ∈ (p.step i).deps →
      e.editsDep d = false ∧ (p.metaCounts d = true → e.touchesDep d = false))
    (hup : ∀ u, u ∈ (p.step i).upstream →
      (runPipeline p (applyHistory p (runPipeline p (applyHistory p World.init h) f₁ m₁).world es) f₂ m₂).st u ≠ .doneRun) :
    (runPipeline p (applyHistory p (runPipeline p (applyHistory p World.init h) f₁ m₁).world es) f₂ m₂).ran i = false := by
  obtain ⟨_, hv⟩ := C12_history_invariants p h
  apply C12_unrelated_untouched p _ f₂ m₂ hwf i hi ha _ hup
  -- invariant along `es`
  suffices H : ∀ (es : List Ev) (w : World),
      (∀ e, e ∈ es → e.isRun = false ∧ ∀ d, d ∈ (p.step i).deps →
        e.editsDep d = false ∧ (p.metaCounts d = true → e.touchesDep d = false)) →
      (∀ d, d ∈ (p.step i).deps → Settled w d ∧
        (p.metaCounts d = true → ∃ r, w.recorded d = some r ∧ r.1 = (w.actual d).1)) →
      ∀ d, d ∈ (p.step i).deps → Settled (applyHistory p w es) d ∧
        (p.metaCounts d = true → ∃ r, (applyHistory p w es).recorded d = some r ∧
          r.1 = ((applyHistory p w es).actual d).1) by
    apply H es _ hes
    intro d hd
    have hc := compared_of_mem p i d hi hn hd
    refine ⟨settled_after_success p _ f₁ m₁ hv hok d hc, ?_⟩
    intro hmc
    -- a glob-digest dependency that is not `changed()` after the update has equal metadata
    have hnc := updated_not_changed p (applyHistory p World.init h) d hc
    rw [run_world_ok p _ f₁ m₁ hok]
    unfold Dep.finalChanged Dep.supChanged Dep.thChanged depOf at hnc
    simp only [hmc] at hnc
    cases hr : updateRecorded p (applyHistory p World.init h) d with
    | none => simp [hr] at hnc
    | some r =>
      refine ⟨r, hr, ?_⟩
      simp only [hr] at hnc
      by_cases hm : r.1 = ((applyHistory p World.init h).actual d).1
      · exact hm
      · simp [hm] at hnc
  intro es
  induction es with
  | nil => intro w _ hw; exact hw
  | cons e es ih =>
    intro w hes hw
    apply ih (applyEv p w e) (fun e' he' => hes e' (List.mem_cons_of_mem e he'))
    intro d hd
    obtain ⟨hr, hed⟩ := hes e List.mem_cons_self
    obtain ⟨he, ht⟩ := hed d hd
    refine ⟨settled_preserved p w e d (hw d hd).1 hr he, ?_⟩
    intro hmc
    exact metaEq_preserved p w e d ((hw d hd).2 hmc) hr he (ht hmc)


/-! ## a watched resource vanishes and comes back -/

/-- **A step that watches an absent resource is not executed and ends `Broken`** (so the run is not fully
    successful and records nothing: `C12_failed_run_keeps_diffs`). -/
theorem C12_absent_breaks_step (p : Pipe) (w : World) (fails missing : Nat → Bool) (hwf : p.WF) (i : Nat)
    (hi : i < p.n) (hn : (p.step i).mode ≠ .never) (d : Nat) (hd : d ∈ (p.step i).deps) (ha : w.absent d = true) :
    (runPipeline p w fails missing).ran i = false ∧ (runPipeline p w fails missing).st i = .broken ∧
    (runPipeline p w fails missing).allDone = false ∧ (runPipeline p w fails missing).world = w := by
  have hab : ownAbsent w (p.step i) = true := by
    unfold ownAbsent; rw [List.any_eq_true]; exact ⟨d, hd, ha⟩
  have hb := absent_broken p w fails missing (runPipeline p w fails missing).st i hn hab
  rw [← (run_fix p w fails missing hwf i hi).1, ← (run_fix p w fails missing hwf i hi).2] at hb
  have hnd : (runPipeline p w fails missing).allDone = false := by
    cases hok : (runPipeline p w fails missing).allDone with
    | false => rfl
    | true =>
      have := allDone_present p w fails missing hwf hok d (compared_of_mem p i d hi hn hd)
      rw [ha] at this; cases this
  exact ⟨hb.2, hb.1, hnd, run_world_failed p w fails missing hnd⟩

/-- **`pipeline run` does not edit the pipeline definition.**  Whatever the workspace looks like (files
    changed, touched, absent), whatever the commands do: after the run every dependency entity of every step
    is still in the store — `update_with_actual(…, add_new = true, remove_missing = true)` never meets an
    `ActualMissing` diff, because a run that compared an absent dependency is not saved — and the store holds
    exactly the record the run model computes. -/
theorem C12_run_keeps_dependency_set (p : Pipe) (w : World) (fails missing : Nat → Bool) (hwf : p.WF) (d : Nat) :
    (savedSlot p w fails missing d).defined = true ∧
    savedSlot p w fails missing d = some ((runPipeline p w fails missing).world.recorded d) := by
  suffices h : savedSlot p w fails missing d = some ((runPipeline p w fails missing).world.recorded d) by
    rw [h]; exact ⟨rfl, rfl⟩
  unfold savedSlot
  cases hok : (runPipeline p w fails missing).allDone with
  | false => rw [run_world_failed p w fails missing hok]; rfl
  | true =>
    rw [run_world_ok p w fails missing hok]
    simp only [if_true, slotOf, runDiff, updateRecorded]
    cases hc : compared p d with
    | false => simp [applyDiff]
    | true =>
      have hpres := allDone_present p w fails missing hwf hok d hc
      simp only [hpres, Bool.not_true, Bool.false_eq_true, if_false, Bool.true_and]
      cases hr : w.recorded d with
      | none =>
        have : (depOf p w d).finalChanged = true := by
          simp [Dep.finalChanged, Dep.supChanged, Dep.thChanged, depOf, hr]
        simp [applyDiff, this]
      | some r =>
        cases hf : (depOf p w d).finalChanged <;> simp [applyDiff]

/-- … along every history: no sequence of edits, vanishings, returns and runs makes a run drop a dependency. -/
theorem C12_history_keeps_dependency_set (p : Pipe) (h : List Ev) (fails missing : Nat → Bool) (hwf : p.WF) (d : Nat) :
    (savedSlot p (applyHistory p World.init h) fails missing d).defined = true :=
  (C12_run_keeps_dependency_set p _ fails missing hwf d).1

/-- **Absent, then back with changed selected content ⇒ re-run.**  After any history, the resource of
    dependency `d` vanishes, any number of runs (with any outcomes; indeed any events `runs`) happen while it
    is away, it comes back and its selected content is edited: the next run executes every step that owns `d` (not `never`, its
    other resources on disk, its dependency steps done). -/
theorem C12_absent_then_changed_reruns (p : Pipe) (h : List Ev) (runs : List Ev) (fails missing : Nat → Bool)
    (hwf : p.WF)
    (i : Nat) (hi : i < p.n) (hn : (p.step i).mode ≠ .never) (d : Nat) (hd : d ∈ (p.step i).deps)
    (hothers : ∀ d', d' ∈ (p.step i).deps → d' ≠ d →
      (applyHistory p World.init (h ++ [.vanish d] ++ runs)).absent d' = false)
    (hup : upstreamDone (runPipeline p (applyHistory p World.init (h ++ [.vanish d] ++ runs ++ [.comeBack d] ++ [.edit d]))
      fails missing).st (p.step i) = true) :
    (runPipeline p (applyHistory p World.init (h ++ [.vanish d] ++ runs ++ [.comeBack d] ++ [.edit d])) fails missing).ran i
      = true := by
  apply C12_edit_is_acted_on p _ fails missing hwf i hi hn d hd _ hup
  unfold ownAbsent
  rw [List.any_eq_false]
  intro d' hd'
  have hw : (applyHistory p World.init ((h ++ [.vanish d] ++ runs ++ [.comeBack d]) ++ [.edit d])).absent =
      upd (applyHistory p World.init (h ++ [.vanish d] ++ runs)).absent d false := by
    unfold applyHistory
    rw [List.foldl_append, List.foldl_append]
    simp [applyEv, bumpBoth]
  rw [hw]
  by_cases hdd : d' = d
  · subst hdd; simp
  · rw [upd_other _ _ _ _ hdd]
    rw [hothers d' hd' hdd]
    exact Bool.false_ne_true

/-- While the resource is away and nothing was recorded, the record survives: the dependency is compared
    against the same record when the resource is back (`C12_failed_run_keeps_diffs` for this fault). -/
theorem C12_absent_run_keeps_record (p : Pipe) (w : World) (fails missing : Nat → Bool) (hwf : p.WF) (i : Nat)
    (hi : i < p.n) (hn : (p.step i).mode ≠ .never) (d : Nat) (hd : d ∈ (p.step i).deps) (ha : w.absent d = true) :
    ∀ d', (runPipeline p w fails missing).world.recorded d' = w.recorded d' := by
  intro d'
  rw [(C12_absent_breaks_step p w fails missing hwf i hi hn d hd ha).2.2.2]

/-! ## counterexamples -/

section counterexamples

/-- `W` always, no dependencies; `T` by_dependencies with file dependency 0 and `--step W`. -/
def litPipe : Pipe :=
  { n := 2
    step := fun i => if i = 0 then { mode := .always, deps := [], explicit := [], implicit := [] }
                     else { mode := .byDeps, deps := [0], explicit := [0], implicit := [] }
    metaCounts := fun _ => false }

def noFail : Nat → Bool := fun _ => false

/-- **F7c (by design).**  Sentence 1 read literally fails: after a fully successful run and no edit,
    `T` — neither `always` nor dependency-less — is executed again, because `W` above it ran. -/
theorem C12_literal_counterexample :
    (runPipeline litPipe World.init noFail noFail).allDone = true ∧
    (runPipeline litPipe (runPipeline litPipe World.init noFail noFail).world noFail noFail).ran 1 = true ∧
    (litPipe.step 1).alwaysLike = false := by decide

/-- one step with a glob-digest dependency whose member was touched: recorded (meta 1, content 1),
    actual (meta 2, content 1) -/
def globPipe : Pipe :=
  { n := 1, step := fun _ => { mode := .byDeps, deps := [0], explicit := [], implicit := [] }, metaCounts := fun _ => true }

def plainPipe : Pipe := { globPipe with metaCounts := fun _ => false }

def touchedWorld : World := { recorded := fun _ => some (1, 1), actual := fun _ => (2, 1), clock := 3 }

/-- **Glob-digest dependencies are invalidated by a touch**: the content is what was recorded, yet the
    step runs.  With `metaCounts := false` (every other kind) it does not. -/
theorem C12_glob_touch_counterexample :
    Settled touchedWorld 0 ∧ (runPipeline globPipe touchedWorld noFail noFail).ran 0 = true ∧
    (runPipeline { globPipe with metaCounts := fun _ => false } touchedWorld noFail noFail).ran 0 = false := by
  refine ⟨⟨(1, 1), rfl, rfl⟩, by decide, by decide⟩

/-- step `A` with the touched dependency 0; dependency 1 belongs to an unrelated step `B` and really
    changed: recorded (1,1), actual (2,2) -/
def abWorld : World :=
  { recorded := fun _ => some (1, 1), actual := fun d => if d = 0 then (2, 1) else (2, 2), clock := 3 }

def stepA : Step := { mode := .byDeps, deps := [0], explicit := [], implicit := [] }

/-- **F7a (unpatched tree).**  With the diff of `B`'s dependency visible in the shared map, `A` decides
    to run although nothing it depends on changed; with it not (yet) visible it does not — the decision
    depends on the thread schedule.  The patched decision never runs `A`. -/
theorem C12_unpatched_a_counterexample :
    decideRunUnpatched plainPipe abWorld stepA [1] false false = true ∧
    decideRunUnpatched plainPipe abWorld stepA [] false false = false ∧
    decideRun plainPipe abWorld stepA false false = false := by decide

/-- **F7b (unpatched tree).**  A step whose file was only touched is skipped although a step it
    depends on ran; the patched decision runs it. -/
theorem C12_unpatched_b_counterexample :
    decideRunUnpatched plainPipe abWorld stepA [] true false = false ∧
    decideRun plainPipe abWorld stepA true false = true := by decide

/-- one step with a `--lines` dependency 0 and a `--file` dependency 1, both recorded; the file of 0 is away -/
def twoDepPipe : Pipe :=
  { n := 1, step := fun _ => { mode := .byDeps, deps := [0, 1], explicit := [], implicit := [] }, metaCounts := fun _ => false }

def awayWorld : World :=
  { recorded := fun _ => some (1, 1), actual := fun _ => (1, 1), clock := 2, absent := fun d => d == 0 }

/-- **`remove_missing` on the dependency store loses the dependency.**  The diff `diff_superficial` has for
    an absent actual is `ActualMissing`; `update_with_actual(store, diffs, true, true)` applied to it removes
    the entity (with `remove_missing = false` it stays).  The current tree never gets there: the step is
    `Broken`, the run is not saved, the entity stays.  A tree in which the absent dependency does not break
    the step (seeded change C12-6: `XvcPathMetadataProvider::get` answering `None`) saves exactly this diff. -/
theorem C12_remove_missing_loses_dependency_counterexample :
    runDiff twoDepPipe awayWorld 0 = .actualMissing ∧
    (applyDiff true true (slotOf awayWorld 0) (runDiff twoDepPipe awayWorld 0)).defined = false ∧
    applyDiff true false (slotOf awayWorld 0) (runDiff twoDepPipe awayWorld 0) = slotOf awayWorld 0 ∧
    (runPipeline twoDepPipe awayWorld noFail noFail).allDone = false ∧
    (runPipeline twoDepPipe awayWorld noFail noFail).executed twoDepPipe = [] ∧
    savedSlot twoDepPipe awayWorld noFail noFail 0 = slotOf awayWorld 0 := by decide

end counterexamples

/-! ## Non-vacuity -/

section examples

/-- `prep` (file 0) → `train` (file 1, param 2, `--step prep`) → `eval` (glob-items 3, output of train);
    `report` never; `log` always. -/
def exPipe : Pipe :=
  { n := 5
    step := fun i =>
      match i with
      | 0 => { mode := .byDeps, deps := [0], explicit := [], implicit := [] }
      | 1 => { mode := .byDeps, deps := [1, 2], explicit := [0], implicit := [] }
      | 2 => { mode := .byDeps, deps := [3], explicit := [], implicit := [1] }
      | 3 => { mode := .never, deps := [4], explicit := [2], implicit := [] }
      | _ => { mode := .always, deps := [], explicit := [], implicit := [] }
    metaCounts := fun _ => false }

example : exPipe.WF := by
  intro i hi u hu
  have : i = 0 ∨ i = 1 ∨ i = 2 ∨ i = 3 ∨ i = 4 := by simp [exPipe] at hi; omega
  rcases this with rfl | rfl | rfl | rfl | rfl <;> simp [exPipe, Step.upstream] at hu <;> omega

/-- first run of `exPipe` succeeds (hypothesis of `C12_quiescent`) and executes 4 of the 5 steps -/
example : (runPipeline exPipe World.init noFail noFail).allDone = true ∧
    (runPipeline exPipe World.init noFail noFail).executed exPipe = [0, 1, 2, 4] := by decide

/-- second run, nothing edited: only the always-step -/
example : (runPipeline exPipe (runPipeline exPipe World.init noFail noFail).world noFail noFail).executed exPipe = [4] := by
  decide

/-- hypotheses of `C12_change_propagates` / `_transitively`: edit the parameter (dependency 2) of `train`:
    `train` and `eval` below it run, `prep` does not (`C12_unrelated_untouched`), `report` never does -/
example :
    (runPipeline exPipe (applyHistory exPipe World.init [.run noFail noFail, .setParam 2]) noFail noFail).executed exPipe
      = [1, 2, 4] := by decide

/-- hypotheses of `C12_failed_run_keeps_diffs`: `train` fails, nothing is recorded, the next run
    executes `train` (and `eval`) again although nothing was edited in between -/
example :
    let w := applyHistory exPipe World.init [.run noFail noFail, .edit 1]
    (runPipeline exPipe w (fun i => i == 1) noFail).allDone = false ∧
    (runPipeline exPipe w (fun i => i == 1) noFail).executed exPipe = [1, 4] ∧
    (runPipeline exPipe (runPipeline exPipe w (fun i => i == 1) noFail).world noFail noFail).executed exPipe = [1, 2, 4] := by
  decide

/-- touch only: nothing but the always-step -/
example :
    (runPipeline exPipe (applyHistory exPipe World.init [.run noFail noFail, .touch 0, .touch 3]) noFail noFail).executed exPipe
      = [4] := by decide

/-- hypotheses of `C12_absent_then_changed_reruns` / `C12_absent_breaks_step`: `train` (step 1) watches file 1 and
    parameter 2; the parameter file vanishes: the run executes only the always-step, `train` is broken (`eval`
    below it too); a second run while it is away: the same; back with the same content: nothing but the
    always-step; back and edited: `train` and `eval` run -/
example :
    let w := applyHistory exPipe World.init [.run noFail noFail, .vanish 2]
    (runPipeline exPipe w noFail noFail).executed exPipe = [4] ∧
    (runPipeline exPipe w noFail noFail).st 1 = .broken ∧ (runPipeline exPipe w noFail noFail).st 2 = .broken ∧
    (runPipeline exPipe w noFail noFail).allDone = false := by decide

example :
    (runPipeline exPipe (applyHistory exPipe World.init
      [.run noFail noFail, .vanish 2, .run noFail noFail, .run noFail noFail, .comeBack 2]) noFail noFail).executed exPipe = [4] ∧
    (runPipeline exPipe (applyHistory exPipe World.init
      [.run noFail noFail, .vanish 2, .run noFail noFail, .run noFail noFail, .comeBack 2, .edit 2]) noFail noFail).executed exPipe
      = [1, 2, 4] := by decide

/-- `C12_run_keeps_dependency_set` on a run that records: the slots after the first run hold the actual values -/
example : savedSlot exPipe World.init noFail noFail 2 = some (some (0, 0)) ∧
    (runPipeline exPipe World.init noFail noFail).allDone = true := by decide

end examples

/-! ## Axiom audit -/

#print axioms C12_history_invariants
#print axioms C12_never_never
#print axioms C12_quiescent_step
#print axioms C12_quiescent
#print axioms C12_quiescent_nothing
#print axioms C12_always_runs
#print axioms C12_change_propagates
#print axioms C12_downstream_runs
#print axioms C12_change_propagates_transitively
#print axioms C12_unrelated_untouched
#print axioms C12_failed_run_keeps_diffs
#print axioms C12_change_survives_failed_run
#print axioms C12_edit_is_acted_on
#print axioms C12_unrelated_untouched_history
#print axioms C12_absent_breaks_step
#print axioms C12_run_keeps_dependency_set
#print axioms C12_history_keeps_dependency_set
#print axioms C12_absent_then_changed_reruns
#print axioms C12_absent_run_keeps_record
#print axioms C12_remove_missing_loses_dependency_counterexample
#print axioms C12_literal_counterexample
#print axioms C12_glob_touch_counterexample
#print axioms C12_unpatched_a_counterexample
#print axioms C12_unpatched_b_counterexample

end Inval
