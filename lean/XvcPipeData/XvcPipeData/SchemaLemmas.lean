import XvcPipeData.Schema
import XvcPipeData.ExportOrder
/-!
  Helper lemmas for the export/import model (`Schema.lean`).  The property theorems are in
  `Props/C14.lean`.

  Plan: every `HStore` iteration is followed by a sort, so export only depends on the *canonical*
  enumerations (`enumChildren`, in entity order).  `exportSteps_eq_C` removes the shuffles; the rest
  of the file tracks how one import step changes the canonical enumerations.
-/
namespace PipeData

variable {D O : Type}

/-! ## `upd` -/

@[simp] theorem upd_same {V : Type} (f : Store V) (k : Ent) (v : Option V) : upd f k v k = v := by
  simp [upd]

@[simp] theorem upd_other {V : Type} (f : Store V) (k j : Ent) (v : Option V) (h : j ≠ k) :
    upd f k v j = f j := by
  simp [upd, h]

theorem upd_self {V : Type} (f : Store V) (k : Ent) (v : Option V) (h : f k = v) : upd f k v = f := by
  funext j
  by_cases hj : j = k
  · subst hj; simp [h]
  · simp [hj]

/-! ## sorting -/

theorem entLe_trans {V : Type} (a b c : Ent × V) : entLe a b = true → entLe b c = true → entLe a c = true := by
  simp only [entLe, decide_eq_true_eq]
  exact Nat.le_trans

theorem entLe_total {V : Type} (a b : Ent × V) : (entLe a b || entLe b a) = true := by
  simp only [entLe, Bool.or_eq_true, decide_eq_true_eq]
  exact Nat.le_total a.1 b.1

/-- Strictly increasing keys. -/
def KeySorted {V : Type} (l : List (Ent × V)) : Prop := l.Pairwise fun a b => a.1 < b.1

theorem KeySorted.key_inj {V : Type} {l : List (Ent × V)} (h : KeySorted l) :
    ∀ a b, a ∈ l → b ∈ l → a.1 = b.1 → a = b := by
  induction l with
  | nil => intro a b ha; cases ha
  | cons x xs ih =>
    intro a b ha hb hk
    rw [KeySorted, List.pairwise_cons] at h
    simp only [List.mem_cons] at ha hb
    rcases ha with ha | ha <;> rcases hb with hb | hb
    · rw [ha, hb]
    · have h3 : x.1 < b.1 := h.1 b hb
      rw [ha] at hk; omega
    · have h3 : x.1 < a.1 := h.1 a ha
      rw [hb] at hk; omega
    · exact ih h.2 a b ha hb hk

/-- `sorted()` after any `HashMap` iteration order gives back the entity-ordered list. -/
theorem sortByEnt_of_perm {V : Type} {l l' : List (Ent × V)} (hs : KeySorted l) (hp : l'.Perm l) :
    sortByEnt l' = l := by
  unfold sortByEnt
  have hp' : (l'.mergeSort entLe).Perm l := (List.mergeSort_perm l' entLe).trans hp
  apply List.Perm.eq_of_pairwise (le := fun a b => entLe a b = true) _ _ _ hp'
  · intro a b ha hb h1 h2
    have ha' : a ∈ l := hp'.subset ha
    apply hs.key_inj a b ha' hb
    have h1' : entLe a b = true := h1
    have h2' : entLe b a = true := h2
    simp only [entLe, decide_eq_true_eq] at h1' h2'
    omega
  · exact List.pairwise_mergeSort entLe_trans entLe_total l'
  · refine hs.imp (fun {a b} h => ?_)
    have h' : a.1 < b.1 := h
    show entLe a b = true
    simp only [entLe, decide_eq_true_eq]; omega

theorem sortVals_perm {α : Type} [TotalOrd α] {l l' : List α} (hp : l.Perm l') : sortVals l = sortVals l' := by
  unfold sortVals
  apply List.Perm.eq_of_pairwise (le := fun a b => TotalOrd.le a b = true)
  · intro a b _ _ h1 h2; exact TotalOrd.antisymm a b h1 h2
  · exact List.pairwise_mergeSort TotalOrd.trans TotalOrd.total l
  · exact List.pairwise_mergeSort TotalOrd.trans TotalOrd.total l'
  · exact (List.mergeSort_perm l _).trans (hp.trans (List.mergeSort_perm l' _).symm)

theorem sortVals_sorted {α : Type} [TotalOrd α] (l : List α) :
    (sortVals l).Pairwise (fun a b => TotalOrd.le a b = true) :=
  List.pairwise_mergeSort TotalOrd.trans TotalOrd.total l

theorem sortVals_of_sorted {α : Type} [TotalOrd α] {l : List α}
    (h : l.Pairwise (fun a b => TotalOrd.le a b = true)) : sortVals l = l :=
  List.mergeSort_of_pairwise h

theorem sortVals_idem {α : Type} [TotalOrd α] (l : List α) : sortVals (sortVals l) = sortVals l :=
  sortVals_of_sorted (sortVals_sorted l)

/-! ## sorting by a key (`sorted_by_key`, `sorted_by_cached_key`) -/

theorem keyLe_trans {α κ : Type} [TotalOrd κ] (key : α → κ) (a b c : α) :
    keyLe key a b = true → keyLe key b c = true → keyLe key a c = true :=
  TotalOrd.trans (key a) (key b) (key c)

theorem keyLe_total {α κ : Type} [TotalOrd κ] (key : α → κ) (a b : α) :
    (keyLe key a b || keyLe key b a) = true :=
  TotalOrd.total (key a) (key b)

theorem TotalOrd.le_refl {κ : Type} [TotalOrd κ] (k : κ) : TotalOrd.le k k = true := by
  have := TotalOrd.total k k
  simpa using this

/-- A key that is injective on the elements of the collection makes the key sort canonical. -/
theorem sortByKey_perm_of_injOn {α κ : Type} [TotalOrd κ] (key : α → κ) {l l' : List α}
    (hinj : ∀ a, a ∈ l → ∀ b, b ∈ l → key a = key b → a = b) (hp : l.Perm l') :
    sortByKey key l = sortByKey key l' := by
  unfold sortByKey
  apply List.Perm.eq_of_pairwise (le := fun a b => keyLe key a b = true)
  · intro a b ha hb h1 h2
    have ha' : a ∈ l := (List.mergeSort_perm l _).subset ha
    have hb' : b ∈ l := hp.symm.subset ((List.mergeSort_perm l' _).subset hb)
    exact hinj a ha' b hb' (TotalOrd.antisymm _ _ h1 h2)
  · exact List.pairwise_mergeSort (keyLe_trans key) (keyLe_total key) l
  · exact List.pairwise_mergeSort (keyLe_trans key) (keyLe_total key) l'
  · exact (List.mergeSort_perm l _).trans (hp.trans (List.mergeSort_perm l' _).symm)

/-- Stability: two elements with equal keys stay in the order they arrived in. -/
theorem sortByKey_pair_of_key_eq {α κ : Type} [TotalOrd κ] (key : α → κ) (a b : α) (hk : key a = key b) :
    sortByKey key [a, b] = [a, b] := by
  unfold sortByKey
  apply List.mergeSort_of_pairwise
  simp [keyLe, hk, TotalOrd.le_refl]

/-! ## `allSome` -/

theorem allSome_map_some {α : Type} (l : List α) : allSome (l.map some) = some l := by
  induction l with
  | nil => rfl
  | cons a l ih => simp [allSome, ih]

theorem allSome_append_single {α : Type} (l : List (Option α)) (a : α) :
    allSome (l ++ [some a]) = (allSome l).map (· ++ [a]) := by
  induction l with
  | nil => simp [allSome]
  | cons x l ih =>
    cases x with
    | none => simp [allSome]
    | some b =>
      simp only [List.cons_append, allSome, ih]
      cases allSome l <;> simp

/-! ## canonical enumeration -/

theorem enum_succ {V : Type} (n : Nat) (cp : Store Ent) (ch : Store V) (p : Ent) :
    enumChildren (n + 1) cp ch p =
      enumChildren n cp ch p ++
        (if cp n = some p then (match ch n with | some v => [(n, v)] | none => []) else []) := by
  unfold enumChildren
  rw [List.range_succ, List.filterMap_append]
  congr 1
  by_cases h : cp n = some p
  · cases hv : ch n <;> simp [h, hv]
  · simp [h]

theorem enum_zero {V : Type} (cp : Store Ent) (ch : Store V) (p : Ent) : enumChildren 0 cp ch p = [] := by
  simp [enumChildren]

theorem enum_congr {V : Type} (n : Nat) (cp cp' : Store Ent) (ch ch' : Store V) (p : Ent)
    (h1 : ∀ c, c < n → cp' c = cp c) (h2 : ∀ c, c < n → ch' c = ch c) :
    enumChildren n cp' ch' p = enumChildren n cp ch p := by
  induction n with
  | zero => simp [enum_zero]
  | succ n ih =>
    rw [enum_succ, enum_succ, ih (fun c hc => h1 c (by omega)) (fun c hc => h2 c (by omega)),
      h1 n (by omega), h2 n (by omega)]

theorem enum_key_lt {V : Type} (n : Nat) (cp : Store Ent) (ch : Store V) (p : Ent) :
    ∀ x, x ∈ enumChildren n cp ch p → x.1 < n := by
  intro x hx
  unfold enumChildren at hx
  rw [List.mem_filterMap] at hx
  obtain ⟨c, hc, hf⟩ := hx
  rw [List.mem_range] at hc
  by_cases h : cp c = some p
  · cases hv : ch c with
    | none => simp [h, hv] at hf
    | some v => simp [h, hv] at hf; subst hf; exact hc
  · simp [h] at hf

theorem enum_mem {V : Type} (n : Nat) (cp : Store Ent) (ch : Store V) (p : Ent) (c : Ent) (v : V) :
    (c, v) ∈ enumChildren n cp ch p ↔ c < n ∧ cp c = some p ∧ ch c = some v := by
  unfold enumChildren
  rw [List.mem_filterMap]
  constructor
  · rintro ⟨a, ha, hf⟩
    rw [List.mem_range] at ha
    by_cases h : cp a = some p
    · cases hv : ch a with
      | none => simp [h, hv] at hf
      | some w =>
        simp [h, hv] at hf
        obtain ⟨rfl, rfl⟩ := hf
        exact ⟨ha, h, hv⟩
    · simp [h] at hf
  · rintro ⟨hc, h, hv⟩
    exact ⟨c, List.mem_range.mpr hc, by simp [h, hv]⟩

theorem enum_sorted {V : Type} (n : Nat) (cp : Store Ent) (ch : Store V) (p : Ent) :
    KeySorted (enumChildren n cp ch p) := by
  induction n with
  | zero => simp [enum_zero, KeySorted]
  | succ n ih =>
    rw [enum_succ, KeySorted, List.pairwise_append]
    refine ⟨ih, ?_, ?_⟩
    · split
      · split <;> simp
      · simp
    · intro a ha b hb
      have := enum_key_lt n cp ch p a ha
      split at hb
      · split at hb
        · simp at hb; subst hb; exact this
        · cases hb
      · cases hb

/-- Raising the bound over entities that are not children of `p` changes nothing. -/
theorem enum_extend {V : Type} (n k : Nat) (cp : Store Ent) (ch : Store V) (p : Ent)
    (h : ∀ c, n ≤ c → c < n + k → cp c ≠ some p) :
    enumChildren (n + k) cp ch p = enumChildren n cp ch p := by
  induction k with
  | zero => rfl
  | succ k ih =>
    rw [← Nat.add_assoc, enum_succ, ih (fun c h1 h2 => h c h1 (by omega))]
    simp [h (n + k) (by omega) (by omega)]

theorem enum_extend_le {V : Type} (n m : Nat) (cp : Store Ent) (ch : Store V) (p : Ent) (hnm : n ≤ m)
    (h : ∀ c, n ≤ c → c < m → cp c ≠ some p) :
    enumChildren m cp ch p = enumChildren n cp ch p := by
  obtain ⟨k, rfl⟩ := Nat.exists_eq_add_of_le hnm
  exact enum_extend n k cp ch p h

/-- Nothing points at `p`: no children. -/
theorem enum_nil {V : Type} (n : Nat) (cp : Store Ent) (ch : Store V) (p : Ent)
    (h : ∀ c, c < n → cp c ≠ some p) : enumChildren n cp ch p = [] := by
  have := enum_extend 0 n cp ch p (fun c _ hc => h c (by omega))
  rw [Nat.zero_add] at this
  rw [this, enum_zero]

/-! ## canonical (shuffle-free) form of export -/

section canon
variable [TotalOrd D] [TotalOrd O]

/-- `stepSchema?` on the canonical enumerations. -/
def stepSchemaC (st : Repo D O) (es : Ent × String) : Option (StepSchema D O) :=
  match st.commands es.1 with
  | none => none
  | some c =>
    some { name := es.2
           command := c
           invalidate := (st.invalidate es.1).getD default
           dependencies := sortVals ((enumChildren st.gen st.depStep st.deps es.1).map (·.2))
           outputs := sortVals ((enumChildren st.gen st.outStep st.outs es.1).map (·.2)) }

def exportStepsC (st : Repo D O) (pe : Ent) : Option (List (StepSchema D O)) :=
  allSome ((enumChildren st.gen st.stepPipe st.steps pe).map (stepSchemaC st))

theorem stepSchema_eq_C (sh : Shuf) (st : Repo D O) (es : Ent × String) :
    stepSchema? sh st es = stepSchemaC st es := by
  unfold stepSchema? stepSchemaC childrenOf
  cases st.commands es.1 with
  | none => rfl
  | some c =>
    simp only
    rw [sortVals_perm ((sh.perm (enumChildren st.gen st.depStep st.deps es.1)).map (·.2)),
      sortVals_perm ((sh.perm (enumChildren st.gen st.outStep st.outs es.1)).map (·.2))]

theorem exportSteps_eq_C (sh : Shuf) (st : Repo D O) (pe : Ent) :
    exportSteps sh st pe = exportStepsC st pe := by
  unfold exportSteps exportStepsC childrenOf
  rw [sortByEnt_of_perm (enum_sorted _ _ _ _) (sh.perm _)]
  congr 1
  apply List.map_congr_left
  intro es _
  exact stepSchema_eq_C sh st es

/-- Canonical form of `exportSchema`. -/
def exportSchemaC (st : Repo D O) (name : String) : Option (PipelineSchema D O) :=
  match findPipeline st name with
  | none => none
  | some pe =>
    match exportStepsC st pe with
    | none => none
    | some steps =>
      some { version := 1, name := name, workdir := (st.rundir pe).getD "", steps := steps }

theorem exportSchema_eq_C (sh : Shuf) (st : Repo D O) (name : String) :
    exportSchema sh st name = exportSchemaC st name := by
  unfold exportSchema exportSchemaC
  cases findPipeline st name with
  | none => rfl
  | some pe =>
    simp only
    rw [exportSteps_eq_C]
    cases exportStepsC st pe <;> rfl

end canon

/-! ## `findPipeline` -/

theorem find_congr {α : Type} (p p' : α → Bool) (l : List α) (h : ∀ x, x ∈ l → p' x = p x) :
    l.find? p' = l.find? p := by
  induction l with
  | nil => rfl
  | cons a l ih =>
    simp only [List.find?_cons, h a (List.mem_cons_self)]
    rw [ih (fun x hx => h x (List.mem_cons_of_mem a hx))]

theorem find_range_extend (p p' : Nat → Bool) (g k : Nat)
    (h1 : ∀ e, e < g → p' e = p e) (h2 : ∀ e, g ≤ e → e < g + k → p' e = false) :
    (List.range (g + k)).find? p' = (List.range g).find? p := by
  induction k with
  | zero =>
    simp only [Nat.add_zero]
    apply find_congr
    intro x hx
    exact h1 x (List.mem_range.mp hx)
  | succ k ih =>
    rw [← Nat.add_assoc, List.range_succ, List.find?_append, ih (fun e h3 h4 => h2 e h3 (by omega))]
    simp [h2 (g + k) (by omega) (by omega)]

theorem find_range_first (p : Nat → Bool) (m k : Nat) (hk : k < m) (hp : p k = true)
    (hlt : ∀ j, j < k → p j = false) : (List.range m).find? p = some k := by
  obtain ⟨d, rfl⟩ := Nat.exists_eq_add_of_le (Nat.succ_le_of_lt hk)
  have : List.range (k + 1 + d) = List.range k ++ (k :: (List.range d).map (k + 1 + ·)) := by
    rw [List.range_add, List.range_succ]
    simp
  rw [this, List.find?_append]
  have hn : (List.range k).find? p = none := by
    rw [List.find?_eq_none]
    intro x hx
    simp [hlt x (List.mem_range.mp hx)]
  simp [hn, hp]

theorem findPipeline_none_iff (st : Repo D O) (n : String) :
    findPipeline st n = none ↔ ∀ e, e < st.gen → st.pipelines e ≠ some n := by
  unfold findPipeline
  rw [List.find?_eq_none]
  constructor
  · intro h e he
    have := h e (List.mem_range.mpr he)
    simpa using this
  · intro h e he
    have := h e (List.mem_range.mp he)
    simpa using this

theorem findPipeline_some (st : Repo D O) (n : String) (pe : Ent) (h : findPipeline st n = some pe) :
    pe < st.gen ∧ st.pipelines pe = some n := by
  unfold findPipeline at h
  have h1 := List.find?_some h
  have h2 := List.mem_of_find?_eq_some h
  exact ⟨List.mem_range.mp h2, by simpa using h1⟩

/-! ## effect of the import loops on the canonical view -/

/-- Everything export reads from `st'` for entities/pipelines other than a fresh step `e`, stated
    as: `st'` extends `st` (more entities, same old content). -/
structure Ext (st st' : Repo D O) : Prop where
  gen_le : st.gen ≤ st'.gen
  pipelines : st'.pipelines = st.pipelines
  rundir : st'.rundir = st.rundir
  commands : ∀ c, c < st.gen → st'.commands c = st.commands c
  invalidate : ∀ c, c < st.gen → st'.invalidate c = st.invalidate c

theorem GenFresh.alloc {st : Repo D O} (h : GenFresh st) : GenFresh st.alloc := by
  constructor <;> intros <;> simp only [Repo.alloc] at *
  · exact h.pipelines _ (by omega)
  · exact h.rundir _ (by omega)
  · exact h.steps _ (by omega)
  · exact h.stepPipe _ (by omega)
  · exact h.commands _ (by omega)
  · exact h.invalidate _ (by omega)
  · exact h.deps _ (by omega)
  · exact h.depStep _ (by omega)
  · exact h.outs _ (by omega)
  · exact h.outStep _ (by omega)
  · have := h.stepPipeRef _ _ ‹_›; omega
  · have := h.depStepRef _ _ ‹_›; omega
  · have := h.outStepRef _ _ ‹_›; omega

/-- `pipeline_s.remove(pipeline_e)` of `cmd_import --overwrite`. -/
theorem GenFresh.removePipeline {st : Repo D O} (h : GenFresh st) (pe : Ent) :
    GenFresh ({ st with pipelines := upd st.pipelines pe none } : Repo D O) := by
  constructor <;> intros <;> simp only at *
  · rename_i e he
    by_cases hep : e = pe
    · subst hep; simp
    · rw [upd_other _ _ _ _ hep]; exact h.pipelines e he
  · exact h.rundir _ ‹_›
  · exact h.steps _ ‹_›
  · exact h.stepPipe _ ‹_›
  · exact h.commands _ ‹_›
  · exact h.invalidate _ ‹_›
  · exact h.deps _ ‹_›
  · exact h.depStep _ ‹_›
  · exact h.outs _ ‹_›
  · exact h.outStep _ ‹_›
  · exact h.stepPipeRef _ _ ‹_›
  · exact h.depStepRef _ _ ‹_›
  · exact h.outStepRef _ _ ‹_›

/-! ### primitive changes of an enumeration -/

theorem enum_insert {V : Type} (g : Nat) (cp : Store Ent) (ch : Store V) (p e : Ent) (v : V) :
    enumChildren (g + 1) (upd cp g (some e)) (upd ch g (some v)) p =
      enumChildren g cp ch p ++ (if e = p then [(g, v)] else []) := by
  rw [enum_succ, enum_congr g cp (upd cp g (some e)) ch (upd ch g (some v)) p
    (fun c hc => upd_other _ _ _ _ (by omega)) (fun c hc => upd_other _ _ _ _ (by omega))]
  simp only [upd_same, Option.some.injEq]

theorem enum_skip {V : Type} (g : Nat) (cp : Store Ent) (ch : Store V) (p : Ent) (h : cp g = none) :
    enumChildren (g + 1) cp ch p = enumChildren g cp ch p := by
  rw [enum_succ]; simp [h]

/-- Same store contents, larger counter. -/
theorem enum_raise {V : Type} (g g' : Nat) (cp : Store Ent) (ch : Store V) (p : Ent) (hle : g ≤ g')
    (h : ∀ c, g ≤ c → cp c = none) : enumChildren g' cp ch p = enumChildren g cp ch p :=
  enum_extend_le g g' cp ch p hle (fun c hc _ => by simp [h c hc])

/-! ### the dependency loop -/

/-- What `importDeps st e nm ds` changes. -/
structure DepsEffect (st st' : Repo D O) (e : Ent) (ds : List D) : Prop where
  fresh : GenFresh st'
  gen_le : st.gen ≤ st'.gen
  pipelines : st'.pipelines = st.pipelines
  rundir : st'.rundir = st.rundir
  steps : st'.steps = st.steps
  stepPipe : st'.stepPipe = st.stepPipe
  commands : st'.commands = st.commands
  invalidate : st'.invalidate = st.invalidate
  outs : st'.outs = st.outs
  outStep : st'.outStep = st.outStep
  depsOther : ∀ s, s ≠ e →
    enumChildren st'.gen st'.depStep st'.deps s = enumChildren st.gen st.depStep st.deps s
  depsSelf : (enumChildren st'.gen st'.depStep st'.deps e).map (·.2) =
    (enumChildren st.gen st.depStep st.deps e).map (·.2) ++ ds

theorem insertDep_fresh {st : Repo D O} (h : GenFresh st) (e : Ent) (nm : String) (d : D)
    (he : e < st.gen) (hs : st.steps e = some nm) : GenFresh (insertDep st.alloc e nm st.gen d) := by
  have ha := h.alloc
  constructor <;> intros <;> simp only [insertDep, Repo.alloc] at *
  · exact h.pipelines _ (by omega)
  · exact h.rundir _ (by omega)
  · rw [upd_self _ _ _ hs]; exact h.steps _ (by omega)
  · exact h.stepPipe _ (by omega)
  · exact h.commands _ (by omega)
  · exact h.invalidate _ (by omega)
  · rw [upd_other _ _ _ _ (by omega)]; exact h.deps _ (by omega)
  · rw [upd_other _ _ _ _ (by omega)]; exact h.depStep _ (by omega)
  · exact h.outs _ (by omega)
  · exact h.outStep _ (by omega)
  · have := h.stepPipeRef _ _ ‹_›; omega
  · rename_i c p hc
    by_cases hcg : c = st.gen
    · subst hcg; simp at hc; omega
    · rw [upd_other _ _ _ _ hcg] at hc
      have := h.depStepRef _ _ hc; omega
  · have := h.outStepRef _ _ ‹_›; omega

theorem importDeps_effect (ds : List D) : ∀ (st : Repo D O) (e : Ent) (nm : String),
    GenFresh st → e < st.gen → st.steps e = some nm → DepsEffect st (importDeps st e nm ds) e ds := by
  induction ds with
  | nil =>
    intro st e nm h _ _
    exact { fresh := h, gen_le := Nat.le_refl _, pipelines := rfl, rundir := rfl, steps := rfl,
            stepPipe := rfl, commands := rfl, invalidate := rfl, outs := rfl, outStep := rfl,
            depsOther := fun _ _ => rfl, depsSelf := by simp [importDeps] }
  | cons d ds ih =>
    intro st e nm h he hs
    have h1 := insertDep_fresh h e nm d he hs
    have hs1 : (insertDep st.alloc e nm st.gen d).steps e = some nm := by
      simp [insertDep, Repo.alloc]
    have he1 : e < (insertDep st.alloc e nm st.gen d).gen := by
      simp only [insertDep, Repo.alloc]; omega
    have r := ih (insertDep st.alloc e nm st.gen d) e nm h1 he1 hs1
    have hsteps : (insertDep st.alloc e nm st.gen d).steps = st.steps := by
      simp only [insertDep, Repo.alloc]; exact upd_self _ _ _ hs
    have hg : (insertDep st.alloc e nm st.gen d).gen = st.gen + 1 := rfl
    have hdeps : ∀ s, enumChildren (insertDep st.alloc e nm st.gen d).gen
        (insertDep st.alloc e nm st.gen d).depStep (insertDep st.alloc e nm st.gen d).deps s =
        enumChildren st.gen st.depStep st.deps s ++ (if e = s then [(st.gen, d)] else []) := by
      intro s
      simp only [insertDep, Repo.alloc]
      exact enum_insert _ _ _ _ _ _
    simp only [importDeps]
    exact {
      fresh := r.fresh
      gen_le := by have := r.gen_le; omega
      pipelines := r.pipelines
      rundir := r.rundir
      steps := r.steps.trans hsteps
      stepPipe := r.stepPipe
      commands := r.commands
      invalidate := r.invalidate
      outs := r.outs
      outStep := r.outStep
      depsOther := by
        intro s hse
        rw [r.depsOther s hse, hdeps s]
        simp [Ne.symm hse]
      depsSelf := by
        rw [r.depsSelf, hdeps e]
        simp }

/-! ### the output loop (symmetric) -/

structure OutsEffect (st st' : Repo D O) (e : Ent) (os : List O) : Prop where
  fresh : GenFresh st'
  gen_le : st.gen ≤ st'.gen
  pipelines : st'.pipelines = st.pipelines
  rundir : st'.rundir = st.rundir
  steps : st'.steps = st.steps
  stepPipe : st'.stepPipe = st.stepPipe
  commands : st'.commands = st.commands
  invalidate : st'.invalidate = st.invalidate
  deps : st'.deps = st.deps
  depStep : st'.depStep = st.depStep
  outsOther : ∀ s, s ≠ e →
    enumChildren st'.gen st'.outStep st'.outs s = enumChildren st.gen st.outStep st.outs s
  outsSelf : (enumChildren st'.gen st'.outStep st'.outs e).map (·.2) =
    (enumChildren st.gen st.outStep st.outs e).map (·.2) ++ os

theorem insertOut_fresh {st : Repo D O} (h : GenFresh st) (e : Ent) (nm : String) (o : O)
    (he : e < st.gen) (hs : st.steps e = some nm) : GenFresh (insertOut st.alloc e nm st.gen o) := by
  constructor <;> intros <;> simp only [insertOut, Repo.alloc] at *
  · exact h.pipelines _ (by omega)
  · exact h.rundir _ (by omega)
  · rw [upd_self _ _ _ hs]; exact h.steps _ (by omega)
  · exact h.stepPipe _ (by omega)
  · exact h.commands _ (by omega)
  · exact h.invalidate _ (by omega)
  · exact h.deps _ (by omega)
  · exact h.depStep _ (by omega)
  · rw [upd_other _ _ _ _ (by omega)]; exact h.outs _ (by omega)
  · rw [upd_other _ _ _ _ (by omega)]; exact h.outStep _ (by omega)
  · have := h.stepPipeRef _ _ ‹_›; omega
  · have := h.depStepRef _ _ ‹_›; omega
  · rename_i c p hc
    by_cases hcg : c = st.gen
    · subst hcg; simp at hc; omega
    · rw [upd_other _ _ _ _ hcg] at hc
      have := h.outStepRef _ _ hc; omega

theorem importOuts_effect (os : List O) : ∀ (st : Repo D O) (e : Ent) (nm : String),
    GenFresh st → e < st.gen → st.steps e = some nm → OutsEffect st (importOuts st e nm os) e os := by
  induction os with
  | nil =>
    intro st e nm h _ _
    exact { fresh := h, gen_le := Nat.le_refl _, pipelines := rfl, rundir := rfl, steps := rfl,
            stepPipe := rfl, commands := rfl, invalidate := rfl, deps := rfl, depStep := rfl,
            outsOther := fun _ _ => rfl, outsSelf := by simp [importOuts] }
  | cons o os ih =>
    intro st e nm h he hs
    have h1 := insertOut_fresh h e nm o he hs
    have hs1 : (insertOut st.alloc e nm st.gen o).steps e = some nm := by
      simp [insertOut, Repo.alloc]
    have he1 : e < (insertOut st.alloc e nm st.gen o).gen := by
      simp only [insertOut, Repo.alloc]; omega
    have r := ih (insertOut st.alloc e nm st.gen o) e nm h1 he1 hs1
    have hsteps : (insertOut st.alloc e nm st.gen o).steps = st.steps := by
      simp only [insertOut, Repo.alloc]; exact upd_self _ _ _ hs
    have hg : (insertOut st.alloc e nm st.gen o).gen = st.gen + 1 := rfl
    have houts : ∀ s, enumChildren (insertOut st.alloc e nm st.gen o).gen
        (insertOut st.alloc e nm st.gen o).outStep (insertOut st.alloc e nm st.gen o).outs s =
        enumChildren st.gen st.outStep st.outs s ++ (if e = s then [(st.gen, o)] else []) := by
      intro s
      simp only [insertOut, Repo.alloc]
      exact enum_insert _ _ _ _ _ _
    simp only [importOuts]
    exact {
      fresh := r.fresh
      gen_le := by have := r.gen_le; omega
      pipelines := r.pipelines
      rundir := r.rundir
      steps := r.steps.trans hsteps
      stepPipe := r.stepPipe
      commands := r.commands
      invalidate := r.invalidate
      deps := r.deps
      depStep := r.depStep
      outsOther := by
        intro s hse
        rw [r.outsOther s hse, houts s]
        simp [Ne.symm hse]
      outsSelf := by
        rw [r.outsSelf, houts e]
        simp }

/-! ### one imported step -/

section step
variable [TotalOrd D] [TotalOrd O]

/-- What one iteration of the step loop of `cmd_import` changes, in terms of what export reads. -/
structure StepEffect (st st' : Repo D O) (pe : Ent) (s : StepSchema D O) : Prop where
  fresh : GenFresh st'
  gen_lt : st.gen < st'.gen
  pipelines : st'.pipelines = st.pipelines
  rundir : st'.rundir = st.rundir
  exportSelf : exportStepsC st' pe = (exportStepsC st pe).map (· ++ [s.normalize])
  exportOther : ∀ p, p ≠ pe → exportStepsC st' p = exportStepsC st p

omit [TotalOrd D] [TotalOrd O] in
theorem importStepHead_fresh {st : Repo D O} (h : GenFresh st) (pe : Ent) (pname : String)
    (s : StepSchema D O) (hpe : pe < st.gen) (hp : st.pipelines pe = some pname) :
    GenFresh (importStepHead st pe pname s) := by
  constructor <;> intros <;> simp only [importStepHead, Repo.alloc] at *
  · rw [upd_self _ _ _ hp]; exact h.pipelines _ (by omega)
  · exact h.rundir _ (by omega)
  · rw [upd_other _ _ _ _ (by omega)]; exact h.steps _ (by omega)
  · rw [upd_other _ _ _ _ (by omega)]; exact h.stepPipe _ (by omega)
  · rw [upd_other _ _ _ _ (by omega)]; exact h.commands _ (by omega)
  · rw [upd_other _ _ _ _ (by omega)]; exact h.invalidate _ (by omega)
  · exact h.deps _ (by omega)
  · exact h.depStep _ (by omega)
  · exact h.outs _ (by omega)
  · exact h.outStep _ (by omega)
  · rename_i c p hc
    by_cases hcg : c = st.gen
    · subst hcg; simp at hc; omega
    · rw [upd_other _ _ _ _ hcg] at hc
      have := h.stepPipeRef _ _ hc; omega
  · have := h.depStepRef _ _ ‹_›; omega
  · have := h.outStepRef _ _ ‹_›; omega

theorem importStep_effect (st : Repo D O) (pe : Ent) (pname : String) (s : StepSchema D O)
    (h : GenFresh st) (hpe : pe < st.gen) (hp : st.pipelines pe = some pname) :
    StepEffect st (importStep st pe pname s) pe s := by
  -- the three stages
  let g := st.gen
  let st1 := importStepHead st pe pname s
  let st2 := importDeps st1 g s.name s.dependencies
  let st3 := importOuts st2 g s.name s.outputs
  have e3 : importStep st pe pname s = st3 := rfl
  have h1 : GenFresh st1 := importStepHead_fresh h pe pname s hpe hp
  have g1 : st1.gen = g + 1 := rfl
  have s1 : st1.steps g = some s.name := by simp [st1, importStepHead, g]
  have D : DepsEffect st1 st2 g s.dependencies :=
    importDeps_effect s.dependencies st1 g s.name h1 (by omega) s1
  have s2 : st2.steps g = some s.name := by rw [D.steps]; exact s1
  have O' : OutsEffect st2 st3 g s.outputs :=
    importOuts_effect s.outputs st2 g s.name D.fresh (by have := D.gen_le; omega) s2
  -- stores of st1 in terms of st
  have p1 : st1.pipelines = st.pipelines := by
    simp only [st1, importStepHead, Repo.alloc]; exact upd_self _ _ _ hp
  have r1 : st1.rundir = st.rundir := rfl
  have c1 : st1.commands = upd st.commands g (some s.command) := rfl
  have i1 : st1.invalidate = upd st.invalidate g (some s.invalidate) := rfl
  -- enumerations in st1
  have es1 : ∀ p, enumChildren st1.gen st1.stepPipe st1.steps p =
      enumChildren st.gen st.stepPipe st.steps p ++ (if pe = p then [(g, s.name)] else []) := by
    intro p
    simp only [st1, importStepHead, Repo.alloc]
    exact enum_insert _ _ _ _ _ _
  have ed1 : ∀ c, enumChildren st1.gen st1.depStep st1.deps c = enumChildren st.gen st.depStep st.deps c := by
    intro c
    simp only [st1, importStepHead, Repo.alloc]
    exact enum_skip _ _ _ _ (h.depStep _ (Nat.le_refl _))
  have eo1 : ∀ c, enumChildren st1.gen st1.outStep st1.outs c = enumChildren st.gen st.outStep st.outs c := by
    intro c
    simp only [st1, importStepHead, Repo.alloc]
    exact enum_skip _ _ _ _ (h.outStep _ (Nat.le_refl _))
  -- enumerations in st3
  have es3 : ∀ p, enumChildren st3.gen st3.stepPipe st3.steps p =
      enumChildren st.gen st.stepPipe st.steps p ++ (if pe = p then [(g, s.name)] else []) := by
    intro p
    rw [O'.stepPipe, O'.steps, D.stepPipe, D.steps, ← es1 p]
    exact enum_raise _ _ _ _ _ (by have := D.gen_le; have := O'.gen_le; omega) h1.stepPipe
  have ed3 : ∀ c, enumChildren st3.gen st3.depStep st3.deps c = enumChildren st2.gen st2.depStep st2.deps c := by
    intro c
    rw [O'.depStep, O'.deps]
    exact enum_raise _ _ _ _ _ O'.gen_le D.fresh.depStep
  have eo2 : ∀ c, enumChildren st2.gen st2.outStep st2.outs c = enumChildren st.gen st.outStep st.outs c := by
    intro c
    rw [D.outStep, D.outs, ← eo1 c]
    exact enum_raise _ _ _ _ _ D.gen_le h1.outStep
  have dnil : enumChildren st.gen st.depStep st.deps g = [] :=
    enum_nil _ _ _ _ (fun c _ hc => by have := h.depStepRef c g hc; omega)
  have onil : enumChildren st.gen st.outStep st.outs g = [] :=
    enum_nil _ _ _ _ (fun c _ hc => by have := h.outStepRef c g hc; omega)
  have c3 : st3.commands = upd st.commands g (some s.command) := by
    rw [O'.commands, D.commands, c1]
  have i3 : st3.invalidate = upd st.invalidate g (some s.invalidate) := by
    rw [O'.invalidate, D.invalidate, i1]
  -- the step schemas
  have schemaOld : ∀ es : Ent × String, es.1 ≠ g → stepSchemaC st3 es = stepSchemaC st es := by
    intro es hne
    unfold stepSchemaC
    rw [c3, i3, upd_other _ _ _ _ hne, upd_other _ _ _ _ hne, ed3 es.1, D.depsOther es.1 hne, ed1 es.1,
      O'.outsOther es.1 hne, eo2 es.1]
  have schemaNew : stepSchemaC st3 (g, s.name) = some s.normalize := by
    unfold stepSchemaC
    simp only [c3, i3, upd_same, Option.getD_some]
    rw [ed3 g, D.depsSelf, ed1 g, dnil, O'.outsSelf, eo2 g, onil]
    simp [StepSchema.normalize]
  rw [e3]
  refine { fresh := O'.fresh, gen_lt := ?_, pipelines := ?_, rundir := ?_, exportSelf := ?_, exportOther := ?_ }
  · have := D.gen_le; have := O'.gen_le; omega
  · rw [O'.pipelines, D.pipelines, p1]
  · rw [O'.rundir, D.rundir, r1]
  · unfold exportStepsC
    rw [es3 pe]
    simp only [if_true, List.map_append, List.map_cons, List.map_nil, schemaNew]
    rw [allSome_append_single]
    congr 2
    apply List.map_congr_left
    intro es hes
    apply schemaOld
    have := enum_key_lt _ _ _ _ es hes
    omega
  · intro p hpne
    unfold exportStepsC
    rw [es3 p]
    simp only [Ne.symm hpne, if_false, List.append_nil]
    congr 1
    apply List.map_congr_left
    intro es hes
    apply schemaOld
    have := enum_key_lt _ _ _ _ es hes
    omega

/-- The whole step loop. -/
theorem importSteps_effect (ss : List (StepSchema D O)) : ∀ (st : Repo D O) (pe : Ent) (pname : String),
    GenFresh st → pe < st.gen → st.pipelines pe = some pname →
    GenFresh (importSteps st pe pname ss) ∧ st.gen ≤ (importSteps st pe pname ss).gen ∧
    (importSteps st pe pname ss).pipelines = st.pipelines ∧
    (importSteps st pe pname ss).rundir = st.rundir ∧
    exportStepsC (importSteps st pe pname ss) pe =
      (exportStepsC st pe).map (· ++ ss.map StepSchema.normalize) ∧
    ∀ p, p ≠ pe → exportStepsC (importSteps st pe pname ss) p = exportStepsC st p := by
  induction ss with
  | nil =>
    intro st pe pname h _ _
    refine ⟨h, Nat.le_refl _, rfl, rfl, ?_, fun _ _ => rfl⟩
    simp only [importSteps, List.map_nil, List.append_nil]
    cases exportStepsC st pe <;> simp
  | cons s ss ih =>
    intro st pe pname h hpe hp
    have E := importStep_effect st pe pname s h hpe hp
    have hpe' : pe < (importStep st pe pname s).gen := by have := E.gen_lt; omega
    have hp' : (importStep st pe pname s).pipelines pe = some pname := by rw [E.pipelines]; exact hp
    obtain ⟨f, gl, pp, rr, es, eo⟩ := ih (importStep st pe pname s) pe pname E.fresh hpe' hp'
    simp only [importSteps]
    refine ⟨f, ?_, pp.trans E.pipelines, rr.trans E.rundir, ?_, ?_⟩
    · have := E.gen_lt; omega
    · rw [es, E.exportSelf]
      cases exportStepsC st pe <;> simp
    · intro p hpne
      rw [eo p hpne, E.exportOther p hpne]

/-- Allocating the pipeline entity (first lines of the import body) changes nothing export reads
    about steps. -/
theorem exportStepsC_pipelineAlloc (st : Repo D O) (h : GenFresh st) (pl rd : Store String) (p : Ent) :
    exportStepsC ({ st.alloc with pipelines := pl, rundir := rd } : Repo D O) p = exportStepsC st p := by
  unfold exportStepsC
  simp only [Repo.alloc]
  rw [enum_skip _ _ _ _ (h.stepPipe _ (Nat.le_refl _))]
  congr 1
  apply List.map_congr_left
  intro es _
  unfold stepSchemaC
  simp only
  rw [enum_skip _ _ _ _ (h.depStep _ (Nat.le_refl _)), enum_skip _ _ _ _ (h.outStep _ (Nat.le_refl _))]

/-- `importFresh` on a repository that has no pipeline of that name. -/
theorem importFresh_effect (st : Repo D O) (sch : PipelineSchema D O) (name : String) (h : GenFresh st) :
    GenFresh (importFresh st sch name) ∧ st.gen < (importFresh st sch name).gen ∧
    (importFresh st sch name).pipelines = upd st.pipelines st.gen (some name) ∧
    (importFresh st sch name).rundir = upd st.rundir st.gen (some sch.workdir) ∧
    exportStepsC (importFresh st sch name) st.gen = some (sch.steps.map StepSchema.normalize) ∧
    ∀ p, p ≠ st.gen → exportStepsC (importFresh st sch name) p = exportStepsC st p := by
  let st1 : Repo D O :=
    { st.alloc with pipelines := upd st.pipelines st.gen (some name)
                    rundir := upd st.rundir st.gen (some sch.workdir) }
  have e : importFresh st sch name = importSteps st1 st.gen name sch.steps := rfl
  have h1 : GenFresh st1 := by
    constructor <;> intros <;> simp only [st1, Repo.alloc] at *
    · rw [upd_other _ _ _ _ (by omega)]; exact h.pipelines _ (by omega)
    · rw [upd_other _ _ _ _ (by omega)]; exact h.rundir _ (by omega)
    · exact h.steps _ (by omega)
    · exact h.stepPipe _ (by omega)
    · exact h.commands _ (by omega)
    · exact h.invalidate _ (by omega)
    · exact h.deps _ (by omega)
    · exact h.depStep _ (by omega)
    · exact h.outs _ (by omega)
    · exact h.outStep _ (by omega)
    · have := h.stepPipeRef _ _ ‹_›; omega
    · have := h.depStepRef _ _ ‹_›; omega
    · have := h.outStepRef _ _ ‹_›; omega
  have g1 : st1.gen = st.gen + 1 := rfl
  have p1 : st1.pipelines st.gen = some name := by simp [st1]
  obtain ⟨f, gl, pp, rr, es, eo⟩ := importSteps_effect sch.steps st1 st.gen name h1 (by omega) p1
  have x1 : ∀ p, exportStepsC st1 p = exportStepsC st p :=
    fun p => exportStepsC_pipelineAlloc st h _ _ p
  have nil : exportStepsC st st.gen = some [] := by
    unfold exportStepsC
    rw [enum_nil _ _ _ _ (fun c _ hc => by have := h.stepPipeRef c st.gen hc; omega)]
    rfl
  rw [e]
  refine ⟨f, by omega, pp, rr, ?_, ?_⟩
  · rw [es, x1, nil]; simp
  · intro p hp
    rw [eo p hp, x1]

theorem allSome_mem {α : Type} : ∀ (l : List (Option α)) (r : List α), allSome l = some r →
    ∀ a, a ∈ r → some a ∈ l := by
  intro l
  induction l with
  | nil => intro r h a ha; simp [allSome] at h; subst h; cases ha
  | cons x l ih =>
    intro r h a ha
    cases x with
    | none => simp [allSome] at h
    | some b =>
      simp only [allSome, Option.map_eq_some_iff] at h
      obtain ⟨r', hr', rfl⟩ := h
      simp only [List.mem_cons] at ha ⊢
      rcases ha with rfl | ha
      · exact Or.inl rfl
      · exact Or.inr (ih r' hr' a ha)

/-- Every step schema that export produces has sorted dependency and output lists. -/
theorem stepSchemaC_normal (st : Repo D O) (es : Ent × String) (s : StepSchema D O)
    (h : stepSchemaC st es = some s) : s.normalize = s := by
  unfold stepSchemaC at h
  cases hc : st.commands es.1 with
  | none => simp [hc] at h
  | some c =>
    simp only [hc, Option.some.injEq] at h
    subst h
    simp [StepSchema.normalize, sortVals_idem]

theorem exportStepsC_normal (st : Repo D O) (pe : Ent) (steps : List (StepSchema D O))
    (h : exportStepsC st pe = some steps) : steps.map StepSchema.normalize = steps := by
  have hm := allSome_mem _ _ h
  calc steps.map StepSchema.normalize = steps.map id := by
        apply List.map_congr_left
        intro s hs
        have := hm s hs
        rw [List.mem_map] at this
        obtain ⟨es, _, hes⟩ := this
        exact stepSchemaC_normal st es s hes
    _ = steps := List.map_id _

end step

end PipeData
