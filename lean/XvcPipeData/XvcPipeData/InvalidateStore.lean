import XvcPipeData.InvalidateLemmas
/-!
  The dependency store under `pipeline run` (C12): the diff layer between the run decision and
  `XvcStore<XvcDependency>`, restated here (the same shape as `XvcEcs/Rel.lean: applyDiff`, no package
  dependency).

  * `Diff`            — `core/src/types/diff.rs: enum Diff<T>` as far as `update_with_actual` reads it
  * `applyDiff`       — one entity of `update_with_actual(records, diffs, add_new, remove_missing)`
  * `runDiff`         — the entry a run leaves in `dependency_diffs` for one dependency entity
                        (`deps/compare.rs: diff_superficial` then `thorough_compare_*`)
  * `savedSlot`       — `the_grand_pipeline_loop`: `if let Ok(true) = done_successfully { update_with_actual(
                        dependency store, diffs, true, true) }`

  A slot of the store is `none` (the step has no such dependency entity any more) or `some r` (the dependency is
  defined; `r` = what a run recorded for it, `none` before the first successful run).
-/
namespace Inval

/-- `Diff<XvcDependency>` as `update_with_actual` sees it. -/
inductive Diff where
  | identical
  | skipped
  | recordMissing (actual : Obs)
  | actualMissing
  | different (actual : Obs)
  deriving DecidableEq, Repr

/-- One entity of `XvcStore<XvcDependency>`. -/
abbrev Slot := Option (Option Obs)

/-- `update_with_actual` (core/src/types/diff.rs) on one entity: `RecordMissing` ⇒ insert if `add_new`;
    `ActualMissing` ⇒ **remove the entity** if `remove_missing`; `Different` ⇒ overwrite;
    `Identical` / `Skipped` ⇒ nothing. -/
def applyDiff (addNew removeMissing : Bool) (s : Slot) : Diff → Slot
  | .identical => s
  | .skipped => s
  | .recordMissing a => if addNew then some (some a) else s
  | .actualMissing => if removeMissing then none else s
  | .different a => some (some a)

/-- Is the dependency entity still a dependency of its step? -/
def Slot.defined (s : Slot) : Bool := s.isSome

/-- Every dependency of the pipeline definition is in the store. -/
def slotOf (w : World) (d : Nat) : Slot := some (w.recorded d)

/-- The diff a run computes for dependency `d` when it gets as far as comparing it:
    `diff_superficial(record, actual)` has the arm `(Some(record), None) => Diff::ActualMissing` for an
    actual that is not there; otherwise `RecordMissing` / `Different` / `Identical` (`Skipped` for a
    dependency no step compared). -/
def runDiff (p : Pipe) (w : World) (d : Nat) : Diff :=
  if !compared p d then .skipped
  else if w.absent d then .actualMissing
  else match w.recorded d with
    | none => .recordMissing (w.actual d)
    | some _ => if (depOf p w d).finalChanged then .different (w.actual d) else .identical

/-- The store entity of `d` after the run: saved only when every step is done. -/
def savedSlot (p : Pipe) (w : World) (fails missing : Nat → Bool) (d : Nat) : Slot :=
  if (runPipeline p w fails missing).allDone then applyDiff true true (slotOf w d) (runDiff p w d)
  else slotOf w d

/-! ## lemmas -/

/-- Flags of `update_with_actual` (the shape of `C08_apply_diff_flags`): without `remove_missing` no diff
    removes an entity; with it exactly `ActualMissing` does. -/
theorem applyDiff_defined (addNew rm : Bool) (s : Slot) (df : Diff) (hs : s.defined = true) :
    (applyDiff addNew rm s df).defined = !(rm && decide (df = .actualMissing)) := by
  cases df <;> cases addNew <;> cases rm <;> simp_all [applyDiff, Slot.defined]

/-- In a fully successful run no compared dependency watches an absent resource: its step would be `Broken`. -/
theorem allDone_present (p : Pipe) (w : World) (fails missing : Nat → Bool) (hwf : p.WF)
    (hok : (runPipeline p w fails missing).allDone = true) (d : Nat) (hc : compared p d = true) :
    w.absent d = false := by
  cases ha : w.absent d with
  | false => rfl
  | true =>
    exfalso
    unfold compared at hc
    rw [List.any_eq_true] at hc
    obtain ⟨i, hi, hcd⟩ := hc
    have hi' := List.mem_range.mp hi
    rw [Bool.and_eq_true] at hcd
    obtain ⟨hnv, hmem⟩ := hcd
    have hn : (p.step i).mode ≠ .never := by
      intro hm; simp [rc_never, hm] at hnv
    have hmem' : d ∈ (p.step i).deps := by simpa using hmem
    have hab : ownAbsent w (p.step i) = true := by
      unfold ownAbsent
      rw [List.any_eq_true]
      exact ⟨d, hmem', ha⟩
    have hb := (absent_broken p w fails missing (runPipeline p w fails missing).st i hn hab).1
    rw [← (run_fix p w fails missing hwf i hi').1] at hb
    have hall : ((List.range p.n).all fun j => ((runPipeline p w fails missing).st j).done) = true := hok
    rw [List.all_eq_true] at hall
    have := hall i hi
    rw [hb] at this
    cases this

end Inval
