import XvcPipeData.Schema
/-!
  # How `cmd_export` orders the collections it takes out of an `HStore`

  `pipeline/src/pipeline/api/export.rs` builds every `XvcStepSchema` from values it collects out of
  hash maps (`deps[e].values()`, `outs[e].values()`, `steps.iter()`); what makes the exported document
  a function of the pipeline is the ordering applied afterwards.  `FieldOrder` names the orderings the
  translator (`lib/c14_strings.extract_export_order`) recognises in the source; the table of the
  orderings actually used is regenerated into `Gen/ExportOrder.lean` on every run.

  * `.sorted()`                                   — `derivedOrd`: the derived total `Ord` of the values
                                                    (`sortVals`, `Schema.lean`);
  * `.sorted_by_key(|d| d.to_string())`, `.sorted_by_cached_key(..)`,
    `.sorted_by(|a, b| a.to_string().cmp(&b.to_string()))`
                                                  — `byDisplay`: a stable sort that compares only the
                                                    `Display` string;
  * no sort                                       — `unsorted`: the iteration order of the `HStore`.
-/
namespace PipeData

/-- The ordering `cmd_export` applies to one collection. -/
inductive FieldOrder where
  | derivedOrd
  | byDisplay
  | unsorted
  deriving DecidableEq, Repr

/-- Comparison of `slice::sort_by_key` / `sort_by_cached_key`: only the keys are compared. -/
def keyLe {α κ : Type} [TotalOrd κ] (key : α → κ) (a b : α) : Bool := TotalOrd.le (key a) (key b)

/-- `itertools::sorted_by_key(key)` / `sorted_by_cached_key(key)` = stable `Vec::sort_by_key`
    (`List.mergeSort` is a stable merge sort as well): elements with equal keys keep the order they
    arrived in. -/
def sortByKey {α κ : Type} [TotalOrd κ] (key : α → κ) (l : List α) : List α := l.mergeSort (keyLe key)

/-- The list `cmd_export` puts into the schema for a collection whose values arrive in the order `l`
    (the iteration order of the `HStore`).  `display` is `ToString::to_string` (`impl Display`). -/
def orderVals {α κ : Type} [TotalOrd α] [TotalOrd κ] (fo : FieldOrder) (display : α → κ) (l : List α) :
    List α :=
  match fo with
  | .derivedOrd => sortVals l
  | .byDisplay => sortByKey display l
  | .unsorted => l

/-! ## A concrete dependency kind whose `Display` string is not injective -/

/-- The two fields of `RegexItemsDep` (`deps/regex_items.rs`) that a command line sets
    (`--regex-items <path>:/<regex>`), as numbers (path and regex interned). -/
structure RegexItems where
  path : Nat
  regex : Nat
  deriving DecidableEq, Repr

/-- `impl Display for XvcDependency`, arm `RegexItems`: `write!(f, "regex-items({})", dep.path)` — an
    injective function of the path alone; the regex is not shown. -/
def RegexItems.display (d : RegexItems) : Nat := d.path

/-- `derive(Ord)` on `RegexItemsDep`: fields in declaration order, `path` then `regex`. -/
instance : TotalOrd RegexItems where
  le a b := decide (a.path < b.path ∨ (a.path = b.path ∧ a.regex ≤ b.regex))
  total a b := by
    simp only [Bool.or_eq_true, decide_eq_true_eq]; omega
  trans a b c h1 h2 := by
    simp only [decide_eq_true_eq] at *; omega
  antisymm a b h1 h2 := by
    cases a; cases b
    simp only [decide_eq_true_eq, RegexItems.mk.injEq] at *; omega

end PipeData
