import XvcPipeData.SchemaLemmas
/-!
  The hypotheses `GenFresh` and `UniqueNames` of the C14 theorems are invariants of every modelled
  command (`Cmd.run`), hence hold in every repository reachable from `xvc init`.
  (The import case is `C14_import_preserves` in `Props/C14.lean`.)
-/
namespace PipeData

variable {D O : Type}

theorem ite_none_some {α : Type} {b : Bool} {x : Option α} {q : α}
    (h : (if b = true then none else x) = some q) : x = some q := by
  cases b <;> simp_all

theorem ite_none_none {α : Type} {b : Bool} {x : Option α} (h : x = none) :
    (if b = true then none else x) = none := by
  cases b <;> simp_all

theorem findStep_some (st : Repo D O) (pe : Ent) (name : String) (se : Ent)
    (h : findStep st pe name = some se) : se < st.gen ∧ st.steps se = some name := by
  unfold findStep at h
  rw [Option.map_eq_some_iff] at h
  obtain ⟨es, hes, rfl⟩ := h
  have hm := List.mem_of_find?_eq_some hes
  have hp := List.find?_some hes
  have hn : es.2 = name := by simpa using hp
  obtain ⟨c, v⟩ := es
  rw [enum_mem] at hm
  simp only at hn
  subst hn
  exact ⟨hm.1, hm.2.2⟩

theorem init_fresh : GenFresh (Repo.init : Repo D O) := by
  constructor <;> intros <;> simp only [Repo.init] at *
  · rw [upd_other _ _ _ _ (by omega)]
  all_goals first | rfl | (rename_i h; cases h)

theorem init_unique : UniqueNames (Repo.init : Repo D O) := by
  intro e₁ e₂ n h1 h2
  simp only [Repo.init] at h1 h2
  by_cases he1 : e₁ = 1
  · by_cases he2 : e₂ = 1
    · rw [he1, he2]
    · rw [upd_other _ _ _ _ he2] at h2; cases h2
  · rw [upd_other _ _ _ _ he1] at h1; cases h1

theorem pipelineNew_preserves (st : Repo D O) (name : String) (wd : Option String)
    (hf : GenFresh st) (hu : UniqueNames st) :
    GenFresh (pipelineNew st name wd).repo ∧ UniqueNames (pipelineNew st name wd).repo := by
  unfold pipelineNew
  cases hne : nameExists st name with
  | true => exact ⟨hf, hu⟩
  | false =>
    have hno : ∀ e, e < st.gen → st.pipelines e ≠ some name := by
      apply (findPipeline_none_iff st name).mp
      unfold nameExists at hne
      cases h : findPipeline st name with
      | none => rfl
      | some _ => rw [h] at hne; cases hne
    simp only [Bool.false_eq_true, if_false]
    constructor
    · constructor <;> intros <;> simp only [Repo.alloc] at *
      · rw [upd_other _ _ _ _ (by omega)]; exact hf.pipelines _ (by omega)
      · cases wd with
        | none => exact hf.rundir _ (by omega)
        | some w => simp only; rw [upd_other _ _ _ _ (by omega)]; exact hf.rundir _ (by omega)
      · exact hf.steps _ (by omega)
      · exact hf.stepPipe _ (by omega)
      · exact hf.commands _ (by omega)
      · exact hf.invalidate _ (by omega)
      · exact hf.deps _ (by omega)
      · exact hf.depStep _ (by omega)
      · exact hf.outs _ (by omega)
      · exact hf.outStep _ (by omega)
      · have := hf.stepPipeRef _ _ ‹_›; omega
      · have := hf.depStepRef _ _ ‹_›; omega
      · have := hf.outStepRef _ _ ‹_›; omega
    · intro e₁ e₂ n h1 h2
      simp only at h1 h2
      have old : ∀ e, e ≠ st.gen → st.pipelines e = some n → e < st.gen := by
        intro e _ h
        apply Nat.lt_of_not_le
        intro hle
        rw [hf.pipelines e hle] at h; cases h
      by_cases he1 : e₁ = st.gen <;> by_cases he2 : e₂ = st.gen
      · rw [he1, he2]
      · subst he1
        rw [upd_same] at h1
        rw [upd_other _ _ _ _ he2] at h2
        have hn : name = n := by simpa using h1
        subst hn
        exact absurd h2 (hno e₂ (old e₂ he2 h2))
      · subst he2
        rw [upd_same] at h2
        rw [upd_other _ _ _ _ he1] at h1
        have hn : name = n := by simpa using h2
        subst hn
        exact absurd h1 (hno e₁ (old e₁ he1 h1))
      · rw [upd_other _ _ _ _ he1] at h1
        rw [upd_other _ _ _ _ he2] at h2
        exact hu e₁ e₂ n h1 h2

theorem pipelineDelete_preserves (st : Repo D O) (name : String)
    (hf : GenFresh st) (hu : UniqueNames st) :
    GenFresh (pipelineDelete st name) ∧ UniqueNames (pipelineDelete st name) := by
  unfold pipelineDelete
  constructor
  · constructor <;> intros <;> simp only at *
    · rename_i e he
      rw [hf.pipelines e he]; simp
    · exact hf.rundir _ ‹_›
    · exact hf.steps _ ‹_›
    · exact hf.stepPipe _ ‹_›
    · exact hf.commands _ ‹_›
    · exact hf.invalidate _ ‹_›
    · exact hf.deps _ ‹_›
    · exact hf.depStep _ ‹_›
    · exact hf.outs _ ‹_›
    · exact hf.outStep _ ‹_›
    · exact hf.stepPipeRef _ _ ‹_›
    · exact hf.depStepRef _ _ ‹_›
    · exact hf.outStepRef _ _ ‹_›
  · intro e₁ e₂ n h1 h2
    simp only at h1 h2
    split at h1
    · cases h1
    · split at h2
      · cases h2
      · exact hu e₁ e₂ n h1 h2

theorem stepNew_preserves (st : Repo D O) (p s c : String) (i : Option Invalidate)
    (hf : GenFresh st) (hu : UniqueNames st) :
    GenFresh (stepNew st p s c i).repo ∧ UniqueNames (stepNew st p s c i).repo := by
  unfold stepNew
  cases hfp : findPipeline st p with
  | none => exact ⟨hf, hu⟩
  | some pe =>
    obtain ⟨hpe, hpn⟩ := findPipeline_some st p pe hfp
    dsimp only
    cases hfs : findStep st pe s with
    | some _ => exact ⟨hf, hu⟩
    | none =>
      simp only
      constructor
      · constructor <;> intros <;> simp only [Repo.alloc] at *
        · rw [upd_self _ _ _ hpn]; exact hf.pipelines _ (by omega)
        · exact hf.rundir _ (by omega)
        · rw [upd_other _ _ _ _ (by omega)]; exact hf.steps _ (by omega)
        · rw [upd_other _ _ _ _ (by omega)]; exact hf.stepPipe _ (by omega)
        · rw [upd_other _ _ _ _ (by omega)]; exact hf.commands _ (by omega)
        · rw [upd_other _ _ _ _ (by omega)]; exact hf.invalidate _ (by omega)
        · exact hf.deps _ (by omega)
        · exact hf.depStep _ (by omega)
        · exact hf.outs _ (by omega)
        · exact hf.outStep _ (by omega)
        · rename_i c' p' hc
          by_cases hcg : c' = st.gen
          · subst hcg; simp at hc; omega
          · rw [upd_other _ _ _ _ hcg] at hc
            have := hf.stepPipeRef _ _ hc; omega
        · have := hf.depStepRef _ _ ‹_›; omega
        · have := hf.outStepRef _ _ ‹_›; omega
      · intro e₁ e₂ n h1 h2
        simp only at h1 h2
        rw [upd_self _ _ _ hpn] at h1 h2
        exact hu e₁ e₂ n h1 h2

theorem stepUpdate_preserves (st : Repo D O) (p s : String) (c : Option String) (i : Option Invalidate)
    (hf : GenFresh st) (hu : UniqueNames st) :
    GenFresh (stepUpdate st p s c i).repo ∧ UniqueNames (stepUpdate st p s c i).repo := by
  unfold stepUpdate
  cases hfp : findPipeline st p with
  | none => exact ⟨hf, hu⟩
  | some pe =>
    dsimp only
    cases hfs : findStep st pe s with
    | none => exact ⟨hf, hu⟩
    | some se =>
      obtain ⟨hse, _⟩ := findStep_some st pe s se hfs
      simp only
      constructor
      · constructor <;> intros <;> simp only at *
        · exact hf.pipelines _ ‹_›
        · exact hf.rundir _ ‹_›
        · rw [upd_other _ _ _ _ (by omega)]; exact hf.steps _ ‹_›
        · exact hf.stepPipe _ ‹_›
        · cases c with
          | none => exact hf.commands _ ‹_›
          | some c => simp only; rw [upd_other _ _ _ _ (by omega)]; exact hf.commands _ ‹_›
        · rw [upd_other _ _ _ _ (by omega)]; exact hf.invalidate _ ‹_›
        · exact hf.deps _ ‹_›
        · exact hf.depStep _ ‹_›
        · exact hf.outs _ ‹_›
        · exact hf.outStep _ ‹_›
        · exact hf.stepPipeRef _ _ ‹_›
        · exact hf.depStepRef _ _ ‹_›
        · exact hf.outStepRef _ _ ‹_›
      · exact hu

theorem stepDependency_preserves (st : Repo D O) (p s : String) (ds : List D)
    (hf : GenFresh st) (hu : UniqueNames st) :
    GenFresh (stepDependency st p s ds).repo ∧ UniqueNames (stepDependency st p s ds).repo := by
  unfold stepDependency
  cases hfp : findPipeline st p with
  | none => exact ⟨hf, hu⟩
  | some pe =>
    dsimp only
    cases hfs : findStep st pe s with
    | none => exact ⟨hf, hu⟩
    | some se =>
      obtain ⟨hse, hsn⟩ := findStep_some st pe s se hfs
      have E := importDeps_effect ds st se s hf hse hsn
      refine ⟨E.fresh, ?_⟩
      intro e₁ e₂ n h1 h2
      simp only at h1 h2
      rw [E.pipelines] at h1 h2
      exact hu e₁ e₂ n h1 h2

theorem stepOutput_preserves (st : Repo D O) (p s : String) (os : List O)
    (hf : GenFresh st) (hu : UniqueNames st) :
    GenFresh (stepOutput st p s os).repo ∧ UniqueNames (stepOutput st p s os).repo := by
  unfold stepOutput
  cases hfp : findPipeline st p with
  | none => exact ⟨hf, hu⟩
  | some pe =>
    dsimp only
    cases hfs : findStep st pe s with
    | none => exact ⟨hf, hu⟩
    | some se =>
      obtain ⟨hse, hsn⟩ := findStep_some st pe s se hfs
      have E := importOuts_effect os st se s hf hse hsn
      refine ⟨E.fresh, ?_⟩
      intro e₁ e₂ n h1 h2
      simp only at h1 h2
      rw [E.pipelines] at h1 h2
      exact hu e₁ e₂ n h1 h2

theorem stepRemove_preserves (st : Repo D O) (p s : String) (r : D → Bool)
    (hf : GenFresh st) (hu : UniqueNames st) :
    GenFresh (stepRemove st p s r).repo ∧ UniqueNames (stepRemove st p s r).repo := by
  unfold stepRemove
  cases hfp : findPipeline st p with
  | none => exact ⟨hf, hu⟩
  | some pe =>
    dsimp only
    cases hfs : findStep st pe s with
    | none => exact ⟨hf, hu⟩
    | some se =>
      simp only [removeChildren]
      constructor
      · constructor <;> intros <;> simp only at *
        · exact hf.pipelines _ ‹_›
        · exact hf.rundir _ ‹_›
        · rename_i e he
          by_cases h : e = se
          · subst h; simp
          · rw [upd_other _ _ _ _ h]; exact hf.steps _ he
        · rename_i e he
          by_cases h : e = se
          · subst h; simp
          · rw [upd_other _ _ _ _ h]; exact hf.stepPipe _ he
        · rename_i e he
          by_cases h : e = se
          · subst h; simp
          · rw [upd_other _ _ _ _ h]; exact hf.commands _ he
        · rename_i e he
          by_cases h : e = se
          · subst h; simp
          · rw [upd_other _ _ _ _ h]; exact hf.invalidate _ he
        · exact ite_none_none (hf.deps _ ‹_›)
        · exact ite_none_none (hf.depStep _ ‹_›)
        · exact ite_none_none (hf.outs _ ‹_›)
        · exact ite_none_none (hf.outStep _ ‹_›)
        · rename_i c q hc
          by_cases h : c = se
          · subst h; simp at hc
          · rw [upd_other _ _ _ _ h] at hc; exact hf.stepPipeRef _ _ hc
        · exact hf.depStepRef _ _ (ite_none_some ‹_›)
        · exact hf.outStepRef _ _ (ite_none_some ‹_›)
      · exact hu

end PipeData
