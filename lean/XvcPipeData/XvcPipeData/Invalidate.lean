/-
  Executable model of the run decision of `xvc pipeline run`
  (`/repo/pipeline/src/pipeline/mod.rs`: `the_grand_pipeline_loop`, the `s_checking_*` / `s_comparing_*`
  handlers; `deps/compare.rs`; `core/src/types/diff.rs`: `Diff::changed`, `update_with_actual`).

  Core only.  Every definition names the Rust function it transcribes.

  The model mirrors the code **after** `/verif/patches/C12-F7.patch`:
  (a) `s_checking_thorough_diffs_f_superficial_diffs_changed` looks only at the step's own dependencies
      (the current tree walks the `dependency_diffs` map shared by all step threads);
  (b) `s_comparing_diffs_and_outputs_f_thorough_diffs_not_changed` also asks whether a dependency step
      ran (the current tree does not).
  The pre-patch decision is kept as `decideRunUnpatched` for the two counterexample theorems.

  Abstractions:
  * a dependency is what the comparison functions see of it: recorded (metadata, content) — or nothing
    before the first successful run — and actual (metadata, content), as opaque numbers; "content" is,
    per kind, the file digest, the path→digest map, the parameter value, the selected lines or their
    digest, the command output digest.  For the `--glob` (digest) kind the thorough comparison also
    looks at the metadata digest (`GlobDep::diff_thorough`): flag `metaCounts`.
  * step threads are replaced by a fold in topological order (dependencies first): a step decides
    after all its dependency steps are finished, and with patch (a) it reads nothing of unrelated
    steps, so the executed set does not depend on the schedule (C10 proves the ordering).
  * process exit status and missing output files are oracles (`fails`, `missing`).
-/
namespace Inval

/-- `XvcStepInvalidate`. -/
inductive Mode where
  | byDeps
  | always
  | never
  deriving DecidableEq, Repr

/-- `XvcStepState` at the end of a step thread. -/
inductive St where
  | doneRun      -- `DoneByRunning`
  | doneSkip     -- `DoneWithoutRunning`
  | broken       -- `Broken`
  deriving DecidableEq, Repr

def St.done : St → Bool
  | .broken => false
  | _ => true

/-- A recorded / actual observation of a dependency: (metadata, content). -/
abbrev Obs := Nat × Nat

/-- What the comparison functions see of one dependency entity. -/
structure Dep where
  /-- `GlobDep::diff_thorough` also compares the metadata digest -/
  metaCounts : Bool
  /-- the record in `XvcStore<XvcDependency>`; `none` = no metadata/digest recorded yet -/
  recorded : Option Obs
  /-- what is on disk now -/
  actual : Obs

/-- `diff_superficial(record, actual).changed()`: `RecordMissing`, or the metadata differ. -/
def Dep.supChanged (d : Dep) : Bool :=
  match d.recorded with
  | none => true
  | some r => decide (r.1 ≠ d.actual.1)

/-- `diff_thorough(record, actual).changed()`: `RecordMissing`, or the content differs (for the glob
    digest kind: or the metadata digest differs). -/
def Dep.thChanged (d : Dep) : Bool :=
  match d.recorded with
  | none => true
  | some r => decide (r.2 ≠ d.actual.2) || (d.metaCounts && decide (r.1 ≠ d.actual.1))

/-- The diff left in `dependency_diffs` for this dependency is `changed()`: the thorough comparison is
    made only for superficially changed dependencies, the others get `Diff::Skipped`. -/
def Dep.finalChanged (d : Dep) : Bool := d.supChanged && d.thChanged

/-- One step of the pipeline. `explicit` = `--step` dependencies, `implicit` = steps producing a file
    this step depends on (`add_implicit_dependencies`); both as positions in the topological order. -/
structure Step where
  mode : Mode
  /-- ids of the step's non-step dependency entities -/
  deps : List Nat
  explicit : List Nat
  implicit : List Nat

/-- `dependency_steps(step_e, graph)`: explicit and implicit edges. -/
def Step.upstream (s : Step) : List Nat := s.explicit ++ s.implicit

/-- `all_deps.children_of(step_e)` is non-empty (step dependencies are children too). -/
def Step.hasDeps (s : Step) : Bool := !(s.deps.isEmpty && s.explicit.isEmpty)

/-- A pipeline, steps numbered in a topological order of the dependency graph (`toposort`). -/
structure Pipe where
  n : Nat
  step : Nat → Step
  metaCounts : Nat → Bool

/-- Dependencies come before dependents. -/
def Pipe.WF (p : Pipe) : Prop := ∀ i, i < p.n → ∀ u, u ∈ (p.step i).upstream → u < i

/-- `RunConditions`. -/
structure RunConditions where
  never : Bool
  always : Bool
  ignoreBrokenDepSteps : Bool
  ignoreMissingOutputs : Bool

/-- The three literals `run_never`, `run_calculated`, `run_always` and the
    `match consider_changed[step_e]` of `the_grand_pipeline_loop` (a `by_dependencies` step without any
    dependency gets `run_always`). -/
def runConditions (s : Step) : RunConditions :=
  match s.mode with
  | .never => { never := true, always := false, ignoreMissingOutputs := false, ignoreBrokenDepSteps := false }
  | .always => { never := false, always := true, ignoreMissingOutputs := true, ignoreBrokenDepSteps := true }
  | .byDeps =>
    if s.hasDeps then
      { never := false, always := false, ignoreBrokenDepSteps := false, ignoreMissingOutputs := true }
    else { never := false, always := true, ignoreMissingOutputs := true, ignoreBrokenDepSteps := true }

/-- The recorded store and the workspace, per dependency id; `clock` supplies fresh values for edits. -/
structure World where
  recorded : Nat → Option Obs
  actual : Nat → Obs
  clock : Nat
  /-- the watched file / parameter file / command source is not on disk (`XvcMetadata.file_type = Missing`
      in `XvcPathMetadataProvider`); `actual` keeps what the resource holds while it is away -/
  absent : Nat → Bool := fun _ => false

def depOf (p : Pipe) (w : World) (d : Nat) : Dep :=
  { metaCounts := p.metaCounts d, recorded := w.recorded d, actual := w.actual d }

/-- `s_checking_superficial_diffs`: no dependency at all counts as changed. -/
def superficialChanged (p : Pipe) (w : World) (s : Step) : Bool :=
  !s.hasDeps || s.deps.any fun d => (depOf p w d).supChanged

/-- `s_checking_thorough_diffs_f_superficial_diffs_changed` (patched: own dependencies only). -/
def thoroughChanged (p : Pipe) (w : World) (s : Step) : Bool :=
  !s.hasDeps || s.deps.any fun d => (depOf p w d).finalChanged

/-- The `s_comparing_diffs_and_outputs_*` handlers composed with the two checks before them:
    does the step go to `WaitingToRun`?  `upstreamRan`: some dependency step is `DoneByRunning`;
    `missing`: an `ActualMissing` entry in `output_diffs`. -/
def decideRun (p : Pipe) (w : World) (s : Step) (upstreamRan missing : Bool) : Bool :=
  let rc := runConditions s
  if superficialChanged p w s then
    if thoroughChanged p w s then true                       -- `…_f_thorough_diffs_changed`
    else rc.always || missing || upstreamRan                 -- `…_f_thorough_diffs_not_changed` (patch (b))
  else rc.always || upstreamRan || missing                   -- `…_f_superficial_diffs_not_changed`

/-- The decision of the unpatched tree: the thorough pass ORs the diffs of every dependency `visible`
    in the shared map at that moment (the step's own ones are always there), and
    `…_f_thorough_diffs_not_changed` ignores dependency steps. -/
def decideRunUnpatched (p : Pipe) (w : World) (s : Step) (visible : List Nat) (upstreamRan missing : Bool) :
    Bool :=
  let rc := runConditions s
  if superficialChanged p w s then
    if !s.hasDeps || (s.deps ++ visible).any (fun d => (depOf p w d).finalChanged) then true
    else rc.always || missing
  else rc.always || upstreamRan || missing

def upd {α : Type} (f : Nat → α) (k : Nat) (v : α) : Nat → α := fun j => if j = k then v else f j

/-- Some own dependency of the step watches a resource that is absent.  Comparing such a dependency does not
    yield a diff in the current tree: `FileDep::from_pmp` returns `Error::PathNotFound`, `ParamDep::update_value`
    an I/O error, `GenericDep` a process error, and `LinesDep` / `LineItemsDep` / `RegexDep` / `RegexItemsDep::
    update_digest` panic on the unreadable file; the step thread ends `Broken`
    (`s_checking_superficial_diffs` / `…thorough_diffs…` error path, "panic in step thread").
    The `(Some(record), None) => Diff::ActualMissing` arm of `diff_superficial` is never reached because
    `XvcPathMetadataProvider::get` answers `Some(metadata of type Missing)` for such a path. -/
def ownAbsent (w : World) (s : Step) : Bool := s.deps.any w.absent

/-- What happened to one step. -/
structure Outcome where
  ran : Bool
  st : St

/-- One step thread from `Begin` to its final state, given the final states `σ` of the steps before it.
    `s_begin_f_init`, `s_waiting_dependency_steps_*` (all dependency steps done ⇒ go on; all broken ⇒
    go on only with `ignore_broken_dep_steps`; a mix of done and broken polls forever in the current
    tree (F5) and becomes broken with the scheduler fix — the checks never build such a pipeline),
    `s_checking_missing_outputs` (nothing is recorded when missing outputs are ignored), the decision,
    and the process exit status. -/
def stepOutcome (p : Pipe) (w : World) (fails missing : Nat → Bool) (σ : Nat → St) (i : Nat) : Outcome :=
  let s := p.step i
  let rc := runConditions s
  if rc.never then { ran := false, st := .doneSkip }
  else
    let ups := s.upstream
    let allDone := ups.all fun u => (σ u).done
    let allBroken := ups.all fun u => !(σ u).done
    if allDone || (allBroken && rc.ignoreBrokenDepSteps) then
      if ownAbsent w s then { ran := false, st := .broken }      -- comparison error / panic: `Broken`
      else
        let upstreamRan := ups.any fun u => decide (σ u = .doneRun)
        let miss := !rc.ignoreMissingOutputs && missing i
        if decideRun p w s upstreamRan miss then
          { ran := true, st := if fails i then .broken else .doneRun }
        else { ran := false, st := .doneSkip }
    else { ran := false, st := .broken }

structure RunState where
  st : Nat → St
  ran : Nat → Bool

/-- The first `k` steps of the topological order. -/
def runUpTo (p : Pipe) (w : World) (fails missing : Nat → Bool) : Nat → RunState
  | 0 => { st := fun _ => .doneSkip, ran := fun _ => false }
  | k + 1 =>
    let r := runUpTo p w fails missing k
    let o := stepOutcome p w fails missing r.st k
    { st := upd r.st k o.st, ran := upd r.ran k o.ran }

/-- Is `d` a dependency of a step that compared its dependencies in this run (every step but the
    `never` ones, when the run was successful)? -/
def compared (p : Pipe) (d : Nat) : Bool :=
  (List.range p.n).any fun i => !(runConditions (p.step i)).never && (p.step i).deps.contains d

/-- `update_with_actual(store, diffs, true, true)`: `RecordMissing` / `Different` ⇒ the record becomes
    the actual value; `Identical` / `Skipped` ⇒ untouched (in particular the metadata of a touched,
    unchanged file is *not* refreshed). -/
def updateRecorded (p : Pipe) (w : World) : Nat → Option Obs :=
  fun d => if compared p d && (depOf p w d).finalChanged then some (w.actual d) else w.recorded d

structure Result where
  ran : Nat → Bool
  st : Nat → St
  allDone : Bool
  world : World

/-- `the_grand_pipeline_loop`: all step threads, then "We only save the stores if the pipeline was run
    successfully" (every state `DoneByRunning` / `DoneWithoutRunning`). -/
def runPipeline (p : Pipe) (w : World) (fails missing : Nat → Bool) : Result :=
  let r := runUpTo p w fails missing p.n
  let allDone := (List.range p.n).all fun i => (r.st i).done
  { ran := r.ran, st := r.st, allDone := allDone
    world := if allDone then { w with recorded := updateRecorded p w } else w }

/-- The journal: which step commands were started, in topological order. -/
def Result.executed (p : Pipe) (r : Result) : List Nat := (List.range p.n).filter r.ran

/-! ## histories -/

/-- User edits between runs, per affected dependency entity, and runs. -/
inductive Ev where
  /-- the content the dependency selects changes (and with it the file's metadata) -/
  | edit (d : Nat)
  /-- the file is rewritten / touched, the selected content stays (an unselected line, another key) -/
  | touch (d : Nat)
  | addGlobMember (d : Nat)
  | rmGlobMember (d : Nat)
  | setParam (d : Nat)
  /-- the watched resource is moved away (content and mtime travel with it) -/
  | vanish (d : Nat)
  /-- … and moved back -/
  | comeBack (d : Nat)
  | run (fails missing : Nat → Bool)

def bumpBoth (w : World) (d : Nat) : World :=
  { w with actual := upd w.actual d (w.clock, w.clock), clock := w.clock + 1 }

def bumpMeta (w : World) (d : Nat) : World :=
  { w with actual := upd w.actual d (w.clock, (w.actual d).2), clock := w.clock + 1 }

def applyEv (p : Pipe) (w : World) : Ev → World
  | .edit d => bumpBoth w d
  | .addGlobMember d => bumpBoth w d
  | .rmGlobMember d => bumpBoth w d
  | .setParam d => bumpBoth w d
  | .touch d => bumpMeta w d
  | .vanish d => { w with absent := upd w.absent d true }
  | .comeBack d => { w with absent := upd w.absent d false }
  | .run fails missing => (runPipeline p w fails missing).world

def applyHistory (p : Pipe) (w : World) (h : List Ev) : World := h.foldl (applyEv p) w

/-- A freshly defined pipeline: nothing recorded, every dependency present with some content. -/
def World.init : World := { recorded := fun _ => none, actual := fun _ => (0, 0), clock := 1 }

/-! ## line-protocol driver state (used by `Main.lean`) -/

structure DState where
  pipe : Pipe := { n := 0, step := fun _ => { mode := .byDeps, deps := [], explicit := [], implicit := [] },
                   metaCounts := fun _ => false }
  world : World := World.init

def parseNats (s : String) : Option (List Nat) :=
  if s == "-" then some [] else (s.splitOn ",").mapM String.toNat?

def showNats (l : List Nat) : String := if l.isEmpty then "-" else ",".intercalate (l.map toString)

def showSt : St → String
  | .doneRun => "R"
  | .doneSkip => "S"
  | .broken => "B"

/-- requests:
    `pipe <n>` · `step <i> <d|a|n> <deps> <explicit> <implicit>` · `mc <dep>` (glob digest kind) ·
    `edit|touch|add|rm|param|vanish|return <dep>` · `run <failing steps> <steps with missing outputs>` -/
def driverStep (st : DState) (line : String) : DState × String :=
  match line.trimAscii.toString.splitOn " " with
  | ["pipe", n] =>
    match n.toNat? with
    | some n => ({ pipe := { st.pipe with n := n }, world := World.init }, "ok")
    | none => (st, "bad-op")
  | ["step", i, m, ds, ex, im] =>
    match i.toNat?, parseNats ds, parseNats ex, parseNats im with
    | some i, some ds, some ex, some im =>
      let mode := match m with | "a" => some Mode.always | "n" => some Mode.never | "d" => some Mode.byDeps | _ => none
      match mode with
      | some mode =>
        ({ st with pipe := { st.pipe with step := upd st.pipe.step i { mode := mode, deps := ds, explicit := ex, implicit := im } } }, "ok")
      | none => (st, "bad-op")
    | _, _, _, _ => (st, "bad-op")
  | ["mc", d] =>
    match d.toNat? with
    | some d => ({ st with pipe := { st.pipe with metaCounts := upd st.pipe.metaCounts d true } }, "ok")
    | none => (st, "bad-op")
  | [op, d] =>
    match d.toNat? with
    | some d =>
      let ev := match op with
        | "edit" => some (Ev.edit d) | "touch" => some (Ev.touch d) | "add" => some (Ev.addGlobMember d)
        | "rm" => some (Ev.rmGlobMember d) | "param" => some (Ev.setParam d)
        | "vanish" => some (Ev.vanish d) | "return" => some (Ev.comeBack d) | _ => none
      match ev with
      | some ev => ({ st with world := applyEv st.pipe st.world ev }, "ok")
      | none => (st, "bad-op")
    | none => (st, "bad-op")
  | ["run", fs, ms] =>
    match parseNats fs, parseNats ms with
    | some fs, some ms =>
      let r := runPipeline st.pipe st.world (fun i => fs.contains i) (fun i => ms.contains i)
      let states := (List.range st.pipe.n).map fun i => showSt (r.st i)
      ({ st with world := r.world },
       s!"exec={showNats (r.executed st.pipe)} states={"".intercalate states} alldone={if r.allDone then 1 else 0}")
    | _, _ => (st, "bad-op")
  | [""] => (st, "")
  | _ => (st, "bad-op")

end Inval
