/-
  (placeholder, filled in by the C12 work) run-decision model of `xvc pipeline run`.
-/
namespace Inval

structure DState where
  dummy : Nat := 0

def driverStep (st : DState) (_line : String) : DState × String := (st, "bad-op")

end Inval
