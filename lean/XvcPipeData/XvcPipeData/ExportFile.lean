/-
  Executable model of the **file side of `xvc pipeline export --file <path>`**: what is in the file
  after the `Some(path)` arm of `cmd_export` (`/repo/pipeline/src/pipeline/api/export.rs`) has run,
  as a function of what the path held before and of the document (`export_output`, the string
  `serde_json::to_string_pretty` / `to_yaml` produced from the pipeline).

  The schema-level theorems (`C14_roundtrip`, …) speak about the document; `Reader.lean` models how
  `import` turns a file / stdin back into the string for the parser.  This file closes the remaining
  gap on the export side: the file is the document — whatever was at the path before.

  Core only.  Content is a list over any alphabet `α` (bytes for the driver, `Char` where the reader
  model is composed with it).
-/
namespace PipeData.ExportFile

/-- The `std::fs::OpenOptions` that matter for a writer (`write(true)` throughout; `append` and
    `create_new` are not used by `cmd_export`). -/
structure OpenOpts where
  /-- `O_CREAT` -/
  create : Bool
  /-- `O_TRUNC` -/
  truncate : Bool
  deriving DecidableEq, Repr

/-- `std::fs::write(path, contents)` = `File::create(path)?.write_all(contents)`:
    `OpenOptions::new().write(true).create(true).truncate(true)`. -/
def fsWrite : OpenOpts := { create := true, truncate := true }

/-- NOT the code: `OpenOptions::new().write(true).create(true)` without `truncate(true)`. -/
def noTruncate : OpenOpts := { create := true, truncate := false }

/-- `write_all` from offset 0 into a file whose content is `base`: the first `doc.length` positions
    are replaced, anything beyond stays (POSIX `write(2)` on a regular file). -/
def overwrite {α : Type} (base doc : List α) : List α := doc ++ base.drop doc.length

/-- `open(2)` with the given options, `write_all(doc)`, close.  `old = none`: nothing at the path.
    Result `none`: `ENOENT`, still nothing at the path. -/
def openWrite {α : Type} (o : OpenOpts) (old : Option (List α)) (doc : List α) : Option (List α) :=
  match old with
  | none => if o.create then some doc else none
  | some c => some (overwrite (if o.truncate then [] else c) doc)

/-- The `Some(path)` arm of `cmd_export`: `fs::write(path, export_output)`.  Content of the file
    afterwards (a regular file or nothing at the path before; a directory makes `open` fail with
    `EISDIR`, a symbolic link is followed — neither is part of this function). -/
def writeFile {α : Type} (old : Option (List α)) (doc : List α) : List α :=
  match openWrite fsWrite old doc with
  | some r => r
  | none => []

/-- How serde_yaml lays out the step list (block sequence at the end of the document): a header
    followed by one block per step, nothing after the last block.  `encStep` is arbitrary. -/
def encSteps {α σ : Type} (header : List α) (encStep : σ → List α) (steps : List σ) : List α :=
  header ++ steps.flatMap encStep

end PipeData.ExportFile
