/-
  Executable model of `xvc pipeline export` and `xvc pipeline import`
  (`/repo/pipeline/src/pipeline/api/{export,import}.rs`, `schema.rs`) together with the commands that
  build the stores they read (`api/{new,delete,step_new,step_update,step_remove,step_dependency,
  step_output}.rs`) and the relation stores of `/repo/ecs/src/ecs/{r1nstore,r11store,xvcstore}.rs`.

  Core only (no imports) so that the driver links as a `lean_exe`.
  Every definition names the Rust function it transcribes.

  Abstractions (all named in the evidence file):
  * An entity `XvcEntity(counter, random)` is its counter: `Ord` compares the counter first and the
    counters handed out in one repository are strictly increasing (C08_gen_unique).
  * A dependency / output value (`XvcDependency`, `XvcOutput`, including everything a run records in
    it) is an element of an opaque type with a total order (`derive(Ord)`); `serde` is not modelled.
  * `HStore` is a `HashMap` with a per-process random iteration order: every place where the code
    iterates one is modelled by an arbitrary permutation `Shuf`.
-/
namespace PipeData

/-- `XvcEntity`, reduced to its counter (a notation, not a definition, so that `omega` sees `Nat`). -/
scoped notation "Ent" => Nat

/-- The map of an `XvcStore<T>` (`BTreeMap<XvcEntity, T>`).  Keys at or above the repository's
    entity counter are never present (`GenFresh`), which is what makes the map enumerable. -/
abbrev Store (V : Type) := Ent → Option V

/-- `XvcStore::insert` (`some v`) / `XvcStore::remove` (`none`) on the map. -/
def upd {V : Type} (f : Store V) (k : Ent) (v : Option V) : Store V :=
  fun j => if j = k then v else f j

/-- `XvcStepInvalidate` (`pipeline/mod.rs`), `#[default] ByDependencies`. -/
inductive Invalidate where
  | byDependencies
  | always
  | never
  deriving DecidableEq, Repr

instance : Inhabited Invalidate := ⟨.byDependencies⟩

/-- The stores read and written by import/export, plus the entity counter (`.xvc/ec`). -/
structure Repo (D O : Type) where
  /-- next counter of `XvcEntityGenerator` -/
  gen : Nat
  /-- `XvcStore<XvcPipeline>`: name -/
  pipelines : Store String
  /-- `XvcStore<XvcPipelineRunDir>` -/
  rundir : Store String
  /-- `XvcStore<XvcStep>`: name -/
  steps : Store String
  /-- `XvcStore<ChildEntity<XvcStep, XvcPipeline>>`: step entity ↦ pipeline entity -/
  stepPipe : Store Ent
  /-- `XvcStore<XvcStepCommand>` -/
  commands : Store String
  /-- `XvcStore<XvcStepInvalidate>` -/
  invalidate : Store Invalidate
  /-- `XvcStore<XvcDependency>` -/
  deps : Store D
  /-- `XvcStore<ChildEntity<XvcDependency, XvcStep>>` -/
  depStep : Store Ent
  /-- `XvcStore<XvcOutput>` -/
  outs : Store O
  /-- `XvcStore<ChildEntity<XvcOutput, XvcStep>>` -/
  outStep : Store Ent

/-- `XvcStepSchema` (`schema.rs`). -/
structure StepSchema (D O : Type) where
  name : String
  command : String
  invalidate : Invalidate
  dependencies : List D
  outputs : List O

/-- `XvcPipelineSchema` (`schema.rs`). -/
structure PipelineSchema (D O : Type) where
  version : Nat
  name : String
  workdir : String
  steps : List (StepSchema D O)

/-- Iteration order of an `HStore` (`HashMap` with `RandomState`): some permutation. -/
structure Shuf where
  f : {α : Type} → List α → List α
  perm : ∀ {α : Type} (l : List α), (f l).Perm l

/-- `derive(PartialOrd, Ord, PartialEq, Eq)` on `XvcDependency` / `XvcOutput`: a total order that
    agrees with equality. -/
class TotalOrd (α : Type) where
  le : α → α → Bool
  total : ∀ a b, (le a b || le b a) = true
  trans : ∀ a b c, le a b = true → le b c = true → le a c = true
  antisymm : ∀ a b, le a b = true → le b a = true → a = b

instance : TotalOrd Nat where
  le a b := decide (a ≤ b)
  total a b := by
    have := Nat.le_total a b
    cases this <;> simp [*]
  trans a b c h1 h2 := by
    simp only [decide_eq_true_eq] at *
    exact Nat.le_trans h1 h2
  antisymm a b h1 h2 := by
    simp only [decide_eq_true_eq] at *
    exact Nat.le_antisymm h1 h2

/-! ## Reading -/

/-- `R1NStore::children_of` before the result is put into the `HStore`: walk `child_parents` in key
    order, keep the children whose parent is `p`, look each one up in `children`
    (`XvcStore::subset`; a child missing there is skipped with a warning). -/
def enumChildren {V : Type} (bound : Nat) (cp : Store Ent) (ch : Store V) (p : Ent) : List (Ent × V) :=
  (List.range bound).filterMap fun c =>
    if cp c = some p then (ch c).map (fun v => (c, v)) else none

/-- `R1NStore::children_of`: the `HStore` result, in the order a later `.iter()` will see. -/
def childrenOf {V : Type} (sh : Shuf) (bound : Nat) (cp : Store Ent) (ch : Store V) (p : Ent) :
    List (Ent × V) :=
  sh.f (enumChildren bound cp ch p)

/-- Comparison used by `steps.iter().sorted()` in `cmd_export`: tuples `(XvcEntity, XvcStep)`,
    entity first (the entities of one store are distinct, so the second component never decides). -/
def entLe {V : Type} (a b : Ent × V) : Bool := decide (a.1 ≤ b.1)

/-- `steps.iter().sorted()` (`itertools::sorted` = stable `Vec::sort`; `List.mergeSort` is a stable
    merge sort as well). -/
def sortByEnt {V : Type} (l : List (Ent × V)) : List (Ent × V) := l.mergeSort entLe

/-- `deps[e].values().cloned().sorted()` / `outs[e].values().cloned().sorted()`. -/
def sortVals {α : Type} [TotalOrd α] (l : List α) : List α := l.mergeSort TotalOrd.le

/-- `bs.iter().find(|(_, p)| p.name == name)` in `cmd_export`, `XvcPipeline::from_name`: the first
    pipeline in entity order that carries the name. -/
def findPipeline {D O : Type} (st : Repo D O) (name : String) : Option Ent :=
  (List.range st.gen).find? fun e => decide (st.pipelines e = some name)

/-- `Option<Vec<_>>` from a vector of options (a `None` is the panic of `commands[e]`). -/
def allSome {α : Type} : List (Option α) → Option (List α)
  | [] => some []
  | none :: _ => none
  | some a :: l => (allSome l).map (a :: ·)

/-- Body of the `for (e, s) in steps.iter().sorted()` loop of `cmd_export`. `commands[e]` panics for
    a step without a command (`none`); `step_invalidate.get(e)…unwrap_or_default()`. -/
def stepSchema? {D O : Type} [TotalOrd D] [TotalOrd O] (sh : Shuf) (st : Repo D O)
    (es : Ent × String) : Option (StepSchema D O) :=
  match st.commands es.1 with
  | none => none
  | some c =>
    some { name := es.2
           command := c
           invalidate := (st.invalidate es.1).getD default
           dependencies := sortVals ((childrenOf sh st.gen st.depStep st.deps es.1).map (·.2))
           outputs := sortVals ((childrenOf sh st.gen st.outStep st.outs es.1).map (·.2)) }

/-- The sorted step list of `cmd_export` for pipeline entity `pe`. -/
def exportSteps {D O : Type} [TotalOrd D] [TotalOrd O] (sh : Shuf) (st : Repo D O) (pe : Ent) :
    Option (List (StepSchema D O)) :=
  allSome ((sortByEnt (childrenOf sh st.gen st.stepPipe st.steps pe)).map (stepSchema? sh st))

/-- `cmd_export` up to the serialisation: `none` = `CannotFindPipeline` (or the `commands[e]` panic).
    `workdir` is the recorded run directory or `XvcPath::root_path()` (`""`). -/
def exportSchema {D O : Type} [TotalOrd D] [TotalOrd O] (sh : Shuf) (st : Repo D O) (name : String) :
    Option (PipelineSchema D O) :=
  match findPipeline st name with
  | none => none
  | some pe =>
    match exportSteps sh st pe with
    | none => none
    | some steps =>
      some { version := 1, name := name, workdir := (st.rundir pe).getD "", steps := steps }

/-- What the second export has to look like: the first one under the new name. -/
def PipelineSchema.rename {D O : Type} (n : String) (s : PipelineSchema D O) : PipelineSchema D O :=
  { s with name := n }

/-- A hand-written schema file need not be sorted; the export of its import is. -/
def StepSchema.normalize {D O : Type} [TotalOrd D] [TotalOrd O] (s : StepSchema D O) : StepSchema D O :=
  { s with dependencies := sortVals s.dependencies, outputs := sortVals s.outputs }

def PipelineSchema.normalize {D O : Type} [TotalOrd D] [TotalOrd O] (s : PipelineSchema D O) :
    PipelineSchema D O :=
  { s with steps := s.steps.map StepSchema.normalize }

/-! ## Writing -/

/-- `xvc_root.new_entity()` (`XvcEntityGenerator::next_element`). -/
def Repo.alloc {D O : Type} (st : Repo D O) : Repo D O := { st with gen := st.gen + 1 }

/-- `R1NStore<XvcStep, XvcDependency>::insert(step_e, step, dep_e, dep)`: the parent is inserted
    when absent and updated when different (either way `parents[step_e] = step` afterwards), the
    child and the child→parent entry are inserted. -/
def insertDep {D O : Type} (st : Repo D O) (stepE : Ent) (stepName : String) (depE : Ent) (d : D) :
    Repo D O :=
  { st with steps := upd st.steps stepE (some stepName)
            deps := upd st.deps depE (some d)
            depStep := upd st.depStep depE (some stepE) }

/-- `R1NStore<XvcStep, XvcOutput>::insert(step_e, step, out_e, out)`. -/
def insertOut {D O : Type} (st : Repo D O) (stepE : Ent) (stepName : String) (outE : Ent) (o : O) :
    Repo D O :=
  { st with steps := upd st.steps stepE (some stepName)
            outs := upd st.outs outE (some o)
            outStep := upd st.outStep outE (some stepE) }

/-- `for dep in step_schema.dependencies { let dep_e = new_entity(); rs.insert(step_e, step, dep_e, dep) }`
    (`cmd_import`; `XvcDependencyList::record` is the same loop). -/
def importDeps {D O : Type} (st : Repo D O) (stepE : Ent) (stepName : String) : List D → Repo D O
  | [] => st
  | d :: ds => importDeps (insertDep st.alloc stepE stepName st.gen d) stepE stepName ds

/-- `for out in step_schema.outputs { let out_e = new_entity(); rs.insert(step_e, step, out_e, out) }`. -/
def importOuts {D O : Type} (st : Repo D O) (stepE : Ent) (stepName : String) : List O → Repo D O
  | [] => st
  | o :: os => importOuts (insertOut st.alloc stepE stepName st.gen o) stepE stepName os

/-- Head of the `for step_schema in schema.steps` body of `cmd_import`, up to the dependency loop:
    `R1NStore<XvcPipeline, XvcStep>::insert`, `R11Store<XvcStep, XvcStepCommand>::insert`,
    `R11Store<XvcStep, XvcStepInvalidate>::insert` for the fresh step entity `st.gen`. -/
def importStepHead {D O : Type} (st : Repo D O) (pe : Ent) (pname : String) (s : StepSchema D O) :
    Repo D O :=
  { st.alloc with
      pipelines := upd st.pipelines pe (some pname)
      steps := upd st.steps st.gen (some s.name)
      stepPipe := upd st.stepPipe st.gen (some pe)
      commands := upd st.commands st.gen (some s.command)
      invalidate := upd st.invalidate st.gen (some s.invalidate) }

/-- One iteration of `for step_schema in schema.steps` in `cmd_import`. -/
def importStep {D O : Type} (st : Repo D O) (pe : Ent) (pname : String) (s : StepSchema D O) :
    Repo D O :=
  let stepE := st.gen
  let st1 := importStepHead st pe pname s
  let st2 := importDeps st1 stepE s.name s.dependencies
  importOuts st2 stepE s.name s.outputs

/-- `for step_schema in schema.steps { … }`. -/
def importSteps {D O : Type} (st : Repo D O) (pe : Ent) (pname : String) :
    List (StepSchema D O) → Repo D O
  | [] => st
  | s :: ss => importSteps (importStep st pe pname s) pe pname ss

/-- Result of a command: the repository afterwards and whether the command succeeded. -/
structure Outcome (D O : Type) where
  repo : Repo D O
  ok : Bool

/-- `cmd_import` after the file has been parsed: fresh pipeline entity with the given name and the
    schema's workdir (`R11Store<XvcPipeline, XvcPipelineRunDir>::insert`), then the steps. -/
def importFresh {D O : Type} (st : Repo D O) (schema : PipelineSchema D O) (name : String) : Repo D O :=
  let pe := st.gen
  let st1 : Repo D O :=
    { st.alloc with pipelines := upd st.pipelines pe (some name)
                    rundir := upd st.rundir pe (some schema.workdir) }
  importSteps st1 pe name schema.steps

/-- `cmd_import`.  `assert!(schema.version == 1)` panics before anything is written.  An existing
    pipeline of that name: without `--overwrite` the command fails with `PipelineAlreadyFound` before
    anything is written; with it, the pipeline entity (only that: "We don't delete steps or other
    entities here") is removed from `XvcStore<XvcPipeline>` first. -/
def importSchema {D O : Type} (st : Repo D O) (schema : PipelineSchema D O) (name : String)
    (overwrite : Bool) : Outcome D O :=
  if schema.version ≠ 1 then { repo := st, ok := false }
  else
    match findPipeline st name with
    | some pe =>
      if overwrite then
        { repo := importFresh { st with pipelines := upd st.pipelines pe none } schema name, ok := true }
      else { repo := st, ok := false }
    | none => { repo := importFresh st schema name, ok := true }

/-! ## The construction commands (used by the driver to build the states the tie compares, and by
    the reachability theorem) -/

/-- `xvc init` (`pipeline::init`): one pipeline named `default` (entity 1; the counter starts at 1). -/
def Repo.init {D O : Type} : Repo D O :=
  { gen := 2
    pipelines := upd (fun _ => none) 1 (some "default")
    rundir := fun _ => none, steps := fun _ => none, stepPipe := fun _ => none
    commands := fun _ => none, invalidate := fun _ => none
    deps := fun _ => none, depStep := fun _ => none, outs := fun _ => none, outStep := fun _ => none }

/-- `rs.left.iter().any(|(_, p)| p.name == name)` -/
def nameExists {D O : Type} (st : Repo D O) (name : String) : Bool := (findPipeline st name).isSome

/-- `cmd_new`: refused (`KeyAlreadyFound`) for an existing name; the run directory is recorded only
    when `--workdir` is given. -/
def pipelineNew {D O : Type} (st : Repo D O) (name : String) (workdir : Option String) : Outcome D O :=
  if nameExists st name then { repo := st, ok := false }
  else
    let pe := st.gen
    { repo := { st.alloc with pipelines := upd st.pipelines pe (some name)
                              rundir := match workdir with
                                        | some w => upd st.rundir pe (some w)
                                        | none => st.rundir }
      ok := true }

/-- `cmd_delete` (the default pipeline and the last pipeline cannot be deleted; checked by the
    caller of the driver): every pipeline entity with that name is removed from `XvcStore<XvcPipeline>`;
    steps and the run directory stay. -/
def pipelineDelete {D O : Type} (st : Repo D O) (name : String) : Repo D O :=
  { st with pipelines := fun e => if st.pipelines e = some name then none else st.pipelines e }

/-- `XvcStep::from_name`: `children_of(pipeline_e)?.entity_by_value(&step)`.  With two steps of one
    name in a pipeline (only a hand-written import file can do that) the code takes whichever the
    `HashMap` yields first; the model takes the one with the smallest entity. -/
def findStep {D O : Type} (st : Repo D O) (pe : Ent) (name : String) : Option Ent :=
  ((enumChildren st.gen st.stepPipe st.steps pe).find? fun es => es.2 == name).map (·.1)

/-- `cmd_step_new`: refused when the pipeline is missing or the step name exists in it. -/
def stepNew {D O : Type} (st : Repo D O) (pname sname command : String) (inv : Option Invalidate) :
    Outcome D O :=
  match findPipeline st pname with
  | none => { repo := st, ok := false }
  | some pe =>
    match findStep st pe sname with
    | some _ => { repo := st, ok := false }
    | none =>
      let se := st.gen
      { repo := { st.alloc with
                    steps := upd st.steps se (some sname)
                    invalidate := upd st.invalidate se (some (inv.getD default))
                    commands := upd st.commands se (some command)
                    pipelines := upd st.pipelines pe (some pname)
                    stepPipe := upd st.stepPipe se (some pe) }
        ok := true }

/-- `cmd_step_update`: `--when` absent means `ByDependencies` (not "keep"); the command is replaced
    only when given. -/
def stepUpdate {D O : Type} (st : Repo D O) (pname sname : String) (command : Option String)
    (inv : Option Invalidate) : Outcome D O :=
  match findPipeline st pname with
  | none => { repo := st, ok := false }
  | some pe =>
    match findStep st pe sname with
    | none => { repo := st, ok := false }
    | some se =>
      { repo := { st with
                    steps := upd st.steps se (some sname)
                    invalidate := upd st.invalidate se (some (inv.getD .byDependencies))
                    commands := match command with
                                | some c => upd st.commands se (some c)
                                | none => st.commands }
        ok := true }

/-- `cmd_step_dependency` (`XvcDependencyList::record`): fresh entity per dependency, in the order
    the builder collected them. -/
def stepDependency {D O : Type} (st : Repo D O) (pname sname : String) (ds : List D) : Outcome D O :=
  match findPipeline st pname with
  | none => { repo := st, ok := false }
  | some pe =>
    match findStep st pe sname with
    | none => { repo := st, ok := false }
    | some se => { repo := importDeps st se sname ds, ok := true }

/-- `cmd_step_output`. -/
def stepOutput {D O : Type} (st : Repo D O) (pname sname : String) (os : List O) : Outcome D O :=
  match findPipeline st pname with
  | none => { repo := st, ok := false }
  | some pe =>
    match findStep st pe sname with
    | none => { repo := st, ok := false }
    | some se => { repo := importOuts st se sname os, ok := true }

/-- `R1NStore::remove_child` applied to every child selected by `sel` (children of the relation
    `cp`/`ch`). -/
def removeChildren {V : Type} (cp : Store Ent) (ch : Store V) (sel : Ent → Bool) : Store Ent × Store V :=
  (fun c => if sel c then none else cp c, fun c => if sel c then none else ch c)

/-- `cmd_step_remove`: the step's dependencies, every dependency of a step of the same pipeline that
    is a step dependency on this step's name (`refersTo`), the step's outputs, its command and
    invalidation record, and the step itself (child and child→parent entry) are removed. -/
def stepRemove {D O : Type} (st : Repo D O) (pname sname : String) (refersTo : D → Bool) : Outcome D O :=
  match findPipeline st pname with
  | none => { repo := st, ok := false }
  | some pe =>
    match findStep st pe sname with
    | none => { repo := st, ok := false }
    | some se =>
      let inPipe : Ent → Bool := fun s => decide (st.stepPipe s = some pe) && (st.steps s).isSome
      let selDep : Ent → Bool := fun d =>
        match st.depStep d, st.deps d with
        | some s, some v => decide (s = se) || (inPipe s && refersTo v)
        | _, _ => false
      let selOut : Ent → Bool := fun o => decide (st.outStep o = some se) && (st.outs o).isSome
      let (depStep', deps') := removeChildren st.depStep st.deps selDep
      let (outStep', outs') := removeChildren st.outStep st.outs selOut
      { repo := { st with
                    deps := deps', depStep := depStep', outs := outs', outStep := outStep'
                    commands := upd st.commands se none
                    invalidate := upd st.invalidate se none
                    stepPipe := upd st.stepPipe se none
                    steps := upd st.steps se none }
        ok := true }

/-- The commands that change the pipeline stores. -/
inductive Cmd (D O : Type) where
  | pipelineNew (name : String) (workdir : Option String)
  | pipelineDelete (name : String)
  | stepNew (pname sname command : String) (inv : Option Invalidate)
  | stepUpdate (pname sname : String) (command : Option String) (inv : Option Invalidate)
  | stepDependency (pname sname : String) (ds : List D)
  | stepOutput (pname sname : String) (os : List O)
  | stepRemove (pname sname : String) (refersTo : D → Bool)
  | importSchema (schema : PipelineSchema D O) (name : String) (overwrite : Bool)

/-- One `xvc pipeline …` process. -/
def Cmd.run {D O : Type} (st : Repo D O) : Cmd D O → Repo D O
  | .pipelineNew n w => (PipeData.pipelineNew st n w).repo
  | .pipelineDelete n => PipeData.pipelineDelete st n
  | .stepNew p s c i => (PipeData.stepNew st p s c i).repo
  | .stepUpdate p s c i => (PipeData.stepUpdate st p s c i).repo
  | .stepDependency p s ds => (PipeData.stepDependency st p s ds).repo
  | .stepOutput p s os => (PipeData.stepOutput st p s os).repo
  | .stepRemove p s r => (PipeData.stepRemove st p s r).repo
  | .importSchema sch n ow => (PipeData.importSchema st sch n ow).repo

/-- A history of commands after `xvc init`. -/
def runCmds {D O : Type} (st : Repo D O) (cs : List (Cmd D O)) : Repo D O := cs.foldl Cmd.run st

/-! ## The hypotheses of the theorems, as decidable-in-principle predicates on a repository -/

/-- Every key of every store, and every parent an entry refers to, lies below the entity counter
    (what C08_gen_unique gives for the real generator). -/
structure GenFresh {D O : Type} (st : Repo D O) : Prop where
  pipelines : ∀ e, st.gen ≤ e → st.pipelines e = none
  rundir : ∀ e, st.gen ≤ e → st.rundir e = none
  steps : ∀ e, st.gen ≤ e → st.steps e = none
  stepPipe : ∀ e, st.gen ≤ e → st.stepPipe e = none
  commands : ∀ e, st.gen ≤ e → st.commands e = none
  invalidate : ∀ e, st.gen ≤ e → st.invalidate e = none
  deps : ∀ e, st.gen ≤ e → st.deps e = none
  depStep : ∀ e, st.gen ≤ e → st.depStep e = none
  outs : ∀ e, st.gen ≤ e → st.outs e = none
  outStep : ∀ e, st.gen ≤ e → st.outStep e = none
  stepPipeRef : ∀ c p, st.stepPipe c = some p → p < st.gen
  depStepRef : ∀ c p, st.depStep c = some p → p < st.gen
  outStepRef : ∀ c p, st.outStep c = some p → p < st.gen

/-- Pipeline names are unique (`cmd_new` and `cmd_import` keep it so; `pipeline update --rename`
    does not check and can break it). -/
def UniqueNames {D O : Type} (st : Repo D O) : Prop :=
  ∀ e₁ e₂ n, st.pipelines e₁ = some n → st.pipelines e₂ = some n → e₁ = e₂

end PipeData
