/-
  Executable model of the **text layer of `xvc pipeline import`**: how `cmd_import`
  (`/repo/pipeline/src/pipeline/api/import.rs`) turns the input stream (`--file <path>` or stdin) into
  the `String` it hands to `serde_json::from_str` / `serde_yaml::from_str`.

  The schema-level model (`Schema.lean`) starts at the parsed `XvcPipelineSchema`; this file models the
  step before the parser, so that the trusted part of the round trip is exactly the two serde text
  codecs and nothing of xvc's own line handling.

  Core only (no imports).  Every definition names the Rust code it transcribes.

  Input alphabet.  The stream is a list of `Sym`: a well-formed UTF-8 scalar value (`ch c`) or a byte
  that is not part of a well-formed sequence (`bad`).  The byte `0x0A` never occurs inside a
  multi-byte or ill-formed sequence, so it is always `ch '\n'`; this byte/scalar correspondence (done
  by `lib/c14.py` with Python's UTF-8 decoder) is the only part of UTF-8 the model relies on.
-/
namespace PipeData.Reader

/-- One unit of the input stream. -/
inductive Sym where
  /-- a well-formed UTF-8 encoded scalar value -/
  | ch (c : Char)
  /-- a byte that does not belong to any well-formed UTF-8 sequence (never `0x0A`) -/
  | bad
  deriving DecidableEq, Repr

/-- `'\n'` -/
def LF : Char := '\n'
/-- `'\r'` -/
def CR : Char := '\r'

/-- A text that is valid UTF-8, as an input stream. -/
def embed (s : List Char) : List Sym := s.map Sym.ch

/-- `std::io::BufRead::read_until(b'\n', ..)` as used by `read_line`: the symbols up to **and
    including** the first newline (or up to the end of the stream), and the rest of the stream. -/
def readUntilNl : List Sym → List Sym × List Sym
  | [] => ([], [])
  | s :: rest =>
    if s = Sym.ch LF then ([s], rest)
    else (s :: (readUntilNl rest).1, (readUntilNl rest).2)

/-- `String::from_utf8` on what `read_until` delivered (`std::io::append_to_string`), and
    `fs::read_to_string`'s validation of a whole file: `none` is `Err(InvalidData)`. -/
def decode : List Sym → Option (List Char)
  | [] => some []
  | Sym.ch c :: rest => (decode rest).map (c :: ·)
  | Sym.bad :: _ => none

/-- The tail of `<Lines<B> as Iterator>::next`:
    `if buf.ends_with('\n') { buf.pop(); if buf.ends_with('\r') { buf.pop(); } }`. -/
def stripEol (buf : List Char) : List Char :=
  if buf.getLast? = some LF then
    (if buf.dropLast.getLast? = some CR then buf.dropLast.dropLast else buf.dropLast)
  else buf

/-- `stripEol` on a line whose final newline is already removed: `if buf.ends_with('\r') { buf.pop(); }`. -/
def stripCr (body : List Char) : List Char :=
  if body.getLast? = some CR then body.dropLast else body

/-- `<Lines<B> as Iterator>::next`.  Outer `none`: `Ok(0) => None` (end of the stream).
    Inner `none`: `Some(Err(e))` — the line was not valid UTF-8; its bytes are consumed all the same
    (`read_until` has already advanced the reader when `append_to_string` rejects them). -/
def linesNext (inp : List Sym) : Option (Option (List Char) × List Sym) :=
  if (readUntilNl inp).1.isEmpty then none
  else some ((decode (readUntilNl inp).1).map stripEol, (readUntilNl inp).2)

/-- The loop of `cmd_import` for `file == None`:
    ```
    let mut buf = String::new();
    for line in input.lines() {
        buf.push_str(&(line.unwrap_or_else(|e| { Error::from(e).warn(); "".to_string() })));
        buf.push('\n');
    }
    ```
    `fuel` bounds the number of iterations (every iteration consumes at least one symbol, see
    `readStdin`). -/
def stdinLoop : Nat → List Sym → List Char → List Char
  | 0, _, buf => buf
  | fuel + 1, inp, buf =>
    match linesNext inp with
    | none => buf
    | some (line, rest) => stdinLoop fuel rest (buf ++ line.getD [] ++ [LF])

/-- The string `cmd_import` hands to the parser when reading **stdin** (`--format` given, no `--file`). -/
def readStdin (inp : List Sym) : List Char := stdinLoop (inp.length + 1) inp []

/-- The string `cmd_import` hands to the parser for **`--file <path>`**: `fs::read_to_string(&path)?`
    — the file verbatim, or an error (the import is abandoned before anything is written). -/
def readFile (inp : List Sym) : Option (List Char) := decode inp

/-- Reading stdin verbatim (`input.read_to_string(&mut buf)?`): what the proposed repair
    `patches/C14-import-stdin-verbatim.patch` does; selected by the translator when import.rs contains it. -/
def readStdinVerbatim (inp : List Sym) : Option (List Char) := decode inp

/-! ## The specification side: what happens to a valid text -/

/-- Remove every `'\r'` that immediately precedes a `'\n'` (nothing else). -/
def dropCrLf : List Char → List Char
  | [] => []
  | c :: r => if c = CR ∧ r.head? = some LF then dropCrLf r else c :: dropCrLf r

/-- Append a final `'\n'` to a non-empty text that does not end with one. -/
def ensureNl : List Char → List Char
  | [] => []
  | [c] => if c = LF then [c] else [c, LF]
  | c :: d :: r => c :: ensureNl (d :: r)

/-- The text contains no `"\r\n"`. -/
def NoCrLf (s : List Char) : Prop := dropCrLf s = s

instance (s : List Char) : Decidable (NoCrLf s) := inferInstanceAs (Decidable (_ = _))

/-- The `'\n'`-separated segments of a text (`n` newlines give `n + 1` segments). -/
def splitLF : List Char → List (List Char)
  | [] => [[]]
  | c :: r =>
    if c = LF then [] :: splitLF r
    else match splitLF r with
      | [] => [[c]]
      | l :: ls => (c :: l) :: ls

/-- The lines of a text: its `'\n'`-separated segments, without the empty segment after a final
    newline. -/
def lineList (s : List Char) : List (List Char) :=
  if (splitLF s).getLast? = some [] then (splitLF s).dropLast else splitLF s

end PipeData.Reader
