import XvcPipeData.Invalidate
/-!
  Helper lemmas for the run-decision model (`Invalidate.lean`); the property theorems are in
  `Props/C12.lean`.

  Main tool: `run_fix` — in a well-formed (topologically numbered) pipeline the final states are a
  fixpoint of `stepOutcome`, so every property of one step is a local fact about `stepOutcome`.
-/
namespace Inval

@[simp] theorem upd_same {α : Type} (f : Nat → α) (k : Nat) (v : α) : upd f k v k = v := by simp [upd]

@[simp] theorem upd_other {α : Type} (f : Nat → α) (k j : Nat) (v : α) (h : j ≠ k) : upd f k v j = f j := by
  simp [upd, h]

theorem all_congr_mem {α : Type} (l : List α) (f g : α → Bool) (h : ∀ x, x ∈ l → f x = g x) : l.all f = l.all g := by
  induction l with
  | nil => rfl
  | cons a l ih =>
    simp only [List.all_cons, h a List.mem_cons_self, ih (fun x hx => h x (List.mem_cons_of_mem a hx))]

theorem any_congr_mem {α : Type} (l : List α) (f g : α → Bool) (h : ∀ x, x ∈ l → f x = g x) : l.any f = l.any g := by
  induction l with
  | nil => rfl
  | cons a l ih =>
    simp only [List.any_cons, h a List.mem_cons_self, ih (fun x hx => h x (List.mem_cons_of_mem a hx))]

/-- `stepOutcome` reads the earlier states only at the step's dependency steps. -/
theorem stepOutcome_congr (p : Pipe) (w : World) (fails missing : Nat → Bool) (σ σ' : Nat → St) (i : Nat)
    (h : ∀ u, u ∈ (p.step i).upstream → σ u = σ' u) :
    stepOutcome p w fails missing σ i = stepOutcome p w fails missing σ' i := by
  unfold stepOutcome
  have h1 : ((p.step i).upstream.all fun u => (σ u).done) = ((p.step i).upstream.all fun u => (σ' u).done) := by
    apply all_congr_mem
    intro u hu; rw [h u hu]
  have h2 : ((p.step i).upstream.all fun u => !(σ u).done) = ((p.step i).upstream.all fun u => !(σ' u).done) := by
    apply all_congr_mem
    intro u hu; rw [h u hu]
  have h3 : ((p.step i).upstream.any fun u => decide (σ u = .doneRun)) =
      ((p.step i).upstream.any fun u => decide (σ' u = .doneRun)) := by
    apply any_congr_mem
    intro u hu; rw [h u hu]
  simp only [h1, h2, h3]

/-- The states of the first `k` steps, once computed, are final, and each is the outcome of its step
    against them. -/
theorem runUpTo_fix (p : Pipe) (w : World) (fails missing : Nat → Bool) (hwf : p.WF) :
    ∀ k, k ≤ p.n → ∀ i, i < k →
      (runUpTo p w fails missing k).st i = (stepOutcome p w fails missing (runUpTo p w fails missing k).st i).st ∧
      (runUpTo p w fails missing k).ran i = (stepOutcome p w fails missing (runUpTo p w fails missing k).st i).ran := by
  intro k
  induction k with
  | zero => intro _ i hi; omega
  | succ k ih =>
    intro hk i hi
    simp only [runUpTo]
    have hcongr : ∀ j, j ≤ k → j < p.n →
        stepOutcome p w fails missing
          (upd (runUpTo p w fails missing k).st k
            (stepOutcome p w fails missing (runUpTo p w fails missing k).st k).st) j =
        stepOutcome p w fails missing (runUpTo p w fails missing k).st j := by
      intro j hj hjn
      apply stepOutcome_congr
      intro u hu
      have := hwf j hjn u hu
      rw [upd_other _ _ _ _ (by omega)]
    by_cases hik : i = k
    · subst hik
      rw [upd_same, upd_same, hcongr i (Nat.le_refl _) (by omega)]
      exact ⟨rfl, rfl⟩
    · have hi' : i < k := by omega
      rw [upd_other _ _ _ _ hik, upd_other _ _ _ _ hik, hcongr i (by omega) (by omega)]
      exact ih (by omega) i hi'

/-- **Fixpoint characterisation** of a run. -/
theorem run_fix (p : Pipe) (w : World) (fails missing : Nat → Bool) (hwf : p.WF) (i : Nat) (hi : i < p.n) :
    (runPipeline p w fails missing).st i =
      (stepOutcome p w fails missing (runPipeline p w fails missing).st i).st ∧
    (runPipeline p w fails missing).ran i =
      (stepOutcome p w fails missing (runPipeline p w fails missing).st i).ran :=
  runUpTo_fix p w fails missing hwf p.n (Nat.le_refl _) i hi

/-- A step that was started and is not broken is `DoneByRunning`; one that is `DoneByRunning` was started. -/
theorem stepOutcome_doneRun_iff (p : Pipe) (w : World) (fails missing : Nat → Bool) (σ : Nat → St) (i : Nat) :
    (stepOutcome p w fails missing σ i).st = .doneRun ↔
      (stepOutcome p w fails missing σ i).ran = true ∧ (stepOutcome p w fails missing σ i).st.done = true := by
  unfold stepOutcome
  simp only
  split
  · simp [St.done]
  · split
    · split
      · simp [St.done]
      · split
        · cases fails i <;> simp [St.done]
        · simp [St.done]
    · simp [St.done]

theorem never_not_ran (p : Pipe) (w : World) (fails missing : Nat → Bool) (σ : Nat → St) (i : Nat)
    (h : (p.step i).mode = .never) : (stepOutcome p w fails missing σ i).ran = false := by
  unfold stepOutcome
  simp [runConditions, h]

/-- `rc.always` spelled out. -/
def Step.alwaysLike (s : Step) : Bool := decide (s.mode = .always) || (decide (s.mode = .byDeps) && !s.hasDeps)

theorem rc_always (s : Step) : (runConditions s).always = s.alwaysLike := by
  unfold runConditions Step.alwaysLike
  cases hm : s.mode <;> simp
  cases s.hasDeps <;> simp

theorem rc_never (s : Step) : (runConditions s).never = decide (s.mode = .never) := by
  unfold runConditions
  cases hm : s.mode <;> simp
  cases s.hasDeps <;> simp

theorem rc_ignoreMissing (s : Step) (h : s.mode ≠ .never) : (runConditions s).ignoreMissingOutputs = true := by
  unfold runConditions
  cases hm : s.mode
  · simp; cases s.hasDeps <;> simp
  · simp
  · exact absurd hm h

/-! ## the decision, as a disjunction -/

theorem thorough_imp_superficial (p : Pipe) (w : World) (s : Step) (h : thoroughChanged p w s = true) :
    superficialChanged p w s = true := by
  unfold thoroughChanged at h
  unfold superficialChanged
  rw [Bool.or_eq_true] at h ⊢
  rcases h with h | h
  · exact Or.inl h
  · right
    rw [List.any_eq_true] at h ⊢
    obtain ⟨d, hd, hf⟩ := h
    refine ⟨d, hd, ?_⟩
    unfold Dep.finalChanged at hf
    rw [Bool.and_eq_true] at hf
    exact hf.1

/-- (patched code) a step goes to `WaitingToRun` iff one of its own dependencies changed, or it is
    an always-step, or a step it depends on ran, or an output is missing. -/
theorem decideRun_iff (p : Pipe) (w : World) (s : Step) (up miss : Bool) :
    decideRun p w s up miss = true ↔
      thoroughChanged p w s = true ∨ (runConditions s).always = true ∨ up = true ∨ miss = true := by
  unfold decideRun
  simp only
  cases hs : superficialChanged p w s with
  | true =>
    cases ht : thoroughChanged p w s with
    | true => simp
    | false =>
      simp only [Bool.false_eq_true, if_false, if_true, Bool.or_eq_true, false_or]
      constructor
      · rintro ((h | h) | h)
        · exact Or.inl h
        · exact Or.inr (Or.inr h)
        · exact Or.inr (Or.inl h)
      · rintro (h | h | h)
        · exact Or.inl (Or.inl h)
        · exact Or.inr h
        · exact Or.inl (Or.inr h)
  | false =>
    have ht : thoroughChanged p w s = false := by
      cases ht : thoroughChanged p w s with
      | false => rfl
      | true => rw [thorough_imp_superficial p w s ht] at hs; cases hs
    simp only [ht, Bool.false_eq_true, if_false, Bool.or_eq_true, false_or]
    constructor
    · rintro ((h | h) | h)
      · exact Or.inl h
      · exact Or.inr (Or.inl h)
      · exact Or.inr (Or.inr h)
    · rintro (h | h | h)
      · exact Or.inl (Or.inl h)
      · exact Or.inl (Or.inr h)
      · exact Or.inr h

/-- some dependency step is `DoneByRunning` -/
def upstreamRan (σ : Nat → St) (s : Step) : Bool := s.upstream.any fun u => decide (σ u = .doneRun)

/-- all dependency steps are done (not broken) -/
def upstreamDone (σ : Nat → St) (s : Step) : Bool := s.upstream.all fun u => (σ u).done

/-- Inversion: a started step is not `never`, and the decision said so (missing outputs are ignored
    for every step that gets this far). -/
theorem ran_inv (p : Pipe) (w : World) (fails missing : Nat → Bool) (σ : Nat → St) (i : Nat)
    (h : (stepOutcome p w fails missing σ i).ran = true) :
    (p.step i).mode ≠ .never ∧
    (thoroughChanged p w (p.step i) = true ∨ (p.step i).alwaysLike = true ∨ upstreamRan σ (p.step i) = true) := by
  have hn : (p.step i).mode ≠ .never := by
    intro hm
    rw [never_not_ran p w fails missing σ i hm] at h
    cases h
  refine ⟨hn, ?_⟩
  unfold stepOutcome at h
  simp only [rc_never, hn, decide_false, Bool.false_eq_true, if_false, rc_ignoreMissing _ hn, Bool.not_true,
    Bool.false_and] at h
  split at h
  · split at h
    · cases h
    · split at h
      · rename_i hd
        rw [decideRun_iff, rc_always] at hd
        rcases hd with hd | hd | hd | hd
        · exact Or.inl hd
        · exact Or.inr (Or.inl hd)
        · exact Or.inr (Or.inr hd)
        · cases hd
      · cases h
  · cases h

/-- A started step has all its watched resources on disk. -/
theorem ran_present (p : Pipe) (w : World) (fails missing : Nat → Bool) (σ : Nat → St) (i : Nat)
    (h : (stepOutcome p w fails missing σ i).ran = true) : ownAbsent w (p.step i) = false := by
  cases ha : ownAbsent w (p.step i) with
  | false => rfl
  | true =>
    unfold stepOutcome at h
    simp only [ha, if_true] at h
    split at h
    · cases h
    · split at h <;> cases h

/-- A step that compares its dependencies (not `never`) and watches an absent resource ends `Broken`. -/
theorem absent_broken (p : Pipe) (w : World) (fails missing : Nat → Bool) (σ : Nat → St) (i : Nat)
    (hn : (p.step i).mode ≠ .never) (ha : ownAbsent w (p.step i) = true) :
    (stepOutcome p w fails missing σ i).st = .broken ∧ (stepOutcome p w fails missing σ i).ran = false := by
  unfold stepOutcome
  simp only [rc_never, hn, decide_false, Bool.false_eq_true, if_false, ha, if_true]
  split <;> exact ⟨rfl, rfl⟩

/-- Introduction: a step that is not `never`, whose dependency steps are all done, and for which the
    decision holds, is started. -/
theorem ran_intro (p : Pipe) (w : World) (fails missing : Nat → Bool) (σ : Nat → St) (i : Nat)
    (hn : (p.step i).mode ≠ .never) (hd : upstreamDone σ (p.step i) = true)
    (hp : ownAbsent w (p.step i) = false)
    (h : thoroughChanged p w (p.step i) = true ∨ (p.step i).alwaysLike = true ∨ upstreamRan σ (p.step i) = true) :
    (stepOutcome p w fails missing σ i).ran = true := by
  unfold stepOutcome
  unfold upstreamDone at hd
  simp only [rc_never, hn, decide_false, Bool.false_eq_true, if_false, rc_ignoreMissing _ hn, Bool.not_true,
    Bool.false_and, hd, Bool.true_or, if_true, hp]
  have : decideRun p w (p.step i) ((p.step i).upstream.any fun u => decide (σ u = .doneRun)) false = true := by
    rw [decideRun_iff, rc_always]
    rcases h with h | h | h
    · exact Or.inl h
    · exact Or.inr (Or.inl h)
    · exact Or.inr (Or.inr (Or.inl h))
  simp [this]

/-- Not started: no own change, not always, no dependency step ran (whatever the states of the
    dependency steps are). -/
theorem not_ran_intro (p : Pipe) (w : World) (fails missing : Nat → Bool) (σ : Nat → St) (i : Nat)
    (h1 : thoroughChanged p w (p.step i) = false) (h2 : (p.step i).alwaysLike = false)
    (h3 : upstreamRan σ (p.step i) = false) :
    (stepOutcome p w fails missing σ i).ran = false := by
  cases hr : (stepOutcome p w fails missing σ i).ran with
  | false => rfl
  | true =>
    obtain ⟨_, h | h | h⟩ := ran_inv p w fails missing σ i hr
    · rw [h1] at h; cases h
    · rw [h2] at h; cases h
    · rw [h3] at h; cases h

/-! ## worlds -/

/-- Values handed out by the clock are new. -/
structure Fresh (w : World) : Prop where
  actual : ∀ d, (w.actual d).1 < w.clock ∧ (w.actual d).2 < w.clock
  recorded : ∀ d r, w.recorded d = some r → r.1 < w.clock ∧ r.2 < w.clock

/-- "A user edit changes size or mtime": recorded and actual content differ only if the metadata do. -/
def EditsVisible (w : World) : Prop :=
  ∀ d r, w.recorded d = some r → r.2 ≠ (w.actual d).2 → r.1 ≠ (w.actual d).1

/-- The dependency has been seen by a successful run and its content is what was recorded. -/
def Settled (w : World) (d : Nat) : Prop := ∃ r, w.recorded d = some r ∧ r.2 = (w.actual d).2

theorem finalChanged_false_of_settled (p : Pipe) (w : World) (d : Nat) (h : Settled w d)
    (hmc : p.metaCounts d = true → ∃ r, w.recorded d = some r ∧ r.1 = (w.actual d).1) :
    (depOf p w d).finalChanged = false := by
  obtain ⟨r, hr, hc⟩ := h
  unfold Dep.finalChanged Dep.thChanged depOf
  simp only [hr]
  cases hm : p.metaCounts d with
  | false => simp [hc]
  | true =>
    obtain ⟨r', hr', hm'⟩ := hmc hm
    rw [hr] at hr'
    cases hr'
    simp [hc, hm']

/-- After `update_with_actual` no compared dependency is `changed()` any more. -/
theorem updated_not_changed (p : Pipe) (w : World) (d : Nat) (hc : compared p d = true) :
    (depOf p { w with recorded := updateRecorded p w } d).finalChanged = false := by
  unfold depOf updateRecorded
  simp only [hc, Bool.true_and]
  cases hf : (depOf p w d).finalChanged with
  | true => simp [Dep.finalChanged, Dep.supChanged]
  | false =>
    simp only [Bool.false_eq_true, if_false]
    exact hf

theorem compared_of_mem (p : Pipe) (i d : Nat) (hi : i < p.n) (hm : (p.step i).mode ≠ .never)
    (hd : d ∈ (p.step i).deps) : compared p d = true := by
  unfold compared
  rw [List.any_eq_true]
  refine ⟨i, List.mem_range.mpr hi, ?_⟩
  simp [rc_never, hm, hd]

/-! ## runs and edits on worlds -/

theorem run_world_failed (p : Pipe) (w : World) (fails missing : Nat → Bool)
    (h : (runPipeline p w fails missing).allDone = false) : (runPipeline p w fails missing).world = w := by
  unfold runPipeline at h ⊢
  simp only at h ⊢
  simp [h]

theorem run_world_ok (p : Pipe) (w : World) (fails missing : Nat → Bool)
    (h : (runPipeline p w fails missing).allDone = true) :
    (runPipeline p w fails missing).world = { w with recorded := updateRecorded p w } := by
  unfold runPipeline at h ⊢
  simp only at h ⊢
  simp [h]

theorem run_world_actual (p : Pipe) (w : World) (fails missing : Nat → Bool) :
    (runPipeline p w fails missing).world.actual = w.actual ∧
    (runPipeline p w fails missing).world.clock = w.clock := by
  cases h : (runPipeline p w fails missing).allDone with
  | true => rw [run_world_ok p w fails missing h]; exact ⟨rfl, rfl⟩
  | false => rw [run_world_failed p w fails missing h]; exact ⟨rfl, rfl⟩

/-- A run records either nothing new for `d` or exactly what is on disk. -/
theorem run_world_recorded (p : Pipe) (w : World) (fails missing : Nat → Bool) (d : Nat) :
    (runPipeline p w fails missing).world.recorded d = w.recorded d ∨
    (runPipeline p w fails missing).world.recorded d = some (w.actual d) := by
  cases h : (runPipeline p w fails missing).allDone with
  | true =>
    rw [run_world_ok p w fails missing h]
    simp only [updateRecorded]
    split
    · exact Or.inr rfl
    · exact Or.inl rfl
  | false => rw [run_world_failed p w fails missing h]; exact Or.inl rfl

/-- A run does not move files: what is absent stays absent, what is present stays present. -/
theorem run_world_absent (p : Pipe) (w : World) (fails missing : Nat → Bool) :
    (runPipeline p w fails missing).world.absent = w.absent := by
  cases h : (runPipeline p w fails missing).allDone with
  | true => rw [run_world_ok p w fails missing h]
  | false => rw [run_world_failed p w fails missing h]

theorem fresh_init : Fresh World.init := by
  constructor
  · intro d; simp [World.init]
  · intro d r h; simp [World.init] at h

theorem fresh_applyEv (p : Pipe) (w : World) (e : Ev) (h : Fresh w) : Fresh (applyEv p w e) := by
  have hb : ∀ d, Fresh (bumpBoth w d) := by
    intro d
    constructor
    · intro d'
      simp only [bumpBoth]
      by_cases hd : d' = d
      · subst hd; simp
      · rw [upd_other _ _ _ _ hd]
        have := h.actual d'; omega
    · intro d' r hr
      simp only [bumpBoth] at hr ⊢
      have := h.recorded d' r hr; omega
  cases e with
  | edit d => exact hb d
  | addGlobMember d => exact hb d
  | rmGlobMember d => exact hb d
  | setParam d => exact hb d
  | touch d =>
    constructor
    · intro d'
      simp only [applyEv, bumpMeta]
      by_cases hd : d' = d
      · subst hd
        have := h.actual d'
        simp; omega
      · rw [upd_other _ _ _ _ hd]
        have := h.actual d'; omega
    · intro d' r hr
      simp only [applyEv, bumpMeta] at hr ⊢
      have := h.recorded d' r hr; omega
  | vanish d => exact ⟨h.actual, h.recorded⟩
  | comeBack d => exact ⟨h.actual, h.recorded⟩
  | run fails missing =>
    simp only [applyEv]
    obtain ⟨ha, hc⟩ := run_world_actual p w fails missing
    constructor
    · intro d; rw [ha, hc]; exact h.actual d
    · intro d r hr
      rw [hc]
      rcases run_world_recorded p w fails missing d with h' | h'
      · rw [h'] at hr; exact h.recorded d r hr
      · rw [h'] at hr; cases hr; exact h.actual d

theorem editsVisible_init : EditsVisible World.init := by
  intro d r h; simp [World.init] at h

theorem editsVisible_applyEv (p : Pipe) (w : World) (e : Ev) (hf : Fresh w) (h : EditsVisible w) :
    EditsVisible (applyEv p w e) := by
  have hb : ∀ d, EditsVisible (bumpBoth w d) := by
    intro d d' r hr hne
    simp only [bumpBoth] at hr hne ⊢
    by_cases hd : d' = d
    · subst hd
      rw [upd_same]
      have := hf.recorded d' r hr
      simp; omega
    · rw [upd_other _ _ _ _ hd] at hne ⊢
      exact h d' r hr hne
  cases e with
  | edit d => exact hb d
  | addGlobMember d => exact hb d
  | rmGlobMember d => exact hb d
  | setParam d => exact hb d
  | touch d =>
    intro d' r hr hne
    simp only [applyEv, bumpMeta] at hr hne ⊢
    by_cases hd : d' = d
    · subst hd
      rw [upd_same]
      have := hf.recorded d' r hr
      simp; omega
    · rw [upd_other _ _ _ _ hd] at hne ⊢
      exact h d' r hr hne
  | vanish d => exact h
  | comeBack d => exact h
  | run fails missing =>
    intro d r hr hne
    simp only [applyEv] at hr hne ⊢
    obtain ⟨ha, _⟩ := run_world_actual p w fails missing
    rw [ha] at hne ⊢
    rcases run_world_recorded p w fails missing d with h' | h'
    · rw [h'] at hr; exact h d r hr hne
    · rw [h'] at hr; cases hr; exact absurd rfl hne

/-- After a fully successful run every compared dependency is settled. -/
theorem settled_after_success (p : Pipe) (w : World) (fails missing : Nat → Bool) (hv : EditsVisible w)
    (hok : (runPipeline p w fails missing).allDone = true) (d : Nat) (hc : compared p d = true) :
    Settled (runPipeline p w fails missing).world d := by
  rw [run_world_ok p w fails missing hok]
  unfold Settled updateRecorded
  simp only [hc, Bool.true_and]
  cases hf : (depOf p w d).finalChanged with
  | true => exact ⟨w.actual d, by simp, rfl⟩
  | false =>
    simp only [Bool.false_eq_true, if_false]
    unfold Dep.finalChanged Dep.supChanged Dep.thChanged depOf at hf
    simp only at hf
    cases hr : w.recorded d with
    | none => simp [hr] at hf
    | some r =>
      refine ⟨r, rfl, ?_⟩
      simp only [hr] at hf
      by_cases hc2 : r.2 = (w.actual d).2
      · exact hc2
      · have hm := hv d r hr hc2
        simp [hc2, hm] at hf

end Inval
