import XvcPipeData.Reader
/-!
  Helper lemmas about the reader model (`Reader.lean`).  Property theorems are in `Props/C14.lean`.
-/
namespace PipeData.Reader

theorem ch_ne_LF {c : Char} (h : c ≠ LF) : Sym.ch c ≠ Sym.ch LF := fun e => h (Sym.ch.inj e)

theorem CR_ne_LF : CR ≠ LF := by decide

/-! ### decomposition of a text at its first newline -/

theorem split_at_LF (s : List Char) :
    (∃ body r, s = body ++ LF :: r ∧ LF ∉ body) ∨ LF ∉ s := by
  induction s with
  | nil => right; simp
  | cons c t ih =>
    by_cases hc : c = LF
    · left; exact ⟨[], t, by simp [hc], by simp⟩
    · rcases ih with ⟨body, r, hs, hb⟩ | h
      · left
        refine ⟨c :: body, r, by simp [hs], ?_⟩
        simp only [List.mem_cons, not_or]
        exact ⟨fun e => hc e.symm, hb⟩
      · right
        simp only [List.mem_cons, not_or]
        exact ⟨fun e => hc e.symm, h⟩

/-! ### `read_until` and `from_utf8` on valid text -/

theorem decode_embed (s : List Char) : decode (embed s) = some s := by
  induction s with
  | nil => rfl
  | cons c t ih =>
    show decode (Sym.ch c :: embed t) = some (c :: t)
    simp [decode, ih]

theorem decode_none_iff (inp : List Sym) : decode inp = none ↔ Sym.bad ∈ inp := by
  induction inp with
  | nil => simp [decode]
  | cons s t ih =>
    cases s with
    | ch c => simp [decode, ih]
    | bad => simp [decode]

theorem readUntilNl_split (body r : List Char) (hb : LF ∉ body) :
    readUntilNl (embed (body ++ LF :: r)) = (embed (body ++ [LF]), embed r) := by
  induction body with
  | nil => simp [embed, readUntilNl]
  | cons c t ih =>
    simp only [List.mem_cons, not_or] at hb
    have hc : c ≠ LF := fun e => hb.1 e.symm
    have := ih hb.2
    simp only [embed, List.cons_append, List.map_cons, readUntilNl, ch_ne_LF hc, if_false] at this ⊢
    rw [this]

theorem readUntilNl_noLF (s : List Char) (h : LF ∉ s) : readUntilNl (embed s) = (embed s, []) := by
  induction s with
  | nil => rfl
  | cons c t ih =>
    simp only [List.mem_cons, not_or] at h
    have hc : c ≠ LF := fun e => h.1 e.symm
    have := ih h.2
    simp only [embed, List.map_cons, readUntilNl, ch_ne_LF hc, if_false] at this ⊢
    rw [this]

/-! ### `stripEol`, `dropCrLf`, `ensureNl` -/

theorem stripEol_terminated (body : List Char) : stripEol (body ++ [LF]) = stripCr body := by
  simp [stripEol, stripCr]

theorem getLast?_ne_of_not_mem {a : Char} {s : List Char} (h : a ∉ s) : s.getLast? ≠ some a := by
  intro e
  exact h (List.mem_of_getLast? e)

theorem stripEol_noLF (s : List Char) (h : LF ∉ s) : stripEol s = s := by
  simp [stripEol, getLast?_ne_of_not_mem h]

theorem stripCr_cons (c d : Char) (t : List Char) : stripCr (c :: d :: t) = c :: stripCr (d :: t) := by
  simp only [stripCr, List.getLast?_cons_cons, List.dropLast_cons_cons]
  split <;> rfl

theorem dropCrLf_split (body r : List Char) (hb : LF ∉ body) :
    dropCrLf (body ++ LF :: r) = stripCr body ++ LF :: dropCrLf r := by
  induction body with
  | nil =>
    have : ¬ (LF = CR) := fun e => CR_ne_LF e.symm
    simp [dropCrLf, stripCr, this]
  | cons c t ih =>
    simp only [List.mem_cons, not_or] at hb
    cases t with
    | nil =>
      by_cases hc : c = CR
      · subst hc
        have : ¬ (LF = CR) := fun e => CR_ne_LF e.symm
        simp [dropCrLf, stripCr, this]
      · have : ¬ (LF = CR) := fun e => CR_ne_LF e.symm
        simp [dropCrLf, stripCr, hc, this]
    | cons d t' =>
      have hd : d ≠ LF := by
        intro e; apply hb.2; simp [e]
      have ih' := ih hb.2
      rw [stripCr_cons]
      simp only [List.cons_append] at ih' ⊢
      rw [← ih']
      simp [dropCrLf, hd]

theorem dropCrLf_noLF (s : List Char) (h : LF ∉ s) : dropCrLf s = s := by
  induction s with
  | nil => rfl
  | cons c t ih =>
    simp only [List.mem_cons, not_or] at h
    have : t.head? ≠ some LF := fun e => h.2 (List.mem_of_head? e)
    simp [dropCrLf, this, ih h.2]

theorem ensureNl_cons_LF (t : List Char) : ensureNl (LF :: t) = LF :: ensureNl t := by
  cases t with
  | nil => simp [ensureNl]
  | cons d r => simp [ensureNl]

theorem ensureNl_append (x y : List Char) (hy : y ≠ []) : ensureNl (x ++ y) = x ++ ensureNl y := by
  induction x with
  | nil => rfl
  | cons c t ih =>
    cases h : t ++ y with
    | nil => simp at h; exact absurd h.2 hy
    | cons d r =>
      simp only [List.cons_append, h, ensureNl]
      rw [← h, ih]

theorem ensureNl_noLF (s : List Char) (hs : s ≠ []) (h : LF ∉ s) : ensureNl s = s ++ [LF] := by
  induction s with
  | nil => exact absurd rfl hs
  | cons c t ih =>
    simp only [List.mem_cons, not_or] at h
    cases t with
    | nil =>
      have : c ≠ LF := fun e => h.1 e.symm
      simp [ensureNl, this]
    | cons d r =>
      simp only [ensureNl, List.cons_append]
      rw [ih (by simp) h.2]
      rfl

theorem ensureNl_of_getLast (s : List Char) (h : s.getLast? = some LF) : ensureNl s = s := by
  induction s with
  | nil => rfl
  | cons c t ih =>
    cases t with
    | nil =>
      have : c = LF := by simpa using h
      simp [ensureNl, this]
    | cons d r =>
      simp only [ensureNl]
      rw [ih (by simpa using h)]

theorem ensureNl_of_getLast_ne (s : List Char) (hs : s ≠ []) (h : s.getLast? ≠ some LF) :
    ensureNl s = s ++ [LF] := by
  induction s with
  | nil => exact absurd rfl hs
  | cons c t ih =>
    cases t with
    | nil =>
      have : c ≠ LF := by simpa using h
      simp [ensureNl, this]
    | cons d r =>
      simp only [ensureNl, List.cons_append]
      rw [ih (by simp) (by simpa using h)]
      rfl

/-- What the stdin loop makes of a valid text. -/
def spec (s : List Char) : List Char := ensureNl (dropCrLf s)

theorem spec_nil : spec [] = [] := rfl

theorem spec_split (body r : List Char) (hb : LF ∉ body) :
    spec (body ++ LF :: r) = stripCr body ++ [LF] ++ spec r := by
  unfold spec
  rw [dropCrLf_split body r hb, ensureNl_append _ _ (by simp), ensureNl_cons_LF]
  simp

theorem spec_noLF (s : List Char) (hs : s ≠ []) (h : LF ∉ s) : spec s = s ++ [LF] := by
  unfold spec
  rw [dropCrLf_noLF s h, ensureNl_noLF s hs h]

/-! ### the loop -/

theorem linesNext_nil : linesNext [] = none := rfl

theorem linesNext_split (body r : List Char) (hb : LF ∉ body) :
    linesNext (embed (body ++ LF :: r)) = some (some (stripCr body), embed r) := by
  unfold linesNext
  rw [readUntilNl_split body r hb]
  simp [embed, ← stripEol_terminated]
  have := decode_embed (body ++ [LF])
  simp only [embed, List.map_append, List.map_cons, List.map_nil] at this
  rw [this]
  simp [stripEol_terminated]

theorem linesNext_noLF (s : List Char) (hs : s ≠ []) (h : LF ∉ s) :
    linesNext (embed s) = some (some s, []) := by
  unfold linesNext
  rw [readUntilNl_noLF s h]
  have : (embed s).isEmpty = false := by
    cases s with
    | nil => exact absurd rfl hs
    | cons c t => rfl
  simp [this, decode_embed, stripEol_noLF s h]

theorem stdinLoop_embed (fuel : Nat) : ∀ (s buf : List Char), s.length < fuel →
    stdinLoop fuel (embed s) buf = buf ++ spec s := by
  induction fuel with
  | zero => intro s buf h; omega
  | succ n ih =>
    intro s buf hlen
    rcases split_at_LF s with ⟨body, r, hs, hb⟩ | h
    · subst hs
      have hr : r.length < n := by
        simp only [List.length_append, List.length_cons] at hlen; omega
      simp only [stdinLoop, linesNext_split body r hb, Option.getD_some]
      rw [ih r _ hr, spec_split body r hb]
      simp
    · cases s with
      | nil => simp [stdinLoop, embed, linesNext_nil, spec_nil]
      | cons c t =>
        simp only [stdinLoop, linesNext_noLF (c :: t) (by simp) h, Option.getD_some]
        cases n with
        | zero => simp [stdinLoop, spec_noLF (c :: t) (by simp) h]
        | succ m =>
          have : stdinLoop (m + 1) [] (buf ++ (c :: t) ++ [LF]) = buf ++ (c :: t) ++ [LF] := by
            simp [stdinLoop, linesNext_nil]
          rw [this, spec_noLF (c :: t) (by simp) h]
          simp

/-! ### the loop on arbitrary streams (unreadable lines included) -/

theorem readUntilNl_snd_length (inp : List Sym) : (readUntilNl inp).2.length ≤ inp.length - 1 := by
  induction inp with
  | nil => simp [readUntilNl]
  | cons s t ih =>
    simp only [readUntilNl]
    split
    · simp
    · simp only [List.length_cons, Nat.add_sub_cancel]
      omega

theorem readUntilNl_fst_cons (s : Sym) (t : List Sym) : (readUntilNl (s :: t)).1.isEmpty = false := by
  simp only [readUntilNl]
  split <;> rfl

theorem readUntilNl_general (l post : List Sym) (h : Sym.ch LF ∉ l) :
    readUntilNl (l ++ Sym.ch LF :: post) = (l ++ [Sym.ch LF], post) := by
  induction l with
  | nil => simp [readUntilNl]
  | cons s t ih =>
    simp only [List.mem_cons, not_or] at h
    have hs : s ≠ Sym.ch LF := fun e => h.1 e.symm
    simp only [List.cons_append, readUntilNl, hs, if_false, ih h.2]

theorem readUntilNl_general_noLF (l : List Sym) (h : Sym.ch LF ∉ l) : readUntilNl l = (l, []) := by
  induction l with
  | nil => rfl
  | cons s t ih =>
    simp only [List.mem_cons, not_or] at h
    have hs : s ≠ Sym.ch LF := fun e => h.1 e.symm
    simp only [readUntilNl, hs, if_false, ih h.2]

theorem decode_append_LF (l : List Sym) : decode (l ++ [Sym.ch LF]) = (decode l).map (· ++ [LF]) := by
  induction l with
  | nil => simp [decode]
  | cons s t ih =>
    cases s with
    | ch c =>
      simp only [List.cons_append, decode, ih]
      cases decode t <;> simp
    | bad => simp [decode]

theorem stdinLoop_buf (fuel : Nat) : ∀ (inp : List Sym) (buf : List Char),
    stdinLoop fuel inp buf = buf ++ stdinLoop fuel inp [] := by
  induction fuel with
  | zero => intro inp buf; simp [stdinLoop]
  | succ n ih =>
    intro inp buf
    simp only [stdinLoop]
    cases linesNext inp with
    | none => simp
    | some p =>
      obtain ⟨line, rest⟩ := p
      simp only
      rw [ih rest (buf ++ line.getD [] ++ [LF]), ih rest ([] ++ line.getD [] ++ [LF])]
      simp

theorem linesNext_rest_length (inp : List Sym) (line : Option (List Char)) (rest : List Sym)
    (h : linesNext inp = some (line, rest)) : rest.length < inp.length := by
  cases inp with
  | nil => simp [linesNext, readUntilNl] at h
  | cons s t =>
    simp only [linesNext, readUntilNl_fst_cons] at h
    have := readUntilNl_snd_length (s :: t)
    simp only [Bool.false_eq_true, if_false, Option.some.injEq, Prod.mk.injEq] at h
    rw [← h.2]
    simp only [List.length_cons, Nat.add_sub_cancel] at this ⊢
    omega

theorem stdinLoop_fuel (f1 : Nat) : ∀ (f2 : Nat) (inp : List Sym) (buf : List Char),
    inp.length < f1 → inp.length < f2 → stdinLoop f1 inp buf = stdinLoop f2 inp buf := by
  induction f1 with
  | zero => intro f2 inp buf h; omega
  | succ n ih =>
    intro f2 inp buf h1 h2
    cases f2 with
    | zero => omega
    | succ m =>
      simp only [stdinLoop]
      cases hl : linesNext inp with
      | none => rfl
      | some p =>
        obtain ⟨line, rest⟩ := p
        have := linesNext_rest_length inp line rest hl
        exact ih m rest _ (by omega) (by omega)

/-- the loop run with any sufficient fuel -/
theorem stdinLoop_readStdin (fuel : Nat) (inp : List Sym) (buf : List Char) (h : inp.length < fuel) :
    stdinLoop fuel inp buf = buf ++ readStdin inp := by
  rw [stdinLoop_buf]
  unfold readStdin
  rw [stdinLoop_fuel fuel (inp.length + 1) inp [] h (by omega)]

/-! ### lines of a text -/

theorem splitLF_ne_nil (s : List Char) : splitLF s ≠ [] := by
  cases s with
  | nil => simp [splitLF]
  | cons c t =>
    simp only [splitLF]
    split
    · simp
    · split <;> simp

theorem splitLF_append_LF (s : List Char) : splitLF (s ++ [LF]) = splitLF s ++ [[]] := by
  induction s with
  | nil => simp [splitLF]
  | cons c t ih =>
    simp only [List.cons_append, splitLF, ih]
    by_cases hc : c = LF
    · simp [hc]
    · simp only [hc, if_false]
      cases h : splitLF t with
      | nil => exact absurd h (splitLF_ne_nil t)
      | cons l ls => simp

/-- the last segment is empty only when the text is empty or ends with a newline -/
theorem splitLF_getLast (s : List Char) (h : (splitLF s).getLast? = some []) :
    s = [] ∨ s.getLast? = some LF := by
  induction s with
  | nil => left; rfl
  | cons c t ih =>
    right
    simp only [splitLF] at h
    by_cases hc : c = LF
    · simp only [hc, if_true] at h
      cases hs : splitLF t with
      | nil => exact absurd hs (splitLF_ne_nil t)
      | cons l ls =>
        rw [hs, List.getLast?_cons_cons, ← hs] at h
        rcases ih h with e | e
        · simp [e, hc]
        · cases t with
          | nil => simp at e
          | cons d r => simpa using e
    · simp only [hc, if_false] at h
      cases hs : splitLF t with
      | nil => exact absurd hs (splitLF_ne_nil t)
      | cons l ls =>
        rw [hs] at h
        cases ls with
        | nil => simp at h
        | cons l' ls' =>
          simp only [List.getLast?_cons_cons] at h
          have h' : (splitLF t).getLast? = some [] := by
            rw [hs, List.getLast?_cons_cons]; exact h
          rcases ih h' with e | e
          · subst e; simp [splitLF] at hs
          · cases t with
            | nil => simp at e
            | cons d r => simpa using e

end PipeData.Reader
