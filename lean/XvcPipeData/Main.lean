import XvcPipeData.Schema
import XvcPipeData.Invalidate
import XvcPipeData.Reader
import XvcPipeData.ExportFile
/-!
  Line-protocol driver `pipedata <mode>`: one request per line on stdin, one canonical answer per
  line on stdout.

  * `pipedata schema`      — the export/import model (`Schema.lean`), compared by `lib/c14.py` with the
                             real `xvc pipeline …` commands.
  * `pipedata invalidate`  — the run-decision model (`Invalidate.lean`), compared by `lib/c12.py` with the
                             journal of real `xvc pipeline run`s.
  * `pipedata reader`      — the text layer of `xvc pipeline import` (`Reader.lean`): request
                             `<file|stdin|stdin-verbatim> <stream>`, the stream being decimal code points
                             (`X` = a byte outside every well-formed UTF-8 sequence) joined by `.`, `-` if
                             empty; answer: the string handed to the parser in the same encoding, or `err`.

  Strings (names, commands, paths) arrive as opaque tokens without blanks; dependencies and outputs
  as natural numbers (their rank in the order `derive(Ord)` gives them, computed by the harness).
-/
open PipeData

/-! ## schema mode -/

def idShuf : Shuf := ⟨fun l => l, fun l => List.Perm.refl l⟩
def revShuf : Shuf := ⟨fun l => l.reverse, fun l => List.reverse_perm l⟩
def rotShuf : Shuf :=
  ⟨fun l => l.drop 1 ++ l.take 1, fun l => by
    have h : (l.drop 1 ++ l.take 1).Perm (l.take 1 ++ l.drop 1) := List.perm_append_comm
    rw [List.take_append_drop] at h
    exact h⟩

structure SState where
  repo : Repo Nat Nat := Repo.init
  shuf : Shuf := idShuf
  reg : Option (PipelineSchema Nat Nat) := none

def optTok (s : String) : Option String := if s == "-" then none else some s

def parseInv (s : String) : Option (Option Invalidate) :=
  match s with
  | "-" => some none
  | "d" => some (some .byDependencies)
  | "a" => some (some .always)
  | "n" => some (some .never)
  | _ => none

def showInv : Invalidate → String
  | .byDependencies => "d"
  | .always => "a"
  | .never => "n"

def parseNats (s : String) : Option (List Nat) :=
  if s == "-" then some [] else (s.splitOn ",").mapM String.toNat?

def showNats (l : List Nat) : String := if l.isEmpty then "-" else ",".intercalate (l.map toString)

def showWd (w : String) : String := if w.isEmpty then "-" else w

def showSchema (s : PipelineSchema Nat Nat) : String :=
  let steps := s.steps.map fun t =>
    s!"{t.name}|{t.command}|{showInv t.invalidate}|{showNats t.dependencies}|{showNats t.outputs}"
  s!"v={s.version} name={s.name} wd={showWd s.workdir} steps=" ++ (if steps.isEmpty then "-" else ";".intercalate steps)

def okStr (b : Bool) : String := if b then "ok" else "err"

def schemaStep (st : SState) (line : String) : SState × String :=
  match line.trimAscii.toString.splitOn " " with
  | ["init"] => ({ st with repo := Repo.init, reg := none }, "ok")
  | ["shuf", k] =>
    match k with
    | "id" => ({ st with shuf := idShuf }, "ok")
    | "rev" => ({ st with shuf := revShuf }, "ok")
    | "rot" => ({ st with shuf := rotShuf }, "ok")
    | _ => (st, "bad-op")
  | ["new", p, wd] =>
    let r := pipelineNew st.repo p (optTok wd)
    ({ st with repo := r.repo }, okStr r.ok)
  | ["delete", p] => ({ st with repo := pipelineDelete st.repo p }, "ok")
  | ["step", p, s, c, w] =>
    match parseInv w with
    | some inv => let r := stepNew st.repo p s c inv; ({ st with repo := r.repo }, okStr r.ok)
    | none => (st, "bad-op")
  | ["update", p, s, c, w] =>
    match parseInv w with
    | some inv => let r := stepUpdate st.repo p s (optTok c) inv; ({ st with repo := r.repo }, okStr r.ok)
    | none => (st, "bad-op")
  | ["dep", p, s, ds] =>
    match parseNats ds with
    | some ds => let r := stepDependency st.repo p s ds; ({ st with repo := r.repo }, okStr r.ok)
    | none => (st, "bad-op")
  | ["out", p, s, os] =>
    match parseNats os with
    | some os => let r := stepOutput st.repo p s os; ({ st with repo := r.repo }, okStr r.ok)
    | none => (st, "bad-op")
  | ["rmstep", p, s, refs] =>
    match parseNats refs with
    | some refs =>
      let r := stepRemove st.repo p s (fun d => refs.contains d)
      ({ st with repo := r.repo }, okStr r.ok)
    | none => (st, "bad-op")
  | ["export", p] =>
    match exportSchema st.shuf st.repo p with
    | some s => ({ st with reg := some s }, showSchema s)
    | none => (st, "err")
  | ["import", p, ow] =>
    match st.reg with
    | some s =>
      let r := importSchema st.repo s p (ow == "1")
      ({ st with repo := r.repo }, okStr r.ok)
    | none => (st, "bad-op")
  | ["list"] =>
    let rows := (List.range st.repo.gen).filterMap fun e =>
      (st.repo.pipelines e).map fun n => s!"{n}:{showWd ((st.repo.rundir e).getD "")}"
    (st, "[" ++ ",".intercalate rows ++ "]")
  | [""] => (st, "")
  | _ => (st, "bad-op")

partial def schemaLoop (h out : IO.FS.Stream) (st : SState) : IO Unit := do
  let line ← h.getLine
  if line.isEmpty then return ()
  if line.trimAscii.toString == "reset" then
    out.putStrLn "ok"
    schemaLoop h out {}
  else
    let (st', ans) := schemaStep st line
    out.putStrLn ans
    schemaLoop h out st'

/-! ## invalidate mode -/

partial def invLoop (h out : IO.FS.Stream) (st : Inval.DState) : IO Unit := do
  let line ← h.getLine
  if line.isEmpty then return ()
  if line.trimAscii.toString == "reset" then
    out.putStrLn "ok"
    invLoop h out {}
  else
    let (st', ans) := Inval.driverStep st line
    out.putStrLn ans
    invLoop h out st'

/-! ## writefile mode

  `pipedata writefile`: request `<create 0|1> <truncate 0|1> <old> <doc>`; contents are decimal bytes
  joined by `.`, `-` the empty content, and `A` (only for `old`) nothing at the path.  Answer: the
  content of the file after `open` with these options + `write_all(doc)` (`ExportFile.openWrite`), or
  `enoent`; `code` instead of the two flags asks for `ExportFile.writeFile` (the options of
  `fs::write`, what `cmd_export` calls). -/

def parseBytes (s : String) : Option (List Nat) :=
  if s == "-" then some [] else (s.splitOn ".").mapM String.toNat?

def showBytes (l : List Nat) : String :=
  if l.isEmpty then "-" else ".".intercalate (l.map toString)

def writefileStep (line : String) : String :=
  let old? (s : String) : Option (Option (List Nat)) := if s == "A" then some none else (parseBytes s).map some
  match line.trimAscii.toString.splitOn " " with
  | ["code", old, doc] =>
    match old? old, parseBytes doc with
    | some o, some d => showBytes (ExportFile.writeFile o d)
    | _, _ => "bad-op"
  | [c, t, old, doc] =>
    match old? old, parseBytes doc with
    | some o, some d =>
      match ExportFile.openWrite { create := c == "1", truncate := t == "1" } o d with
      | some r => showBytes r
      | none => "enoent"
    | _, _ => "bad-op"
  | _ => "bad-op"

partial def writefileLoop (h out : IO.FS.Stream) : IO Unit := do
  let line ← h.getLine
  if line.isEmpty then return ()
  out.putStrLn (writefileStep line)
  writefileLoop h out

/-! ## reader mode -/

def parseSym (t : String) : Option Reader.Sym :=
  if t == "X" then some .bad else t.toNat?.map fun n => .ch (Char.ofNat n)

def parseStream (s : String) : Option (List Reader.Sym) :=
  if s == "-" then some [] else (s.splitOn ".").mapM parseSym

def showChars (l : List Char) : String :=
  if l.isEmpty then "-" else ".".intercalate (l.map fun c => toString c.toNat)

def readerStep (line : String) : String :=
  match line.trimAscii.toString.splitOn " " with
  | [chan, stream] =>
    match parseStream stream with
    | none => "bad-op"
    | some inp =>
      match chan with
      | "file" => match Reader.readFile inp with | some t => showChars t | none => "err"
      | "stdin" => showChars (Reader.readStdin inp)
      | "stdin-verbatim" => match Reader.readStdinVerbatim inp with | some t => showChars t | none => "err"
      | _ => "bad-op"
  | _ => "bad-op"

partial def readerLoop (h out : IO.FS.Stream) : IO Unit := do
  let line ← h.getLine
  if line.isEmpty then return ()
  out.putStrLn (readerStep line)
  readerLoop h out

def main (args : List String) : IO Unit := do
  let stdin ← IO.getStdin
  let stdout ← IO.getStdout
  match args with
  | ["schema"] => schemaLoop stdin stdout {}
  | ["invalidate"] => invLoop stdin stdout {}
  | ["reader"] => readerLoop stdin stdout
  | ["writefile"] => writefileLoop stdin stdout
  | _ => IO.eprintln "usage: pipedata schema|invalidate|reader|writefile"
