import XvcRepo.NoLoss
/-!
  Records only grow: a command other than `remove`/`untrack` keeps every entity's record and only
  ever appends to its list of versions (the `Add` events of the content-digest store).
-/
namespace Repo

/-- every entity of `s` still has a record in `s'`, whose version list extends the old one -/
def RecGrow (s s' : St) : Prop :=
  s.next ≤ s'.next ∧
  ∀ e, e < s.next → ∀ r, s.recs e = some r → ∃ r', s'.recs e = some r' ∧ r.digests <+: r'.digests

theorem RecGrow.refl (s : St) : RecGrow s s := ⟨Nat.le_refl _, fun _ _ r h => ⟨r, h, List.prefix_refl _⟩⟩

theorem RecGrow.trans {s s' s'' : St} (h1 : RecGrow s s') (h2 : RecGrow s' s'') : RecGrow s s'' := by
  refine ⟨Nat.le_trans h1.1 h2.1, ?_⟩
  intro e he r hr
  obtain ⟨r', hr', hp⟩ := h1.2 e he r hr
  obtain ⟨r'', hr'', hp'⟩ := h2.2 e (Nat.lt_of_lt_of_le he h1.1) r' hr'
  exact ⟨r'', hr'', hp.trans hp'⟩

theorem recGrow_of_eq {s s' : St} (hr : s'.recs = s.recs) (hn : s'.next = s.next) : RecGrow s s' :=
  ⟨by rw [hn]; exact Nat.le_refl _, fun e _ r h => ⟨r, by rw [hr]; exact h, List.prefix_refl _⟩⟩

theorem recGrow_setRec (s : St) (e : Ent) (r r' : Rec) (h : s.recs e = some r) (hp : r.digests <+: r'.digests) :
    RecGrow s (s.setRec e (some r')) := by
  refine ⟨Nat.le_refl _, ?_⟩
  intro e' _ r0 h0
  by_cases he : e' = e
  · subst he
    rw [h] at h0; cases h0
    exact ⟨r', by simp [upd], hp⟩
  · exact ⟨r0, by simp [upd, he, h0], List.prefix_refl _⟩

theorem recGrow_new (s : St) (r' : Rec) : RecGrow s ((s.setRec s.next (some r')).bumpNext) := by
  refine ⟨by simp, ?_⟩
  intro e he r h
  have : e ≠ s.next := Nat.ne_of_lt he
  exact ⟨r, by simp [upd, this, h], List.prefix_refl _⟩

theorem findEnt_lt {s : St} {p : Path} {e : Ent} (h : s.findEnt p = some e) : e < s.next := by
  unfold St.findEnt at h
  have := List.mem_of_find?_eq_some h
  simpa using this

theorem carryOneMove_next (s : St) (p : Path) (a : Addr) (m : Method) (f : Bool) :
    (s.carryOneMove p a m f).1.next = s.next := by
  unfold St.carryOneMove
  have h1 : (if (s.cache a).isSome then
      if f then St.moveToCache { (s.detach a).setCache a none with dirRo := upd s.dirRo a.d false } p a
      else (s, Out.ok)
    else s.moveToCache p a).1.next = s.next := by
    repeat' split
    all_goals first | rfl | (rw [moveToCache_next]; done) | (rw [moveToCache_next]; rfl)
  generalize (if (s.cache a).isSome then
      if f then St.moveToCache { (s.detach a).setCache a none with dirRo := upd s.dirRo a.d false } p a
      else (s, Out.ok)
    else s.moveToCache p a) = res at h1
  obtain ⟨s1, o1⟩ := res
  cases o1 <;> simp only at h1 ⊢
  · rw [recheckFromCache_next]
    split
    · exact h1
    · exact h1
  · exact h1
  · exact h1

theorem carryOne_next (s : St) (p : Path) (a : Addr) (m : Method) (f : Bool) :
    (s.carryOne p a m f).1.next = s.next := by
  unfold St.carryOne
  split
  · rw [recheckFromCache_next]; rfl
  · split
    · rw [recheckFromCache_next]; rfl
    · exact carryOneMove_next s p a m f

theorem carryOne_recGrow (s : St) (p : Path) (a : Addr) (m : Method) (f : Bool) : RecGrow s (s.carryOne p a m f).1 :=
  recGrow_of_eq (carryOne_recs s p a m f) (carryOne_next s p a m f)

/-! ## per-target procedures -/

theorem updRec_prefix (r : Rec) (stamp : Nat) (d : Digest) (m : Method) (t : Tob) :
    r.digests <+: (updRec r stamp d m t).digests := by
  unfold updRec; simp only; split <;> simp

theorem trackOne_recGrow (c : Cfg) (o : TrackOpts) (s : St) (p : Path) : RecGrow s (s.trackOne c o p).1 := by
  unfold St.trackOne
  cases hr : s.readThrough p with
  | none => exact RecGrow.refl s
  | some x =>
    obtain ⟨b, stamp⟩ := x
    simp only
    unfold St.trackFile
    simp only
    cases hfe : s.findEnt p with
    | none =>
      simp only
      split
      · exact recGrow_new s _
      · exact (recGrow_new s _).trans (carryOne_recGrow _ _ _ _ _)
    | some e =>
      simp only
      cases hre : s.recs e with
      | none => exact RecGrow.refl s
      | some r =>
        simp only
        split
        · exact RecGrow.refl s
        · split
          · exact recGrow_setRec s e r _ hre (updRec_prefix _ _ _ _ _)
          · exact (recGrow_setRec s e r _ hre (updRec_prefix _ _ _ _ _)).trans (carryOne_recGrow _ _ _ _ _)

theorem carryInOne_recGrow (c : Cfg) (tob : Option Tob) (f : Bool) (s : St) (p : Path) :
    RecGrow s (s.carryInOne c tob f p).1 := by
  unfold St.carryInOne
  cases hfe : s.findEnt p with
  | none => exact RecGrow.refl s
  | some e =>
    simp only
    cases hre : s.recs e with
    | none => exact RecGrow.refl s
    | some r =>
      simp only
      have hpre : r.digests <+: (match s.carryDiff c r (tob.getD c.tob) with
          | .different a => r.digests ++ [a]
          | _ => r.digests) := by split <;> simp
      have key : ∀ (s1 : St) (r' : Rec), r.digests <+: r'.digests → RecGrow s s1 → s1.recs e = some r →
          RecGrow s (s1.setRec e (some r')) :=
        fun s1 r' hp h1 hr1 => h1.trans (recGrow_setRec s1 e r r' hr1 hp)
      unfold St.carryInRec
      simp only
      split
      · exact key s _ hpre (RecGrow.refl s) hre
      · split
        · exact RecGrow.refl s
        · exact key _ _ hpre (carryOne_recGrow _ _ _ _ _) (by rw [carryOne_recs]; exact hre)
        · exact key _ _ hpre (carryOne_recGrow _ _ _ _ _) (by rw [carryOne_recs]; exact hre)
        · exact RecGrow.refl s

theorem recheckOne_recGrow (c : Cfg) (m : Option Method) (f : Bool) (s : St) (p : Path) :
    RecGrow s (s.recheckOne c m f p).1 := by
  unfold St.recheckOne
  cases hfe : s.findEnt p with
  | none => exact RecGrow.refl s
  | some e =>
    simp only
    cases hre : s.recs e with
    | none => exact RecGrow.refl s
    | some r =>
      simp only
      unfold St.recheckRec
      simp only
      split
      · exact RecGrow.refl s
      · cases hcur : r.cur with
        | none => exact RecGrow.refl s
        | some d =>
          simp only
          have h1 : RecGrow s (s.setRec e (some { r with method := m.getD r.method })) :=
            recGrow_setRec s e r _ hre (List.prefix_refl _)
          split
          · exact h1.trans (recGrow_of_eq (recheckFromCache_recs _ _ _ _) (recheckFromCache_next _ _ _ _))
          · exact h1

/-! ## copy and move -/

theorem copy_recGrow (c : Cfg) (o : CopyOpts) (s : St) (src dst : Path) : RecGrow s (s.copy c o src dst).1 := by
  unfold St.copy
  cases hfe : s.findEnt src with
  | none => exact RecGrow.refl s
  | some se =>
    simp only
    cases hre : s.recs se with
    | none => exact RecGrow.refl s
    | some r =>
      simp only
      split
      · exact RecGrow.refl s
      · split
        · exact RecGrow.refl s
        · split
          · exact RecGrow.refl s
          · -- the records are written, then (possibly) the destination is materialised
            have hrec : ∀ s2 : St, RecGrow s s2 → ∀ (d : Digest) (m : Method),
                RecGrow s (s2.recheckFromCache dst (addrOf dst d) m).1 :=
              fun s2 h2 d m => h2.trans (recGrow_of_eq (recheckFromCache_recs _ _ _ _) (recheckFromCache_next _ _ _ _))
            cases hde : s.findEnt dst with
            | none =>
              simp only [Option.isSome_none, Bool.false_eq_true, if_false, Option.getD_none]
              split
              · exact recGrow_new s _
              · split
                · exact recGrow_new s _
                · exact hrec _ (recGrow_new s _) _ _
            | some de =>
              obtain ⟨old, hold, _⟩ := findEnt_path hde
              have hg : ∀ r' : Rec, old.digests <+: r'.digests → RecGrow s (s.setRec de (some r')) :=
                fun r' hp => recGrow_setRec s de old r' hold hp
              simp only [Option.isSome_some, if_true, Option.getD_some, Option.bind_some, hold]
              split
              · exact hg _ (by simp)
              · split
                · exact hg _ (by simp)
                · exact hrec _ (hg _ (by simp)) _ _

theorem move_recGrow (c : Cfg) (o : CopyOpts) (s : St) (src dst : Path) : RecGrow s (s.move c o src dst).1 := by
  unfold St.move
  cases hfe : s.findEnt src with
  | none => exact RecGrow.refl s
  | some se =>
    simp only
    cases hre : s.recs se with
    | none => exact RecGrow.refl s
    | some r =>
      simp only
      have h1 : RecGrow s (s.setRec se (some { r with path := dst, method := o.method.getD r.method })) :=
        recGrow_setRec s se r _ hre (List.prefix_refl _)
      generalize s.setRec se (some { r with path := dst, method := o.method.getD r.method }) = s1 at h1 ⊢
      have hws : ∀ (q : Path) (en : Option Entry), RecGrow s (s1.setWs q en) := fun q en => h1.trans (recGrow_of_eq rfl rfl)
      repeat' split
      all_goals first
        | exact RecGrow.refl s
        | exact h1
        | exact hws _ _
        | exact (hws _ _).trans (recGrow_of_eq rfl rfl)
        | exact h1.trans (recGrow_of_eq (recheckFromCache_recs _ _ _ _) (recheckFromCache_next _ _ _ _))
        | exact (hws _ _).trans (recGrow_of_eq (recheckFromCache_recs _ _ _ _) (recheckFromCache_next _ _ _ _))

/-! ## whole commands -/

/-- the commands that take records away -/
def Cmd.removing : Cmd → Bool
  | .remove .. => true
  | .untrack _ => true
  | .untrackRestore .. => true
  | _ => false

theorem step_recGrow (c : Cfg) (s : St) (cmd : Cmd) (h : cmd.removing = false) :
    RecGrow s (s.step c cmd).1 := by
  cases cmd with
  | write p b => exact recGrow_of_eq rfl rfl
  | delete p => exact recGrow_of_eq rfl rfl
  | track ps o => exact forEach_rel RecGrow RecGrow.refl (fun _ _ _ => RecGrow.trans) _ (trackOne_recGrow c o) s ps
  | carryIn ps t f => exact forEach_rel RecGrow RecGrow.refl (fun _ _ _ => RecGrow.trans) _ (carryInOne_recGrow c t f) s ps
  | recheck ps m f => exact forEach_rel RecGrow RecGrow.refl (fun _ _ _ => RecGrow.trans) _ (recheckOne_recGrow c m f) s ps
  | remove ps a f => simp [Cmd.removing] at h
  | untrack ps => simp [Cmd.removing] at h
  | untrackRestore ps bl => simp [Cmd.removing] at h
  | copy a b o => exact copy_recGrow c o s a b
  | move a b o => exact move_recGrow c o s a b

end Repo
