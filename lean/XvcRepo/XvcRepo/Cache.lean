import XvcRepo.Lemmas
/-!
  Command-level lemmas about the cache: where objects come from (`CacheFrom`: every object is an old
  one or a valid new one) and when they stay (`CacheKeep`).
-/
namespace Repo

theorem read_file_eq {s : St} {p : Path} {b : Bytes} {n : Nat} (hr : s.readThrough p = some (b, n))
    {b' : Bytes} {w : Bool} {st : Nat} {l : Option Addr} (hw : s.ws p = some (.file b' w st l)) : b' = b := by
  simp [St.readThrough, hw] at hr
  exact hr.1

/-- the metadata short-cut is sound at `p`: if the recorded modification stamp equals the actual one,
    the recorded digest is a digest of the actual bytes ("a user edit changes size or mtime") -/
def ShortcutSoundAt (s : St) (p : Path) : Prop :=
  ∀ e r b n d, s.findEnt p = some e → s.recs e = some r → s.readThrough p = some (b, n) →
    r.md = .stamp n → r.cur = some d → HashOf d b

/-- a predicate that must hold at every intermediate state of a `forEach` -/
def forEachP {α : Type} (f : St → α → St × Out) (P : St → α → Prop) : St → List α → Prop
  | _, [] => True
  | s, x :: xs => P s x ∧ (match f s x with
      | (_, .panic) => True
      | (s', _) => forEachP f P s' xs)

theorem forEach_rel_P {α : Type} (R : St → St → Prop) (hrefl : ∀ s, R s s)
    (htrans : ∀ s s' s'', R s s' → R s' s'' → R s s'')
    (f : St → α → St × Out) (P : St → α → Prop) (h : ∀ s x, P s x → R s (f s x).1) (s : St) (xs : List α)
    (hp : forEachP f P s xs) : R s (forEach f s xs).1 := by
  induction xs generalizing s with
  | nil => exact hrefl s
  | cons x xs ih =>
    unfold forEach
    obtain ⟨hp1, hp2⟩ := hp
    have hx := h s x hp1
    generalize f s x = r at hx hp2
    obtain ⟨s', o⟩ := r
    cases o with
    | panic => exact hx
    | ok => exact htrans _ _ _ hx (ih s' hp2)
    | refused => exact htrans _ _ _ hx (ih s' hp2)

/-! ## track -/

theorem trackFile_from (c : Cfg) (o : TrackOpts) (s : St) (p : Path) (b : Bytes) (stamp : Nat)
    (hb : ∀ b' n, s.readThrough p = some (b', n) → b' = b) :
    CacheFrom s (s.trackFile c o p b stamp).1 := by
  have key : ∀ (s1 : St) (m : Method) (f : Bool), s1.ws = s.ws → s1.cache = s.cache →
      CacheFrom s (s1.carryOne p (addrOf p (digestOf c.algo (o.tob.getD c.tob) b)) m f).1 := by
    intro s1 m f hws hc
    apply (cacheFrom_of_eq hc).trans
    apply carryOne_from
    intro b' n hr
    have hrt : s1.readThrough p = s.readThrough p := by unfold St.readThrough; rw [hws, hc]
    rw [hrt] at hr
    rw [hb b' n hr]
    exact hashOf_digestOf _ _ _
  unfold St.trackFile
  simp only
  split
  · split
    · exact cacheFrom_of_eq rfl
    · exact key _ _ _ rfl rfl
  · split
    · exact CacheFrom.refl s
    · split
      · exact CacheFrom.refl s
      · split
        · exact cacheFrom_of_eq rfl
        · exact key _ _ _ rfl rfl

theorem trackOne_from (c : Cfg) (o : TrackOpts) (s : St) (p : Path) : CacheFrom s (s.trackOne c o p).1 := by
  unfold St.trackOne
  split
  · exact CacheFrom.refl s
  · rename_i b stamp hr
    exact trackFile_from c o s p b stamp (fun b' n hr' => by rw [hr] at hr'; simp at hr'; exact hr'.1.symm)

theorem trackFile_keep (c : Cfg) (o : TrackOpts) (hf : o.force = false) (s : St) (p : Path) (b : Bytes)
    (stamp : Nat) : CacheKeep s (s.trackFile c o p b stamp).1 := by
  have key : ∀ (s1 : St) (a : Addr) (m : Method), s1.cache = s.cache →
      CacheKeep s (s1.carryOne p a m o.force).1 := by
    intro s1 a m hc
    rw [hf]
    exact (cacheKeep_of_eq hc).trans (carryOne_keep _ _ _ _)
  unfold St.trackFile
  simp only
  split
  · split
    · exact cacheKeep_of_eq rfl
    · exact key _ _ _ rfl
  · split
    · exact CacheKeep.refl s
    · split
      · exact CacheKeep.refl s
      · split
        · exact cacheKeep_of_eq rfl
        · exact key _ _ _ rfl

theorem trackOne_keep (c : Cfg) (o : TrackOpts) (hf : o.force = false) (s : St) (p : Path) :
    CacheKeep s (s.trackOne c o p).1 := by
  unfold St.trackOne
  split
  · exact CacheKeep.refl s
  · exact trackFile_keep c o hf s p _ _

theorem track_from (c : Cfg) (o : TrackOpts) (s : St) (ps : List Path) : CacheFrom s (s.track c o ps).1 :=
  forEach_rel CacheFrom CacheFrom.refl (fun _ _ _ => CacheFrom.trans) _ (trackOne_from c o) s ps

theorem track_keep (c : Cfg) (o : TrackOpts) (hf : o.force = false) (s : St) (ps : List Path) :
    CacheKeep s (s.track c o ps).1 :=
  forEach_rel CacheKeep CacheKeep.refl (fun _ _ _ => CacheKeep.trans) _ (trackOne_keep c o hf) s ps

/-! ## carry-in -/

theorem digestDiff_different {c : Cfg} {s : St} {r : Rec} {t : Tob} {a : Digest}
    (h : s.digestDiff c r t = .different a) :
    ∃ b n, s.readThrough r.path = some (b, n) ∧ a = digestOf c.algo t b := by
  unfold St.digestDiff at h
  split at h
  · split at h <;> cases h
  · rename_i b n hr
    split at h
    · cases h
    · split at h
      · cases h
      · cases h; exact ⟨b, n, hr, rfl⟩

theorem digestDiff_same {c : Cfg} {s : St} {r : Rec} {t : Tob} (h : s.digestDiff c r t = .same) :
    s.readThrough r.path = none ∨
    (∃ b n, s.readThrough r.path = some (b, n) ∧ (r.md = .stamp n ∨ r.cur = some (digestOf c.algo t b))) := by
  unfold St.digestDiff at h
  split at h
  · rename_i hr; exact Or.inl hr
  · rename_i b n hr
    right
    refine ⟨b, n, hr, ?_⟩
    split at h
    · rename_i hm; exact Or.inl hm
    · split at h
      · rename_i hc; exact Or.inr hc
      · cases h

theorem carryDiff_different {c : Cfg} {s : St} {r : Rec} {t : Tob} {a : Digest}
    (h : s.carryDiff c r t = .different a) :
    ∃ b n, s.readThrough r.path = some (b, n) ∧ a = digestOf c.algo t b := by
  unfold St.carryDiff at h
  split at h
  · exact digestDiff_different h
  · split at h
    · split at h <;> cases h
    · rename_i b n hr
      split at h
      · cases h
      · cases h; exact ⟨b, n, hr, rfl⟩

theorem carryDiff_same {c : Cfg} {s : St} {r : Rec} {t : Tob} (h : s.carryDiff c r t = .same) :
    s.readThrough r.path = none ∨
    (∃ b n, s.readThrough r.path = some (b, n) ∧ (r.md = .stamp n ∨ r.cur = some (digestOf c.algo t b))) := by
  unfold St.carryDiff at h
  split at h
  · exact digestDiff_same h
  · split at h
    · rename_i hr; exact Or.inl hr
    · rename_i b n hr
      right
      refine ⟨b, n, hr, ?_⟩
      split at h
      · rename_i hc; exact Or.inr hc
      · cases h

/-- when the mode changes the comparison does not rely on the metadata: "unchanged" means that the
    recorded digest IS the digest of the present bytes in the requested mode -/
theorem carryDiff_same_mode_change {c : Cfg} {s : St} {r : Rec} {t : Tob} (ht : r.tob ≠ t) (h : s.carryDiff c r t = .same)
    {b : Bytes} {n : Nat} (hr : s.readThrough r.path = some (b, n)) : r.cur = some (digestOf c.algo t b) := by
  unfold St.carryDiff at h
  simp only [ht, if_false, hr] at h
  split at h
  · assumption
  · cases h

theorem findEnt_path {s : St} {p : Path} {e : Ent} (h : s.findEnt p = some e) :
    ∃ r, s.recs e = some r ∧ r.path = p := by
  unfold St.findEnt at h
  have := List.find?_some h
  cases hr : s.recs e with
  | none => simp [hr] at this
  | some r => exact ⟨r, rfl, by simpa [hr] using this⟩

theorem carryInRec_from (c : Cfg) (tob : Option Tob) (force : Bool) (s : St) (p : Path) (e : Ent) (r : Rec)
    (hpath : r.path = p)
    (hs : ∀ b n d, s.readThrough p = some (b, n) → r.md = .stamp n → r.cur = some d → HashOf d b) :
    CacheFrom s (s.carryInRec c tob force p e r).1 := by
  unfold St.carryInRec
  simp only
  split
  · exact cacheFrom_of_eq rfl
  · split
    · exact CacheFrom.refl s
    · -- different
      rename_i a hdd
      obtain ⟨b, n, hr, ha⟩ := carryDiff_different hdd
      rw [hpath] at hr
      apply CacheFrom.trans (s' := (s.carryOne p (addrOf p a) r.method force).1) _ (cacheFrom_of_eq rfl)
      apply carryOne_from
      intro b' n' hr'
      rw [hr] at hr'; simp at hr'
      obtain ⟨rfl, _⟩ := hr'
      subst ha
      exact hashOf_digestOf _ _ _
    · -- same, stored digest
      rename_i d hdd hcur
      apply CacheFrom.trans (s' := (s.carryOne p (addrOf p d) r.method force).1) _ (cacheFrom_of_eq rfl)
      apply carryOne_from
      intro b' n' hr'
      rcases carryDiff_same hdd with hn | ⟨b, n, hr, hor⟩
      · rw [hpath] at hn; rw [hn] at hr'; cases hr'
      · rw [hpath] at hr
        rw [hr] at hr'; simp at hr'
        obtain ⟨rfl, rfl⟩ := hr'
        rcases hor with hm | hc
        · exact hs b n d hr hm hcur
        · rw [hcur] at hc; cases hc; exact hashOf_digestOf _ _ _
    · exact CacheFrom.refl s

theorem carryInOne_from (c : Cfg) (tob : Option Tob) (force : Bool) (s : St) (p : Path)
    (hs : ShortcutSoundAt s p) : CacheFrom s (s.carryInOne c tob force p).1 := by
  unfold St.carryInOne
  split
  · exact CacheFrom.refl s
  · rename_i e he
    split
    · exact CacheFrom.refl s
    · rename_i r hre
      obtain ⟨r0, hr0, hpath⟩ := findEnt_path he
      rw [hre] at hr0; cases hr0
      exact carryInRec_from c tob force s p e r hpath (fun b n d h1 h2 h3 => hs e r b n d he hre h1 h2 h3)

theorem carryInRec_keep (c : Cfg) (tob : Option Tob) (s : St) (p : Path) (e : Ent) (r : Rec) :
    CacheKeep s (s.carryInRec c tob false p e r).1 := by
  unfold St.carryInRec
  simp only
  split
  · exact cacheKeep_of_eq rfl
  · split
    · exact CacheKeep.refl s
    · exact (carryOne_keep s p _ r.method).trans (cacheKeep_of_eq rfl)
    · exact (carryOne_keep s p _ r.method).trans (cacheKeep_of_eq rfl)
    · exact CacheKeep.refl s

theorem carryInOne_keep (c : Cfg) (tob : Option Tob) (s : St) (p : Path) :
    CacheKeep s (s.carryInOne c tob false p).1 := by
  unfold St.carryInOne
  split
  · exact CacheKeep.refl s
  · split
    · exact CacheKeep.refl s
    · exact carryInRec_keep c tob s p _ _

/-- the short-cut is sound at every state in which `carry-in` looks at a target -/
def CarryInSound (c : Cfg) (tob : Option Tob) (force : Bool) (s : St) (ps : List Path) : Prop :=
  forEachP (St.carryInOne c tob force) ShortcutSoundAt s ps

theorem carryIn_from (c : Cfg) (tob : Option Tob) (force : Bool) (s : St) (ps : List Path)
    (hs : CarryInSound c tob force s ps) : CacheFrom s (s.carryIn c tob force ps).1 :=
  forEach_rel_P CacheFrom CacheFrom.refl (fun _ _ _ => CacheFrom.trans) _ _
    (fun s p h => carryInOne_from c tob force s p h) s ps hs

theorem carryIn_keep (c : Cfg) (tob : Option Tob) (s : St) (ps : List Path) :
    CacheKeep s (s.carryIn c tob false ps).1 :=
  forEach_rel CacheKeep CacheKeep.refl (fun _ _ _ => CacheKeep.trans) _ (carryInOne_keep c tob) s ps

/-! ## recheck -/

theorem recheckRec_cache (c : Cfg) (m : Option Method) (force : Bool) (s : St) (p : Path) (e : Ent) (r : Rec) :
    (s.recheckRec c m force p e r).1.cache = s.cache := by
  unfold St.recheckRec
  simp only
  repeat' split
  all_goals simp [recheckFromCache_cache]

theorem recheckOne_cache (c : Cfg) (m : Option Method) (force : Bool) (s : St) (p : Path) :
    (s.recheckOne c m force p).1.cache = s.cache := by
  unfold St.recheckOne
  split
  · rfl
  · split
    · rfl
    · exact recheckRec_cache c m force s p _ _

theorem recheck_cache (c : Cfg) (m : Option Method) (force : Bool) (s : St) (ps : List Path) :
    (s.recheck c m force ps).1.cache = s.cache :=
  forEach_rel (fun s s' => s'.cache = s.cache) (fun _ => rfl) (fun _ _ _ h1 h2 => h2.trans h1) _
    (recheckOne_cache c m force) s ps

/-! ## remove / untrack: the cache only shrinks -/

theorem removeObj_sub (s : St) (a : Addr) : ∀ a' o, (s.removeObj a).cache a' = some o → s.cache a' = some o := by
  intro a' o h
  unfold St.removeObj at h
  split at h
  · have h' : upd s.cache a none a' = some o := h
    by_cases ha : a' = a
    · subst ha; simp at h'
    · rwa [upd_other _ _ ha] at h'
  · exact h

theorem removeObj_recs (s : St) (a : Addr) : (s.removeObj a).recs = s.recs := by
  unfold St.removeObj; split <;> rfl

theorem foldl_removeObj_sub (l : List Addr) (s : St) :
    ∀ a' o, (l.foldl St.removeObj s).cache a' = some o → s.cache a' = some o := by
  induction l generalizing s with
  | nil => intro a' o h; exact h
  | cons a l ih => intro a' o h; exact removeObj_sub s a a' o (ih (s.removeObj a) a' o h)

/-- an object survives a batch of `removeObj` unless it is in the batch -/
theorem foldl_removeObj_keep (l : List Addr) (s : St) (a' : Addr) (h : a' ∉ l) :
    (l.foldl St.removeObj s).cache a' = s.cache a' := by
  induction l generalizing s with
  | nil => rfl
  | cons a l ih =>
    simp only [List.mem_cons, not_or] at h
    simp only [List.foldl_cons]
    rw [ih (s.removeObj a) h.2]
    unfold St.removeObj
    split
    · show upd s.cache a none a' = s.cache a'
      exact upd_other _ _ h.1
    · rfl

theorem remove_from (s : St) (ps : List Path) (sel : RemoveSel) (f : Bool) : CacheFrom s (s.remove ps sel f).1 := by
  intro a o h
  unfold St.remove at h
  split at h
  · exact Or.inl h
  · exact Or.inl (foldl_removeObj_sub _ _ a o h)

theorem selfCopy_cache (s : St) (p : Path) : (s.selfCopy p).cache = s.cache := by
  unfold St.selfCopy
  repeat' split
  all_goals rfl

theorem rematerialise_cache (s : St) (ts : List Ent) : (s.rematerialise ts).1.cache = s.cache := by
  unfold St.rematerialise
  apply forEach_rel (fun s s' => s'.cache = s.cache) (fun _ => rfl) (fun _ _ _ h1 h2 => h2.trans h1)
  intro s1 e
  unfold St.rematOne
  repeat' split
  all_goals first | rfl | exact recheckFromCache_cache _ _ _ _ | exact selfCopy_cache _ _

theorem foldl_removeObj_recs (l : List Addr) (s : St) : (l.foldl St.removeObj s).recs = s.recs := by
  induction l generalizing s with
  | nil => rfl
  | cons a l ih => simp only [List.foldl_cons]; rw [ih, removeObj_recs]

theorem untrack_from (s : St) (ps : List Path) : CacheFrom s (s.untrack ps).1 := by
  unfold St.untrack
  simp only
  have h1 := rematerialise_cache s (s.targetEnts ps)
  generalize s.rematerialise (s.targetEnts ps) = res at h1
  obtain ⟨s1, o⟩ := res
  cases o <;> simp only at h1 ⊢
  · intro a ob h
    have := foldl_removeObj_sub _ _ a ob h
    exact Or.inl (h1 ▸ this)
  · intro a ob h
    have := foldl_removeObj_sub _ _ a ob h
    exact Or.inl (h1 ▸ this)
  · exact cacheFrom_of_eq h1

/-! ## untrack --restore-versions -/

/-- every version of a target is among the items to copy -/
theorem restoreItems_covers (s : St) (ts : List Ent) (a : Addr) (h : a ∈ ts.flatMap s.versionsOf) :
    ∃ p, (p, a) ∈ s.restoreItems ts := by
  obtain ⟨e, he, ha⟩ := List.mem_flatMap.mp h
  unfold St.versionsOf at ha
  cases hr : s.recs e with
  | none => simp [hr] at ha
  | some r =>
    simp only [hr, List.mem_map] at ha
    obtain ⟨d, hd, rfl⟩ := ha
    refine ⟨r.path, List.mem_flatMap.mpr ⟨e, he, ?_⟩⟩
    simp only [hr, List.mem_map]
    exact ⟨d, hd, rfl⟩

/-- every item to copy is a version of a target, named after the target's path -/
theorem restoreItems_sound (s : St) (ts : List Ent) (p : Path) (a : Addr) (h : (p, a) ∈ s.restoreItems ts) :
    a ∈ ts.flatMap s.versionsOf ∧ ∃ e r, e ∈ ts ∧ s.recs e = some r ∧ r.path = p := by
  obtain ⟨e, he, ha⟩ := List.mem_flatMap.mp h
  cases hr : s.recs e with
  | none => simp [hr] at ha
  | some r =>
    simp only [hr, List.mem_map, Prod.mk.injEq] at ha
    obtain ⟨d, hd, rfl, rfl⟩ := ha
    refine ⟨List.mem_flatMap.mpr ⟨e, he, ?_⟩, e, r, he, hr, rfl⟩
    unfold St.versionsOf
    simp only [hr, List.mem_map]
    exact ⟨d, hd, rfl⟩

/-- when every copy succeeded, each listed version was in the cache and was written out with the
    object's bytes -/
theorem restoreCopies_all (s : St) (bl : List (Path × Addr)) (l : List (Path × Addr))
    (hok : (s.restoreCopies bl l).2 = true) :
    ∀ x ∈ l, ∃ o, s.cache x.2 = some o ∧ (x.1, x.2, o.b) ∈ (s.restoreCopies bl l).1 ∧ x ∉ bl := by
  induction l with
  | nil => intro a ha; cases ha
  | cons x xs ih =>
    intro a ha
    unfold St.restoreCopies at hok ⊢
    cases hx : s.cache x.2 with
    | none => simp [hx] at hok
    | some o =>
      simp only [hx] at hok ⊢
      by_cases hb : x ∈ bl
      · simp [hb] at hok
      · simp only [hb, if_false] at hok ⊢
        rcases List.mem_cons.mp ha with rfl | hin
        · exact ⟨o, hx, by simp, hb⟩
        · obtain ⟨o', h1, h2, h3⟩ := ih hok a hin
          exact ⟨o', h1, List.mem_cons_of_mem _ h2, h3⟩

/-- whatever is written is a listed version, byte-for-byte the cache object -/
theorem restoreCopies_sound (s : St) (bl : List (Path × Addr)) (l : List (Path × Addr)) :
    ∀ p a b, (p, a, b) ∈ (s.restoreCopies bl l).1 → (p, a) ∈ l ∧ ∃ o, s.cache a = some o ∧ o.b = b := by
  induction l with
  | nil => intro p a b h; simp [St.restoreCopies] at h
  | cons x xs ih =>
    intro p a b h
    unfold St.restoreCopies at h
    cases hx : s.cache x.2 with
    | none => simp [hx] at h
    | some o =>
      simp only [hx] at h
      by_cases hb : x ∈ bl
      · simp [hb] at h
      · simp only [hb, if_false, List.mem_cons, Prod.mk.injEq] at h
        rcases h with ⟨rfl, rfl, rfl⟩ | hin
        · exact ⟨by simp, o, hx, rfl⟩
        · obtain ⟨h1, h2⟩ := ih p a b hin
          exact ⟨List.mem_cons_of_mem _ h1, h2⟩

/-- on success `untrack --restore-versions` ends in the state of plain `untrack` -/
theorem untrackRestore_ok (s : St) (ps : List Path) (bl : List (Path × Addr))
    (hok : (s.untrackRestore ps bl).1.2 = .ok) : (s.untrackRestore ps bl).1 = s.untrack ps := by
  unfold St.untrackRestore at hok ⊢
  unfold St.untrack
  simp only at hok ⊢
  generalize s.rematerialise (s.targetEnts ps) = res at hok ⊢
  obtain ⟨s1, o⟩ := res
  cases o <;> simp only at hok ⊢
  all_goals first
    | done
    | (generalize s1.restoreCopies bl _ = rc at hok ⊢; obtain ⟨w, b⟩ := rc; cases b <;> simp_all; done)
    | cases hok

/-- shape of a successful run: the copies were made from a state with the cache of the start state,
    all of them succeeded, and then exactly the deletable versions were removed -/
theorem untrackRestore_ok_shape (s : St) (ps : List Path) (bl : List (Path × Addr))
    (hok : (s.untrackRestore ps bl).1.2 = .ok) :
    ∃ s1 : St, s1.cache = s.cache ∧
      (s1.restoreCopies bl (s.restoreItems (s.targetEnts ps))).2 = true ∧
      (s.untrackRestore ps bl).2 = (s1.restoreCopies bl (s.restoreItems (s.targetEnts ps))).1 ∧
      (s.untrackRestore ps bl).1.1 =
        (s.untrackDeletable (s.targetEnts ps)).foldl St.removeObj (s1.dropRecs (s.targetEnts ps)) := by
  unfold St.untrackRestore at hok ⊢
  simp only at hok ⊢
  have h1 := rematerialise_cache s (s.targetEnts ps)
  generalize s.rematerialise (s.targetEnts ps) = res at hok h1 ⊢
  obtain ⟨s1, o⟩ := res
  refine ⟨s1, h1, ?_⟩
  cases o <;> simp only at hok ⊢
  all_goals first
    | done
    | (generalize s1.restoreCopies bl _ = rc at hok ⊢; obtain ⟨w, b⟩ := rc; cases b <;> simp_all; done)
    | cases hok

/-- when it does not succeed the cache is left as it was -/
theorem untrackRestore_fail_cache (s : St) (ps : List Path) (bl : List (Path × Addr))
    (hf : (s.untrackRestore ps bl).1.2 ≠ .ok) : (s.untrackRestore ps bl).1.1.cache = s.cache := by
  unfold St.untrackRestore at hf ⊢
  simp only at hf ⊢
  have h1 := rematerialise_cache s (s.targetEnts ps)
  generalize s.rematerialise (s.targetEnts ps) = res at hf h1 ⊢
  obtain ⟨s1, o⟩ := res
  cases o <;> simp only at hf h1 ⊢
  · generalize s1.restoreCopies bl _ = rc at hf ⊢
    obtain ⟨w, b⟩ := rc
    cases b <;> simp_all
  · generalize s1.restoreCopies bl _ = rc at hf ⊢
    obtain ⟨w, b⟩ := rc
    cases b <;> simp_all
  · exact h1

theorem untrackRestore_from (s : St) (ps : List Path) (bl : List (Path × Addr)) :
    CacheFrom s (s.untrackRestore ps bl).1.1 := by
  by_cases hok : (s.untrackRestore ps bl).1.2 = .ok
  · rw [untrackRestore_ok s ps bl hok]; exact untrack_from s ps
  · exact cacheFrom_of_eq (untrackRestore_fail_cache s ps bl hok)

/-! ## copy / move never touch the cache -/

theorem copy_cache (c : Cfg) (o : CopyOpts) (s : St) (src dst : Path) : (s.copy c o src dst).1.cache = s.cache := by
  unfold St.copy
  simp only
  repeat' split
  all_goals simp [recheckFromCache_cache]

theorem move_cache (c : Cfg) (o : CopyOpts) (s : St) (src dst : Path) : (s.move c o src dst).1.cache = s.cache := by
  unfold St.move
  simp only
  repeat' split
  all_goals simp [recheckFromCache_cache]

end Repo
