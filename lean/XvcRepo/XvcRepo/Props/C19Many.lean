import XvcRepo.CopyManyLemmas
import XvcRepo.Props.C19
/-!
  # C19 for commands with several sources (`xvc file copy|move <dir/ | glob> <dest/>`)

  Model: `XvcRepo/CopyMany.lean` (`St.copyMany`, `St.moveMany`); the single-pair theorems are in `Props/C19.lean`.
  The pair list is what the source argument selects, paired with the destinations computed from the path
  strings (driver); `s.select pairs` are the pairs whose source is a recorded file.
-/
namespace Repo

/-! ## a file destination is the single-pair command -/

/-- **C19_copyMany_single**: with a file destination and exactly one selected source the command IS the
    single-pair `copy` of `Props/C19.lean` (`C19_copy_shares`, `C19_refusals` apply to it verbatim); with
    several selected sources it refuses and changes nothing. -/
theorem C19_copyMany_single (c : Cfg) (o : CopyOpts) (fx : Bool) (s : St) (pairs : List (Path × Path)) :
    (∀ x, s.select pairs = [x] → s.copyMany c o fx none pairs = s.copy c o x.r.path x.dst) ∧
    (2 ≤ (s.select pairs).length → s.copyMany c o fx none pairs = (s, .refused)) := by
  refine ⟨fun x h => by simp [St.copyMany, h], fun h => ?_⟩
  unfold St.copyMany
  simp only
  match hsel : s.select pairs, h with
  | _ :: _ :: _, _ => rfl

theorem C19_moveMany_single (c : Cfg) (o : CopyOpts) (s : St) (pairs : List (Path × Path)) :
    (∀ x, s.select pairs = [x] → s.moveMany c o none pairs = s.move c o x.r.path x.dst) ∧
    (2 ≤ (s.select pairs).length → s.moveMany c o none pairs = (s, .refused)) := by
  refine ⟨fun x h => by simp [St.moveMany, h], fun h => ?_⟩
  unfold St.moveMany
  simp only
  match hsel : s.select pairs, h with
  | _ :: _ :: _, _ => rfl

/-! ## refusals are all-or-nothing -/

/-- **C19_many_refuse_changed**: one selected source with uncommitted changes is enough: `copy` and
    `move`, to a directory or to a file, refuse and change NOTHING (no pair is carried out). -/
theorem C19_many_refuse_changed (c : Cfg) (o : CopyOpts) (fx : Bool) (dir : Option Path) (s : St)
    (pairs : List (Path × Path)) (x : Sel) (hx : x ∈ s.select pairs) (hch : s.sourceChanged c x.r = true) :
    s.copyMany c o fx dir pairs = (s, .refused) ∧ s.moveMany c o dir pairs = (s, .refused) := by
  have hany : (s.select pairs).any (fun z => s.sourceChanged c z.r) = true :=
    List.any_eq_true.mpr ⟨x, hx, hch⟩
  obtain ⟨hrec, hfind, _⟩ := select_mem hx
  cases dir with
  | some dp =>
    constructor
    · unfold St.copyMany
      simp only [hany]
      split <;> rfl
    · unfold St.moveMany St.moveRefused
      simp only [hany, Bool.true_or]
      split <;> rfl
  | none =>
    unfold St.copyMany St.moveMany
    simp only
    match hsel : s.select pairs, hx with
    | [y], hy =>
      have : x = y := by simpa using hy
      subst this
      exact ⟨(C19_refusals c o s x.r.path x.dst x.se x.r hfind hrec).1 hch |>.1,
             (C19_refusals c o s x.r.path x.dst x.se x.r hfind hrec).1 hch |>.2⟩
    | _ :: _ :: _, _ => exact ⟨rfl, rfl⟩

/-- **C19_moveMany_all_or_nothing**: `move` to a directory is all-or-nothing: if ANY selected source has
    uncommitted changes, ANY destination is already recorded or present in the workspace, or ANY source
    file would be deleted without its content being in the cache, the command refuses and nothing changes
    — no other pair is moved either. -/
theorem C19_moveMany_all_or_nothing (c : Cfg) (o : CopyOpts) (dp : Path) (s : St) (pairs : List (Path × Path))
    (x : Sel) (hx : x ∈ s.select pairs)
    (h : s.sourceChanged c x.r = true ∨ (s.findEnt x.dst).isSome = true ∨ (s.ws x.dst).isSome = true ∨
         s.moveBlocked x.r x.r.path (o.method.getD x.r.method) o.noRecheck = true) :
    s.moveMany c o (some dp) pairs = (s, .refused) := by
  have hr : s.moveRefused c o (s.select pairs) = true := by
    unfold St.moveRefused
    rcases h with h | h | h | h
    · have : (s.select pairs).any (fun z => s.sourceChanged c z.r) = true := List.any_eq_true.mpr ⟨x, hx, h⟩
      simp [this]
    · have : (s.select pairs).any (fun z => (s.findEnt z.dst).isSome || (s.ws z.dst).isSome) = true :=
        List.any_eq_true.mpr ⟨x, hx, by simp [h]⟩
      simp [this]
    · have : (s.select pairs).any (fun z => (s.findEnt z.dst).isSome || (s.ws z.dst).isSome) = true :=
        List.any_eq_true.mpr ⟨x, hx, by simp [h]⟩
      simp [this]
    · have : (s.select pairs).any (fun z => s.moveBlocked z.r z.r.path (o.method.getD z.r.method) o.noRecheck) = true :=
        List.any_eq_true.mpr ⟨x, hx, h⟩
      simp [this]
  unfold St.moveMany
  simp only [hr]
  split <;> rfl

/-! ## `copy` without `--force` only adds -/

/-- **C19_copyMany_no_force_frame**: `copy` to a directory without `--force`, whatever is selected and
    whichever pairs are skipped: no existing record changes (no source is changed, no tracked destination
    is overwritten), the cache is untouched, and no workspace entry that existed before is changed (sources
    stay as they are, untracked files at a destination are not overwritten). -/
theorem C19_copyMany_no_force_frame (c : Cfg) (o : CopyOpts) (fx : Bool) (dp : Path) (s : St)
    (pairs : List (Path × Path)) (hf : o.force = false) :
    let s' := (s.copyMany c o fx (some dp) pairs).1
    (∀ e, e < s.next → s'.recs e = s.recs e) ∧ s'.cache = s.cache ∧ (∀ p, (s.ws p).isSome → s'.ws p = s.ws p) := by
  unfold St.copyMany
  simp only
  split
  · exact ⟨fun _ _ => rfl, rfl, fun _ _ => rfl⟩
  split
  · exact ⟨fun _ _ => rfl, rfl, fun _ _ => rfl⟩
  split
  · exact ⟨fun _ _ => rfl, rfl, fun _ _ => rfl⟩
  rw [hf]
  have hP : ∀ y ∈ s.copyPlan false (s.select pairs), y.2 = Dest.fresh ∧ s.ws y.1.dst = none := by
    intro y hy
    obtain ⟨h1, _, h3⟩ := copyDecide_fresh_noforce (copyPlan_mem hy).2
    exact ⟨h1, h3⟩
  have := forEach_inv (St.copyOne o)
    (fun s' => s.next ≤ s'.next ∧ (∀ e, e < s.next → s'.recs e = s.recs e) ∧ s'.cache = s.cache ∧
      (∀ p, (s.ws p).isSome → s'.ws p = s.ws p))
    (fun y => y.2 = Dest.fresh ∧ s.ws y.1.dst = none)
    (by
      intro s1 y ⟨hy1, hy2⟩ ⟨hn, hr, hc, hw⟩
      refine ⟨Nat.le_trans hn (copyOne_next_le o s1 y), ?_, ?_, ?_⟩
      · intro e he
        rw [copyOne_recs_other o s1 y e ?_]
        · exact hr e he
        · unfold St.copyTarget; rw [hy1]; exact Nat.ne_of_lt (Nat.lt_of_lt_of_le he hn)
      · rw [copyOne_cache]; exact hc
      · intro p hp
        rw [copyOne_ws_other o s1 y p ?_]
        · exact hw p hp
        · intro hpe; rw [hpe, hy2] at hp; simp at hp)
    _ hP s ⟨Nat.le_refl _, fun _ _ => rfl, rfl, fun _ _ => rfl⟩
  exact this.2

/-! ## every pair that is carried out shares digest, method and object with its source -/

/-- **C19_copyMany_shares_partial**: `copy` to a directory, the selected destinations pairwise distinct
    (the excluding hypothesis: `--name-only` with two equal file names violates it, see the
    counterexample below).  For EVERY selected source whose destination is free (not recorded, nothing in
    the workspace), however many other pairs there are and whatever happens to them (carried out,
    skipped, overwritten with `--force`): a new entity records the destination with the source's
    metadata, digest, text/binary mode and — unless overridden — method; the cache is untouched; and unless
    `--no-recheck`, with the source's object in the cache and the same extension, the destination's cache
    address is the source's and the destination yields the object's bytes. -/
theorem C19_copyMany_shares_partial (c : Cfg) (o : CopyOpts) (fx : Bool) (dp : Path) (s : St)
    (pairs : List (Path × Path)) (x : Sel)
    (hdir : s.findEnt dp = none)
    (hunch : ∀ z ∈ s.select pairs, s.sourceChanged c z.r = false)
    (hdist : (s.select pairs).Pairwise (fun a b => a.dst ≠ b.dst))
    (hx : x ∈ s.select pairs) (hnew : s.findEnt x.dst = none) (hfree : s.ws x.dst = none)
    (hok : (s.copyMany c o fx (some dp) pairs).2 ≠ .panic) :
    let s' := (s.copyMany c o fx (some dp) pairs).1
    (∃ e, s.next ≤ e ∧ s'.recs e = some (copyRec o x)) ∧ s'.cache = s.cache ∧
    (o.noRecheck = false → ∀ d ob, x.r.cur = some d → s.cache (addrOf x.r.path d) = some ob → ext x.dst = ext x.r.path →
      addrOf x.dst d = addrOf x.r.path d ∧ ∃ n, s'.readThrough x.dst = some (ob.b, n)) := by
  have hany : (s.select pairs).any (fun z => s.sourceChanged c z.r) = false := by
    cases h : (s.select pairs).any (fun z => s.sourceChanged c z.r) with
    | false => rfl
    | true =>
      obtain ⟨z, hz, hzc⟩ := List.any_eq_true.mp h
      rw [hunch z hz] at hzc; cases hzc
  have hdup : hasDup ((s.select pairs).map (·.dst)) = false :=
    hasDup_false_of_pairwise (List.pairwise_map.mpr hdist)
  unfold St.copyMany at hok ⊢
  simp only [hdir, hany, hdup, Option.isSome_none, Bool.false_eq_true, if_false, Bool.and_false] at hok ⊢
  -- the loop over the plan
  let R : Sel × Dest → Sel × Dest → Prop := fun a b => a.1.dst ≠ b.1.dst ∧ (∀ de, b.2 = Dest.over de → de < s.next)
  let Pre : Sel × Dest → St → Prop := fun a s1 =>
    a.2 = Dest.fresh ∧ s.next ≤ s1.next ∧ s1.ws a.1.dst = none ∧ s1.cache = s.cache
  let Q : Sel × Dest → St → Prop := fun a s1 =>
    (∃ e, s.next ≤ e ∧ e < s1.next ∧ s1.recs e = some (copyRec o a.1)) ∧ s1.cache = s.cache ∧
    (o.noRecheck = false → ∀ d ob, a.1.r.cur = some d → s.cache (addrOf a.1.dst d) = some ob →
      ∃ n, s1.readThrough a.1.dst = some (ob.b, n))
  have hstep : ∀ s1 a, Pre a s1 → (s1.copyOne o a).2 ≠ .panic → Q a (s1.copyOne o a).1 := by
    intro s1 a ⟨ha, hn, hw, hc⟩ hnp
    obtain ⟨z, dz⟩ := a
    simp only at ha; subst ha
    refine ⟨⟨s1.next, hn, ?_, copyOne_fresh_rec o s1 z⟩, by rw [copyOne_cache]; exact hc, ?_⟩
    · rw [copyOne_next]; exact Nat.lt_succ_self _
    · intro hnr d ob hcur hob
      unfold St.copyOne at hnp ⊢
      simp only [hnr, hcur, Bool.false_eq_true, if_false] at hnp ⊢
      have hob' : ((s1.setRec s1.next (some (copyRec o z))).bumpNext).cache (addrOf z.dst d) = some ob := by
        simpa [hc] using hob
      have hp : (((s1.setRec s1.next (some (copyRec o z))).bumpNext).ws z.dst).isSome →
          (((s1.setRec s1.next (some (copyRec o z))).bumpNext).readThrough z.dst).isSome := by
        intro h; simp [hw] at h
      exact (C17_method_materialises _ z.dst (addrOf z.dst d) ob (o.method.getD z.r.method) hob' hp).2.2.1
  have hframeP : ∀ s1 a b, R a b → Pre a s1 → Pre a (s1.copyOne o b).1 := by
    intro s1 a b ⟨hne, _⟩ ⟨ha, hn, hw, hc⟩
    refine ⟨ha, Nat.le_trans hn (copyOne_next_le o s1 b), ?_, by rw [copyOne_cache]; exact hc⟩
    rw [copyOne_ws_other o s1 b a.1.dst hne]; exact hw
  have hframeQ : ∀ s1 a b, R a b → Q a s1 → Q a (s1.copyOne o b).1 := by
    intro s1 a b ⟨hne, hov⟩ ⟨⟨e, he1, he2, he3⟩, hc, hb⟩
    refine ⟨⟨e, he1, Nat.lt_of_lt_of_le he2 (copyOne_next_le o s1 b), ?_⟩, by rw [copyOne_cache]; exact hc, ?_⟩
    · rw [copyOne_recs_other o s1 b e ?_]
      · exact he3
      · unfold St.copyTarget
        cases hb2 : b.2 with
        | fresh => exact Nat.ne_of_lt he2
        | over de => exact Nat.ne_of_gt (Nat.lt_of_lt_of_le (hov de hb2) he1)
    · intro hnr d ob hcur hob
      obtain ⟨n, hn⟩ := hb hnr d ob hcur hob
      exact ⟨n, by rw [readThrough_congr (copyOne_ws_other o s1 b a.1.dst hne) (copyOne_cache o s1 b)]; exact hn⟩
  have hpw : (s.copyPlan o.force (s.select pairs)).Pairwise (fun a b => R a b ∧ R b a) := by
    have h1 := copyPlan_pairwise (s := s) (force := o.force) (fun a b => a.dst ≠ b.dst) hdist
    refine List.Pairwise.imp_of_mem ?_ h1
    intro a b ha hb hab
    have hov : ∀ y ∈ s.copyPlan o.force (s.select pairs), ∀ de, y.2 = Dest.over de → de < s.next := by
      intro y hy de hde
      have := (copyPlan_mem hy).2
      rw [hde] at this
      exact (copyDecide_over this).1
    exact ⟨⟨hab, hov b hb⟩, ⟨fun h => hab h.symm, hov a ha⟩⟩
  have hmem : (x, Dest.fresh) ∈ s.copyPlan o.force (s.select pairs) :=
    copyPlan_of_mem hx (copyDecide_free hnew hfree)
  have hQ := forEach_post_pw (St.copyOne o) R Pre Q hstep hframeP hframeQ _ hpw s hok (x, Dest.fresh) hmem
    ⟨rfl, Nat.le_refl _, hfree, rfl⟩
  obtain ⟨⟨e, he1, _, he3⟩, hc, hb⟩ := hQ
  refine ⟨⟨e, he1, he3⟩, hc, ?_⟩
  intro hnr d ob hcur hob hext
  have haddr : addrOf x.dst d = addrOf x.r.path d := by simp [addrOf, hext]
  exact ⟨haddr, hb hnr d ob hcur (by rw [haddr]; exact hob)⟩

/-! ## `move` keeps the number of tracked files, whatever is selected -/

/-- **C19_moveMany_count_preserved**: `move` — any destination, any pair list, any options, whether it
    succeeds, refuses or stops half-way (K9) — never creates or drops an entity: exactly the same entities
    are recorded afterwards, so the number of tracked files is unchanged; the cache is untouched. -/
theorem C19_moveMany_count_preserved (c : Cfg) (o : CopyOpts) (dir : Option Path) (s : St) (pairs : List (Path × Path)) :
    let s' := (s.moveMany c o dir pairs).1
    s'.ents = s.ents ∧ s'.ents.length = s.ents.length ∧ s'.next = s.next := by
  have main : (s.moveMany c o dir pairs).1.next = s.next ∧
      ∀ e, ((s.moveMany c o dir pairs).1.recs e).isSome = (s.recs e).isSome := by
    unfold St.moveMany
    cases dir with
    | none =>
      simp only
      split
      · exact ⟨rfl, fun _ => rfl⟩
      · exact move_isSome c o s _ _
      · exact ⟨rfl, fun _ => rfl⟩
    | some dp =>
      simp only
      split
      · exact ⟨rfl, fun _ => rfl⟩
      split
      · exact ⟨rfl, fun _ => rfl⟩
      exact forEachStop_inv (St.moveOne o)
        (fun s' => s'.next = s.next ∧ ∀ e, (s'.recs e).isSome = (s.recs e).isSome)
        (fun x => (s.recs x.se).isSome = true)
        (by
          intro s1 x hx ⟨hn, hr⟩
          refine ⟨by rw [moveOne_next]; exact hn, fun e => ?_⟩
          rw [moveOne_recs]
          unfold upd
          by_cases h : e = x.se
          · simp [h, hx]
          · simp [h, hr e])
        _ (fun x hx => by rw [(select_mem hx).1]; rfl) s ⟨rfl, fun _ => rfl⟩
  obtain ⟨hn, hr⟩ := main
  have hents : (s.moveMany c o dir pairs).1.ents = s.ents := by
    unfold St.ents
    rw [hn]
    exact List.filter_congr (fun e _ => hr e)
  exact ⟨hents, by rw [hents], hn⟩

/-- **C19_moveMany_moves**: a `move` to a directory that succeeds, with the selected sources pairwise
    different entities: EVERY selected source's entity is re-attached to its destination (same metadata,
    digests and mode; method unless overridden), the source path is empty in the workspace and — when no
    path was recorded twice before — no entity is recorded for it any more; every other entity is untouched. -/
theorem C19_moveMany_moves (c : Cfg) (o : CopyOpts) (dp : Path) (s : St) (pairs : List (Path × Path))
    (hsrc : (s.select pairs).Pairwise (fun a b => a.se ≠ b.se))
    (hok : (s.moveMany c o (some dp) pairs).2 = .ok) :
    let s' := (s.moveMany c o (some dp) pairs).1
    (∀ x ∈ s.select pairs,
      s'.recs x.se = some { x.r with path := x.dst, method := o.method.getD x.r.method } ∧ s'.ws x.r.path = none ∧
      (PathInj s → ∀ e r', s'.recs e = some r' → r'.path ≠ x.r.path)) ∧
    (∀ e, (∀ x ∈ s.select pairs, x.se ≠ e) → s'.recs e = s.recs e) := by
  unfold St.moveMany at hok ⊢
  simp only at hok ⊢
  by_cases hd : (s.findEnt dp).isSome = true
  · simp [hd] at hok
  simp only [hd, Bool.false_eq_true, if_false] at hok ⊢
  cases hrf : s.moveRefused c o (s.select pairs) with
  | true => simp [hrf] at hok
  | false =>
  simp only [hrf, Bool.false_eq_true, if_false] at hok ⊢
  -- every destination is free
  have hfreeDst : ∀ x ∈ s.select pairs, s.findEnt x.dst = none := by
    intro x hx
    unfold St.moveRefused at hrf
    have h2 : (s.select pairs).any (fun z => (s.findEnt z.dst).isSome || (s.ws z.dst).isSome) = false := by
      cases h : (s.select pairs).any (fun z => (s.findEnt z.dst).isSome || (s.ws z.dst).isSome) with
      | false => rfl
      | true => simp [h] at hrf
    have := List.any_eq_false.mp h2 x hx
    cases hf : s.findEnt x.dst with
    | none => rfl
    | some e => simp [hf] at this
  have hne : ∀ x ∈ s.select pairs, ∀ y ∈ s.select pairs, x.r.path ≠ y.dst := by
    intro x hx y hy h
    have h1 := (select_mem hx).2.1
    rw [h, hfreeDst y hy] at h1; cases h1
  -- unselected entities
  have hother : ∀ e, (∀ x ∈ s.select pairs, x.se ≠ e) →
      (forEachStop (St.moveOne o) s (s.select pairs)).1.recs e = s.recs e := by
    intro e he
    exact forEachStop_inv (St.moveOne o) (fun s' => s'.recs e = s.recs e) (fun x => x.se ≠ e)
      (by intro s1 x hx h1; rw [moveOne_recs]; unfold upd; simp [Ne.symm hx, h1]) _ he s rfl
  -- selected entities
  let R : Sel → Sel → Prop := fun a b => a.se ≠ b.se ∧ a.r.path ≠ b.r.path ∧ a.r.path ≠ b.dst
  let Pre : Sel → St → Prop := fun a _ => a.r.path ≠ a.dst
  let Q : Sel → St → Prop := fun a s1 =>
    s1.recs a.se = some { a.r with path := a.dst, method := o.method.getD a.r.method } ∧ s1.ws a.r.path = none
  have hstep : ∀ s1 a, Pre a s1 → (s1.moveOne o a).2 = .ok → Q a (s1.moveOne o a).1 := by
    intro s1 a hpre hok1
    exact ⟨by rw [moveOne_recs]; simp, moveOne_source_gone o s1 a hpre hok1⟩
  have hframeQ : ∀ s1 a b, R a b → Q a s1 → Q a (s1.moveOne o b).1 := by
    intro s1 a b ⟨h1, h2, h3⟩ ⟨hq1, hq2⟩
    refine ⟨?_, ?_⟩
    · rw [moveOne_recs]; unfold upd; simp [h1, hq1]
    · rw [moveOne_ws_other o s1 b a.r.path h2 h3]; exact hq2
  have hpw : (s.select pairs).Pairwise (fun a b => R a b ∧ R b a) := by
    refine List.Pairwise.imp_of_mem ?_ hsrc
    intro a b ha hb hab
    have hp : a.r.path ≠ b.r.path := by
      intro h
      have h1 := (select_mem ha).2.1
      rw [h, (select_mem hb).2.1] at h1
      exact hab (Option.some.inj h1).symm
    exact ⟨⟨hab, hp, hne a ha b hb⟩, ⟨fun h => hab h.symm, fun h => hp h.symm, hne b hb a ha⟩⟩
  have hall := forEachStop_post_pw (St.moveOne o) R Pre Q hstep (fun _ _ _ _ h => h) hframeQ _ hpw s hok
  refine ⟨fun x hx => ?_, hother⟩
  obtain ⟨hq1, hq2⟩ := hall x hx (hne x hx x hx)
  refine ⟨hq1, hq2, ?_⟩
  intro hinj e r' hr' hpath
  by_cases hsel : ∃ z ∈ s.select pairs, z.se = e
  · obtain ⟨z, hz, hze⟩ := hsel
    have := (hall z hz (hne z hz z hz)).1
    rw [hze, hr'] at this
    have hp : r'.path = z.dst := by rw [Option.some.inj this]
    exact hne x hx z hz (by rw [← hpath, hp])
  · have hns : ∀ z ∈ s.select pairs, z.se ≠ e := fun z hz h => hsel ⟨z, hz, h⟩
    rw [hother e hns] at hr'
    have := hinj e x.se r' x.r hr' (select_mem hx).1 hpath
    exact hns x hx this.symm

/-- **C19_moveMany_materialises**: a `move` to a directory that succeeds (with recheck), sources pairwise
    different entities, destinations pairwise distinct: for EVERY selected source, the destination holds
    the source's own workspace entry when the file was renamed (copy → copy: the bytes that were at the
    source), and otherwise — also when the source was absent from the workspace — an entry that yields
    the bytes of the object of the recorded digest. -/
theorem C19_moveMany_materialises (c : Cfg) (o : CopyOpts) (dp : Path) (s : St) (pairs : List (Path × Path))
    (hsrc : (s.select pairs).Pairwise (fun a b => a.se ≠ b.se))
    (hdist : (s.select pairs).Pairwise (fun a b => a.dst ≠ b.dst))
    (hnr : o.noRecheck = false)
    (hok : (s.moveMany c o (some dp) pairs).2 = .ok) :
    let s' := (s.moveMany c o (some dp) pairs).1
    ∀ x ∈ s.select pairs,
      ((x.r.method = .copy ∧ o.method.getD x.r.method = .copy) → s'.ws x.dst = s.ws x.r.path ∧ (s.ws x.r.path).isSome) ∧
      (¬(x.r.method = .copy ∧ o.method.getD x.r.method = .copy) → ∀ d ob, x.r.cur = some d →
        s.cache (addrOf x.dst d) = some ob → ∃ n, s'.readThrough x.dst = some (ob.b, n)) := by
  unfold St.moveMany at hok ⊢
  simp only at hok ⊢
  by_cases hd : (s.findEnt dp).isSome = true
  · simp [hd] at hok
  simp only [hd, Bool.false_eq_true, if_false] at hok ⊢
  cases hrf : s.moveRefused c o (s.select pairs) with
  | true => simp [hrf] at hok
  | false =>
  simp only [hrf, Bool.false_eq_true, if_false] at hok ⊢
  have hfreeDst : ∀ x ∈ s.select pairs, s.findEnt x.dst = none ∧ s.ws x.dst = none := by
    intro x hx
    unfold St.moveRefused at hrf
    have h2 : (s.select pairs).any (fun z => (s.findEnt z.dst).isSome || (s.ws z.dst).isSome) = false := by
      cases h : (s.select pairs).any (fun z => (s.findEnt z.dst).isSome || (s.ws z.dst).isSome) with
      | false => rfl
      | true => simp [h] at hrf
    have := List.any_eq_false.mp h2 x hx
    constructor
    · cases hf : s.findEnt x.dst with
      | none => rfl
      | some e => simp [hf] at this
    · cases hf : s.ws x.dst with
      | none => rfl
      | some e => simp [hf] at this
  have hne : ∀ x ∈ s.select pairs, ∀ y ∈ s.select pairs, x.r.path ≠ y.dst := by
    intro x hx y hy h
    have h1 := (select_mem hx).2.1
    rw [h, (hfreeDst y hy).1] at h1; cases h1
  let R : Sel → Sel → Prop := fun a b => a.r.path ≠ b.r.path ∧ a.r.path ≠ b.dst ∧ a.dst ≠ b.r.path ∧ a.dst ≠ b.dst
  let Pre : Sel → St → Prop := fun a s1 =>
    a.r.path ≠ a.dst ∧ s1.ws a.r.path = s.ws a.r.path ∧ s1.ws a.dst = none ∧ s1.cache = s.cache
  let Q : Sel → St → Prop := fun a s1 =>
    s1.cache = s.cache ∧
    ((a.r.method = .copy ∧ o.method.getD a.r.method = .copy) → s1.ws a.dst = s.ws a.r.path ∧ (s.ws a.r.path).isSome) ∧
    (¬(a.r.method = .copy ∧ o.method.getD a.r.method = .copy) → ∀ d ob, a.r.cur = some d →
      s.cache (addrOf a.dst d) = some ob → ∃ n, s1.readThrough a.dst = some (ob.b, n))
  have hstep : ∀ s1 a, Pre a s1 → (s1.moveOne o a).2 = .ok → Q a (s1.moveOne o a).1 := by
    intro s1 a ⟨h1, h2, h3, h4⟩ hok1
    obtain ⟨m1, m2⟩ := moveOne_materialises o s1 a h1 hnr h3 hok1
    refine ⟨by rw [moveOne_cache]; exact h4, fun hb => ?_, fun hb d ob hcur hob => ?_⟩
    · rw [← h2]; exact m1 hb
    · exact m2 hb d ob hcur (by rw [h4]; exact hob)
  have hframeP : ∀ s1 a b, R a b → Pre a s1 → Pre a (s1.moveOne o b).1 := by
    intro s1 a b ⟨r1, r2, r3, r4⟩ ⟨h1, h2, h3, h4⟩
    exact ⟨h1, by rw [moveOne_ws_other o s1 b _ r1 r2]; exact h2, by rw [moveOne_ws_other o s1 b _ r3 r4]; exact h3,
      by rw [moveOne_cache]; exact h4⟩
  have hframeQ : ∀ s1 a b, R a b → Q a s1 → Q a (s1.moveOne o b).1 := by
    intro s1 a b ⟨_, _, r3, r4⟩ ⟨q0, q1, q2⟩
    have hw := moveOne_ws_other o s1 b a.dst r3 r4
    refine ⟨by rw [moveOne_cache]; exact q0, fun hb => ?_, fun hb d ob hcur hob => ?_⟩
    · rw [hw]; exact q1 hb
    · obtain ⟨n, hn⟩ := q2 hb d ob hcur hob
      exact ⟨n, by rw [readThrough_congr hw (moveOne_cache o s1 b)]; exact hn⟩
  have hpw : (s.select pairs).Pairwise (fun a b => R a b ∧ R b a) := by
    have hboth := List.Pairwise.and hsrc hdist
    refine List.Pairwise.imp_of_mem ?_ hboth
    intro a b ha hb ⟨hab, hdd⟩
    have hp : a.r.path ≠ b.r.path := by
      intro h
      have h1 := (select_mem ha).2.1
      rw [h, (select_mem hb).2.1] at h1
      exact hab (Option.some.inj h1).symm
    exact ⟨⟨hp, hne a ha b hb, fun h => hne b hb a ha h.symm, hdd⟩,
           ⟨fun h => hp h.symm, hne b hb a ha, fun h => hne a ha b hb h.symm, fun h => hdd h.symm⟩⟩
  have hall := forEachStop_post_pw (St.moveOne o) R Pre Q hstep hframeP hframeQ _ hpw s hok
  intro x hx
  exact (hall x hx ⟨hne x hx x hx, rfl, (hfreeDst x hx).2, rfl⟩).2

/-! ## `--name-only` with two equal file names -/

/-- **C19_name_only_collision_counterexample** (the code up to `57353a5e`, `collisionsRefused = false`; finding F28):
    `d/a.txt` and `d2/a.txt` (paths 0 and 1, different contents) are copied with `--name-only` to
    `on/` — both pairs get the destination `on/a.txt` (path 2), both are "not recorded yet", each gets its
    own new entity: the command succeeds and `on/a.txt` is recorded TWICE, with different digests. -/
theorem C19_name_only_collision_counterexample :
    let s0 := (St.init.userWrite ⟨0, 1⟩ [97]).userWrite ⟨1, 1⟩ [98]
    let s1 := (s0.track {} {} [⟨0, 1⟩, ⟨1, 1⟩]).1
    let res := s1.copyMany {} {} false (some ⟨3, 0⟩) [(⟨0, 1⟩, ⟨2, 1⟩), (⟨1, 1⟩, ⟨2, 1⟩)]
    res.2 = .ok ∧ (res.1.recs 3).map (·.path) = some ⟨2, 1⟩ ∧ (res.1.recs 4).map (·.path) = some ⟨2, 1⟩ ∧
    (res.1.recs 3).map (·.cur) ≠ (res.1.recs 4).map (·.cur) := by
  decide

/-- **C19_collision_refused**: with the repair `6bdf9b9d` (`collisionsRefused = true`) a `copy` to a directory in
    which two selected sources get the same destination refuses and changes nothing. -/
theorem C19_collision_refused (c : Cfg) (o : CopyOpts) (dp : Path) (s : St) (pairs : List (Path × Path))
    (h : hasDup ((s.select pairs).map (·.dst)) = true) :
    (s.copyMany c o true (some dp) pairs).1 = s ∧ (s.copyMany c o true (some dp) pairs).2 = .refused := by
  unfold St.copyMany
  dsimp only
  rw [h]
  split
  · exact ⟨rfl, rfl⟩
  split
  · exact ⟨rfl, rfl⟩
  exact ⟨rfl, rfl⟩

/-- K9 with several sources (why `C19_moveMany_moves` asks for a command that succeeded): the second source is
    absent from the workspace and would be renamed (copy → copy) — `fs::rename` fails after the first pair was moved
    and after the second pair's path record was written: the command stops half-way. -/
theorem C19_moveMany_absent_source_counterexample :
    let s := (((St.init.userWrite ⟨0, 1⟩ [97]).userWrite ⟨1, 1⟩ [98]).track {} {} [⟨0, 1⟩, ⟨1, 1⟩]).1.userDelete ⟨1, 1⟩
    let res := s.moveMany {} {} (some ⟨5, 0⟩) [(⟨0, 1⟩, ⟨2, 1⟩), (⟨1, 1⟩, ⟨3, 1⟩)]
    res.2 = .refused ∧ res.1.findEnt ⟨2, 1⟩ = some 1 ∧ res.1.findEnt ⟨3, 1⟩ = some 2 ∧ res.1.ws ⟨3, 1⟩ = none := by
  decide

/-! ## non-vacuity: concrete states that satisfy the hypotheses -/

/-- two tracked files in `d/` (paths 0, 1), one of them absent from the workspace -/
def exS : St :=
  (((St.init.userWrite ⟨0, 1⟩ [97]).userWrite ⟨1, 1⟩ [98]).track {} {} [⟨0, 1⟩, ⟨1, 1⟩]).1.userDelete ⟨1, 1⟩

def exPairs : List (Path × Path) := [(⟨0, 1⟩, ⟨2, 1⟩), (⟨1, 1⟩, ⟨3, 1⟩), (⟨9, 1⟩, ⟨4, 1⟩)]

/-- hypotheses of `C19_copyMany_shares_partial`: two selected sources (the third candidate is not tracked), distinct
    free destinations, nothing changed (an absent source is not "changed"), the command does not panic, the object
    of the absent source is in the cache -/
example : (exS.select exPairs).length = 2 ∧ exS.findEnt ⟨5, 0⟩ = none ∧
    (∀ z ∈ exS.select exPairs, exS.sourceChanged {} z.r = false) ∧
    (exS.select exPairs).Pairwise (fun a b => a.dst ≠ b.dst) ∧
    (∀ z ∈ exS.select exPairs, exS.findEnt z.dst = none ∧ exS.ws z.dst = none) ∧
    (exS.copyMany {} {} true (some ⟨5, 0⟩) exPairs).2 = .ok ∧
    ((exS.copyMany {} {} true (some ⟨5, 0⟩) exPairs).1.readThrough ⟨3, 1⟩).map (·.1) = some [98] := by
  decide

/-- hypotheses of `C19_moveMany_moves` / conclusion of `C19_moveMany_count_preserved` on a concrete state:
    both sources (one absent from the workspace) are moved with `--recheck-method symlink`, two files stay tracked -/
example : (exS.select exPairs).Pairwise (fun a b => a.se ≠ b.se) ∧
    (exS.moveMany {} { method := some .symlink } (some ⟨5, 0⟩) exPairs).2 = .ok ∧
    (exS.moveMany {} { method := some .symlink } (some ⟨5, 0⟩) exPairs).1.ents.length = 2 ∧
    (exS.moveMany {} { method := some .symlink } (some ⟨5, 0⟩) exPairs).1.findEnt ⟨0, 1⟩ = none ∧
    (exS.moveMany {} { method := some .symlink } (some ⟨5, 0⟩) exPairs).1.findEnt ⟨3, 1⟩ = some 2 := by
  decide

/-- hypotheses of `C19_moveMany_materialises`, rename case: both sources present, method copy → copy -/
example :
    let s := (((St.init.userWrite ⟨0, 1⟩ [97]).userWrite ⟨1, 1⟩ [98]).track {} {} [⟨0, 1⟩, ⟨1, 1⟩]).1
    (s.select exPairs).Pairwise (fun a b => a.dst ≠ b.dst) ∧ (s.moveMany {} {} (some ⟨5, 0⟩) exPairs).2 = .ok ∧
    ((s.moveMany {} {} (some ⟨5, 0⟩) exPairs).1.readThrough ⟨3, 1⟩).map (·.1) = some [98] ∧
    (s.moveMany {} {} (some ⟨5, 0⟩) exPairs).1.ws ⟨1, 1⟩ = none := by
  decide

/-- hypotheses of the refusal theorems: a modified source among the selected ones / an occupied destination -/
example : ∃ x ∈ (exS.userWrite ⟨0, 1⟩ [99]).select exPairs, (exS.userWrite ⟨0, 1⟩ [99]).sourceChanged {} x.r = true :=
  ⟨⟨1, { path := ⟨0, 1⟩, md := .stamp 1, digests := [⟨0, [97]⟩], method := .copy, tob := .auto }, ⟨2, 1⟩⟩, by decide, by decide⟩

example : ∃ x ∈ (exS.userWrite ⟨3, 1⟩ [100]).select exPairs, ((exS.userWrite ⟨3, 1⟩ [100]).ws x.dst).isSome = true :=
  ⟨⟨2, { path := ⟨1, 1⟩, md := .stamp 2, digests := [⟨0, [98]⟩], method := .copy, tob := .auto }, ⟨3, 1⟩⟩, by decide, by decide⟩

/-- hypothesis of `C19_collision_refused` -/
example : hasDup ((exS.select [(⟨0, 1⟩, ⟨2, 1⟩), (⟨1, 1⟩, ⟨2, 1⟩)]).map (·.dst)) = true := by decide

end Repo

open Repo in
#print axioms C19_copyMany_single
open Repo in
#print axioms C19_moveMany_single
open Repo in
#print axioms C19_many_refuse_changed
open Repo in
#print axioms C19_moveMany_all_or_nothing
open Repo in
#print axioms C19_copyMany_no_force_frame
open Repo in
#print axioms C19_copyMany_shares_partial
open Repo in
#print axioms C19_moveMany_count_preserved
open Repo in
#print axioms C19_moveMany_moves
open Repo in
#print axioms C19_moveMany_materialises
open Repo in
#print axioms C19_name_only_collision_counterexample
open Repo in
#print axioms C19_collision_refused
open Repo in
#print axioms C19_moveMany_absent_source_counterexample
