import XvcRepo.Cache
/-!
  # C02 — a changed file committed with a mode option is addressed under the REQUESTED mode

  `carry-in --text-or-binary t` (and `track`) record `t` as the mode of the file.  The address of the version they commit
  is the digest of its bytes under the mode that is RECORDED for the path afterwards, i.e. under `t`: `diff_content_digest`
  takes "requested, else recorded, else configured".  `C04_carryIn_mode_change_rehashes` (F24) says so for unchanged
  metadata; here the content has changed as well.  Taking "recorded, else requested, else configured" (seeded change C02-6)
  hashes the new bytes under the OLD mode and records the new one next to that digest
  (`C02_recorded_mode_first_counterexample`).
-/
namespace Repo

/-- what `carry-in` finds for a readable file whose metadata changed or whose recorded mode is not the requested one:
    the digest under the REQUESTED mode `t`, either equal to the recorded one or reported as different -/
theorem carryDiff_changed {c : Cfg} {s : St} {r : Rec} {t : Tob} {b : Bytes} {n : Nat}
    (hr : s.readThrough r.path = some (b, n)) (hch : r.md ≠ .stamp n ∨ r.tob ≠ t) :
    (s.carryDiff c r t = .same ∧ r.cur = some (digestOf c.algo t b)) ∨
    s.carryDiff c r t = .different (digestOf c.algo t b) := by
  unfold St.carryDiff
  by_cases ht : r.tob = t
  · have hmd : r.md ≠ .stamp n := by
      cases hch with
      | inl h => exact h
      | inr h => exact absurd ht h
    simp only [ht, if_true, St.digestDiff, hr, hmd, if_false]
    by_cases hc : r.cur = some (digestOf c.algo t b)
    · simp [hc]
    · simp [hc]
  · simp only [ht, if_false, hr]
    by_cases hc : r.cur = some (digestOf c.algo t b)
    · simp [hc]
    · simp [hc]

/-- **C02_changed_content_hashed_under_requested_mode**: `carry-in [--text-or-binary t] [--force]` on a tracked path that
    reads as bytes `b` and whose metadata differs from the recorded one (the content was edited), WHATEVER mode is on
    record for it: afterwards the recorded mode is the requested one (option, else configuration) and the recorded current
    digest is the digest of `b` under THAT mode — so the version's address `addrOf p d` is the documented digest of its
    bytes under the mode recorded for the path. -/
theorem C02_changed_content_hashed_under_requested_mode (c : Cfg) (tob : Option Tob) (force : Bool) (s : St) (p : Path)
    (e : Ent) (r : Rec) (b : Bytes) (n : Nat) (hpath : r.path = p) (hr : s.readThrough p = some (b, n))
    (hch : r.md ≠ .stamp n ∨ r.tob ≠ tob.getD c.tob) :
    ∃ r', (s.carryInRec c tob force p e r).1.recs e = some r' ∧ r'.tob = tob.getD c.tob ∧
      r'.cur = some (digestOf c.algo (tob.getD c.tob) b) := by
  have hr' : s.readThrough r.path = some (b, n) := by rw [hpath]; exact hr
  unfold St.carryInRec
  simp only
  rcases carryDiff_changed (c := c) hr' hch with ⟨hs, hc⟩ | hd
  · simp only [hs, hc]
    split
    · exact ⟨{ r with md := s.actualMeta p, tob := tob.getD c.tob }, by simp [St.setRec, upd], rfl, by simpa [Rec.cur] using hc⟩
    · exact ⟨{ r with md := s.actualMeta p, tob := tob.getD c.tob }, by simp [St.setRec, upd], rfl, by simpa [Rec.cur] using hc⟩
  · simp only [hd]
    have htc : (force || decide (DDiff.different (digestOf c.algo (tob.getD c.tob) b) ≠ .same) || decide (r.tob ≠ tob.getD c.tob)) = true := by
      simp
    simp only [htc, Bool.not_true, Bool.false_eq_true, if_false]
    exact ⟨{ r with md := s.actualMeta p, tob := tob.getD c.tob, digests := r.digests ++ [digestOf c.algo (tob.getD c.tob) b] },
      by simp [St.setRec, upd], rfl, by simp [Rec.cur]⟩

/-! ## the seeded selection on the model -/

/-- `cmd_carry_in` for one target when `diff_content_digest` hashes under "the RECORDED mode, else the requested one":
    a tracked path always has a recorded mode, so a changed file is hashed under `r.tob`; the command still records the
    requested mode. -/
def St.carryInRecRecordedFirst (c : Cfg) (tob : Option Tob) (force : Bool) (s : St) (p : Path) (e : Ent) (r : Rec) : St × Out :=
  let reqT := tob.getD c.tob
  let dd := s.digestDiff c r r.tob
  let toCarry := force || dd ≠ .same || decide (r.tob ≠ reqT)
  let r' : Rec := { r with md := s.actualMeta p, tob := reqT,
                           digests := match dd with
                             | .different a => r.digests ++ [a]
                             | _ => r.digests }
  if !toCarry then (s.setRec e (some r'), .ok)
  else
    match dd, r.cur with
    | .actualMissing, _ => (s, .panic)
    | .different a, _ =>
      (((s.carryOne p (addrOf p a) r.method force).1).setRec e (some r'), (s.carryOne p (addrOf p a) r.method force).2)
    | .same, some d =>
      (((s.carryOne p (addrOf p d) r.method force).1).setRec e (some r'), (s.carryOne p (addrOf p d) r.method force).2)
    | .same, none => (s, .panic)

/-- **C02_recorded_mode_first_counterexample**: `a CR LF` tracked with `--text-or-binary binary`, edited to `b CR LF`,
    `carry-in --text-or-binary text`.  The code as it is records mode text and the digest of `b` (the bytes without CR LF),
    and the object sits at that address.  "Recorded mode first" records mode text next to the digest of the RAW bytes
    `b CR LF`: the object of the current version is not at the text digest of its bytes. -/
theorem C02_recorded_mode_first_counterexample :
    let p : Path := ⟨0, 1⟩
    let s := (((St.init.userWrite p [97, 13, 10]).track {} { tob := some .binary } [p]).1).userWrite p [98, 13, 10]
    let r : Rec := { path := p, md := .stamp 1, digests := [⟨0, [97, 13, 10]⟩], method := .copy, tob := .binary }
    s.recs 1 = some r ∧
    ((s.carryInRec {} (some .text) false p 1 r).1.recs 1).map (fun x => (x.tob, x.cur)) = some (.text, some (digestOf 0 .text [98, 13, 10])) ∧
    ((s.carryInRec {} (some .text) false p 1 r).1.cache (addrOf p (digestOf 0 .text [98, 13, 10]))).map (·.b) = some [98, 13, 10] ∧
    ((s.carryInRecRecordedFirst {} (some .text) false p 1 r).1.recs 1).map (fun x => (x.tob, x.cur)) = some (.text, some ⟨0, [98, 13, 10]⟩) ∧
    (s.carryInRecRecordedFirst {} (some .text) false p 1 r).1.cache (addrOf p (digestOf 0 .text [98, 13, 10])) = none ∧
    digestOf 0 .text [98, 13, 10] ≠ ⟨0, [98, 13, 10]⟩ := by
  decide

/-- non-vacuity of `C02_changed_content_hashed_under_requested_mode`: the edited file of the counterexample meets its
    hypotheses (readable, metadata changed, recorded mode binary, requested mode text) -/
example :
    let p : Path := ⟨0, 1⟩
    let s := (((St.init.userWrite p [97, 13, 10]).track {} { tob := some .binary } [p]).1).userWrite p [98, 13, 10]
    s.readThrough p = some ([98, 13, 10], 3) ∧ (MetaRec.stamp 1 ≠ .stamp 3 ∨ Tob.binary ≠ (some Tob.text).getD ({} : Cfg).tob) := by
  decide

end Repo

open Repo in
#print axioms C02_changed_content_hashed_under_requested_mode
open Repo in
#print axioms C02_recorded_mode_first_counterexample
