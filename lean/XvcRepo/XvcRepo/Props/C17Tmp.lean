import XvcRepo.TmpLemmas
/-!
  C17 (a file is materialised as exactly the recorded object, by the recorded method) for the targets of ONE command
  that are copied out of the cache at the same time.  `track`, `carry-in` and `recheck --no-parallel` run the copy step
  of several paths on rayon threads; the repository model (`forEach`) runs them one after the other.  The theorems
  below justify that: the directory entries two different targets touch are disjoint, therefore every schedule of any
  number of such threads ends in the state of the sequential run, in which every path holds exactly its own object's
  bytes and no temporary entry is left.

  C03 side of the same step (repair F29): the temporary entry is created exclusively in xvc's own directory, so the
  copy step changes no workspace entry but its target, whatever names the user's files have; the scheme it replaced
  (a sibling `.<name>.xvc-tmp`, removed first) destroyed a user's file of that name (`C03_sibling_tmp_loses_user_file`).

  The tie (lib/c17.py, stream `tmp-name`) observes with strace which entries the rebuilt binary really renames from:
  they must be `.xvc/tmp/<pid>-<k>` with pairwise different `k`.  The stream `parallel-siblings` is the search for a
  failing input (same stem, different extensions, large files, parallel track).
-/
namespace XvcRepo.Tmp

variable {δ : Type} [DecidableEq δ]

omit [DecidableEq δ] in
/-- The entries of two different targets are disjoint: different workspace paths, different counter values.
    No hypothesis about file names. -/
theorem C17_footprints_disjoint (pid k₁ k₂ : Nat) (p q : Entry δ) (hpq : p ≠ q) (hk : k₁ ≠ k₂)
    (hp : p.isWs = true) (hq : q.isWs = true) :
    ∀ e ∈ footprint pid k₁ p, e ∉ footprint pid k₂ q := by
  intro e he heq
  simp only [footprint, List.mem_cons, List.mem_nil_iff, or_false] at he heq
  rcases he with rfl | rfl <;> rcases heq with h | h
  · exact hpq h
  · rw [h] at hp; simp [Entry.isWs] at hp
  · rw [← h] at hq; simp [Entry.isWs] at hq
  · exact hk (Entry.tmp.inj h).2

omit [DecidableEq δ] in
theorem copyProc_touches (pid k : Nat) (p : Entry δ) (b : Name) :
    ∀ o ∈ copyProc pid k p b, ∀ e ∈ o.touches, e ∈ footprint pid k p := by
  intro o ho e he
  simp only [copyProc, List.mem_cons, List.mem_nil_iff, or_false] at ho
  rcases ho with rfl | rfl | rfl <;> simp [FsOp.touches] at he <;> simp [footprint, he]
  rcases he with rfl | rfl <;> simp

/-- One copy step, from ANY tree (an old file at the path, a stale temporary entry): the path holds the object's
    bytes, the temporary entry is gone, nothing else changed. -/
theorem C17_copy_step (pid k : Nat) (p : Entry δ) (hp : p.isWs = true) (b : Name) (s : Tree δ) :
    run (copyProc pid k p b) s p = some b ∧ run (copyProc pid k p b) s (.tmp pid k) = none ∧
    ∀ x, x ∉ footprint pid k p → run (copyProc pid k p b) s x = s x := by
  have hne : Entry.tmp pid k ≠ p := by
    intro h; rw [← h] at hp; simp [Entry.isWs] at hp
  have hne' : p ≠ Entry.tmp pid k := fun h => hne h.symm
  refine ⟨?_, ?_, ?_⟩
  · simp [copyProc, run, FsOp.apply]
  · simp [copyProc, run, FsOp.apply, hne]
  · intro x hx
    simp only [footprint, List.mem_cons, List.mem_nil_iff, or_false, not_or] at hx
    simp [copyProc, run, FsOp.apply, hx.1, hx.2]

/-- the threads of one parallel command: the `i`-th copy gets the counter value `k₀ + i` (`fetch_add`) -/
def threadsFrom (pid : Nat) : Nat → List (Entry δ × Name) → List (List (FsOp δ))
  | _, [] => []
  | k, it :: rest => copyProc pid k it.1 it.2 :: threadsFrom pid (k + 1) rest

omit [DecidableEq δ] in
theorem threadsFrom_mem (pid : Nat) (k₀ : Nat) (items : List (Entry δ × Name)) (t : List (FsOp δ))
    (ht : t ∈ threadsFrom pid k₀ items) : ∃ k it, k₀ ≤ k ∧ it ∈ items ∧ t = copyProc pid k it.1 it.2 := by
  induction items generalizing k₀ with
  | nil => simp [threadsFrom] at ht
  | cons it rest ih =>
    simp only [threadsFrom, List.mem_cons] at ht
    rcases ht with rfl | ht
    · exact ⟨k₀, it, Nat.le_refl _, by simp, rfl⟩
    · obtain ⟨k, j, hk, hj, rfl⟩ := ih (k₀ + 1) ht
      exact ⟨k, j, by omega, by simp [hj], rfl⟩

theorem threads_comm (pid k₀ : Nat) (items : List (Entry δ × Name)) (hn : (items.map Prod.fst).Nodup)
    (hw : ∀ it ∈ items, it.1.isWs = true) : ThreadsComm (threadsFrom pid k₀ items) := by
  induction items generalizing k₀ with
  | nil => simp [threadsFrom, ThreadsComm]
  | cons it rest ih =>
    have hn2 : (rest.map Prod.fst).Nodup := (List.nodup_cons.mp (by simpa using hn)).2
    have hnot : it.1 ∉ rest.map Prod.fst := (List.nodup_cons.mp (by simpa using hn)).1
    unfold ThreadsComm
    simp only [threadsFrom, List.pairwise_cons]
    refine ⟨?_, ih (k₀ + 1) hn2 (fun j hj => hw j (by simp [hj]))⟩
    intro u hu x hx y hy
    obtain ⟨k, j, hk, hj, rfl⟩ := threadsFrom_mem pid (k₀ + 1) rest u hu
    apply comm_of_apart
    intro e he he2
    have hne : it.1 ≠ j.1 := by
      intro h; apply hnot; rw [h]; exact List.mem_map_of_mem hj
    exact C17_footprints_disjoint pid k₀ k it.1 j.1 hne (by omega) (hw it (by simp)) (hw j (by simp [hj])) e
      (copyProc_touches pid k₀ it.1 it.2 x hx e he) (copyProc_touches pid k j.1 j.2 y hy e he2)

/-- the sequential run: every path ends with its own bytes; entries outside all footprints keep theirs -/
theorem sequential_result (pid k₀ : Nat) (items : List (Entry δ × Name)) (hn : (items.map Prod.fst).Nodup)
    (hw : ∀ it ∈ items, it.1.isWs = true) (s : Tree δ) :
    (∀ it ∈ items, run (threadsFrom pid k₀ items).flatten s it.1 = some it.2) ∧
    (∀ x, x.isWs = true → x ∉ items.map Prod.fst → run (threadsFrom pid k₀ items).flatten s x = s x) ∧
    (∀ k, k₀ ≤ k → k < k₀ + items.length → run (threadsFrom pid k₀ items).flatten s (.tmp pid k) = none) ∧
    (∀ pid' k, (pid' ≠ pid ∨ k < k₀ ∨ k₀ + items.length ≤ k) →
        run (threadsFrom pid k₀ items).flatten s (.tmp pid' k) = s (.tmp pid' k)) := by
  induction items generalizing s k₀ with
  | nil => exact ⟨by simp, fun _ _ _ => rfl, fun k h1 h2 => by simp at h2; omega, fun _ _ _ => rfl⟩
  | cons it rest ih =>
    have hn2 : (rest.map Prod.fst).Nodup := (List.nodup_cons.mp (by simpa using hn)).2
    have hnot : it.1 ∉ rest.map Prod.fst := (List.nodup_cons.mp (by simpa using hn)).1
    have hitw : it.1.isWs = true := hw it (by simp)
    obtain ⟨ih1, ih2, ih3, ih4⟩ := ih (k₀ + 1) hn2 (fun j hj => hw j (by simp [hj])) (run (copyProc pid k₀ it.1 it.2) s)
    have hrun : run (threadsFrom pid k₀ (it :: rest)).flatten s
        = run (threadsFrom pid (k₀ + 1) rest).flatten (run (copyProc pid k₀ it.1 it.2) s) := by
      simp only [threadsFrom, List.flatten_cons]; rw [run_append]
    rw [hrun]
    obtain ⟨hs1, hs2, hs3⟩ := C17_copy_step pid k₀ it.1 hitw it.2 s
    refine ⟨?_, ?_, ?_, ?_⟩
    · intro j hj
      rcases List.mem_cons.mp hj with rfl | hj
      · rw [ih2 _ hitw hnot]; exact hs1
      · exact ih1 j hj
    · intro x hxw hx
      have hx1 : x ≠ it.1 := fun h => hx (by simp [h])
      have hx2 : x ∉ rest.map Prod.fst := fun h => hx (by simp only [List.map_cons, List.mem_cons]; exact Or.inr h)
      rw [ih2 x hxw hx2]
      apply hs3
      simp only [footprint, List.mem_cons, List.mem_nil_iff, or_false, not_or]
      refine ⟨hx1, ?_⟩
      intro h; rw [h] at hxw; simp [Entry.isWs] at hxw
    · intro k h1 h2
      simp only [List.length_cons] at h2
      by_cases hk : k = k₀
      · subst hk
        rw [ih4 pid k (Or.inr (Or.inl (by omega)))]; exact hs2
      · exact ih3 k (by omega) (by omega)
    · intro pid' k h
      simp only [List.length_cons] at h
      rw [ih4 pid' k (by rcases h with h | h | h; exact Or.inl h; exact Or.inr (Or.inl (by omega)); exact Or.inr (Or.inr (by omega)))]
      apply hs3
      simp only [footprint, List.mem_cons, List.mem_nil_iff, or_false, not_or]
      refine ⟨?_, ?_⟩
      · intro h'; rw [← h'] at hitw; simp [Entry.isWs] at hitw
      · intro h'
        have := Entry.tmp.inj h'
        rcases h with h | h | h
        · exact h this.1
        · omega
        · omega

/-- **C17 for the targets of one parallel command.**  Distinct workspace paths (whatever their names), any number of
    threads, ANY schedule of their directory operations, from any tree: the command ends in the state of the
    sequential run; every target holds exactly its object's bytes, the temporary entries of the command are gone, and
    no other entry - workspace or temporary - changed. -/
theorem C17_parallel_copies_materialise (pid k₀ : Nat) (items : List (Entry δ × Name))
    (hn : (items.map Prod.fst).Nodup) (hw : ∀ it ∈ items, it.1.isWs = true)
    (zs : List (FsOp δ)) (hs : Schedule (threadsFrom pid k₀ items) zs) (s : Tree δ) :
    run zs s = run (threadsFrom pid k₀ items).flatten s ∧
    (∀ it ∈ items, run zs s it.1 = some it.2) ∧
    (∀ x, x.isWs = true → x ∉ items.map Prod.fst → run zs s x = s x) ∧
    (∀ k, k₀ ≤ k → k < k₀ + items.length → run zs s (.tmp pid k) = none) := by
  have h := schedule_run hs (threads_comm pid k₀ items hn hw) s
  rw [h]
  obtain ⟨h1, h2, h3, _⟩ := sequential_result pid k₀ items hn hw s
  exact ⟨rfl, h1, h2, h3⟩

/-- **C03 for the copy step** (repair F29).  Whatever the tree holds - in particular a user's file with any name next
    to the target - a copy step either fails without touching anything (its temporary entry exists already:
    `create_new` refuses) or changes, among the workspace entries, the target only. -/
theorem C03_copy_step_touches_only_target (pid k : Nat) (p : Entry δ) (hp : p.isWs = true) (b : Name) (s : Tree δ) :
    (copyGuarded pid k p b s = none ∧ (s (.tmp pid k)).isSome) ∨
    (∃ s', copyGuarded pid k p b s = some s' ∧ s' p = some b ∧ ∀ x, x.isWs = true → x ≠ p → s' x = s x) := by
  unfold copyGuarded
  cases h : s (.tmp pid k) with
  | some v => exact Or.inl ⟨rfl, by simp⟩
  | none =>
    refine Or.inr ⟨_, rfl, (C17_copy_step pid k p hp b s).1, ?_⟩
    intro x hxw hx
    apply (C17_copy_step pid k p hp b s).2.2
    simp only [footprint, List.mem_cons, List.mem_nil_iff, or_false, not_or]
    exact ⟨hx, by intro h'; rw [h'] at hxw; simp [Entry.isWs] at hxw⟩

/-! Non-vacuity and the negative witnesses. -/

/-- `m.b` and `m.j` in one directory satisfy the hypotheses. -/
example : let a : Entry Nat := .ws 0 [109, 46, 98]; let b : Entry Nat := .ws 0 [109, 46, 106]
    ([(a, [1]), (b, [2])].map Prod.fst).Nodup ∧ a.isWs = true ∧ b.isWs = true := by
  decide

/-- a schedule of two threads exists that is not sequential (so the theorem is about real interleavings) -/
example : Schedule (threadsFrom 7 0 [((.ws 0 [109, 46, 98] : Entry Nat), [1]), (.ws 0 [109, 46, 106], [2])])
    [.createNew (.tmp 7 0), .createNew (.tmp 7 1), .write (.tmp 7 0) [1], .write (.tmp 7 1) [2],
     .rename (.tmp 7 1) (.ws 0 [109, 46, 106]), .rename (.tmp 7 0) (.ws 0 [109, 46, 98])] := by
  refine Schedule.step (pre := []) ?_
  refine Schedule.step (pre := [_]) (post := []) ?_
  refine Schedule.step (pre := []) ?_
  refine Schedule.step (pre := [_]) (post := []) ?_
  refine Schedule.step (pre := [_]) (post := []) ?_
  refine Schedule.step (pre := []) ?_
  exact Schedule.done (by simp)

/-- Before F29 (NOT the code any more): the temporary entry was the sibling `.<name>.xvc-tmp`, removed first.  A user's
    file of that name (bytes `[9]`) next to the target `m` is gone after the copy and its bytes are nowhere. -/
theorem C03_sibling_tmp_loses_user_file :
    let s : Tree Nat := fun x => if x = .ws 0 (siblingTmpName [109]) then some [9] else none
    let s' := run (copyProcSibling siblingTmpName 0 [109] [1]) s
    s (.ws 0 (siblingTmpName [109])) = some [9] ∧ s' (.ws 0 (siblingTmpName [109])) = none ∧ s' (.ws 0 [109]) = some [1] := by
  decide

/-- With the `with_extension` naming (seeded change C17-3; NOT the code) siblings of one stem share the temporary name … -/
theorem C17_with_extension_collides :
    tmpNameWithExtension [109, 46, 98] = tmpNameWithExtension [109, 46, 106] ∧ ([109, 46, 98] : Name) ≠ [109, 46, 106] := by
  decide

/-- … and a schedule of the two copies exists after which `m.j` holds the bytes of `m.b` and `m.b` does not exist. -/
theorem C17_with_extension_counterexample :
    let t : Entry Nat := .ws 0 (tmpNameWithExtension [109, 46, 98])
    let a : Entry Nat := .ws 0 [109, 46, 98]; let b : Entry Nat := .ws 0 [109, 46, 106]
    let zs : List (FsOp Nat) := [.unlink t, .write t [1], .unlink t, .write t [2], .write t [1], .rename t b, .rename t a]
    Interleave (copyProcSibling tmpNameWithExtension 0 [109, 46, 98] [1])
      [.unlink t, .write t [2], .rename t b] [.unlink t, .write t [1], .unlink t, .write t [2], .rename t b, .rename t a] ∧
    run zs (fun _ => none) b = some [1] ∧ run zs (fun _ => none) a = none := by
  refine ⟨?_, by decide, by decide⟩
  exact .left (.left (.right (.right (.right (.left .nil)))))

end XvcRepo.Tmp

open XvcRepo.Tmp in
#print axioms C17_footprints_disjoint
open XvcRepo.Tmp in
#print axioms C17_copy_step
open XvcRepo.Tmp in
#print axioms C17_parallel_copies_materialise
open XvcRepo.Tmp in
#print axioms C03_copy_step_touches_only_target
open XvcRepo.Tmp in
#print axioms C03_sibling_tmp_loses_user_file
open XvcRepo.Tmp in
#print axioms C17_with_extension_collides
open XvcRepo.Tmp in
#print axioms C17_with_extension_counterexample
