import XvcRepo.TmpLemmas
/-!
  C17 (a file is materialised as exactly the recorded object, by the recorded method) for the targets of ONE command
  that are copied out of the cache at the same time.  `track`, `carry-in` and `recheck --no-parallel` run `copy_file`
  of several paths on rayon threads; the repository model (`forEach`) runs them one after the other.  The theorems below
  justify that: the directory entries two different targets touch are disjoint, therefore every schedule of any number
  of such threads ends in the state of the sequential run, in which every path holds exactly its own object's bytes
  and no temporary entry is left.

  The tie (lib/c17.py, stream `tmp-name`) compares `tmpName` with the name the rebuilt binary really renames from
  (observed with strace), so a change of the naming scheme is noticed; the stream `parallel-siblings` then searches for
  the failing input (same stem, different extensions, large files, parallel track).
-/
namespace XvcRepo.Tmp

variable {δ : Type} [DecidableEq δ]

/-- Two different file names never share a temporary name. -/
theorem C17_tmp_name_injective (a b : Name) (h : tmpName a = tmpName b) : a = b := by
  unfold tmpName at h
  exact List.append_cancel_right (List.cons.inj h).2

/-- The temporary name of a name is never that name (it is longer). -/
theorem C17_tmp_name_ne_self (a : Name) : tmpName a ≠ a := by
  intro h
  have := congrArg List.length h
  simp [tmpName, suffix] at this
  omega

theorem C17_tmp_name_has_reserved_shape (a : Name) : IsTmp (tmpName a) := ⟨a, rfl⟩

/-- The decidable test the harness uses to keep generated names out of the reserved shape is exactly `IsTmp`. -/
theorem C17_isTmpB_iff (n : Name) : isTmpB n = true ↔ IsTmp n := by
  constructor
  · intro h
    cases n with
    | nil => simp [isTmpB] at h
    | cons c r =>
      simp only [isTmpB, Bool.and_eq_true, beq_iff_eq, decide_eq_true_eq] at h
      obtain ⟨⟨hc, hl⟩, hd⟩ := h
      refine ⟨r.take (r.length - suffix.length), ?_⟩
      unfold tmpName
      rw [hc]
      congr 1
      conv => lhs; rw [← List.take_append_drop (r.length - suffix.length) r]
      rw [hd]
  · rintro ⟨m, rfl⟩
    simp [isTmpB, tmpName]

omit [DecidableEq δ] in
/-- The entries of two different targets are disjoint - provided no target is itself named like a temporary file
    (the one reservation of the scheme). -/
theorem C17_footprints_disjoint (p q : WPath δ) (hpq : p ≠ q) (hp : ¬ IsTmp p.name) (hq : ¬ IsTmp q.name) :
    ∀ e ∈ footprint p, e ∉ footprint q := by
  intro e he heq
  simp only [footprint, List.mem_cons, List.mem_nil_iff, or_false] at he heq
  rcases he with rfl | rfl <;> rcases heq with h | h
  · exact hpq h
  · exact hp ⟨q.name, by rw [h]; rfl⟩
  · exact hq ⟨p.name, by rw [← h]; rfl⟩
  · apply hpq
    have hd : p.dir = q.dir := by have := congrArg WPath.dir h; exact this
    have hn : tmpName p.name = tmpName q.name := by have := congrArg WPath.name h; exact this
    cases p; cases q
    simp only [WPath.mk.injEq]
    exact ⟨hd, C17_tmp_name_injective _ _ hn⟩

omit [DecidableEq δ] in
theorem copyProc_touches (p : WPath δ) (b : Name) : ∀ o ∈ copyProc p b, ∀ e ∈ o.touches, e ∈ footprint p := by
  intro o ho e he
  simp only [copyProc, List.mem_cons, List.mem_nil_iff, or_false] at ho
  rcases ho with rfl | rfl | rfl <;> simp [FsOp.touches] at he <;> simp [footprint, he]
  rcases he with rfl | rfl <;> simp

/-- One copy step, from ANY tree (a stale temporary entry, an old file at the path): the path holds the object's bytes,
    no temporary entry is left, nothing else changed. -/
theorem C17_copy_step (p : WPath δ) (b : Name) (s : Tree δ) :
    run (copyProc p b) s p = some b ∧ run (copyProc p b) s (tmpPath p) = none ∧
    ∀ x, x ∉ footprint p → run (copyProc p b) s x = s x := by
  have hne : tmpPath p ≠ p := by
    intro h
    exact C17_tmp_name_ne_self p.name (congrArg WPath.name h)
  have hne' : p ≠ tmpPath p := fun h => hne h.symm
  refine ⟨?_, ?_, ?_⟩
  · simp [copyProc, run, FsOp.apply]
  · simp [copyProc, run, FsOp.apply, hne]
  · intro x hx
    simp only [footprint, List.mem_cons, List.mem_nil_iff, or_false, not_or] at hx
    simp [copyProc, run, FsOp.apply, hx.1, hx.2]

/-- the threads of one parallel command: one `copy_file` per (path, object bytes) -/
def threads (items : List (WPath δ × Name)) : List (List (FsOp δ)) := items.map (fun it => copyProc it.1 it.2)

theorem threads_comm (items : List (WPath δ × Name)) (hn : (items.map Prod.fst).Nodup)
    (ht : ∀ it ∈ items, ¬ IsTmp it.1.name) : ThreadsComm (threads items) := by
  unfold ThreadsComm threads
  rw [List.pairwise_map]
  have hn' : items.Pairwise (fun a b => a.1 ≠ b.1) := by
    rw [List.Nodup, List.pairwise_map] at hn; exact hn
  have hall : items.Pairwise (fun a b => a ∈ items ∧ b ∈ items) := by
    rw [List.pairwise_iff_forall_sublist]
    intro a b hab
    exact ⟨hab.subset (by simp), hab.subset (by simp)⟩
  refine (hn'.and hall).imp ?_
  intro a b ⟨hab, ha, hb⟩ x hx y hy
  apply comm_of_apart
  intro e he he2
  exact C17_footprints_disjoint a.1 b.1 hab (ht a ha) (ht b hb) e
    (copyProc_touches a.1 a.2 x hx e he) (copyProc_touches b.1 b.2 y hy e he2)

/-- the sequential run: every path ends with its own bytes, given distinct non-reserved paths -/
theorem sequential_result (items : List (WPath δ × Name)) (hn : (items.map Prod.fst).Nodup)
    (ht : ∀ it ∈ items, ¬ IsTmp it.1.name) (s : Tree δ) :
    (∀ it ∈ items, run (threads items).flatten s it.1 = some it.2 ∧ run (threads items).flatten s (tmpPath it.1) = none) ∧
    (∀ x, (∀ it ∈ items, x ∉ footprint it.1) → run (threads items).flatten s x = s x) := by
  induction items generalizing s with
  | nil => exact ⟨by simp, fun x _ => rfl⟩
  | cons it rest ih =>
    have hn2 : (rest.map Prod.fst).Nodup := (List.nodup_cons.mp (by simpa using hn)).2
    have hnot : it.1 ∉ rest.map Prod.fst := (List.nodup_cons.mp (by simpa using hn)).1
    have ih' := ih hn2 (fun j hj => ht j (by simp [hj])) (run (copyProc it.1 it.2) s)
    have hrun : run (threads (it :: rest)).flatten s = run (threads rest).flatten (run (copyProc it.1 it.2) s) := by
      simp only [threads, List.map_cons, List.flatten_cons]; rw [run_append]
    rw [hrun]
    have hstep := C17_copy_step it.1 it.2 s
    have hframe : ∀ e ∈ footprint it.1, ∀ j ∈ rest, e ∉ footprint j.1 := by
      intro e he j hj
      have hne : it.1 ≠ j.1 := by
        intro h; apply hnot; rw [h]; exact List.mem_map_of_mem hj
      exact C17_footprints_disjoint it.1 j.1 hne (ht it (by simp)) (ht j (by simp [hj])) e he
    refine ⟨?_, ?_⟩
    · intro j hj
      rcases List.mem_cons.mp hj with rfl | hj
      · rw [ih'.2 _ (hframe _ (by simp [footprint])), ih'.2 _ (hframe _ (by simp [footprint]))]
        exact ⟨hstep.1, hstep.2.1⟩
      · exact ih'.1 j hj
    · intro x hx
      rw [ih'.2 x (fun j hj => hx j (by simp [hj]))]
      exact hstep.2.2 x (hx it (by simp))

/-- **C17 for the targets of one parallel command.**  Distinct target paths, none named like a temporary file, any
    number of threads, ANY schedule of their directory operations, from any tree: the command ends in the state of
    the sequential run; every target holds exactly its object's bytes, no temporary entry is left and no other entry
    changed. -/
theorem C17_parallel_copies_materialise (items : List (WPath δ × Name)) (hn : (items.map Prod.fst).Nodup)
    (ht : ∀ it ∈ items, ¬ IsTmp it.1.name) (zs : List (FsOp δ)) (hs : Schedule (threads items) zs) (s : Tree δ) :
    run zs s = run (threads items).flatten s ∧
    (∀ it ∈ items, run zs s it.1 = some it.2 ∧ run zs s (tmpPath it.1) = none) ∧
    (∀ x, (∀ it ∈ items, x ∉ footprint it.1) → run zs s x = s x) := by
  have h := schedule_run hs (threads_comm items hn ht) s
  rw [h]
  exact ⟨rfl, sequential_result items hn ht s⟩

/-! Non-vacuity and the negative witness. -/

/-- `model.bin` and `model.json` in one directory satisfy the hypotheses. -/
example : let a : WPath Nat := ⟨0, [109, 46, 98]⟩; let b : WPath Nat := ⟨0, [109, 46, 106]⟩
    ([(a, [1]), (b, [2])].map Prod.fst).Nodup ∧ ¬ IsTmp a.name ∧ ¬ IsTmp b.name := by
  refine ⟨by decide, ?_, ?_⟩ <;> (rw [← C17_isTmpB_iff]; decide)

/-- a schedule of two threads exists that is not sequential (so the theorem is about real interleavings) -/
example : Schedule (threads [((⟨0, [109, 46, 98]⟩ : WPath Nat), [1]), (⟨0, [109, 46, 106]⟩, [2])])
    [.unlink (tmpPath ⟨0, [109, 46, 98]⟩), .unlink (tmpPath ⟨0, [109, 46, 106]⟩),
     .write (tmpPath ⟨0, [109, 46, 98]⟩) [1], .write (tmpPath ⟨0, [109, 46, 106]⟩) [2],
     .rename (tmpPath ⟨0, [109, 46, 106]⟩) ⟨0, [109, 46, 106]⟩, .rename (tmpPath ⟨0, [109, 46, 98]⟩) ⟨0, [109, 46, 98]⟩] := by
  refine Schedule.step (pre := []) ?_
  refine Schedule.step (pre := [_]) (post := []) ?_
  refine Schedule.step (pre := []) ?_
  refine Schedule.step (pre := [_]) (post := []) ?_
  refine Schedule.step (pre := [_]) (post := []) ?_
  refine Schedule.step (pre := []) ?_
  exact Schedule.done (by simp)

/-- With the `with_extension` naming (seeded change C17-3; NOT the code) siblings of one stem share the temporary name … -/
theorem C17_with_extension_collides :
    tmpNameWithExtension [109, 46, 98] = tmpNameWithExtension [109, 46, 106] ∧ ([109, 46, 98] : Name) ≠ [109, 46, 106] := by
  decide

/-- … and a schedule of the two copies exists after which `m.j` holds the bytes of `m.b` and `m.b` does not exist. -/
theorem C17_with_extension_counterexample :
    let a : WPath Nat := ⟨0, [109, 46, 98]⟩; let b : WPath Nat := ⟨0, [109, 46, 106]⟩
    let t : WPath Nat := ⟨0, tmpNameWithExtension a.name⟩
    let zs : List (FsOp Nat) := [.unlink t, .write t [1], .unlink t, .write t [2], .write t [1], .rename t b, .rename t a]
    run zs (fun _ => none) b = some [1] ∧ run zs (fun _ => none) a = none := by
  decide

end XvcRepo.Tmp

open XvcRepo.Tmp in
#print axioms C17_tmp_name_injective
open XvcRepo.Tmp in
#print axioms C17_tmp_name_ne_self
open XvcRepo.Tmp in
#print axioms C17_tmp_name_has_reserved_shape
open XvcRepo.Tmp in
#print axioms C17_isTmpB_iff
open XvcRepo.Tmp in
#print axioms C17_footprints_disjoint
open XvcRepo.Tmp in
#print axioms C17_copy_step
open XvcRepo.Tmp in
#print axioms C17_parallel_copies_materialise
open XvcRepo.Tmp in
#print axioms C17_with_extension_collides
open XvcRepo.Tmp in
#print axioms C17_with_extension_counterexample
