import XvcRepo.Materialise
/-!
  # C17 — the method a path was last materialised with is the one later restores use

  `xvc file recheck --force --recheck-method m` on a path whose workspace entry differs from the committed content
  (an edited copy, a link replaced by a file of the user) records `m`; when the entry is deleted afterwards, a
  `recheck` WITHOUT a method brings it back as an entry of kind `m` (seeded change C17-5 took the method to apply and
  to record from the changed-method set out of which the files with changed content had been filtered).
-/
namespace Repo

/-- path `p` is tracked as a file with method `m` on record and its current version in the cache -/
def MethodOnRecord (m : Method) (p : Path) (s : St) : Prop :=
  ∃ e r d o n, s.findEnt p = some e ∧ s.recs e = some r ∧ r.method = m ∧ r.cur = some d ∧ r.md = .stamp n ∧
    s.cache (addrOf p d) = some o

/-- **C17_recorded_method_used_after_delete**: whatever method is on record for a path, after the user deleted the
    workspace entry a plain `xvc file recheck p` (no method, no `--force`) succeeds and leaves an entry of exactly
    that kind which yields the committed bytes; the method stays on record. -/
theorem C17_recorded_method_used_after_delete (c : Cfg) (m : Method) (s : St) (p : Path) (h : MethodOnRecord m p s) :
    ((s.userDelete p).recheckOne c none false p).2 = .ok ∧
    RecheckPost m p ((s.userDelete p).recheckOne c none false p).1 := by
  obtain ⟨e, r, d, o, n, hfe, hre, hm, hcur, hmd, ho⟩ := h
  subst hm
  obtain ⟨r0, hr0, hpath⟩ := findEnt_path hfe
  rw [hre] at hr0; cases hr0
  have hfe0 : (s.userDelete p).findEnt p = some e := hfe
  have hre0 : (s.userDelete p).recs e = some r := hre
  have hws0 : (s.userDelete p).ws p = none := by simp [St.userDelete, St.setWs, upd]
  have ho0 : (s.userDelete p).cache (addrOf p d) = some o := ho
  generalize s.userDelete p = s0 at hfe0 hre0 hws0 ho0 ⊢
  have hrt : s0.readThrough r.path = none := by rw [hpath]; simp [St.readThrough, hws0]
  have hdd : s0.digestDiff c r r.tob = .actualMissing := by simp [St.digestDiff, hrt, hmd]
  have hact : s0.recheckActs c r r.method false = true := by simp [St.recheckActs, hdd]
  have hfind := recheckOne_findEnt c none false s0 p p
  unfold St.recheckOne at hfind ⊢
  simp only [hfe0, hre0] at hfind ⊢
  unfold St.recheckRec at hfind ⊢
  simp only [Option.getD_none, hact, Bool.not_true, Bool.false_eq_true, if_false, hcur] at hfind ⊢
  have ho1 : (s0.setRec e (some { r with method := r.method })).cache (addrOf p d) = some o := ho0
  simp only [ho1, Option.isSome_some, if_true] at hfind ⊢
  have hp : ((s0.setRec e (some { r with method := r.method })).ws p).isSome →
      ((s0.setRec e (some { r with method := r.method })).readThrough p).isSome := by
    intro h
    have : (s0.setRec e (some { r with method := r.method })).ws p = none := hws0
    rw [this] at h; cases h
  obtain ⟨hok, hmm, hr, hc⟩ :=
    C17_method_materialises (s0.setRec e (some { r with method := r.method })) p (addrOf p d) o r.method ho1 hp
  refine ⟨hok, e, { r with method := r.method }, d, o, ?_, ?_, rfl, hcur, ?_, hmm, hr⟩
  · rw [hfind]
  · rw [recheckFromCache_recs]; simp [St.setRec, upd]
  · rw [hc]; exact ho1

/-- a forced `recheck --recheck-method m` of one target keeps the recorded file metadata -/
theorem recheckOne_keeps_md (c : Cfg) (m : Option Method) (f : Bool) (s : St) (q : Path) (e : Ent) (r1 : Rec)
    (h1 : (s.recheckOne c m f q).1.recs e = some r1) : ∃ r, s.recs e = some r ∧ r1.md = r.md ∧ r1.cur = r.cur := by
  rcases recheckOne_recs c m f s q e with h | ⟨r, hr, _, h⟩
  · rw [h] at h1; exact ⟨r1, h1, rfl, rfl⟩
  · rw [h] at h1; cases h1; exact ⟨r, hr, rfl, rfl⟩

/-- **C17_forced_method_survives_delete**: `xvc file recheck --force --recheck-method m p` on a tracked path whose
    committed version is in the cache — WHATEVER is at the path: the committed copy, an edited copy, a file the user put
    in the place of a link, nothing — followed by the deletion of the entry and a plain `xvc file recheck p`: the path
    comes back as an entry of kind `m` with the committed bytes, and `m` is still the method on record. -/
theorem C17_forced_method_survives_delete (c : Cfg) (m : Method) (s : St) (p : Path) (h : RecheckPre p s)
    (hmd : ∀ e r, s.findEnt p = some e → s.recs e = some r → ∃ n, r.md = .stamp n) :
    let s1 := (s.recheckOne c (some m) true p).1
    ((s1.userDelete p).recheckOne c none false p).2 = .ok ∧
    RecheckPost m p ((s1.userDelete p).recheckOne c none false p).1 := by
  intro s1
  obtain ⟨e, r1, d, o, hfe, hre, hm, hcur, ho, _, _⟩ := recheckOne_step c m s p h
  obtain ⟨r, hr, hmd1, _⟩ := recheckOne_keeps_md c (some m) true s p e r1 hre
  have hfe' : s.findEnt p = some e := by rw [← recheckOne_findEnt c (some m) true s p p]; exact hfe
  obtain ⟨n, hn⟩ := hmd e r hfe' hr
  exact C17_recorded_method_used_after_delete c m s1 p ⟨e, r1, d, o, n, hfe, hre, hm, hcur, by rw [hmd1]; exact hn, ho⟩

/-! ## the seeded behaviour on the model -/

/-- `cmd_recheck` for one target when the method to apply and to record is taken from `recheck_method_targets` (the
    changed-method set after the `retain` that drops files with changed content) instead of from the method diff of the files
    that are rechecked: a target that is rechecked only because of `--force` keeps the recorded method. -/
def St.recheckRecFromTargets (c : Cfg) (m : Option Method) (force : Bool) (s : St) (p : Path) (e : Ent) (r : Rec) : St × Out :=
  let req := m.getD r.method
  let inTargets := decide (req ≠ r.method) && (match s.digestDiff c r r.tob with | .different _ => false | _ => true)
  let eff := if inTargets then req else r.method
  if !(s.recheckActs c r req force) then (s, if req ≠ r.method then .refused else .ok)
  else
    match r.cur with
    | none => (s, .panic)
    | some d =>
      let s1 := s.setRec e (some { r with method := eff })
      if (s1.cache (addrOf p d)).isSome then s1.recheckFromCache p (addrOf p d) eff else (s1, .refused)

/-- **C17_method_from_targets_counterexample**: a tracked copy, edited; `recheck --force --recheck-method symlink`.
    The code as it is turns the path into a link to the committed version and records `symlink`; the variant
    restores the bytes as a COPY and leaves `copy` on record — so a later restore uses `copy` too. -/
theorem C17_method_from_targets_counterexample :
    let p : Path := ⟨0, 1⟩
    let s := (((St.init.userWrite p [104]).track {} {} [p]).1).userWrite p [105]
    let r : Rec := { path := p, md := .stamp 1, digests := [⟨0, [104]⟩], method := .copy, tob := .auto }
    s.recs 1 = some r ∧
    (s.recheckRec {} (some .symlink) true p 1 r).1.ws p = some (.sym ⟨⟨0, [104]⟩, 1⟩) ∧
    ((s.recheckRec {} (some .symlink) true p 1 r).1.recs 1).map (·.method) = some .symlink ∧
    (s.recheckRecFromTargets {} (some .symlink) true p 1 r).1.ws p = some (.file [104] true 4 none) ∧
    ((s.recheckRecFromTargets {} (some .symlink) true p 1 r).1.recs 1).map (·.method) = some .copy := by
  decide

/-- non-vacuity of `C17_forced_method_survives_delete`: the tracked, edited copy of the counterexample meets its hypotheses -/
example : RecheckPre ⟨0, 1⟩ ((((St.init.userWrite ⟨0, 1⟩ [104]).track {} {} [⟨0, 1⟩]).1).userWrite ⟨0, 1⟩ [105]) :=
  ⟨1, { path := ⟨0, 1⟩, md := .stamp 1, digests := [⟨0, [104]⟩], method := .copy, tob := .auto }, ⟨0, [104]⟩, ⟨[104], true, 1⟩,
    by decide, by decide, by decide, by decide, by decide⟩

/-- … and the whole sequence on it: forced recheck as symlink, delete, plain recheck gives the link again -/
theorem C17_forced_method_survives_delete_witness :
    let p : Path := ⟨0, 1⟩
    let s := (((St.init.userWrite p [104]).track {} {} [p]).1).userWrite p [105]
    let s1 := (s.recheckOne {} (some .symlink) true p).1
    ((s1.userDelete p).recheckOne {} none false p).1.ws p = some (.sym ⟨⟨0, [104]⟩, 1⟩) := by
  decide

end Repo

open Repo in
#print axioms C17_recorded_method_used_after_delete
open Repo in
#print axioms C17_forced_method_survives_delete
open Repo in
#print axioms C17_method_from_targets_counterexample
open Repo in
#print axioms C17_forced_method_survives_delete_witness
