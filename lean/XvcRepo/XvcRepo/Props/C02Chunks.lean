import XvcRepo.Model
/-!
  # C02 — the text digest does not depend on how the file is read

  The documented digest of a file treated as text is the digest of `strip b`: the WHOLE byte string with every CR and LF
  removed (`XvcDigest::from_text_file`: `fs::read` + `retain`).  A reader that removes the line endings chunk by chunk
  feeds the same bytes to the hasher for ANY division of the file into chunks (`C02_strip_chunks`) — provided every
  chunk is fed.  A reader that reports the number of bytes it KEPT lets the copy loop stop at the first chunk made of
  line endings only (`read` returning 0 means end of file): the digest then covers a prefix of the file, and two
  different files get one address (seeded change C02-5; `C02_stop_at_empty_chunk_counterexample`).
-/
namespace Repo

theorem strip_append (a b : Bytes) : strip (a ++ b) = strip a ++ strip b := by
  induction a with
  | nil => rfl
  | cons x a ih =>
    simp only [List.cons_append, strip]
    split
    · exact ih
    · rw [ih]; rfl

/-- **C02_strip_chunks**: removing CR and LF chunk by chunk and concatenating equals removing them from the whole, for
    every division of the byte string into chunks (any number, any sizes, empty chunks included). -/
theorem C02_strip_chunks (chunks : List Bytes) : strip chunks.flatten = (chunks.map strip).flatten := by
  induction chunks with
  | nil => rfl
  | cons c cs ih => simp only [List.flatten_cons, List.map_cons, strip_append, ih]

/-- **C02_text_digest_chunking_invariant**: whichever way a file with bytes `b` is cut into chunks, the text digest is the
    digest of the concatenation of the stripped chunks; in particular two chunkings of the same file give the same
    digest. -/
theorem C02_text_digest_chunking_invariant (algo : Nat) (b : Bytes) (chunks chunks' : List Bytes)
    (h : chunks.flatten = b) (h' : chunks'.flatten = b) :
    digestOf algo .text b = ⟨algo, (chunks.map strip).flatten⟩ ∧
    (chunks.map strip).flatten = (chunks'.map strip).flatten := by
  refine ⟨?_, ?_⟩
  · simp only [digestOf, asText, if_true]
    rw [← C02_strip_chunks, h]
  · rw [← C02_strip_chunks, ← C02_strip_chunks, h, h']

/-- nothing but CR and LF is removed, nothing is reordered: a byte string without line endings is its own text form -/
theorem strip_id_of_no_line_endings (b : Bytes) (h : ∀ x ∈ b, x ≠ 10 ∧ x ≠ 13) : strip b = b := by
  induction b with
  | nil => rfl
  | cons x b ih =>
    have hx := h x (by simp)
    simp only [strip]
    rw [if_neg (by intro hc; rcases hc with hc | hc; exact hx.1 hc; exact hx.2 hc)]
    rw [ih (fun y hy => h y (by simp [hy]))]

/-- what reaches the hasher when the copy loop takes a chunk that strips to nothing for the end of the file
    (`io::copy` stops at the first `read` that returns 0; the adapter returns the number of bytes it kept) -/
def stripUntilEmptyChunk : List Bytes → Bytes
  | [] => []
  | c :: cs => if strip c = [] then [] else strip c ++ stripUntilEmptyChunk cs

/-- **C02_stop_at_empty_chunk_partial**: the early stop is harmless exactly as long as no chunk consists of line endings
    only (explicit excluding hypothesis) … -/
theorem C02_stop_at_empty_chunk_partial (chunks : List Bytes) (h : ∀ c ∈ chunks, strip c ≠ []) :
    stripUntilEmptyChunk chunks = strip chunks.flatten := by
  induction chunks with
  | nil => rfl
  | cons c cs ih =>
    simp only [stripUntilEmptyChunk, List.flatten_cons, strip_append]
    rw [if_neg (h c (by simp)), ih (fun c' hc' => h c' (by simp [hc']))]

/-- … **C02_stop_at_empty_chunk_counterexample**: and wrong otherwise.  Two files `h LF A` and `h LF B` read in chunks
    `[h] [LF] [A|B]`: their documented text forms differ (`hA`, `hB`), the early stop feeds `h` for both — one address for
    two contents. -/
theorem C02_stop_at_empty_chunk_counterexample :
    strip ([[104], [10], [65]] : List Bytes).flatten = [104, 65] ∧
    strip ([[104], [10], [66]] : List Bytes).flatten = [104, 66] ∧
    stripUntilEmptyChunk [[104], [10], [65]] = [104] ∧
    stripUntilEmptyChunk [[104], [10], [66]] = [104] ∧
    digestOf 0 .text [104, 10, 65] ≠ digestOf 0 .text [104, 10, 66] := by
  decide

/-- non-vacuity: a chunking with an all-line-ending chunk in the middle, CR LF mixed, and an empty chunk -/
example : (([[104, 13], [10, 13, 10], [], [105, 10]] : List Bytes).map strip).flatten = strip [104, 13, 10, 13, 10, 105, 10] := by
  decide

example : ∀ c ∈ ([[104, 10], [10, 105]] : List Bytes), strip c ≠ [] := by decide

end Repo

open Repo in
#print axioms C02_strip_chunks
open Repo in
#print axioms C02_text_digest_chunking_invariant
open Repo in
#print axioms C02_stop_at_empty_chunk_partial
open Repo in
#print axioms C02_stop_at_empty_chunk_counterexample
