import XvcRepo.OnlyVersion
import XvcRepo.Cache
/-!
  # C04 / C05 — `xvc file remove --only-version V` removes the version the user NAMED, and nothing else

  `Model.lean` keys the selection by a digest (`RemoveSel.only d`).  Here the selection is what the user types: a string
  (`XvcRepo/OnlyVersion.lean`).  Theorems: the comparison xvc makes on the spelling of the cache path is "V without
  dashes is a prefix of the first `window` hex digits of the digest" (`C04_only_version_code_is_window`); that is
  selection by prefix and by nothing else (`C04_only_version_by_prefix_only`; longer strings name nothing); a variant
  that strips the algorithm identifier from V selects ANOTHER version (`C04_only_version_never_strips`, on the digests
  b3cf162f… / cfc2df2a… of two real contents); exactly one named (target, version) pair or nothing happens
  (`C04_only_version_verdict_one`); the command with the string-level selection deletes only named versions of the
  targets and keeps every object that was not named (`C04_only_version_deletes_only_named`,
  `C04_only_version_unnamed_kept`), and it IS `St.remove … (.only d)` whenever the string names exactly the digest `d`
  among the versions of the targets (`C04_only_version_refines_model`), which carries every theorem about
  `RemoveSel.only` (C05) over to the string.
-/
namespace Repo

theorem filter_noDash (l : List Nat) (h : ∀ x ∈ l, x ≠ 45) : l.filter (fun c => c != dashCode) = l := by
  apply List.filter_eq_self.mpr
  intro a ha
  simp [dashCode, h a ha]

theorem isPrefixOf_take (l h : List Nat) (n : Nat) (hl : l.length ≤ n) : l.isPrefixOf (h.take n) = l.isPrefixOf h := by
  induction l generalizing h n with
  | nil => simp
  | cons a l ih =>
    cases n with
    | zero => simp at hl
    | succ n =>
      cases h with
      | nil => simp
      | cons b h =>
        simp only [List.take_succ_cons, List.isPrefixOf]
        rw [ih h n (by simpa using hl)]

theorem isPrefixOf_too_long (l h : List Nat) (hl : h.length < l.length) : l.isPrefixOf h = false := by
  induction l generalizing h with
  | nil => simp at hl
  | cons a l ih =>
    cases h with
    | nil => rfl
    | cons b h =>
      simp only [List.isPrefixOf]
      rw [ih h (by simpa using hl)]
      simp

/-- **C04_only_version_code_is_window**: the comparison of `cmd_remove` (made on the first `DIGEST_LENGTH` characters
    of the spelling of the cache path, constants regenerated from the Rust source) is the specification `selects`:
    the user's string without dashes is a prefix of the first `window` hex digits of the digest.  For every two-character
    algorithm identifier and every digest of at least six characters, none of them a dash. -/
theorem C04_only_version_code_is_window (pfx hex version : List Nat) (hp : pfx.length = 2) (hh : 6 ≤ hex.length)
    (hnd : ∀ c ∈ pfx ++ hex, c ≠ 45) : selectsCode pfx hex version = selects version hex := by
  match pfx, hp with
  | [p0, p1], _ =>
    match hex, hh with
    | x0 :: x1 :: x2 :: x3 :: x4 :: x5 :: rest, _ =>
      have hp0 : p0 ≠ 45 := hnd p0 (by simp)
      have hp1 : p1 ≠ 45 := hnd p1 (by simp)
      have h0 : x0 ≠ 45 := hnd x0 (by simp)
      have h1 : x1 ≠ 45 := hnd x1 (by simp)
      have h2 : x2 ≠ 45 := hnd x2 (by simp)
      have h3 : x3 ≠ 45 := hnd x3 (by simp)
      have h4 : x4 ≠ 45 := hnd x4 (by simp)
      have h5 : x5 ≠ 45 := hnd x5 (by simp)
      have hr' : ∀ x ∈ rest.take 21, x ≠ 45 := fun x hx => hnd x (by simp [List.mem_of_mem_take hx])
      have := filter_noDash (rest.take 21) hr'
      rw [show dashCode = 45 from rfl] at this
      unfold selectsCode selects digestString window
      simp [Gen.digestLength, Gen.split1, Gen.split2, dedash, dashCode, hp0, hp1, h0, h1, h2, h3, h4, h5]
      rw [this]

/-- **C04_only_version_by_prefix_only**: a string of at most `window` hex digits (dashes not counted) names a digest
    if and only if it is a prefix of the digest — nothing else about the string or the digest matters. -/
theorem C04_only_version_by_prefix_only (version hex : List Nat) (hl : (dedash version).length ≤ window) :
    selects version hex = true ↔ dedash version <+: hex := by
  unfold selects
  rw [isPrefixOf_take _ _ _ hl]
  exact List.isPrefixOf_iff_prefix

/-- a string with more than `window` hex digits names nothing (so it deletes nothing; observed on the binary:
    `--only-version <all 64 digits>` exits 0 and leaves the cache as it was) -/
theorem C04_only_version_longer_names_nothing (version hex : List Nat) (hl : window < (dedash version).length) :
    selects version hex = false := by
  unfold selects
  apply isPrefixOf_too_long
  have : (hex.take window).length ≤ window := by simp [List.length_take]; omega
  omega

/-- **C04_only_version_never_strips**: the first 27 digits of the BLAKE3 digests of the contents `model-weights-131`
    (b3cf162f…) and `model-weights-481` (cfc2df2a…); the user names the first by its prefix `b3cf` (or `b3c-f`).
    xvc's comparison selects the first and not the second; a comparison that strips a leading algorithm identifier from
    the user's string selects the SECOND and not the first.  So the two are different functions, and the only one that
    is selection by prefix is the one that strips nothing. -/
theorem C04_only_version_never_strips :
    let b3 := [98, 51]
    let a := [98, 51, 99, 102, 49, 54, 50, 102, 56, 102, 54, 99, 56, 52, 57, 99, 56, 48, 97, 98, 57, 102, 50, 49, 54, 98, 49]
    let b := [99, 102, 99, 50, 100, 102, 50, 97, 48, 101, 53, 51, 99, 98, 102, 99, 53, 99, 102, 102, 55, 55, 49, 99, 57, 54, 54]
    let v := [98, 51, 99, 102]
    let v' := [98, 51, 99, 45, 102]
    selectsCode b3 a v = true ∧ selectsCode b3 b v = false ∧ selectsCode b3 a v' = true ∧ selectsCode b3 b v' = false ∧
    selects v a = true ∧ selects v b = false ∧
    selectsStripping b3 a v = false ∧ selectsStripping b3 b v = true ∧
    selectIdx b3 v [a, b] = [0] ∧ verdict (selectIdx b3 v [a, b]) = .one 0 := by
  decide

theorem mem_selectIdx (pfx version : List Nat) (hexes : List (List Nat)) (i : Nat) :
    i ∈ selectIdx pfx version hexes ↔ i < hexes.length ∧ selectsCode pfx (hexes.getD i []) version = true := by
  unfold selectIdx
  simp [List.mem_filter, List.mem_range]

/-- **C04_only_version_verdict_one**: when the command goes ahead with version `i`, that version is named and no other
    recorded version of the targets is. -/
theorem C04_only_version_verdict_one (pfx version : List Nat) (hexes : List (List Nat)) (i : Nat)
    (h : verdict (selectIdx pfx version hexes) = .one i) :
    i < hexes.length ∧ selectsCode pfx (hexes.getD i []) version = true ∧
    ∀ j, j < hexes.length → j ≠ i → selectsCode pfx (hexes.getD j []) version = false := by
  have hl : selectIdx pfx version hexes = [i] := by
    generalize selectIdx pfx version hexes = l at h
    match l, h with
    | [k], h => simp only [verdict, Verdict.one.injEq] at h; rw [h]
  have hi := (mem_selectIdx pfx version hexes i).mp (by rw [hl]; simp)
  refine ⟨hi.1, hi.2, ?_⟩
  intro j hj hne
  cases hs : selectsCode pfx (hexes.getD j []) version with
  | false => rfl
  | true =>
    have := (mem_selectIdx pfx version hexes j).mpr ⟨hj, hs⟩
    rw [hl] at this
    simp at this
    exact absurd this hne

/-- nothing named or several named: `verdict` says so exactly -/
theorem C04_only_version_verdict_nothing (pfx version : List Nat) (hexes : List (List Nat))
    (h : verdict (selectIdx pfx version hexes) = .nothing) :
    ∀ j, j < hexes.length → selectsCode pfx (hexes.getD j []) version = false := by
  have hl : selectIdx pfx version hexes = [] := by
    generalize selectIdx pfx version hexes = l at h
    match l, h with
    | [], _ => rfl
    | [_], h => simp [verdict] at h
    | _ :: _ :: _, h => simp [verdict] at h
  intro j hj
  cases hs : selectsCode pfx (hexes.getD j []) version with
  | false => rfl
  | true =>
    have := (mem_selectIdx pfx version hexes j).mpr ⟨hj, hs⟩
    rw [hl] at this
    cases this

/-! ## the command with the string-level selection -/

theorem removeWhere_congr (s : St) (ps : List Path) (n1 n2 : Digest → Bool) (force : Bool)
    (h : ∀ e ∈ s.targetEnts ps, ∀ a ∈ s.versionsOf e, n1 a.d = n2 a.d) :
    s.removeWhere ps n1 force = s.removeWhere ps n2 force := by
  have hc : (s.targetEnts ps).flatMap (fun e => (s.versionsOf e).filter (fun a => n1 a.d)) =
      (s.targetEnts ps).flatMap (fun e => (s.versionsOf e).filter (fun a => n2 a.d)) := by
    generalize s.targetEnts ps = ts at h
    induction ts with
    | nil => rfl
    | cons e ts ih =>
      simp only [List.flatMap_cons]
      rw [ih (fun e' he' => h e' (List.mem_cons_of_mem _ he'))]
      congr 1
      apply List.filter_congr
      intro a ha
      exact h e (by simp) a ha
  unfold St.removeWhere
  simp only [hc]

theorem removeWhere_only (s : St) (ps : List Path) (d : Digest) (force : Bool) :
    s.removeWhere ps (fun d' => decide (d' = d)) force = s.remove ps (.only d) force := by
  unfold St.removeWhere St.remove St.removeDeletable St.removeCandidates
  simp only [RemoveSel.isOnly, Bool.true_and]
  generalize (s.targetEnts ps).flatMap _ = cands
  by_cases hlen : 1 < cands.length
  · simp only [hlen, ↓reduceIte, decide_true]
  · simp only [hlen, ↓reduceIte, decide_false, Bool.false_eq_true]

/-- **C04_only_version_refines_model**: when, among the recorded versions of the targets, the string names exactly the
    versions with digest `d`, the command with the string-level selection is `St.remove … (.only d)` — the command the
    binary is compared with, and about which C05 is proved. -/
theorem C04_only_version_refines_model (s : St) (pfx : List Nat) (hexOf : Digest → List Nat) (ps : List Path)
    (version : List Nat) (d : Digest) (force : Bool)
    (h : ∀ e ∈ s.targetEnts ps, ∀ a ∈ s.versionsOf e, selectsCode pfx (hexOf a.d) version = decide (a.d = d)) :
    s.removeByPrefix pfx hexOf ps version force = s.remove ps (.only d) force := by
  unfold St.removeByPrefix
  rw [removeWhere_congr s ps _ (fun d' => decide (d' = d)) force h]
  exact removeWhere_only s ps d force

theorem removeWhere_deletes (s : St) (ps : List Path) (named : Digest → Bool) (force : Bool) (a : Addr) (o : Obj)
    (h : s.cache a = some o) (hr : (s.removeWhere ps named force).1.cache a = none) :
    named a.d = true ∧ (∃ e ∈ s.targetEnts ps, a ∈ s.versionsOf e) ∧
    ((s.targetEnts ps).flatMap (fun e => (s.versionsOf e).filter (fun a => named a.d))).length ≤ 1 := by
  unfold St.removeWhere at hr
  simp only at hr
  split at hr
  · rw [h] at hr; cases hr
  · rename_i hlen
    have hm : a ∈ List.filter (fun a => force || (s.otherReferrers (s.targetEnts ps) a).isEmpty)
        ((s.targetEnts ps).flatMap (fun e => (s.versionsOf e).filter (fun a => named a.d))) := by
      by_cases hm : a ∈ List.filter (fun a => force || (s.otherReferrers (s.targetEnts ps) a).isEmpty)
        ((s.targetEnts ps).flatMap (fun e => (s.versionsOf e).filter (fun a => named a.d)))
      · exact hm
      · rw [foldl_removeObj_keep _ s a hm, h] at hr; cases hr
    obtain ⟨e, he, hv⟩ := List.mem_flatMap.mp (List.mem_filter.mp hm).1
    have hv' := List.mem_filter.mp hv
    exact ⟨hv'.2, ⟨e, he, hv'.1⟩, Nat.le_of_not_lt hlen⟩

/-- **C04_only_version_deletes_only_named**: with or without `--force`, whatever the sharing: an object that
    `remove --only-version V` deletes is a recorded version of a target whose digest V names (its spelling starts with
    V), and V named no other (target, version) pair. -/
theorem C04_only_version_deletes_only_named (s : St) (pfx : List Nat) (hexOf : Digest → List Nat) (ps : List Path)
    (version : List Nat) (force : Bool) (a : Addr) (o : Obj)
    (h : s.cache a = some o) (hr : (s.removeByPrefix pfx hexOf ps version force).1.cache a = none) :
    selectsCode pfx (hexOf a.d) version = true ∧ (∃ e ∈ s.targetEnts ps, a ∈ s.versionsOf e) := by
  have := removeWhere_deletes s ps _ force a o h hr
  exact ⟨this.1, this.2.1⟩

/-- **C04_only_version_unnamed_kept**: every version that the string does not name stays in the cache, byte for byte
    (so it stays restorable: `C04_old_commit_restorable` needs nothing but the object). -/
theorem C04_only_version_unnamed_kept (s : St) (pfx : List Nat) (hexOf : Digest → List Nat) (ps : List Path)
    (version : List Nat) (force : Bool) (a : Addr) (hn : selectsCode pfx (hexOf a.d) version = false) :
    (s.removeByPrefix pfx hexOf ps version force).1.cache a = s.cache a := by
  unfold St.removeByPrefix St.removeWhere
  simp only
  split
  · rfl
  · apply foldl_removeObj_keep
    intro hm
    obtain ⟨e, _, hv⟩ := List.mem_flatMap.mp (List.mem_filter.mp hm).1
    have := (List.mem_filter.mp hv).2
    rw [hn] at this; cases this

/-- the scenario on the whole command: `data.bin` with the versions `model-weights-131` (digest b3cf162f…, modelled as
    content `[104]`) and `model-weights-481` (cfc2df2a…, content `[105]`); `remove --only-version b3cf data.bin` deletes the
    object of the first version and keeps the second; with the identifier-stripping comparison it would be the other
    way round: the version that was never named is deleted -/
theorem C04_only_version_witness :
    let b3 := [98, 51]
    let a := [98, 51, 99, 102, 49, 54, 50, 102, 56, 102, 54, 99, 56, 52, 57, 99, 56, 48, 97, 98, 57, 102, 50, 49, 54, 98, 49]
    let b := [99, 102, 99, 50, 100, 102, 50, 97, 48, 101, 53, 51, 99, 98, 102, 99, 53, 99, 102, 102, 55, 55, 49, 99, 57, 54, 54]
    let hexOf : Digest → List Nat := fun d => if d.hash = [104] then a else if d.hash = [105] then b else []
    let s1 := ((St.init.userWrite ⟨0, 1⟩ [104]).track {} {} [⟨0, 1⟩]).1
    let s := ((s1.userWrite ⟨0, 1⟩ [105]).carryIn {} none false [⟨0, 1⟩]).1
    let v := [98, 51, 99, 102]
    (s.cache ⟨⟨0, [104]⟩, 1⟩).isSome = true ∧ (s.cache ⟨⟨0, [105]⟩, 1⟩).isSome = true ∧
    (s.removeByPrefix b3 hexOf [⟨0, 1⟩] v false).2 = .ok ∧
    (s.removeByPrefix b3 hexOf [⟨0, 1⟩] v false).1.cache ⟨⟨0, [104]⟩, 1⟩ = none ∧
    ((s.removeByPrefix b3 hexOf [⟨0, 1⟩] v false).1.cache ⟨⟨0, [105]⟩, 1⟩).isSome = true ∧
    ((s.removeWhere [⟨0, 1⟩] (fun d => selectsStripping b3 (hexOf d) v) false).1.cache ⟨⟨0, [104]⟩, 1⟩).isSome = true ∧
    (s.removeWhere [⟨0, 1⟩] (fun d => selectsStripping b3 (hexOf d) v) false).1.cache ⟨⟨0, [105]⟩, 1⟩ = none ∧
    -- an ambiguous string (`""` names both versions) is refused and changes nothing
    (s.removeByPrefix b3 hexOf [⟨0, 1⟩] [] false).2 = .refused := by
  decide

end Repo

open Repo in
#print axioms C04_only_version_code_is_window
open Repo in
#print axioms C04_only_version_by_prefix_only
open Repo in
#print axioms C04_only_version_longer_names_nothing
open Repo in
#print axioms C04_only_version_never_strips
open Repo in
#print axioms C04_only_version_verdict_one
open Repo in
#print axioms C04_only_version_verdict_nothing
open Repo in
#print axioms C04_only_version_refines_model
open Repo in
#print axioms C04_only_version_deletes_only_named
open Repo in
#print axioms C04_only_version_unnamed_kept
open Repo in
#print axioms C04_only_version_witness
