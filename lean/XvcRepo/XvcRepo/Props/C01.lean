import XvcRepo.Cache
import XvcRepo.Props.C02
import XvcRepo.Props.C17
/-!
  # C01 — Committed file content is restored byte-for-byte
-/
namespace Repo

theorem carryOneMove_recs (s : St) (p : Path) (a : Addr) (m : Method) (f : Bool) :
    (s.carryOneMove p a m f).1.recs = s.recs := by
  unfold St.carryOneMove
  have h1 : (if (s.cache a).isSome then
      if f then St.moveToCache { (s.detach a).setCache a none with dirRo := upd s.dirRo a.d false } p a
      else (s, Out.ok)
    else s.moveToCache p a).1.recs = s.recs := by
    repeat' split
    all_goals simp [moveToCache_recs]
  generalize (if (s.cache a).isSome then
      if f then St.moveToCache { (s.detach a).setCache a none with dirRo := upd s.dirRo a.d false } p a
      else (s, Out.ok)
    else s.moveToCache p a) = res at h1
  obtain ⟨s1, o1⟩ := res
  cases o1 <;> simp only at h1 ⊢
  · rw [recheckFromCache_recs]; split <;> simpa using h1
  · exact h1
  · exact h1

theorem carryOne_recs (s : St) (p : Path) (a : Addr) (m : Method) (f : Bool) :
    (s.carryOne p a m f).1.recs = s.recs := by
  unfold St.carryOne
  split
  · rw [recheckFromCache_recs]; rfl
  · split
    · rw [recheckFromCache_recs]; rfl
    · exact carryOneMove_recs s p a m f

/-- **C01_recheck_restores**: if path `p` is tracked with current digest `d` and the object for it is
    in the cache, then after *deleting* the workspace copy (`recheck`), or after *any* damage to it
    (`recheck --force`), for **every** recheck method (requested or recorded), reading `p` yields
    exactly the object's bytes; the command succeeds, does not touch the cache and — F1 — does not
    change which versions are recorded for the path. -/
theorem C01_recheck_restores (c : Cfg) (s : St) (p : Path) (e : Ent) (r : Rec) (d : Digest) (o : Obj) (n : Nat)
    (m : Option Method) (force : Bool)
    (hfind : s.findEnt p = some e) (hrec : s.recs e = some r) (hcur : r.cur = some d) (hmd : r.md = .stamp n)
    (hobj : s.cache (addrOf p d) = some o)
    (hdamage : s.ws p = none ∨ (force = true ∧ ((s.ws p).isSome → (s.readThrough p).isSome))) :
    (s.recheckOne c m force p).2 = .ok ∧
    (∃ k, (s.recheckOne c m force p).1.readThrough p = some (o.b, k)) ∧
    (s.recheckOne c m force p).1.recs e = some { r with method := m.getD r.method } ∧
    (s.recheckOne c m force p).1.cache = s.cache := by
  obtain ⟨r0, hr0, hpath⟩ := findEnt_path hfind
  rw [hrec] at hr0; cases hr0
  have hact : s.recheckActs c r (m.getD r.method) force = true := by
    rcases hdamage with hw | ⟨hf, _⟩
    · have hrt : s.readThrough r.path = none := by rw [hpath]; simp [St.readThrough, hw]
      have : s.digestDiff c r r.tob = .actualMissing := by
        unfold St.digestDiff; rw [hrt]; simp [hmd]
      simp [St.recheckActs, this]
    · simp [St.recheckActs, hf]
  unfold St.recheckOne
  simp only [hfind, hrec]
  unfold St.recheckRec
  simp only [hact, hcur, Bool.not_true, Bool.false_eq_true, if_false, setRec_cache, hobj, Option.isSome_some, if_true]
  have hp : ((s.setRec e (some { r with method := m.getD r.method })).ws p).isSome →
      ((s.setRec e (some { r with method := m.getD r.method })).readThrough p).isSome := by
    rcases hdamage with hw | ⟨_, h⟩
    · intro h; simp [hw] at h
    · exact h
  obtain ⟨h1, _, h3, h4⟩ := C17_method_materialises (s.setRec e (some { r with method := m.getD r.method }))
    p (addrOf p d) o (m.getD r.method) hobj hp
  refine ⟨h1, h3, ?_, ?_⟩
  · rw [recheckFromCache_recs]; simp
  · rw [h4]; rfl

/-- committing a regular file whose address is free moves exactly its bytes into a read-only object -/
theorem carryOne_moves (s : St) (p : Path) (a : Addr) (m : Method) (b : Bytes) (w : Bool) (st : Nat)
    (l : Option Addr) (hw : s.ws p = some (.file b w st l)) (hnone : s.cache a = none) :
    (s.carryOne p a m false).1.cache a = some ⟨b, true, st⟩ := by
  unfold St.carryOne
  have hl : s.linksTo p a = false := by simp [St.linksTo, hw]
  simp only [hl, Bool.false_eq_true, if_false, Bool.false_and]
  unfold St.carryOneMove
  simp only [hnone, Option.isSome_none, Bool.false_eq_true, if_false]
  have hd : s.deref p = s := by simp [St.deref, hw]
  have hmv : s.moveToCache p a =
      ({ (s.setWs p none).setCache a (some ⟨b, true, st⟩) with dirRo := upd s.dirRo a.d true }, Out.ok) := by
    unfold St.moveToCache
    simp only [hd, hw]
    rfl
  rw [hmv]
  simp only
  rw [recheckFromCache_cache]
  split <;> simp

/-- what `track` (with commit) of a not yet tracked regular file `p` with bytes `b` establishes:
    a record whose current digest is the digest of `b`, and an object at its address that holds `b`
    itself when the address was free, and the untouched existing object otherwise. -/
theorem C01_track_commits (c : Cfg) (o : TrackOpts) (s : St) (p : Path) (b : Bytes) (w : Bool) (st : Nat)
    (l : Option Addr) (hw : s.ws p = some (.file b w st l)) (hnew : s.findEnt p = none)
    (hc : o.noCommit = false) (hf : o.force = false) :
    (∃ r, (s.trackOne c o p).1.recs s.next = some r ∧ r.path = p ∧
        r.cur = some (digestOf c.algo (o.tob.getD c.tob) b) ∧ r.md = .stamp st ∧ r.method = o.method.getD c.method) ∧
    (s.cache (addrOf p (digestOf c.algo (o.tob.getD c.tob) b)) = none →
      (s.trackOne c o p).1.cache (addrOf p (digestOf c.algo (o.tob.getD c.tob) b)) = some ⟨b, true, st⟩) ∧
    (∀ ob, s.cache (addrOf p (digestOf c.algo (o.tob.getD c.tob) b)) = some ob →
      (s.trackOne c o p).1.cache (addrOf p (digestOf c.algo (o.tob.getD c.tob) b)) = some ob) := by
  have hr := readThrough_file hw
  unfold St.trackOne
  simp only [hr]
  unfold St.trackFile
  simp only [hnew, hc, Bool.false_eq_true, if_false, hf]
  refine ⟨?_, ?_, ?_⟩
  · rw [carryOne_recs]
    refine ⟨newRec p st (digestOf c.algo (o.tob.getD c.tob) b) (o.method.getD c.method) (o.tob.getD c.tob), ?_, rfl, rfl, rfl, rfl⟩
    simp
  · intro hnone
    exact carryOne_moves _ p _ _ b w st l (by simpa using hw) (by simpa using hnone)
  · intro ob hob
    exact carryOne_keep _ p _ _ _ _ (by simpa using hob)

/-- **C01_track_commits_beside_other_extension**: the same bytes committed under two EXTENSIONS
    (`model.bin`, `model.bak`) share the digest — on disk the digest directory `<algo>/<3>/<3>/<58>/` —
    but not the object (`0.bin`, `0.bak`).  An object of the digest under another extension (a fortiori an
    empty digest directory, which is no object at all: the cache of the model maps ADDRESSES, digest plus
    extension, to objects) does not stand for the object of `p`: `track` stores the bytes of `p` at
    `p`'s own address and leaves the other object alone. -/
theorem C01_track_commits_beside_other_extension (c : Cfg) (o : TrackOpts) (s : St) (p q : Path) (b : Bytes) (w : Bool)
    (st : Nat) (l : Option Addr) (hw : s.ws p = some (.file b w st l)) (hnew : s.findEnt p = none)
    (hc : o.noCommit = false) (hf : o.force = false) (ob : Obj)
    (hq : s.cache (addrOf q (digestOf c.algo (o.tob.getD c.tob) b)) = some ob)
    (hnone : s.cache (addrOf p (digestOf c.algo (o.tob.getD c.tob) b)) = none) :
    (s.trackOne c o p).1.cache (addrOf p (digestOf c.algo (o.tob.getD c.tob) b)) = some ⟨b, true, st⟩ ∧
    (s.trackOne c o p).1.cache (addrOf q (digestOf c.algo (o.tob.getD c.tob) b)) = some ob := by
  refine ⟨(C01_track_commits c o s p b w st l hw hnew hc hf).2.1 hnone, ?_⟩
  have hr := readThrough_file hw
  unfold St.trackOne
  simp only [hr]
  unfold St.trackFile
  simp only [hnew, hc, Bool.false_eq_true, if_false, hf]
  exact carryOne_keep _ p _ _ _ _ (by simpa using hq)

/-- the same at command level, on a concrete history: one content under two extensions, committed by one
    `track`, both workspace files deleted, one `recheck`: both paths yield the committed bytes, from two
    objects -/
theorem C01_cross_extension_witness :
    let s0 := (St.init.userWrite ⟨0, 1⟩ [104, 0]).userWrite ⟨1, 2⟩ [104, 0]
    let s1 := ((s0.track {} {} [⟨0, 1⟩, ⟨1, 2⟩]).1.userDelete ⟨0, 1⟩).userDelete ⟨1, 2⟩
    let s2 := (s1.recheck {} none false [⟨0, 1⟩, ⟨1, 2⟩]).1
    (s2.readThrough ⟨0, 1⟩).map (·.1) = some [104, 0] ∧ (s2.readThrough ⟨1, 2⟩).map (·.1) = some [104, 0] ∧
    (s2.cache ⟨⟨0, [104, 0]⟩, 1⟩).isSome = true ∧ (s2.cache ⟨⟨0, [104, 0]⟩, 2⟩).isSome = true := by
  decide

/-- the strip collision (K1): two different byte strings with the same text digest -/
theorem C01_crlf_counterexample :
    digestOf 0 .auto [108, 49, 10] = digestOf 0 .auto [108, 49, 13, 10] ∧ ([108, 49, 10] : Bytes) ≠ [108, 49, 13, 10] := by
  decide

/-- …so the second file committed is restored with the first file's bytes (K1, known finding):
    `track` of the CRLF file finds the LF file's object at the same address and rechecks it. -/
theorem C01_crlf_restores_other_bytes :
    let s0 := ((St.init.userWrite ⟨0, 1⟩ [108, 49, 10]).userWrite ⟨1, 1⟩ [108, 49, 13, 10])
    let s1 := (s0.track {} {} [⟨0, 1⟩, ⟨1, 1⟩]).1
    (s1.readThrough ⟨1, 1⟩).map (·.1) = some [108, 49, 10] := by
  decide

/-- without a strip collision the restored bytes are the committed bytes: the digest determines the
    bytes among contents hashed in the same mode -/
theorem C01_digest_injective_same_mode (algo : Nat) (t : Tob) (b b' : Bytes)
    (hm : asText t b = asText t b') (hs : asText t b = true → strip b = strip b' → b = b')
    (h : digestOf algo t b = digestOf algo t b') : b = b' := by
  unfold digestOf at h
  rw [← hm] at h
  by_cases ht : asText t b
  · simp [ht] at h; exact hs ht h
  · simp [ht] at h; exact h

example : ∃ s : St, ∃ e r d o, s.findEnt ⟨0, 1⟩ = some e ∧ s.recs e = some r ∧ r.cur = some d ∧
    s.cache (addrOf ⟨0, 1⟩ d) = some o ∧ s.ws ⟨0, 1⟩ = none :=
  ⟨(((St.init.userWrite ⟨0, 1⟩ [104, 10]).track {} {} [⟨0, 1⟩]).1.userDelete ⟨0, 1⟩), 1,
    { path := ⟨0, 1⟩, md := .stamp 1, digests := [⟨0, [104]⟩], method := .copy, tob := .auto }, ⟨0, [104]⟩, ⟨[104, 10], true, 1⟩,
    by decide, by decide, by decide, by decide, by decide⟩

end Repo

open Repo in
#print axioms C01_recheck_restores
open Repo in
#print axioms C01_track_commits
open Repo in
#print axioms C01_crlf_counterexample
open Repo in
#print axioms C01_crlf_restores_other_bytes
open Repo in
#print axioms C01_digest_injective_same_mode
open Repo in
#print axioms C01_track_commits_beside_other_extension
open Repo in
#print axioms C01_cross_extension_witness
