import XvcRepo.Cache
import XvcRepo.Props.C17
/-!
  # C19 — Copy and move preserve content identity without touching content
-/
namespace Repo

/-- **C19_copy_shares**: `xvc file copy src dst` (source committed and unchanged, destination new,
    same extension) makes `dst` a tracked path with the same recorded digest and — unless overridden —
    the same recheck method as the source, at the **same cache address**; the source record, the cache
    and (with the object present) the destination's bytes are as promised. -/
theorem C19_copy_shares (c : Cfg) (o : CopyOpts) (s : St) (src dst : Path) (se : Ent) (r : Rec) (d : Digest) (ob : Obj)
    (hs : s.findEnt src = some se) (hr : s.recs se = some r) (hcur : r.cur = some d)
    (hunch : s.sourceChanged c r = false) (hnew : s.findEnt dst = none) (hfree : s.ws dst = none)
    (hnext : se < s.next) (hext : ext dst = ext src) (hobj : s.cache (addrOf src d) = some ob) (hnr : o.noRecheck = false) :
    let s' := (s.copy c o src dst).1
    (s.copy c o src dst).2 = .ok ∧
    s'.recs s.next = some { path := dst, md := r.md, digests := [d], method := o.method.getD r.method, tob := r.tob } ∧
    s'.recs se = some r ∧
    addrOf dst d = addrOf src d ∧
    s'.cache = s.cache ∧
    (∃ n, s'.readThrough dst = some (ob.b, n)) := by
  have haddr : addrOf dst d = addrOf src d := by simp [addrOf, hext]
  have hne : se ≠ s.next := Nat.ne_of_lt hnext
  unfold St.copy
  simp only [hs, hr, hunch, hnew, hfree, hcur, hnr, Bool.false_eq_true, if_false, Option.isSome_none, Option.isNone_none,
    Bool.false_and, Bool.and_false, Option.getD_none, Option.bind_none, Option.toList_some]
  let r' : Rec := { path := dst, md := r.md, digests := [d], method := o.method.getD r.method, tob := r.tob }
  let s1 : St := (s.setRec s.next (some r')).bumpNext
  have hobj' : s1.cache (addrOf dst d) = some ob := by rw [haddr]; simpa [s1] using hobj
  have hp : (s1.ws dst).isSome → (s1.readThrough dst).isSome := by
    intro h; simp [s1, hfree] at h
  obtain ⟨h1, _, h3, h4⟩ := C17_method_materialises s1 dst (addrOf dst d) ob (o.method.getD r.method) hobj' hp
  refine ⟨h1, ?_, ?_, haddr, ?_, h3⟩
  · rw [recheckFromCache_recs]; simp
  · rw [recheckFromCache_recs]; simp [upd, hne, hr]
  · rw [h4]; rfl

/-- **C19_move_count_preserved**: `xvc file move src dst` (destination new and free, source unchanged)
    re-attaches the *same entity* to `dst`: same digests, method unless overridden; no entity is created
    or dropped, the cache is untouched. -/
theorem C19_move_count_preserved (c : Cfg) (o : CopyOpts) (s : St) (src dst : Path) (se : Ent) (r : Rec)
    (hs : s.findEnt src = some se) (hr : s.recs se = some r) (hunch : s.sourceChanged c r = false)
    (hnew : s.findEnt dst = none) (hfree : s.ws dst = none)
    (hnb : s.moveBlocked r src (o.method.getD r.method) o.noRecheck = false) :
    let s' := (s.move c o src dst).1
    s'.next = s.next ∧ s'.cache = s.cache ∧
    s'.recs se = some { r with path := dst, method := o.method.getD r.method } ∧
    (∀ e, e ≠ se → s'.recs e = s.recs e) := by
  have hc := move_cache c o s src dst
  unfold St.move at hc ⊢
  simp only [hs, hr, hunch, hnew, hfree, hnb, Bool.false_eq_true, if_false, Option.isSome_none, Bool.false_and] at hc ⊢
  refine ⟨?_, hc, ?_, ?_⟩
  · repeat' split
    all_goals simp [recheckFromCache_next]
  · repeat' split
    all_goals simp [recheckFromCache_recs]
  · intro e he
    repeat' split
    all_goals simp [recheckFromCache_recs, upd, he]

/-- **C19_refusals**: both commands refuse (and change nothing) when the source has uncommitted changes
    or the destination is already tracked (copy: unless `--force`). -/
theorem C19_refusals (c : Cfg) (o : CopyOpts) (s : St) (src dst : Path) (se : Ent) (r : Rec)
    (hs : s.findEnt src = some se) (hr : s.recs se = some r) :
    (s.sourceChanged c r = true → s.copy c o src dst = (s, .refused) ∧ s.move c o src dst = (s, .refused)) ∧
    (s.sourceChanged c r = false → (s.findEnt dst).isSome → o.force = false → s.copy c o src dst = (s, .refused)) ∧
    (s.sourceChanged c r = false → (s.findEnt dst).isSome → s.move c o src dst = (s, .refused)) := by
  refine ⟨?_, ?_, ?_⟩
  · intro h; simp [St.copy, St.move, hs, hr, h]
  · intro h hd hf; simp [St.copy, hs, hr, h, hd, hf]
  · intro h hd; simp [St.move, hs, hr, h, hd]

/-- an absent source file is not "changed": copy works when the source content is not in the workspace -/
theorem C19_absent_source_ok (c : Cfg) (s : St) (r : Rec) (h : s.readThrough r.path = none) :
    s.sourceChanged c r = false := by
  unfold St.sourceChanged St.digestDiff
  rw [h]
  by_cases hm : r.md = .missing <;> simp [hm]

/-- K2: across extensions the destination's address is a different one, where no object exists -/
theorem C19_cross_extension_counterexample :
    let s0 := St.init.userWrite ⟨0, 1⟩ [104]
    let s1 := (s0.track {} {} [⟨0, 1⟩]).1
    (s1.copy {} {} ⟨0, 1⟩ ⟨1, 2⟩).2 = .panic := by
  decide

/-- K9: `move` of an absent source with copy→copy fails half-way: the record is moved, no file arrives -/
theorem C19_absent_source_move_counterexample :
    let s0 := St.init.userWrite ⟨0, 1⟩ [104]
    let s1 := ((s0.track {} {} [⟨0, 1⟩]).1.userDelete ⟨0, 1⟩)
    let res := s1.move {} {} ⟨0, 1⟩ ⟨1, 1⟩
    res.2 = .refused ∧ res.1.findEnt ⟨1, 1⟩ = some 1 ∧ res.1.ws ⟨1, 1⟩ = none := by
  decide

example : ∃ s : St, ∃ se r d ob, s.findEnt ⟨0, 1⟩ = some se ∧ s.recs se = some r ∧ r.cur = some d ∧
    s.sourceChanged {} r = false ∧ s.findEnt ⟨1, 1⟩ = none ∧ s.ws ⟨1, 1⟩ = none ∧ s.cache (addrOf ⟨0, 1⟩ d) = some ob :=
  ⟨((St.init.userWrite ⟨0, 1⟩ [104]).track {} {} [⟨0, 1⟩]).1, 1,
    { path := ⟨0, 1⟩, md := .stamp 1, digests := [⟨0, [104]⟩], method := .copy, tob := .auto }, ⟨0, [104]⟩, ⟨[104], true, 1⟩,
    by decide, by decide, by decide, by decide, by decide, by decide, by decide⟩

end Repo

open Repo in
#print axioms C19_copy_shares
open Repo in
#print axioms C19_move_count_preserved
open Repo in
#print axioms C19_refusals
open Repo in
#print axioms C19_absent_source_ok
open Repo in
#print axioms C19_cross_extension_counterexample
open Repo in
#print axioms C19_absent_source_move_counterexample
