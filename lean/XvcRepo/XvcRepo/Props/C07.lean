import XvcRepo.Effects
import XvcRepo.Props.C03
import XvcRepo.Gen.MoveToCache
/-!
  # C07 — A killed xvc command never corrupts the repository or loses data

  All statements quantify over **every prefix** of the micro-step list of a procedure, i.e. over every
  instant at which the process can be killed between two system calls.
-/
namespace Repo

theorem runMicro_append (s : St) (l1 l2 : List Micro) : runMicro s (l1 ++ l2) = runMicro (runMicro s l1) l2 := by
  simp [runMicro, List.foldl_append]

/-- **C07_full_fold_is_step**: executing all micro-steps of `carry_in` is the atomic step of the
    repository model (so the crash model and the command model are one). -/
theorem C07_full_fold_is_step (s : St) (p : Path) (a : Addr) (m : Method)
    (hok : (if (s.cache a).isSome then (s, Out.ok) else s.moveToCache p a).2 = .ok) :
    runMicro s (carryMicro p a m) = (s.carryOne p a m false).1 := by
  unfold St.carryOne
  split
  · rename_i hl
    have hc := (linksTo_spec hl).2
    have hr := linksTo_readThrough hl
    unfold carryMicro runMicro mMoveIn mUnlinkWs mMaterialise
    simp only [List.foldl_cons, List.foldl_nil, hc, if_true, hr]
  unfold carryMicro runMicro St.carryOneMove mMoveIn mUnlinkWs mMaterialise
  simp only [List.foldl_cons, List.foldl_nil, Bool.false_eq_true, if_false]
  split
  · rfl
  · rename_i hn
    simp only [hn, Bool.false_eq_true, if_false] at hok
    generalize s.moveToCache p a = res at hok ⊢
    obtain ⟨s1, o1⟩ := res
    simp only at hok
    subst hok
    rfl

theorem mMoveIn_from (s : St) (p : Path) (a : Addr) (h : ∀ b n, s.readThrough p = some (b, n) → HashOf a.d b) :
    CacheFrom s (mMoveIn p a s) := by
  unfold mMoveIn; split
  · exact CacheFrom.refl s
  · exact moveToCache_from s p a h

theorem mMoveIn_keep (s : St) (p : Path) (a : Addr) : CacheKeep s (mMoveIn p a s) := by
  unfold mMoveIn; split
  · exact CacheKeep.refl s
  · rename_i hn
    apply moveToCache_keep
    cases hc : s.cache a with
    | none => rfl
    | some o => simp [hc] at hn

theorem mUnlinkWs_cache (s : St) (p : Path) : (mUnlinkWs p s).cache = s.cache := by
  unfold mUnlinkWs; split <;> rfl

theorem mMaterialise_cache (s : St) (p : Path) (a : Addr) (m : Method) : (mMaterialise p a m s).cache = s.cache :=
  recheckFromCache_cache s p a m

/-- the cache along the micro-steps of `carry_in` -/
theorem carryMicro_prefix_cache (s : St) (p : Path) (a : Addr) (m : Method) (k : Nat) :
    (runMicro s ((carryMicro p a m).take k)).cache = s.cache ∨
    (runMicro s ((carryMicro p a m).take k)).cache = (mMoveIn p a s).cache := by
  unfold carryMicro runMicro
  match k with
  | 0 => left; rfl
  | 1 => right; rfl
  | 2 => right; simp [mUnlinkWs_cache]
  | k + 3 =>
    right
    rw [List.take_of_length_le (by simp)]
    simp [mUnlinkWs_cache, mMaterialise_cache]

/-- **C07_no_partial_object**: at **every** kill point of `carry_in` every object in the cache is an old
    object or a complete, correctly addressed one — objects arrive by `rename`, never by writing at the
    final address. -/
theorem C07_no_partial_object (s : St) (p : Path) (a : Addr) (m : Method) (k : Nat)
    (h : ∀ b n, s.readThrough p = some (b, n) → HashOf a.d b) :
    CacheFrom s (runMicro s ((carryMicro p a m).take k)) := by
  rcases carryMicro_prefix_cache s p a m k with hc | hc
  · exact cacheFrom_of_eq hc
  · intro a' o ho; rw [hc] at ho; exact mMoveIn_from s p a h a' o ho

/-- **C07_old_versions_survive**: at every kill point of `carry_in` (without `--force`) every object that
    was in the cache — every version committed before — is still there, bit for bit. -/
theorem C07_old_versions_survive (s : St) (p : Path) (a : Addr) (m : Method) (k : Nat) :
    CacheKeep s (runMicro s ((carryMicro p a m).take k)) := by
  rcases carryMicro_prefix_cache s p a m k with hc | hc
  · exact cacheKeep_of_eq hc
  · intro a' o ho; rw [hc]; exact mMoveIn_keep s p a a' o ho

/-- **C07_bytes_survive**: at every kill point of `carry_in` of a regular file with bytes `b`, the bytes
    are still at the path or already in the cache at the address (barring a colliding object, K1). -/
theorem C07_bytes_survive (s : St) (p : Path) (a : Addr) (m : Method) (k : Nat) (b : Bytes) (w : Bool) (st : Nat)
    (l : Option Addr) (hw : s.ws p = some (.file b w st l)) (hnc : NoCollision s a b) :
    (∃ n, (runMicro s ((carryMicro p a m).take k)).readThrough p = some (b, n)) ∨
    (∃ o, (runMicro s ((carryMicro p a m).take k)).cache a = some o ∧ o.b = b) := by
  have hmoved : ∃ o, (mMoveIn p a s).cache a = some o ∧ o.b = b := by
    unfold mMoveIn
    cases hc : s.cache a with
    | some o => exact ⟨o, by simp [hc], hnc o hc⟩
    | none =>
      simp only [Option.isSome_none, Bool.false_eq_true, if_false]
      have hd : s.deref p = s := by simp [St.deref, hw]
      unfold St.moveToCache
      simp [hd, hw]
  match k with
  | 0 => left; exact ⟨st, by simp [runMicro, St.readThrough, hw]⟩
  | k + 1 =>
    right
    rcases carryMicro_prefix_cache s p a m (k + 1) with hc | hc
    · -- cache unchanged ⇒ the `[EXISTS]` case: the object was already there
      have h1 : (mMoveIn p a s).cache = s.cache ∨ True := Or.inr trivial
      obtain ⟨o, ho, hb⟩ := hmoved
      cases hs : s.cache a with
      | some o' => exact ⟨o', by rw [hc]; exact hs, hnc o' hs⟩
      | none =>
        -- then the prefix of length ≥ 1 has the moved cache, which differs at `a`: contradiction with `hc`
        exfalso
        have : (runMicro s ((carryMicro p a m).take (k + 1))).cache = (mMoveIn p a s).cache := by
          unfold carryMicro runMicro
          match k with
          | 0 => rfl
          | 1 => simp [mUnlinkWs_cache]
          | k + 2 =>
            rw [List.take_of_length_le (by simp)]
            simp [mUnlinkWs_cache, mMaterialise_cache]
        rw [this] at hc
        rw [hc, hs] at ho; cases ho
    · obtain ⟨o, ho, hb⟩ := hmoved
      exact ⟨o, by rw [hc]; exact ho, hb⟩

/-- `carry-in` of a changed file whose way back to the workspace fails with an I/O error (disk full, a
    size limit …): the file is moved into the cache and unlinked, `recheck_from_cache` fails — and since
    the repair F25 the records are saved all the same (before it the command panicked here) -/
def carryInFailedRecheckMicro (p : Path) (e : Ent) (r' : Rec) (a : Addr) : List Micro :=
  [mMoveIn p a, mUnlinkWs p, mSaveRec e r']

/-- **C07_carryIn_failed_recheck_recorded**: after such a failure the bytes of the file are in the cache
    under the digest the records now name for the path (`Safe`): `xvc file recheck` brings them back. -/
theorem C07_carryIn_failed_recheck_recorded (s : St) (p : Path) (e : Ent) (r' : Rec) (d : Digest) (b : Bytes) (w : Bool)
    (st : Nat) (l : Option Addr) (hw : s.ws p = some (.file b w st l)) (hcur : r'.cur = some d)
    (hnc : NoCollision s (addrOf p d) b) :
    Safe (runMicro s (carryInFailedRecheckMicro p e r' (addrOf p d))) p e b := by
  have hmoved : ∃ o, (mMoveIn p (addrOf p d) s).cache (addrOf p d) = some o ∧ o.b = b := by
    unfold mMoveIn
    cases hc : s.cache (addrOf p d) with
    | some o => exact ⟨o, by simp [hc], hnc o hc⟩
    | none =>
      simp only [Option.isSome_none, Bool.false_eq_true, if_false]
      have hd : s.deref p = s := by simp [St.deref, hw]
      unfold St.moveToCache
      simp [hd, hw]
  obtain ⟨o, ho, hb⟩ := hmoved
  right
  refine ⟨r', d, o, ?_, hcur, ?_, hb⟩
  · simp [runMicro, carryInFailedRecheckMicro, mSaveRec, upd]
  · simp only [runMicro, carryInFailedRecheckMicro, List.foldl_cons, List.foldl_nil, mSaveRec, setRec_cache]
    rw [mUnlinkWs_cache]; exact ho

/-- before the repair the records were not saved: the new bytes sat in the cache under a digest no
    record named, the workspace file was gone and `recheck` restored the previous version -/
theorem C07_carryIn_failed_recheck_counterexample_before_fix :
    let s0 := ((St.init.userWrite ⟨0, 1⟩ [104]).track {} {} [⟨0, 1⟩]).1
    let s1 := s0.userWrite ⟨0, 1⟩ [105]
    let s2 := runMicro s1 [mMoveIn ⟨0, 1⟩ ⟨⟨0, [105]⟩, 1⟩, mUnlinkWs ⟨0, 1⟩]
    s2.readThrough ⟨0, 1⟩ = none ∧ (s2.recs 1).map (·.cur) = some (some ⟨0, [104]⟩) ∧
    (s2.cache ⟨⟨0, [105]⟩, 1⟩).map (·.b) = some [105] := by
  decide

/-- **C07_store_file_atomic** (K3a repaired): at every kill point of a store save, every *visible* file
    of the directory is complete — a reader never sees an empty or partial event log. -/
theorem C07_store_file_atomic (d : List DirEntry) (n : Nat) (k : Nat) (hd : ∀ x ∈ visible d, x.complete = true)
    (hfresh : ∀ x ∈ d, x.name ≠ n) :
    ∀ x ∈ visible (((saveFileMicro n).take k).foldl (fun d f => f d) d), x.complete = true := by
  have map_id : ∀ (g : DirEntry → DirEntry), d.map (fun x => if x.name = n ∧ x.hidden = true then g x else x) = d := by
    intro g
    conv => rhs; rw [← List.map_id d]
    apply List.map_congr_left
    intro x hx
    have : ¬ (x.name = n ∧ x.hidden = true) := fun h => hfresh x hx h.1
    simp [this]
  -- the four possible prefix states
  have h1 : ((saveFileMicro n).take 1).foldl (fun d f => f d) d = d ++ [⟨n, true, false⟩] := rfl
  have h2 : ((saveFileMicro n).take 2).foldl (fun d f => f d) d = d ++ [⟨n, true, true⟩] := by
    simp only [saveFileMicro, List.take, List.foldl_cons, List.foldl_nil, List.map_append, map_id]
    simp
  have h3 : (saveFileMicro n).foldl (fun d f => f d) d = d ++ [⟨n, false, true⟩] := by
    simp only [saveFileMicro, List.foldl_cons, List.foldl_nil, List.map_append, List.map_map]
    have : d.map ((fun x => if x.name = n ∧ x.hidden = true then ({ x with hidden := false } : DirEntry) else x) ∘
        (fun x => if x.name = n ∧ x.hidden = true then ({ x with complete := true } : DirEntry) else x)) = d := by
      conv => rhs; rw [← List.map_id d]
      apply List.map_congr_left
      intro x hx
      have : ¬ (x.name = n ∧ x.hidden = true) := fun h => hfresh x hx h.1
      simp [Function.comp, this]
    rw [this]; simp
  have vis_app : ∀ e : DirEntry, ∀ x ∈ visible (d ++ [e]), x ∈ visible d ∨ (x = e ∧ e.hidden = false) := by
    intro e x hx
    simp only [visible, List.filter_append, List.mem_append, List.mem_filter, List.mem_singleton] at hx ⊢
    rcases hx with hx | ⟨rfl, hh⟩
    · exact Or.inl hx
    · exact Or.inr ⟨rfl, by simpa using hh⟩
  match k with
  | 0 => exact hd
  | 1 =>
    rw [h1]; intro x hx
    rcases vis_app _ x hx with h | ⟨_, h⟩
    · exact hd x h
    · cases h
  | 2 =>
    rw [h2]; intro x hx
    rcases vis_app _ x hx with h | ⟨_, h⟩
    · exact hd x h
    · cases h
  | k + 3 =>
    rw [List.take_of_length_le (by simp [saveFileMicro]), h3]; intro x hx
    rcases vis_app _ x hx with h | ⟨rfl, _⟩
    · exact hd x h
    · rfl

/-- K3b2: `track` killed after the records are saved and before the content is moved: re-running `track`
    sees identical metadata and skips the file, which is recorded but not cached. -/
theorem C07_track_rerun_counterexample :
    let s0 := St.init.userWrite ⟨0, 1⟩ [104]
    let r := newRec ⟨0, 1⟩ 1 (digestOf 0 .auto [104]) .copy .auto
    let sk := runMicro s0 ((trackNewMicro ⟨0, 1⟩ r (addrOf ⟨0, 1⟩ (digestOf 0 .auto [104]))).take 1)
    let s1 := (sk.trackOne {} {} ⟨0, 1⟩).1
    (s1.cache (addrOf ⟨0, 1⟩ (digestOf 0 .auto [104]))).isNone = true ∧ (s1.findEnt ⟨0, 1⟩).isSome = true ∧
    (s1.readThrough ⟨0, 1⟩).map (·.1) = some [104] := by
  decide

/-- K3d: `carry-in` killed after the `rename` into the cache and before the records are saved: the path is
    missing, re-running `carry-in` panics, `recheck` restores the PREVIOUS version. -/
theorem C07_carryIn_rerun_counterexample :
    let s0 := ((St.init.userWrite ⟨0, 1⟩ [104]).track {} {} [⟨0, 1⟩]).1.userWrite ⟨0, 1⟩ [105]
    let sk := runMicro s0 ((carryMicro ⟨0, 1⟩ (addrOf ⟨0, 1⟩ (digestOf 0 .auto [105])) .copy).take 1)
    (sk.carryInOne {} none false ⟨0, 1⟩).2 = .panic ∧
    ((sk.recheckOne {} none false ⟨0, 1⟩).1.readThrough ⟨0, 1⟩).map (·.1) = some [104] ∧
    (sk.cache (addrOf ⟨0, 1⟩ (digestOf 0 .auto [105]))).isSome = true := by
  decide

/-- **C07_recheck_rerun_converges**: `recheck` killed at **any** point — file unlinked, or materialised with
    the new method but the method not yet recorded — and run again ends with the entry of the requested
    kind that yields the object's bytes. -/
theorem C07_recheck_rerun_converges (c : Cfg) (s : St) (p : Path) (e : Ent) (r : Rec) (d : Digest) (o : Obj) (n : Nat)
    (m : Method) (k : Nat) (hfind : s.findEnt p = some e) (hrec : s.recs e = some r) (hcur : r.cur = some d)
    (hmd : r.md = .stamp n) (hobj : s.cache (addrOf p d) = some o)
    (hclean : (s.ws p).isSome → (s.readThrough p).isSome) :
    let sk := runMicro s ((recheckMicro p e { r with method := m } (addrOf p d)).take k)
    (sk.recheckOne c (some m) true p).2 = .ok ∧
    Materialised (sk.recheckOne c (some m) true p).1 p (addrOf p d) o m := by
  -- every prefix state has: same cache, a record for `e` with the same digests/path/md, and a clean entry at `p`
  have key : ∀ sk : St, sk.cache = s.cache → sk.next = s.next →
      (∃ r', sk.recs = upd s.recs e (some r') ∧ r'.cur = some d ∧ r'.md = .stamp n ∧ r'.path = r.path) →
      ((sk.ws p).isSome → (sk.readThrough p).isSome) →
      (sk.recheckOne c (some m) true p).2 = .ok ∧ Materialised (sk.recheckOne c (some m) true p).1 p (addrOf p d) o m := by
    intro sk hc hn ⟨r', hr', hcur', hmd', hpath'⟩ hcl
    obtain ⟨r0, hr0, hp0⟩ := findEnt_path hfind
    rw [hrec] at hr0; cases hr0
    have hfind' : sk.findEnt p = some e := by
      unfold St.findEnt at hfind ⊢
      rw [hn, hr']
      have hcongr : ∀ (f g : Ent → Bool) (l : List Ent), (∀ x, f x = g x) → l.find? f = l.find? g := by
        intro f g l h; have : f = g := funext h; rw [this]
      refine (hcongr _ _ _ ?_).trans hfind
      intro x
      by_cases hx : x = e
      · subst hx; simp [hrec, hpath', hp0]
      · rw [upd_other _ _ hx]
    have hrec' : sk.recs e = some r' := by rw [hr']; simp
    have hobj' : sk.cache (addrOf p d) = some o := by rw [hc]; exact hobj
    have := C01_recheck_restores c sk p e r' d o n (some m) true hfind' hrec' hcur' hmd' hobj' (Or.inr ⟨rfl, hcl⟩)
    refine ⟨this.1, ?_⟩
    -- the materialised entry: re-derive through C17 on the state `recheckOne` builds
    unfold St.recheckOne
    simp only [hfind', hrec']
    unfold St.recheckRec
    have hact : sk.recheckActs c r' m true = true := by simp [St.recheckActs]
    simp only [Option.getD_some, hact, hcur', Bool.not_true, Bool.false_eq_true, if_false, setRec_cache, hobj',
      Option.isSome_some, if_true]
    exact (C17_method_materialises (sk.setRec e (some { r' with method := m })) p (addrOf p d) o m
      (by simpa using hobj') (by intro h; exact hcl h)).2.1
  have hr_self : s.recs = upd s.recs e (some r) := by
    funext x; by_cases hx : x = e
    · subst hx; simp [hrec]
    · rw [upd_other _ _ hx]
  -- the three non-trivial prefix states
  have hcu := mUnlinkWs_cache s p
  have hnu : (mUnlinkWs p s).next = s.next := by unfold mUnlinkWs; split <;> rfl
  have hru : (mUnlinkWs p s).recs = s.recs := by unfold mUnlinkWs; split <;> rfl
  have hclu : ((mUnlinkWs p s).ws p).isSome → ((mUnlinkWs p s).readThrough p).isSome := by
    unfold mUnlinkWs
    split
    · intro h; simp at h
    · exact hclean
  have hmat := C17_method_materialises (mUnlinkWs p s) p (addrOf p d) o m (by rw [hcu]; exact hobj) hclu
  obtain ⟨kk, hk⟩ := hmat.2.2.1
  have s1ok := key (mUnlinkWs p s) hcu hnu ⟨r, by rw [hru]; exact hr_self, hcur, hmd, rfl⟩ hclu
  have s2ok := key (mMaterialise p (addrOf p d) m (mUnlinkWs p s))
    (by rw [mMaterialise_cache, hcu]) (by unfold mMaterialise; rw [recheckFromCache_next, hnu])
    ⟨r, by (unfold mMaterialise; rw [recheckFromCache_recs, hru]; exact hr_self), hcur, hmd, rfl⟩
    (by intro _; unfold mMaterialise; rw [hk]; rfl)
  have s3ok := key (mSaveRec e { r with method := m } (mMaterialise p (addrOf p d) m (mUnlinkWs p s)))
    (by unfold mSaveRec; rw [setRec_cache, mMaterialise_cache, hcu])
    (by unfold mSaveRec mMaterialise; rw [setRec_next, recheckFromCache_next, hnu])
    ⟨{ r with method := m }, by (unfold mSaveRec mMaterialise; rw [setRec_recs, recheckFromCache_recs, hru]), hcur, hmd, rfl⟩
    (by
      intro _
      unfold mSaveRec mMaterialise
      have : ((St.recheckFromCache (mUnlinkWs p s) p (addrOf p d) m).1.setRec e
          (some { r with method := m })).readThrough p = (St.recheckFromCache (mUnlinkWs p s) p (addrOf p d) m).1.readThrough p := rfl
      rw [this, hk]; rfl)
  unfold recheckMicro runMicro
  match k with
  | 0 => exact key s rfl rfl ⟨r, hr_self, hcur, hmd, rfl⟩ hclean
  | 1 => exact s1ok
  | 2 => exact s2ok
  | k + 3 =>
    rw [List.take_of_length_le (by simp)]
    exact s3ok

/-! ## a symbolic link carried into the cache: the data copy call by call (`moveLinkMicro`, `carryLinkMicro`) -/

theorem runF_append (x : FS) (l1 l2 : List FMicro) : runF x (l1 ++ l2) = runF (runF x l1) l2 := by
  simp [runF, List.foldl_append]

theorem runF_preserves (P : FS → Prop) (l : List FMicro) (h : ∀ f ∈ l, ∀ y, P y → P (f y)) (x : FS) (hx : P x) :
    P (runF x l) := by
  induction l generalizing x with
  | nil => exact hx
  | cons f l ih =>
    exact ih (fun g hg => h g (List.mem_cons_of_mem _ hg)) (f x) (h f (List.mem_cons_self ..) x hx)

theorem upd_upd {α β : Type} [DecidableEq α] (f : α → β) (a : α) (b c : β) : upd (upd f a b) a c = upd f a c := by
  funext x; by_cases hx : x = a <;> simp [upd, hx]

/-- while the chunks are written, they are in the temporary file and the repository itself is untouched -/
theorem runF_appendTmp (x : FS) (a : Addr) (acc : Bytes) (l : List Bytes) (h : x.tmp a = some acc) :
    (runF x (l.map (fAppendTmp a))).st = x.st ∧ (runF x (l.map (fAppendTmp a))).tmp a = some (acc ++ l.flatten) := by
  induction l generalizing x acc with
  | nil => simp [runF, h]
  | cons c l ih =>
    have h' : (fAppendTmp a c x).tmp a = some (acc ++ c) := by simp [fAppendTmp, h]
    have := ih (fAppendTmp a c x) (acc ++ c) h'
    simp only [List.map_cons, runF, List.foldl_cons] at this ⊢
    refine ⟨this.1, ?_⟩
    rw [this.2]; simp [List.append_assoc]

/-- every prefix of `fs::copy(path, temp_cache_path)`: nothing in the repository changed; once all calls are made the
    temporary file holds all the bytes -/
theorem copyToTmp_prefix (x : FS) (a : Addr) (cs : List Bytes) (k : Nat) :
    (runF x ((copyToTmp a cs).take k)).st = x.st ∧
    (cs.length + 1 ≤ k → (runF x ((copyToTmp a cs).take k)).tmp a = some cs.flatten) := by
  match k with
  | 0 => exact ⟨rfl, fun h => by omega⟩
  | j + 1 =>
    have hx : (fCreateTmp a x).tmp a = some [] := by simp [fCreateTmp]
    have := runF_appendTmp (fCreateTmp a x) a [] (cs.take j) hx
    simp only [copyToTmp, List.take_succ_cons, List.map_take, runF, List.foldl_cons] at this ⊢
    refine ⟨this.1, fun hk => ?_⟩
    rw [this.2, List.take_of_length_le (by omega)]; simp

/-- the cache is the old one with the complete bytes `B` at `a` -/
def LinkShape (z : FS) (a : Addr) (B : Bytes) (stamp : Nat) (y : FS) : Prop :=
  ∃ ro, y.st.cache = upd z.st.cache a (some ⟨B, ro, stamp⟩)

/-- after the `rename` every later call of `carry_in` keeps the complete object at the address -/
theorem afterRename_shape (z : FS) (p : Path) (a : Addr) (m : Method) (B : Bytes) (stamp : Nat) :
    ∀ f ∈ [fUnlinkLink p, fChmodObj a, fChmodDir a, liftF (mUnlinkWs p), liftF (mMaterialise p a m)],
      ∀ y, LinkShape z a B stamp y → LinkShape z a B stamp (f y) := by
  intro f hf y ⟨ro, hy⟩
  simp only [List.mem_cons, List.not_mem_nil, or_false] at hf
  rcases hf with rfl | rfl | rfl | rfl | rfl
  · exact ⟨ro, hy⟩
  · have ha : y.st.cache a = some ⟨B, ro, stamp⟩ := by rw [hy]; simp
    refine ⟨true, ?_⟩
    simp only [fChmodObj, ha, setCache_cache, hy, upd_upd]
  · exact ⟨ro, hy⟩
  · exact ⟨ro, by simp only [liftF, mUnlinkWs_cache]; exact hy⟩
  · exact ⟨ro, by simp only [liftF, mMaterialise_cache]; exact hy⟩

/-- every prefix of what follows the copy, started with the complete bytes in the temporary file -/
theorem afterCopy_prefix (z : FS) (p : Path) (a : Addr) (m : Method) (B : Bytes) (stamp : Nat) (hz : z.tmp a = some B) (n : Nat) :
    runF z ((afterCopy p a stamp ++ [liftF (mUnlinkWs p), liftF (mMaterialise p a m)]).take n) = z ∨
    LinkShape z a B stamp (runF z ((afterCopy p a stamp ++ [liftF (mUnlinkWs p), liftF (mMaterialise p a m)]).take n)) := by
  match n with
  | 0 => left; rfl
  | n + 1 =>
    right
    simp only [afterCopy, List.cons_append, List.nil_append, List.take_succ_cons, runF, List.foldl_cons]
    apply runF_preserves (LinkShape z a B stamp)
    · intro f hf
      exact afterRename_shape z p a m B stamp f (List.mem_of_mem_take hf)
    · exact ⟨false, by simp [fRenameTmp, hz]⟩

/-- **C07_no_partial_object_link**: `carry_in` of a path that is a SYMBOLIC LINK (to an object of the cache: symlink
    recheck method carried to a new address; or to a data file outside of the repository), with the bytes the link
    points to delivered in ANY division `cs` into single copy calls: at **every** kill point - before, between and
    after the calls of the data copy included - every object in the cache is an old object or holds exactly the
    content its address names.  The bytes are written under the hidden temporary name; the address gets them by
    `rename`, all at once. -/
theorem C07_no_partial_object_link (x : FS) (p : Path) (a : Addr) (m : Method) (cs : List Bytes) (stamp : Nat) (k : Nat)
    (h : HashOf a.d cs.flatten) :
    ∀ a' o, (runF x ((carryLinkMicro p a m cs stamp).take k)).st.cache a' = some o →
      x.st.cache a' = some o ∨ HashOf a'.d o.b := by
  intro a' o ho
  have hl : (copyToTmp a cs).length = cs.length + 1 := by simp [copyToTmp]
  have e : carryLinkMicro p a m cs stamp =
      copyToTmp a cs ++ (afterCopy p a stamp ++ [liftF (mUnlinkWs p), liftF (mMaterialise p a m)]) := by
    simp only [carryLinkMicro, moveLinkMicro, List.append_assoc]
  rw [e, List.take_append, runF_append, hl] at ho
  obtain ⟨hst, htmp⟩ := copyToTmp_prefix x a cs k
  generalize runF x ((copyToTmp a cs).take k) = z at ho hst htmp
  by_cases hk : cs.length + 1 ≤ k
  · rcases afterCopy_prefix z p a m cs.flatten stamp (htmp hk) (k - (cs.length + 1)) with he | ⟨ro, hs⟩
    · rw [he, hst] at ho; exact Or.inl ho
    · rw [hs, hst] at ho
      by_cases ha : a' = a
      · subst ha; simp at ho; subst ho; exact Or.inr h
      · rw [upd_other _ _ ha] at ho; exact Or.inl ho
  · have : k - (cs.length + 1) = 0 := by omega
    rw [this] at ho
    simp only [List.take_zero, runF, List.foldl_nil] at ho
    rw [hst] at ho; exact Or.inl ho

/-- **C07_link_carried_complete**: the uninterrupted `move_to_cache` of a link ends with the complete, read-only
    object at the address. -/
theorem C07_link_carried_complete (x : FS) (p : Path) (a : Addr) (cs : List Bytes) (stamp : Nat) :
    (runF x (moveLinkMicro p a cs stamp)).st.cache a = some ⟨cs.flatten, true, stamp⟩ := by
  obtain ⟨hst, htmp⟩ := copyToTmp_prefix x a cs (cs.length + 1)
  have hl : (copyToTmp a cs).length = cs.length + 1 := by simp [copyToTmp]
  rw [List.take_of_length_le (by omega)] at hst htmp
  have hz := htmp (Nat.le_refl _)
  simp only [moveLinkMicro, runF_append]
  generalize runF x (copyToTmp a cs) = z at hst hz
  simp [afterCopy, runF, fRenameTmp, hz, fUnlinkLink, fChmodObj, fChmodDir]

theorem setCache_dirRo' (s : St) (a : Addr) (o : Option Obj) : (s.setCache a o).dirRo = s.dirRo := rfl

/-- **C07_link_full_fold_is_moveToCache**: all the calls of `moveLinkMicro` together are `St.moveToCache` of the
    repository model (C01-C05) for a link to a cached object - the refined crash model and the command model are one. -/
theorem C07_link_full_fold_is_moveToCache (s : St) (tmp : Addr → Option Bytes) (p : Path) (a a' : Addr) (o : Obj)
    (cs : List Bytes) (hw : s.ws p = some (.sym a')) (ho : s.cache a' = some o) (hcs : cs.flatten = o.b) :
    (runF ⟨s, tmp⟩ (moveLinkMicro p a cs s.clock)).st.cache = (s.moveToCache p a).1.cache ∧
    (runF ⟨s, tmp⟩ (moveLinkMicro p a cs s.clock)).st.ws = (s.moveToCache p a).1.ws ∧
    (runF ⟨s, tmp⟩ (moveLinkMicro p a cs s.clock)).st.dirRo = (s.moveToCache p a).1.dirRo ∧
    (runF ⟨s, tmp⟩ (moveLinkMicro p a cs s.clock)).st.recs = (s.moveToCache p a).1.recs ∧
    (s.moveToCache p a).2 = .ok := by
  obtain ⟨hst, htmp⟩ := copyToTmp_prefix ⟨s, tmp⟩ a cs (cs.length + 1)
  have hl : (copyToTmp a cs).length = cs.length + 1 := by simp [copyToTmp]
  rw [List.take_of_length_le (by omega)] at hst htmp
  have hz := htmp (Nat.le_refl _)
  simp only [moveLinkMicro, runF_append]
  generalize runF ⟨s, tmp⟩ (copyToTmp a cs) = z at hst hz
  simp only at hst
  have hm : s.moveToCache p a =
      ({ ((((s.setWs p (some (.file o.b true s.clock none))).tick).setWs p none).setCache a (some ⟨o.b, true, s.clock⟩)) with
          dirRo := upd s.dirRo a.d true }, .ok) := by
    simp [St.moveToCache, St.deref, hw, ho, St.tick, setCache_dirRo']
  rw [hm]
  simp [afterCopy, runF, fRenameTmp, hz, fUnlinkLink, fChmodObj, fChmodDir, hst, hcs, upd_upd, St.tick, setCache_dirRo']

/-- **C07_moveToCache_address_written_by_rename_only** (translator obligation, table `Gen/MoveToCache.lean` regenerated
    from `move_to_cache` on every run): among the calls of `move_to_cache` that create a file or put bytes into one,
    the only ones whose destination is the cache address are `rename`s; every copy goes to the temporary name, which
    is hidden and in the directory of the address.  This is what `mMoveIn` and `moveLinkMicro` transcribe. -/
theorem C07_moveToCache_address_written_by_rename_only :
    (∀ e ∈ Gen.moveToCacheWrites, e.2 = .addr → e.1 = .rename) ∧
    (∀ e ∈ Gen.moveToCacheWrites, e.2 ≠ .other) ∧
    (∃ e ∈ Gen.moveToCacheWrites, e = (.copy, .temp)) ∧
    Gen.tempNameHidden = true ∧ Gen.tempIsSibling = true := by
  decide

/-- **C07_symlink_in_place_copy_counterexample**: `fs::copy(path, cache_path)` for a link - the bytes written at the
    address itself.  `p` is a link of the symlink method to the object of "h\n" under its text digest; it is carried
    to the address of its binary digest in two calls.  Killed after the first: an object with HALF of the bytes sits
    at an address that names all of them (and stays: the address "exists").  The uninterrupted run is fine. -/
theorem C07_symlink_in_place_copy_counterexample :
    let old : Addr := ⟨⟨0, [104]⟩, 1⟩
    let a : Addr := ⟨⟨0, [104, 10]⟩, 1⟩
    let x : FS := ⟨(St.init.setCache old (some ⟨[104, 10], true, 0⟩)).setWs ⟨0, 1⟩ (some (.sym old)), fun _ => none⟩
    let killed := runF x ((moveLinkInPlaceMicro ⟨0, 1⟩ a [[104], [10]] 1).take 2)
    (killed.st.cache a).map (·.b) = some [104] ∧ ¬ HashOf a.d [104] ∧ HashOf a.d [[104], [10]].flatten ∧
    ((runF x (moveLinkInPlaceMicro ⟨0, 1⟩ a [[104], [10]] 1)).st.cache a).map (·.b) = some [104, 10] ∧
    ∀ k, k ≤ 8 → ((runF x ((carryLinkMicro ⟨0, 1⟩ a .symlink [[104], [10]] 1).take k)).st.cache a).map (·.b) ∈
      [none, some [104, 10]] := by
  refine ⟨by decide, by unfold HashOf; decide, by unfold HashOf; decide, by decide, by decide⟩

/-- the hypotheses of `C07_no_partial_object_link` are satisfiable by a non-trivial division into calls -/
example : HashOf (⟨⟨0, [104, 10]⟩, 1⟩ : Addr).d [[104], [10]].flatten := by unfold HashOf; decide

example : ∃ d : List DirEntry, (∀ x ∈ visible d, x.complete = true) ∧ (∀ x ∈ d, x.name ≠ 7) :=
  ⟨[⟨3, false, true⟩, ⟨5, true, false⟩], by decide, by decide⟩

/-! ## the store saves of `xvc file copy`, save by save -/

open Gen (StoreId)

theorem runSaves_has (s : Stores) (e : Ent) (l : List StoreId) (j : StoreId) (x : Ent) :
    (runSaves s e l).has j x = (s.has j x || (decide (x = e) && l.contains j)) := by
  induction l generalizing s with
  | nil => simp [runSaves]
  | cons i t ih =>
    have : runSaves s e (i :: t) = runSaves (saveStore e i s) e t := rfl
    rw [this, ih]
    by_cases hx : x = e <;> by_cases hj : j = i <;> simp [saveStore, hx, hj]

theorem pathAfterContent_take (l : List StoreId) (h : pathAfterContent l = true) (k : Nat) :
    (l.take k).contains .xvcPath = true →
      (l.take k).contains .contentDigest = true ∧ (l.take k).contains .textOrBinary = true ∧
      (l.take k).contains .recheckMethod = true := by
  intro hp
  have hk : l.take k = l.take (min k l.length) := by
    rcases Nat.le_total k l.length with h1 | h1
    · rw [Nat.min_eq_left h1]
    · rw [Nat.min_eq_right h1, List.take_of_length_le h1, List.take_of_length_le (Nat.le_refl _)]
  rw [hk] at hp ⊢
  have hm : min k l.length ∈ List.range (l.length + 1) := by
    rw [List.mem_range]; have := Nat.min_le_right k l.length; omega
  have := (List.all_eq_true.mp h) _ hm
  simp only [hp, Bool.not_true, Bool.false_or, Bool.and_eq_true] at this
  exact ⟨this.1.1, this.1.2, this.2⟩

/-- **C07_store_order_prefix_safe** (any command, any order with the path store after the content stores): after ANY
    prefix of the saves - a kill between any two of them - every entity that has a path also has a digest, a
    text-or-binary mode and a recheck method, provided that held before the command. -/
theorem C07_store_order_prefix_safe (l : List StoreId) (h : pathAfterContent l = true) (s : Stores)
    (hs : PathsComplete s) (e : Ent) (k : Nat) : PathsComplete (runSaves s e (l.take k)) := by
  intro x hx
  rw [runSaves_has] at hx
  simp only [runSaves_has]
  rcases Bool.or_eq_true _ _ |>.mp hx with h0 | h1
  · obtain ⟨a, b, c⟩ := hs x h0
    simp [a, b, c]
  · rw [Bool.and_eq_true] at h1
    obtain ⟨a, b, c⟩ := pathAfterContent_take l h k h1.2
    simp only [List.contains_eq_mem, decide_eq_true_eq] at a b c
    have hxe : x = e := by simpa using h1.1
    simp [a, b, c, hxe]

/-- **C07_copy_store_order_prefix_safe**: the order in which `cmd_copy` saves its stores (table `Gen.copySaveOrder`,
    regenerated from file/src/copy/mod.rs on every run) is such an order: whenever `xvc file copy` is killed between two
    store saves, `xvc file list` / `recheck` never meet a path without digest and method; what the kill leaves are
    components of an entity that no path names. -/
theorem C07_copy_store_order_prefix_safe (s : Stores) (hs : PathsComplete s) (e : Ent) (k : Nat) :
    PathsComplete (runSaves s e (Gen.copySaveOrder.take k)) :=
  C07_store_order_prefix_safe _ (by decide) s hs e k

/-- the uninterrupted run records all five components of the destination entity (and the table has all five stores) -/
theorem C07_copy_saves_all_five (s : Stores) (e : Ent) (j : StoreId) :
    (runSaves s e Gen.copySaveOrder).has j e = true := by
  rw [runSaves_has]; cases j <;> simp [Gen.copySaveOrder]

/-- **C07_copy_path_first_counterexample**: path and metadata saved FIRST (the nested closures flattened): killed after
    these two saves, entity 7 has a path and neither digest nor method - `compare.rs` unwraps `None`; the uninterrupted
    run of the same order is complete (why no test notices). -/
theorem C07_copy_path_first_counterexample :
    let bad : List StoreId := [.xvcPath, .xvcMetadata, .contentDigest, .textOrBinary, .recheckMethod]
    let s0 : Stores := ⟨fun _ _ => false⟩
    PathsComplete s0 ∧ ¬ PathsComplete (runSaves s0 7 (bad.take 2)) ∧ PathsComplete (runSaves s0 7 bad) ∧
    pathAfterContent bad = false := by
  refine ⟨by intro e h; simp at h, ?_, ?_, by decide⟩
  · intro h
    have := (h 7 (by decide)).1
    revert this; decide
  · intro x hx
    rw [runSaves_has] at hx
    simp only [runSaves_has]
    simp at hx
    simp [hx]

/-- the hypothesis `PathsComplete` is satisfiable by a state with tracked entities -/
example : PathsComplete ⟨fun _ x => x == 3 || x == 4⟩ := by intro e h; simp at h; simp [h]

end Repo

open Repo in
#print axioms C07_full_fold_is_step
open Repo in
#print axioms C07_no_partial_object
open Repo in
#print axioms C07_old_versions_survive
open Repo in
#print axioms C07_bytes_survive
open Repo in
#print axioms C07_store_file_atomic
open Repo in
#print axioms C07_track_rerun_counterexample
open Repo in
#print axioms C07_carryIn_rerun_counterexample
open Repo in
#print axioms C07_recheck_rerun_converges
open Repo in
#print axioms C07_carryIn_failed_recheck_recorded
open Repo in
#print axioms C07_carryIn_failed_recheck_counterexample_before_fix
open Repo in
#print axioms C07_no_partial_object_link
open Repo in
#print axioms C07_link_carried_complete
open Repo in
#print axioms C07_symlink_in_place_copy_counterexample
open Repo in
#print axioms C07_link_full_fold_is_moveToCache
open Repo in
#print axioms C07_moveToCache_address_written_by_rename_only
open Repo in
#print axioms C07_store_order_prefix_safe
open Repo in
#print axioms C07_copy_store_order_prefix_safe
open Repo in
#print axioms C07_copy_saves_all_five
open Repo in
#print axioms C07_copy_path_first_counterexample
