import XvcRepo.Effects
namespace Repo
theorem C07_placeholder : True := trivial
end Repo
open Repo in
#print axioms C07_placeholder
