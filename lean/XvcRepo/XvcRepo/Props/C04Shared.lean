import XvcRepo.Props.C04
import XvcRepo.Props.C05
/-!
  # C04 — versions that are shared with ANOTHER path's history survive `untrack` / `remove` of that other path

  "Every version ever committed for a still-tracked path remains in the cache": the object of an EARLIER version of a
  path `q` may at the same time be the current (or any) version of a path `p`.  `untrack p` / `remove p` must leave it,
  and every Git commit that recorded it for `q` must stay restorable (seeded change C04-5 decided "still shared" by the
  CURRENT digests of the remaining paths only).
-/
namespace Repo

theorem mem_otherReferrers {s : St} {ts : List Ent} {a : Addr} {e : Ent}
    (he : e ∈ s.ents) (hnt : e ∉ ts) (hv : a ∈ s.versionsOf e) : e ∈ s.otherReferrers ts a := by
  unfold St.otherReferrers
  simp only [List.mem_filter, decide_eq_true_eq]
  exact ⟨he, hnt, hv⟩

theorem not_mem_untrackDeletable {s : St} {ts : List Ent} {a : Addr} {e : Ent}
    (he : e ∈ s.ents) (hnt : e ∉ ts) (hv : a ∈ s.versionsOf e) : a ∉ s.untrackDeletable ts := by
  intro hm
  unfold St.untrackDeletable at hm
  simp only [List.mem_filter, List.isEmpty_iff] at hm
  have := mem_otherReferrers he hnt hv
  rw [hm.2] at this
  cases this

/-- **C04_untrack_keeps_versions_of_others**: `xvc file untrack` (any target list) leaves, bit for bit, every object that
    ANY recorded version — the current one or an earlier one — of ANY tracked entity outside the targets refers to. -/
theorem C04_untrack_keeps_versions_of_others (s : St) (ps : List Path) (e : Ent) (a : Addr) (o : Obj)
    (he : e ∈ s.ents) (hnt : e ∉ s.targetEnts ps) (hv : a ∈ s.versionsOf e) (h : s.cache a = some o) :
    (s.untrack ps).1.cache a = some o := by
  unfold St.untrack
  simp only
  have h1 := rematerialise_cache s (s.targetEnts ps)
  generalize s.rematerialise (s.targetEnts ps) = res at h1
  obtain ⟨s1, o1⟩ := res
  have h1' : s1.cache = s.cache := h1
  have key : (List.foldl St.removeObj (s1.dropRecs (s.targetEnts ps)) (s.untrackDeletable (s.targetEnts ps))).cache a = some o := by
    rw [foldl_removeObj_keep _ _ a (not_mem_untrackDeletable he hnt hv)]
    show s1.cache a = some o
    rw [h1']; exact h
  cases o1 <;> simp only
  · exact key
  · exact key
  · rw [h1']; exact h

/-- **C04_remove_keeps_versions_of_others**: the same for `xvc file remove --from-cache` without `--force`, whichever
    versions of the targets it is asked to delete. -/
theorem C04_remove_keeps_versions_of_others (s : St) (ps : List Path) (sel : RemoveSel) (e : Ent) (a : Addr) (o : Obj)
    (he : e ∈ s.ents) (hnt : e ∉ s.targetEnts ps) (hv : a ∈ s.versionsOf e) (h : s.cache a = some o) :
    (s.remove ps sel false).1.cache a = some o := by
  unfold St.remove
  cases hd : s.removeDeletable ps sel false with
  | none => exact h
  | some l =>
    simp only
    rw [foldl_removeObj_keep l s a (fun hm => (removeDeletable_spares s ps sel l hd a hm).2 e he hnt hv)]
    exact h

/-- the records an entity outside the targets has are not touched by `untrack` -/
theorem untrack_recs_other (s : St) (ps : List Path) (e : Ent) (hnt : e ∉ s.targetEnts ps)
    (hok : (s.untrack ps).2 = .ok) : (s.untrack ps).1.recs e = (s.rematerialise (s.targetEnts ps)).1.recs e := by
  unfold St.untrack at hok ⊢
  simp only at hok ⊢
  generalize s.rematerialise (s.targetEnts ps) = res at hok ⊢
  obtain ⟨s1, o1⟩ := res
  cases o1 <;> simp only at hok ⊢
  · rw [foldl_removeObj_recs]; simp [St.dropRecs, hnt]
  · rw [foldl_removeObj_recs]; simp [St.dropRecs, hnt]

/-- **C04_old_commit_restorable_after_untrack**: take any commit xvc made earlier (`sOld`: path `p` recorded with digest
    `d`).  If, now, that version is one of the recorded versions of an entity `e'` that is NOT a target — e.g. `p` itself,
    moved on to newer versions since — then after `xvc file untrack <targets>`, `git checkout <old commit>` into an empty
    workspace and `xvc file recheck p` still reproduce the bytes of that version, for every recheck method. -/
theorem C04_old_commit_restorable_after_untrack (c : Cfg) (sOld s : St) (ps : List Path)
    (p : Path) (e : Ent) (r : Rec) (d : Digest) (o : Obj) (n : Nat) (m : Option Method) (e' : Ent)
    (hfind : sOld.findEnt p = some e) (hrec : sOld.recs e = some r) (hcur : r.cur = some d) (hmd : r.md = .stamp n)
    (he' : e' ∈ s.ents) (hnt : e' ∉ s.targetEnts ps) (hv : addrOf p d ∈ s.versionsOf e') (hobj : s.cache (addrOf p d) = some o) :
    let s' := (s.untrack ps).1.checkoutOld sOld
    (s'.recheckOne c m false p).2 = .ok ∧ ∃ k, (s'.recheckOne c m false p).1.readThrough p = some (o.b, k) := by
  have hkeep := C04_untrack_keeps_versions_of_others s ps e' (addrOf p d) o he' hnt hv hobj
  have := C01_recheck_restores c ((s.untrack ps).1.checkoutOld sOld) p e r d o n m false
    (by rw [checkoutOld_findEnt]; exact hfind) hrec hcur hmd hkeep (Or.inl rfl)
  exact ⟨this.1, this.2.1⟩

/-! ## the seeded behaviour on the model -/

/-- "still shared" decided by the CURRENT version of the remaining entities only -/
def St.currentReferrers (s : St) (targets : List Ent) (a : Addr) : List Ent :=
  s.ents.filter (fun e => !(targets.contains e) &&
    match s.recs e with
    | some r => decide (r.cur.map (addrOf r.path) = some a)
    | none => false)

/-- objects `untrack` deletes when only current versions protect -/
def St.untrackDeletableCurrentOnly (s : St) (ts : List Ent) : List Addr :=
  (ts.flatMap s.versionsOf).filter (fun a => (s.currentReferrers ts a).isEmpty)

/-- **C04_untrack_current_only_counterexample**: track `a` (content X); `xvc file copy a b`; edit `b` to Y; carry-in `b`;
    untrack `a`.  X is version 1 of the still tracked `b`.  `untrack` as it is keeps the object of X (and deletes
    nothing); the selection by current versions only puts it on the list of objects to delete. -/
theorem C04_untrack_current_only_counterexample :
    let a : Path := ⟨0, 1⟩
    let b : Path := ⟨1, 1⟩
    let s0 := ((St.init.userWrite a [88]).track {} {} [a]).1
    let s1 := (s0.copy {} {} a b).1
    let s := ((s1.userWrite b [89]).carryIn {} none false [b]).1
    let x : Addr := ⟨⟨0, [88]⟩, 1⟩
    s.versionsOf 2 = [x, ⟨⟨0, [89]⟩, 1⟩] ∧ s.targetEnts [a] = [1] ∧
    (s.cache x).isSome = true ∧
    s.untrackDeletable [1] = [] ∧ ((s.untrack [a]).1.cache x).isSome = true ∧ (s.untrack [a]).1.findEnt b = some 2 ∧
    s.untrackDeletableCurrentOnly [1] = [x] := by
  decide

/-- non-vacuity of `C04_old_commit_restorable_after_untrack` on the same history: the commit made by `xvc file copy` names
    X for `b`; after `untrack a`, checking it out and rechecking `b` gives X -/
theorem C04_old_commit_after_untrack_witness :
    let a : Path := ⟨0, 1⟩
    let b : Path := ⟨1, 1⟩
    let s0 := ((St.init.userWrite a [88]).track {} {} [a]).1
    let sOld := (s0.copy {} {} a b).1
    let s := ((sOld.userWrite b [89]).carryIn {} none false [b]).1
    let s' := (s.untrack [a]).1.checkoutOld sOld
    (s'.recheckOne {} none false b).2 = .ok ∧ ((s'.recheckOne {} none false b).1.readThrough b).map (·.1) = some [88] := by
  decide

end Repo

open Repo in
#print axioms C04_untrack_keeps_versions_of_others
open Repo in
#print axioms C04_remove_keeps_versions_of_others
open Repo in
#print axioms C04_old_commit_restorable_after_untrack
open Repo in
#print axioms C04_untrack_current_only_counterexample
open Repo in
#print axioms C04_old_commit_after_untrack_witness
