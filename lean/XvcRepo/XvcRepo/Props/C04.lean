import XvcRepo.Props.C01
/-!
  # C04 — Every committed version stays restorable until explicitly removed
-/
namespace Repo

/-- **C04_cache_shrinks_only_on_remove**: along any history that contains no `remove`, no `untrack`
    and no `--force`d carry, every object that was in the cache is still there, bit for bit — so
    committing new versions (track, carry-in, copy, move, recheck …) never deletes or alters an earlier
    version. -/
theorem C04_cache_shrinks_only_on_remove (c : Cfg) (s : St) (cs : List Cmd) (hg : ∀ cmd ∈ cs, cmd.gentle = true)
    (a : Addr) (o : Obj) (h : s.cache a = some o) : (s.run c cs).cache a = some o :=
  C02_objects_immutable_run c s cs hg a o h

/-- what `git checkout <old xvc commit>` gives in a workspace without the data files: the records of
    that commit, the cache as it is now, no workspace entries -/
def St.checkoutOld (sNow sOld : St) : St :=
  { sNow with recs := sOld.recs, next := sOld.next, ws := fun _ => none }

theorem checkoutOld_findEnt (sNow sOld : St) (p : Path) : (sNow.checkoutOld sOld).findEnt p = sOld.findEnt p := rfl

/-- **C04_old_commit_restorable**: take the repository at any earlier moment (`sOld`: path `p` recorded
    with digest `d`, object present), let **any** gentle history follow, check out the old records into
    an empty workspace and run `xvc file recheck p`: the file comes back with exactly the bytes of the
    object that was there then, for every recheck method. -/
theorem C04_old_commit_restorable (c : Cfg) (sOld : St) (cs : List Cmd) (hg : ∀ cmd ∈ cs, cmd.gentle = true)
    (p : Path) (e : Ent) (r : Rec) (d : Digest) (o : Obj) (n : Nat) (m : Option Method)
    (hfind : sOld.findEnt p = some e) (hrec : sOld.recs e = some r) (hcur : r.cur = some d) (hmd : r.md = .stamp n)
    (hobj : sOld.cache (addrOf p d) = some o) :
    let s := (sOld.run c cs).checkoutOld sOld
    (s.recheckOne c m false p).2 = .ok ∧ ∃ k, (s.recheckOne c m false p).1.readThrough p = some (o.b, k) := by
  have hkeep := C04_cache_shrinks_only_on_remove c sOld cs hg (addrOf p d) o hobj
  have := C01_recheck_restores c ((sOld.run c cs).checkoutOld sOld) p e r d o n m false
    (by rw [checkoutOld_findEnt]; exact hfind) hrec hcur hmd hkeep (Or.inl rfl)
  exact ⟨this.1, this.2.1⟩

/-- **C04_versions_append_only (track)**: re-tracking a changed file appends the new digest to the
    path's version list and keeps every earlier one. -/
theorem C04_track_appends (c : Cfg) (o : TrackOpts) (s : St) (p : Path) (b : Bytes) (stamp : Nat) (e : Ent) (r : Rec)
    (hfind : s.findEnt p = some e) (hrec : s.recs e = some r) :
    ∃ r', (s.trackFile c o p b stamp).1.recs e = some r' ∧ r.digests <+: r'.digests ∧ r'.path = r.path := by
  have hpre : ∀ d m t, r.digests <+: (updRec r stamp d m t).digests := by
    intro d m t; unfold updRec; simp only; split <;> simp
  unfold St.trackFile
  simp only [hfind, hrec]
  split
  · exact ⟨r, hrec, List.prefix_refl _, rfl⟩
  · split
    · exact ⟨_, upd_same _ _ _, hpre _ _ _, rfl⟩
    · rw [carryOne_recs]
      exact ⟨_, upd_same _ _ _, hpre _ _ _, rfl⟩

/-- **C04_versions_append_only (carry-in)**: `carry-in` appends the new digest and keeps every earlier one. -/
theorem C04_carryIn_appends (c : Cfg) (tob : Option Tob) (force : Bool) (s : St) (p : Path) (e : Ent) (r : Rec)
    (hrec : s.recs e = some r) :
    ∃ r', (s.carryInRec c tob force p e r).1.recs e = some r' ∧ r.digests <+: r'.digests ∧ r'.path = r.path := by
  have hpre : r.digests <+: (match s.digestDiff c r (tob.getD c.tob) with
      | .different a => r.digests ++ [a]
      | _ => r.digests) := by split <;> simp
  unfold St.carryInRec
  simp only
  split
  · exact ⟨_, upd_same _ _ _, hpre, rfl⟩
  · split
    · exact ⟨r, hrec, List.prefix_refl _, rfl⟩
    · exact ⟨_, upd_same _ _ _, hpre, rfl⟩
    · exact ⟨_, upd_same _ _ _, hpre, rfl⟩
    · exact ⟨r, hrec, List.prefix_refl _, rfl⟩

example : ∃ (s : St) (e : Ent) (r : Rec) (d : Digest) (o : Obj), s.findEnt ⟨0, 1⟩ = some e ∧ s.recs e = some r ∧
    r.cur = some d ∧ s.cache (addrOf ⟨0, 1⟩ d) = some o ∧
    Cmd.gentle (.carryIn [⟨0, 1⟩] none false) = true :=
  ⟨((St.init.userWrite ⟨0, 1⟩ [104]).track {} {} [⟨0, 1⟩]).1, 1,
    { path := ⟨0, 1⟩, md := .stamp 1, digests := [⟨0, [104]⟩], method := .copy, tob := .auto }, ⟨0, [104]⟩, ⟨[104], true, 1⟩,
    by decide, by decide, by decide, by decide, by decide⟩

end Repo

open Repo in
#print axioms C04_cache_shrinks_only_on_remove
open Repo in
#print axioms C04_old_commit_restorable
open Repo in
#print axioms C04_track_appends
open Repo in
#print axioms C04_carryIn_appends
